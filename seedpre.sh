#!/bin/bash
# usage: seedpre.sh <seed-dir> <scratch-worktree> [props...]  — pre-evaluation in a scratch worktree (not /repo) with bin/fitcheck.dev
# (used while a regression script owns /repo; the recorded evaluation is seedcheck.sh's)
set -u
export GOFLAGS=-mod=mod GOPROXY=off GOSUMDB=off GOTOOLCHAIN=local GOWORK=off
seed="$1"; wt="$2"; shift 2
props="${*:-C01 C02 C03 C04 C05 C06 C07 C08 C09 C10 C11 C12 C13 C14 C15 C16 C17 C18 C19 C20}"
git -C "$wt" checkout -q -- . ; git -C "$wt" clean -fdq; git -C "$wt" apply "$seed/patch.diff" || { echo "cannot apply"; exit 2; }
bin=/verif/bin/fitcheck.dev; [ -x $bin ] || bin=/verif/bin/fitcheck
for p in $props; do
  ev=$(mktemp -d /tmp/preev-XXXX); cp /verif/known_findings.json "$ev/"
  out=$($bin -prop "$p" -tier quick -repo "$wt" -verif "$ev" 2>&1); rc=$?
  rm -rf "$ev"
  if [ $rc -ne 0 ]; then echo "--- $p fires:"; echo "$out" | grep -E ": C[0-9]+-" | cut -c1-240 | head -5; fi
done
git -C "$wt" checkout -q -- .; git -C "$wt" clean -fdq
