#!/bin/bash
# runs every behaviour-preserving patch under /verif/benign and the mechanical rewrites; all checks must stay silent
cd /verif
tot=0
for d in benign/*/; do
  out=$(./benigncheck.sh "/verif/${d%/}" 2>&1); n=$(echo "$out" | tail -1 | sed 's/alarms=//')
  echo "$d alarms=$n"; [ "$n" != "0" ] && echo "$out" | head -20 && tot=$((tot+1))
done
for m in rename-locals compound negate swap-operands reverse-funcs; do
  out=$(./benignauto.sh $m 2>&1); echo "$out" | tail -1; echo "$out" | grep -q "alarms=0" || { echo "$out" | head -30; tot=$((tot+1)); }
done
echo "benign cases with alarms: $tot"
