#!/bin/bash
# usage: benignpar.sh [bin] [jobs]  — every benign patch, each in its own scratch worktree of /repo (under /tmp), in parallel.
# Same verdicts as benignall.sh's patch part, without touching /repo's working tree; the worktrees are removed at the end.
export GOFLAGS=-mod=mod GOPROXY=off GOSUMDB=off GOTOOLCHAIN=local GOWORK=off
bin="${1:-/verif/bin/fitcheck}"; jobs="${2:-4}"
props=$(python3 -c "import json;print(' '.join(c['property_id'] for c in json.load(open('/verif/MANIFEST.json'))['checks']))")
one() {
  d="$1"; bin="$2"; props="$3"
  wt=$(mktemp -d /tmp/benwt-XXXX)
  git -C /repo worktree add -q --detach "$wt" HEAD >/dev/null 2>&1 || { echo "$d worktree failed"; return; }
  if ! git -C "$wt" apply "$d/patch.diff" 2>/dev/null; then echo "$(basename $d) cannot apply"; git -C /repo worktree remove --force "$wt"; return; fi
  alarms=0; txt=""
  for p in $props; do
    ev=$(mktemp -d /tmp/benev-XXXX); cp /verif/known_findings.json "$ev/"
    out=$($bin -prop "$p" -tier quick -repo "$wt" -verif "$ev" 2>&1); rc=$?
    rm -rf "$ev"
    if [ $rc -ne 0 ]; then alarms=$((alarms+1)); txt="$txt
  ALARM $p: $(echo "$out" | grep -E ": C[0-9]+-|: vacuity" | cut -c1-200 | head -4)"; fi
  done
  git -C /repo worktree remove --force "$wt" >/dev/null 2>&1; rm -rf "$wt"
  echo "$(basename $d) alarms=$alarms$txt"
}
export -f one
ls -d /verif/benign/*/ | xargs -P "$jobs" -I{} bash -c 'one "$1" "$2" "$3"' _ {} "$bin" "$props"
