#!/usr/bin/env python3
"""Mutation self-test of the checker (not a MANIFEST command, not a deciding step).

For every catalogue entry: copy /repo to a scratch directory outside /repo and /verif,
apply one construct-level mutation, check that it still builds (and, with --tests, that
the pinned test suite still passes), run the relevant property check against the copy
and require a VIOLATION that names the expected rule. One mutant at a time; the copy is
removed after each.

usage: selftest.py [--tests] [--only substr] [--prop Cxx]
"""
import json, os, re, shutil, subprocess, sys, tempfile

ENV = dict(os.environ, GOFLAGS="-mod=mod", GOPROXY="off", GOSUMDB="off", GOTOOLCHAIN="local", GOWORK="off")
VERIF = os.path.dirname(os.path.abspath(__file__))


def load_catalogue():
    cat = []
    d = os.path.join(VERIF, "mutants")
    for f in sorted(os.listdir(d)):
        if f.endswith(".json"):
            for m in json.load(open(os.path.join(d, f))):
                cat.append(m)
    return cat


def run(cmd, cwd=None, env=ENV, timeout=900):
    p = subprocess.run(cmd, cwd=cwd, env=env, stdout=subprocess.PIPE, stderr=subprocess.STDOUT, text=True, timeout=timeout)
    return p.returncode, p.stdout


def main():
    args = sys.argv[1:]
    tests = "--tests" in args
    only = args[args.index("--only") + 1] if "--only" in args else None
    prop = args[args.index("--prop") + 1] if "--prop" in args else None
    cat = load_catalogue()
    ok = bad = 0
    failures = []
    for m in cat:
        if only and only not in m["name"]:
            continue
        if prop and prop not in m["props"]:
            continue
        tmp = tempfile.mkdtemp(prefix="fitmut-", dir="/tmp")
        try:
            dst = os.path.join(tmp, "repo")
            shutil.copytree("/repo", dst, ignore=shutil.ignore_patterns(".git"))
            stale = False
            for ed in m["edits"]:
                p = os.path.join(dst, ed["file"])
                s = open(p).read()
                cnt = s.count(ed["old"])
                if cnt != ed.get("count", 1):
                    print("STALE     %s: pattern occurs %d times in %s (want %d)" % (m["name"], cnt, ed["file"], ed.get("count", 1)))
                    stale = True
                    break
                s = s.replace(ed["old"], ed["new"])
                open(p, "w").write(s)
            if stale:
                bad += 1
                failures.append(m["name"] + " (stale)")
                continue
            rc, out = run(["go", "build", "./..."], cwd=dst)
            if rc != 0:
                print("MUTANT-DOES-NOT-BUILD", m["name"], out[-400:])
                bad += 1
                failures.append(m["name"])
                continue
            if tests:
                rc, out = run(["go", "test", "-vet=off", "-count=1", "./..."], cwd=dst)
                if rc != 0:
                    print("MUTANT-FAILS-TESTS (not a realistic seed)", m["name"])
                    print(out[-600:])
            res = []
            for pid in m["props"]:
                env = dict(ENV, FIT_REPO=dst)
                evdir = os.path.join(tmp, "verif")
                os.makedirs(evdir, exist_ok=True)
                shutil.copy(os.path.join(VERIF, "known_findings.json"), evdir)
                rc, out = run([os.environ.get("FITCHECK_BIN", os.path.join(VERIF, "bin", "fitcheck")), "-prop", pid, "-tier", m.get("tier", "quick"), "-repo", dst, "-verif", evdir], env=env)
                body = "\n".join(l for l in out.splitlines() if " tier=" not in l)
                hit = rc == 1 and "VIOLATION property=%s" % pid in out and (m["expect"] in body)
                res.append((pid, hit, out))
            if all(h for _, h, _ in res):
                ok += 1
                print("caught   ", m["name"], m["props"], "->", m["expect"])
            else:
                bad += 1
                failures.append(m["name"])
                for pid, h, out in res:
                    if not h:
                        print("MISSED   ", m["name"], pid, "expected rule", m["expect"])
                        print("   ", "\n    ".join(out.strip().splitlines()[-6:]))
        finally:
            shutil.rmtree(tmp, ignore_errors=True)
    print("selftest: %d caught, %d missed/broken" % (ok, bad))
    if failures:
        print("failures:", failures)
    sys.exit(1 if bad else 0)


main()
