#!/usr/bin/env python3
"""Writes /verif/known_findings.json (committed; never written at check time).

status "known": a genuine defect of tormoder/fit that is recorded rather than repaired; the
check prints KNOWN-FINDING for exactly this (property, rule, key) and nothing else is suppressed.
status "fixed": repaired by a fix: commit in /repo; suppresses nothing (kept as a record).
"""
import json

RM = "(*github.com/tormoder/fit.RecordMsg).expandComponents"
F = []


def known(prop, rule, key, what, witness):
    F.append({"property": prop, "rule": rule, "key": key, "what": what, "witness": witness, "status": "known"})


def fixed(prop, commit, what, rule="", key=""):
    F.append({"property": prop, "rule": rule, "key": key, "what": what, "status": "fixed", "commit": commit,
              "record": "fixed: property=%s %s %s" % (prop, commit, what)})


# ---- D11: package-level component accumulators (generator-rooted; see DESIGN.md section 1) ----
for var in ("accumuDistance", "accumuTotalCycles", "accumuAccumulatedPower"):
    w = ("package-level accumulator %s is created and advanced inside RecordMsg.expandComponents on the decode path: "
         "decoded distance/total_cycles/accumulated_power depend on every earlier Decode in the process" % var)
    wit = ("Decode the same activity file containing record messages with compressed_speed_distance / cycles / "
           "compressed_accumulated_power twice in one process: the second File's Records[i].Distance (TotalCycles, AccumulatedPower) "
           "continue from the first call's running sum; two goroutines decoding such files race on the accumulator fields")
    known("C08", "C08-R1-global-write", "fit.%s@%s" % (var, RM), w, wit)
    known("C09", "C09-R1-shared-write", "fit.%s@%s" % (var, RM), w + " (data race between concurrent Decode calls)", wit)

known("C08", "C08-R1-global-write", "fit.accumuDistance/live-state",
      "accumulator accumuDistance is package-level, never reset, and built with a roll-over width (12 bits): Records[i].Distance of a Decode depends on every Decode that ran before in the process (D11; the other two accumulators have mask 0 and always yield 0)",
      "Decode testdata/python-fitparse/compressed-speed-distance.fit twice in one process: the second File's distances continue from the first File's last distance")

# C07 view of D11: only the distance accumulator has a non-zero mask at HEAD, so only it makes the
# decode of Encode's output differ from the File that was encoded.
known("C07", "C07-R4-expansion-idempotent", "fit.accumuDistance",
      "accumulator accumuDistance is a package-level variable that is never reset: decoding Encode's output continues the running sum of the first decode, so Records[i].Distance of the re-decoded File differs from the File that was encoded (same defect as C08/C09/C18 D11, seen by the round trip)",
      "Decode a file whose records carry compressed_speed_distance (testdata/python-fitparse/compressed-speed-distance.fit), Encode the File, Decode the output in the same process: the distances of the second File continue from the last distance of the first")

# C18 view of the same accumulators: never reset, so accumulation is not per file (D11), two of them are
# built as zero values with mask 0 (D12), and the 12-bit distance loses its top nibble (D13).
for var in ("accumuDistance", "accumuTotalCycles", "accumuAccumulatedPower"):
    known("C18", "C18-R3-accumulator-scope", "fit.%s" % var,
          "accumulator %s is a package-level variable that is never reset: accumulated distance/total_cycles/accumulated_power continue across files decoded in one process instead of starting with each file" % var,
          "decode two activity files whose records carry the compressed source field one after the other: the second file's first accumulated value continues from the first file's last")
for var in ("accumuTotalCycles", "accumuAccumulatedPower"):
    known("C18", "C18-R3-accumulator-width", "%s/fit.%s" % (RM, var),
          "%s is created with new(uint32Accumulator): mask is 0, every delta is masked to 0, so total_cycles / accumulated_power derived from cycles / compressed_accumulated_power are always 0 (generator emits new(...) for full-width components)" % var,
          "a record stream with cycles = 1, 2, 3: RecordMsg.TotalCycles is 0 in every record")
known("C18", "C18-R2-narrow-shift", "RecordMsg.expandComponents/uint32(x.CompressedSpeedDistance[2]<<4)",
      "uint32(x.CompressedSpeedDistance[2]<<4) shifts the uint8 before widening: the top nibble of the 12-bit compressed distance is lost",
      "compressed_speed_distance bytes {0x00, 0x00, 0xF0}: the distance component should be 0xF00 (raw), the expression yields 0x00")

known("C18", "C18-R2-byte-array-source", "RecordMsg.expandComponents/csd-distance-half",
      "same defect as the narrow shift above, seen by the value rule: the distance half of compressed_speed_distance is not bits 12..23 of the little-endian value whenever byte 2 has bits above the low nibble (uint8 shifted before widening)",
      "bytes {0x00, 0x00, 0x12}: distance component is 0x20, should be 0x120")

# D14: Encode rejects strings the decoder accepted
known("C07", "C07-R1-error-sites", "encodeString/utf8.Valid",
      "encodeString returns an error for strings that are not valid UTF-8 (including when truncation to size-1 bytes splits a multi-byte rune), while the decoder's string arms copy arbitrary bytes up to the first NUL: Encode fails on Files that Decode accepted. Not repaired: whether to drop the check, sanitise in the decoder or truncate on rune boundaries is a policy decision for the maintainers, not a minimal correction",
      "a file_id product_name field holding bytes {0xFF, 0xFE, 0x00}: Decode succeeds with ProductName \"\\xff\\xfe\", Encode returns `can't encode ... as UTF-8 string`")

# D15: +90 degrees exactly
known("C17", "C17-R2-guard-intervals", "NewLatitude(1073741824)",
      "NewLatitude rejects 2^30 semicircles (exactly +90 degrees, which is not outside +-90 degrees): the upper guard is > MaxInt32/2 = 2^30-1; -2^30 (-90 degrees) is accepted. Documented and table-tested behaviour of the repository (latlng_test.go pins NewLatitude(MaxInt32/2+1) as invalid), so a repair would edit the pinned suite",
      "NewLatitude(1<<30).Invalid() == true")

# ---- repaired defects -------------------------------------------------------------------
fixed("C08", "7a182db", "encodeFile emitted the definition of a message group in map iteration order (range mfields without sort): identical Files encoded to different bytes",
      "C08-R3-map-order", "*encoder.encodeFile/range-mfields#0")

fixed("C11", "2c14b48", "DecodeChained swallowed any error on the first header byte of a following file (test was d.h.Size == 0 && i != 0): a non-EOF reader fault or a zero size byte after one good file returned a nil error",
      "C11-R2-swallow-guard", "github.com/tormoder/fit.DecodeChained/(*github.com/tormoder/fit.decoder).decode#0")

fixed("C04", "973b417", "Header.CheckIntegrity built the serialised header but never wrote it into the hash: Sum16() of the fresh hash is 0, so every non-zero stored header CRC was accepted",
      "C04-R3-hash-typestate", "(github.com/tormoder/fit.Header).CheckIntegrity/Sum16#0")

fixed("C16", "cd35c78", "parseDataFields incremented the unknown-field counter for every field of every unknown message (increment not control-dependent on knownMsg)",
      "C16-R4-counter-guards", "parseDataFields/unknownFields")

fixed("C13", "58857ef", "parseFileIdMsg: the header test before the file_id data record was (b & 0x00) == 0x00 (true for all 256 bytes) and the test before the definition admitted compressed headers 11xxxxxx: a definition/compressed header there was parsed as data of local type b&0x0F",
      "C13-R1-fileid-guards", "parseFileIdMsg/guard-data")

fixed("C12", "3737ee0", "parseTimeStamp stored a local_date_time value into d.timestamp when no reference existed, without updating lastTimeOffset: a local wall-clock reading became the UTC reference of following compressed-timestamp records and local fields",
      "C12-R2-who-rebases", "parseTimeStamp/timestamp-store-1")

fixed("C18", "15f6c57", "SegmentFile.add stored SegmentLapMsg without calling expandComponents (ActivityFile does): enhanced speed/altitude of a segment file's lap stayed invalid",
      "C18-R1-expansion-called", "SegmentFile/SegmentLapMsg")

fixed("C05", "52b7652", "Encode never stored file.Header.CRC (Header.MarshalBinary has a value receiver, the CRC it computes was lost) although its documentation promises the update",
      "C05-R1-post-state", "file.Header.CRC")

fixed("C02", "2bfc9b0", "parseFitField converted unsigned reads of sint8/sint16/sint32 straight to int64: a signed definition type narrower than its signed profile field (admitted by validateFieldDef) decoded negative values as large positive ones",
      "C02-R3-sign-extension", "scalar/base-0x01, scalar/base-0x83")
fixed("C02", "c8f6312", "parseDefinitionMessage returned early for definitions with zero fields and never tested the developer-data flag: the developer field section stayed in the stream and was parsed as record headers",
      "C02-R6-developer-section", "parseDefinitionMessage")
fixed("C02", "689701e", "big-endian widening loop d.tmp[j], d.tmp[j+padding] = 0, d.tmp[j] (ascending, overlapping) zeroed every narrow big-endian field and shifted native fields that are read at offset 0",
      "C02-R8-widening", "decoder.parseDataFields/self-copy-d.tmp")

fixed("C01", "2a4c34a", "on 32-bit targets int(d.h.DataSize) is negative for data sizes >= 2^31; the negative limit became the high bound of the slice handed to Read in fill (panic: slice bounds out of range) — reported by the thorough tier's GOARCH=386 lossy-conversion rule (also under C10)",
      "thorough-386-lossy-int", "decode/int(*d.h.DataSize)#0")

json.dump({
    "comment": "Genuine defects of tormoder/fit. status=known: recorded, not repaired (reason in DESIGN.md section 1); the check prints KNOWN-FINDING for exactly that (property, rule, key). status=fixed: repaired by the named fix: commit in /repo; suppresses nothing. This file is never written at run time.",
    "findings": F,
}, open("/verif/known_findings.json", "w"), indent=1)
print(len(F), "entries")
