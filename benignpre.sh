#!/bin/bash
# usage: benignpre.sh <dir-with-patch.diff> — one benign patch in a scratch worktree with bin/fitcheck.dev (all 20 checks)
export GOFLAGS=-mod=mod GOPROXY=off GOSUMDB=off GOTOOLCHAIN=local GOWORK=off
d="$1"; bin=${FITCHECK_BIN:-/verif/bin/fitcheck.dev}
wt=$(mktemp -d /tmp/benwt-XXXX); git -C /repo worktree add -q --detach "$wt" HEAD >/dev/null 2>&1
git -C "$wt" apply "$d/patch.diff" || { echo "cannot apply"; git -C /repo worktree remove --force "$wt"; exit 2; }
alarms=0
for p in C01 C02 C03 C04 C05 C06 C07 C08 C09 C10 C11 C12 C13 C14 C15 C16 C17 C18 C19 C20; do
  ev=$(mktemp -d /tmp/benev-XXXX); cp /verif/known_findings.json "$ev/"
  out=$($bin -prop "$p" -tier quick -repo "$wt" -verif "$ev" 2>&1); rc=$?; rm -rf "$ev"
  if [ $rc -ne 0 ]; then alarms=$((alarms+1)); echo "ALARM $p:"; echo "$out" | grep -E ": C[0-9]+-|: vacuity" | cut -c1-220 | head -6; fi
done
git -C /repo worktree remove --force "$wt" >/dev/null 2>&1; rm -rf "$wt"
echo "$(basename $(dirname $d))/$(basename $d) alarms=$alarms"
