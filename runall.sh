#!/bin/bash
# run every claimed check (quick by default) on /repo and validate manifest + evidence
cd /verif
tier="${1:-quick}"
rc=0
for p in $(python3 -c "import json;print(' '.join(c['property_id'] for c in json.load(open('MANIFEST.json'))['checks']))"); do
  out=$(./check $p $tier 2>&1); r=$?
  echo "$out" | tail -1 | cut -c1-150
  [ $r -ne 0 ] && { echo "  !! $p exit $r"; rc=1; }
done
python3-vt tools_validate.py | tail -1 || rc=1
exit $rc
