#!/bin/bash
# usage: seedcheck.sh <seed-dir> <prop> [more props...]
# 1. confirms in a scratch worktree: patch applies, builds, pinned suite passes, demo fails with / passes without.
# 2. applies the patch to /repo, runs the property check(s), restores /repo.
set -u
export GOFLAGS=-mod=mod GOPROXY=off GOSUMDB=off GOTOOLCHAIN=local GOWORK=off
seed="$1"; shift
wt=$(mktemp -d /tmp/seedwt-XXXX)
git -C /repo worktree add --detach "$wt" HEAD >/dev/null 2>&1 || { echo "worktree failed"; exit 2; }
res=""
( cd "$wt" && git apply "$seed/patch.diff" ) || res="$res patch-does-not-apply"
if [ -z "$res" ]; then
  ( cd "$wt" && go build ./... ) >/dev/null 2>&1 || res="$res build-fails"
  ( cd "$wt" && go test -vet=off -count=1 ./... ) >/tmp/seedtest.log 2>&1 || res="$res pinned-suite-fails"
  demo=$(ls "$seed"/demo*_test.go 2>/dev/null | head -1)
  if [ -n "$demo" ]; then
    dd="${DEMO_DIR:-.}"
    cp "$demo" "$wt/$dd/zz_seed_demo_test.go"
    ( cd "$wt" && go test -vet=off -count=1 -run TestSeedDemo "./$dd" ) >/tmp/seeddemo_with.log 2>&1 && res="$res demo-passes-WITH-change"
    ( cd "$wt" && git checkout -- . && go test -vet=off -count=1 -run TestSeedDemo "./$dd" ) >/tmp/seeddemo_without.log 2>&1 || res="$res demo-fails-WITHOUT-change"
  else
    res="$res no-demo"
  fi
fi
git -C /repo worktree remove --force "$wt" >/dev/null 2>&1
rm -rf "$wt"
echo "confirmation:${res:- ok (applies, builds, suite passes, demo fails with and passes without)}"
# checks against /repo
if git -C /repo apply "$seed/patch.diff"; then
  ev=$(mktemp -d /tmp/seedev-XXXX); cp /verif/known_findings.json "$ev/"
  for p in "$@"; do
    out=$(/verif/bin/fitcheck -prop "$p" -tier quick -repo /repo -verif "$ev" 2>&1); rc=$?
    echo "--- $p rc=$rc"
    echo "$out" | grep -E "^VIOLATION|: C[0-9]+-|^C[0-9]+ tier" | cut -c1-260 | head -12
  done
  rm -rf "$ev"
  git -C /repo checkout -- . ; git -C /repo clean -fdq
  git -C /repo status --short | head -3
else
  echo "cannot apply to /repo"
fi
