#!/bin/bash
# regression over every kept seed: apply to /repo, run the seed's own property check (and C18 for C07-C), undo.
export GOFLAGS=-mod=mod GOPROXY=off GOSUMDB=off GOTOOLCHAIN=local GOWORK=off
cd /verif
miss=0; n=0
for d in seeded/*/; do
  id=$(basename $d); p=$(python3 -c "import json;print(json.load(open('$d/meta.json'))['breaks_property'])")
  if grep -q '"regression": "excluded"' "$d/meta.json"; then echo "$id: excluded (recorded against an earlier base)"; continue; fi
  git -C /repo apply "/verif/$d/patch.diff" 2>/dev/null || { echo "$id: patch does not apply"; continue; }
  ev=$(mktemp -d /tmp/seedreg-XXXX); cp known_findings.json $ev/
  out=$(./bin/fitcheck -prop $p -tier quick -repo /repo -verif $ev 2>&1); rc=$?
  rules=$(echo "$out" | grep -oE "C[0-9]+: C[0-9]+-[A-Za-z0-9-]+" | sed 's/^C[0-9]*: //' | sort -u | tr '\n' ' ')
  rm -rf $ev; git -C /repo checkout -- . ; git -C /repo clean -fdq
  n=$((n+1))
  if [ $rc -eq 0 ]; then miss=$((miss+1)); echo "$id ($p): NOT REPORTED by its own check"; else echo "$id ($p): $rules"; fi
done
echo "seeds=$n not-reported-by-own-check=$miss"
