package main

// Exact finite-domain evaluation of pure functions from their SSA form.
//
// This is the "pure-function value sets" component of DESIGN.md 3.2: loop-free
// (or budget-bounded), effect-free functions over bytes / small ints / constant
// tables are folded exactly from the SSA of /repo's source, the way a compiler
// constant-folds. Nothing of the repository is compiled or executed: the
// transfer functions below are the semantics of the handful of SSA operators
// those functions use; any other operator makes the obligation undecided.

import (
	"fmt"
	"go/ast"
	"go/constant"
	"go/token"
	"go/types"
	"strings"

	"golang.org/x/tools/go/ssa"
)

type Val interface{}

type IntV struct {
	Bits uint64 // two's complement, truncated to the type's width
	T    *types.Basic
}
type BoolV bool
type StrV string
type NilV struct{}
type OpaqueV struct{ Why string } // a value we do not model; must not influence control
type ErrV struct{ NonNil bool }
type StructV struct{ F []Val }
type ArrayV struct{ E []Val }
type MapV struct {
	M       map[string]Val
	ZeroElt Val
}
type TupleV []Val
type IfaceV struct {
	Dyn Val
	T   types.Type
}
type Cell struct {
	V        Val
	ReadOnly bool
	Name     string
}
type PtrV struct {
	C    *Cell
	Path []int
}
type FuncV struct{ Fn *ssa.Function }

type evalErr struct {
	panic bool
	msg   string
}

func (e *evalErr) Error() string {
	if e.panic {
		return "panic: " + e.msg
	}
	return "unsupported: " + e.msg
}

func unsupported(f string, a ...interface{}) *evalErr {
	return &evalErr{false, fmt.Sprintf(f, a...)}
}
func panics(f string, a ...interface{}) *evalErr { return &evalErr{true, fmt.Sprintf(f, a...)} }

type Evaluator struct {
	c       *Ctx
	globals map[*ssa.Global]*Cell
	steps   int
	budget  int
	memo    map[memoKey]memoRes
	finfo   map[*ssa.Function]*fnInfo
	// summaries for calls outside the module: name -> result
	depth int
}

type memoKey struct {
	fn     *ssa.Function
	n      int
	a0, a1 uint64
	k0, k1 uint8
}

type fnInfo struct {
	index map[ssa.Value]int
	n     int
	free  [][]Val
}

type memoRes struct {
	v   Val
	err *evalErr
}

func newEvaluator(c *Ctx) *Evaluator {
	return &Evaluator{c: c, globals: map[*ssa.Global]*Cell{}, budget: 200000, memo: map[memoKey]memoRes{}, finfo: map[*ssa.Function]*fnInfo{}}
}

func basicOf(t types.Type) *types.Basic {
	b, _ := t.Underlying().(*types.Basic)
	return b
}

func width(b *types.Basic) uint {
	switch b.Kind() {
	case types.Int8, types.Uint8:
		return 8
	case types.Int16, types.Uint16:
		return 16
	case types.Int32, types.Uint32:
		return 32
	case types.Int64, types.Uint64, types.Int, types.Uint, types.Uintptr, types.UntypedInt, types.UntypedRune:
		return 64
	}
	return 0
}

func isSigned(b *types.Basic) bool {
	return b.Info()&types.IsUnsigned == 0
}

func mkInt(v uint64, t types.Type) Val {
	b := basicOf(t)
	if b == nil {
		return OpaqueV{"non-basic int type"}
	}
	w := width(b)
	if w == 0 {
		return OpaqueV{"int width"}
	}
	if w < 64 {
		v &= (1 << w) - 1
	}
	return IntV{v, b}
}

func (i IntV) S() int64 {
	w := width(i.T)
	if w < 64 && isSigned(i.T) {
		sh := 64 - w
		return int64(i.Bits<<sh) >> sh
	}
	return int64(i.Bits)
}

func (i IntV) String() string {
	if isSigned(i.T) {
		return fmt.Sprint(i.S())
	}
	return fmt.Sprint(i.Bits)
}

func (e *Evaluator) zero(t types.Type) Val {
	switch u := t.Underlying().(type) {
	case *types.Basic:
		switch {
		case u.Info()&types.IsBoolean != 0:
			return BoolV(false)
		case u.Info()&types.IsString != 0:
			return StrV("")
		case u.Info()&types.IsInteger != 0:
			return mkInt(0, t)
		}
		return OpaqueV{"zero of " + t.String()}
	case *types.Struct:
		s := StructV{}
		for i := 0; i < u.NumFields(); i++ {
			s.F = append(s.F, e.zero(u.Field(i).Type()))
		}
		return s
	case *types.Array:
		if u.Len() > 1<<16 {
			return OpaqueV{"large array"}
		}
		a := ArrayV{}
		for i := int64(0); i < u.Len(); i++ {
			a.E = append(a.E, e.zero(u.Elem()))
		}
		return a
	case *types.Interface:
		if types.Identical(t, types.Universe.Lookup("error").Type()) {
			return ErrV{false}
		}
		return NilV{}
	}
	return NilV{}
}

// ---- package-level initial values from syntax -------------------------------

func (e *Evaluator) globalCell(g *ssa.Global) (*Cell, *evalErr) {
	if c, ok := e.globals[g]; ok {
		return c, nil
	}
	pkgPath := g.Pkg.Pkg.Path()
	p := e.c.pkgs[pkgPath]
	elemT := g.Type().(*types.Pointer).Elem()
	if p == nil {
		c := &Cell{V: OpaqueV{"global of foreign package " + g.String()}, ReadOnly: true, Name: g.String()}
		e.globals[g] = c
		return c, nil
	}
	init, _ := e.c.varInit(p, g.Name())
	var v Val
	if init == nil {
		v = e.zero(elemT)
	} else {
		v = e.fromSyntax(p.TypesInfo, init, elemT)
	}
	c := &Cell{V: v, ReadOnly: true, Name: g.Name()}
	e.globals[g] = c
	return c, nil
}

func (e *Evaluator) fromSyntax(info *types.Info, x ast.Expr, want types.Type) Val {
	x = unparen(x)
	if tv, ok := info.Types[x]; ok && tv.Value != nil {
		return constToVal(tv.Value, tv.Type, want)
	}
	switch n := x.(type) {
	case *ast.CompositeLit:
		t := info.TypeOf(n)
		if t == nil {
			t = want
		}
		ptr := false
		if p, ok := t.Underlying().(*types.Pointer); ok {
			t = p.Elem()
			ptr = true
		}
		v := e.compositeLit(info, n, t)
		if ptr {
			return PtrV{C: &Cell{V: v, ReadOnly: true, Name: "lit"}}
		}
		return v
	case *ast.UnaryExpr:
		if n.Op == token.AND {
			if cl, ok := unparen(n.X).(*ast.CompositeLit); ok {
				v := e.compositeLit(info, cl, info.TypeOf(cl))
				return PtrV{C: &Cell{V: v, ReadOnly: true, Name: "lit"}}
			}
		}
	case *ast.Ident:
		if n.Name == "nil" {
			return NilV{}
		}
	}
	return OpaqueV{"initializer " + exprStr(x)}
}

func (e *Evaluator) compositeLit(info *types.Info, n *ast.CompositeLit, t types.Type) Val {
	switch u := t.Underlying().(type) {
	case *types.Struct:
		s := e.zero(t).(StructV)
		for i, el := range n.Elts {
			if kv, ok := el.(*ast.KeyValueExpr); ok {
				name := kv.Key.(*ast.Ident).Name
				for j := 0; j < u.NumFields(); j++ {
					if u.Field(j).Name() == name {
						s.F[j] = e.fromSyntax(info, kv.Value, u.Field(j).Type())
					}
				}
			} else if i < len(s.F) {
				s.F[i] = e.fromSyntax(info, el, u.Field(i).Type())
			}
		}
		return s
	case *types.Array:
		a := e.zero(t)
		av, ok := a.(ArrayV)
		if !ok {
			return a
		}
		idx := int64(0)
		for _, el := range n.Elts {
			val := el
			if kv, ok := el.(*ast.KeyValueExpr); ok {
				k, ok := exprInt(info, kv.Key)
				if !ok {
					return OpaqueV{"non-constant array key"}
				}
				idx = k
				val = kv.Value
			}
			if idx < 0 || idx >= int64(len(av.E)) {
				return OpaqueV{"array key out of range"}
			}
			av.E[idx] = e.elemFromSyntax(info, val, u.Elem())
			idx++
		}
		return av
	case *types.Slice:
		av := ArrayV{}
		for _, el := range n.Elts {
			if _, ok := el.(*ast.KeyValueExpr); ok {
				return OpaqueV{"keyed slice literal"}
			}
			av.E = append(av.E, e.elemFromSyntax(info, el, u.Elem()))
		}
		return PtrV{C: &Cell{V: av, ReadOnly: true, Name: "slicelit"}}
	case *types.Map:
		m := MapV{M: map[string]Val{}, ZeroElt: e.zero(u.Elem())}
		for _, el := range n.Elts {
			kv := el.(*ast.KeyValueExpr)
			k := e.fromSyntax(info, kv.Key, u.Key())
			ks, ok := mapKey(k)
			if !ok {
				return OpaqueV{"map key"}
			}
			m.M[ks] = e.elemFromSyntax(info, kv.Value, u.Elem())
		}
		return m
	}
	return OpaqueV{"composite literal of " + t.String()}
}

// elemFromSyntax handles elided composite-literal types ({...} for T or *T elements).
func (e *Evaluator) elemFromSyntax(info *types.Info, x ast.Expr, elem types.Type) Val {
	if cl, ok := x.(*ast.CompositeLit); ok && cl.Type == nil {
		if p, ok := elem.Underlying().(*types.Pointer); ok {
			v := e.compositeLit(info, cl, p.Elem())
			return PtrV{C: &Cell{V: v, ReadOnly: true, Name: "lit"}}
		}
		return e.compositeLit(info, cl, elem)
	}
	return e.fromSyntax(info, x, elem)
}

func constToVal(v constant.Value, t types.Type, want types.Type) Val {
	if t == nil || basicOf(t) == nil || basicOf(t).Info()&types.IsUntyped != 0 {
		if want != nil {
			t = want
		}
	}
	switch v.Kind() {
	case constant.Bool:
		return BoolV(constant.BoolVal(v))
	case constant.String:
		return StrV(constant.StringVal(v))
	case constant.Int:
		b := basicOf(t)
		if b == nil || b.Info()&types.IsInteger == 0 {
			if b != nil && b.Info()&types.IsFloat != 0 {
				return OpaqueV{"float const"}
			}
			// interface-typed want: keep as int
			if i, ok := constant.Int64Val(v); ok {
				return IntV{uint64(i), types.Typ[types.Int]}
			}
			return OpaqueV{"const"}
		}
		if i, ok := constant.Int64Val(v); ok {
			return mkInt(uint64(i), t)
		}
		if u, ok := constant.Uint64Val(v); ok {
			return mkInt(u, t)
		}
	}
	return OpaqueV{"const " + v.String()}
}

func mapKey(v Val) (string, bool) {
	switch k := v.(type) {
	case IntV:
		return "i" + k.String(), true
	case StrV:
		return "s" + string(k), true
	case BoolV:
		return fmt.Sprint("b", bool(k)), true
	}
	return "", false
}

// ---- SSA interpretation ----------------------------------------------------

type frame struct {
	fn   *ssa.Function
	env  []Val
	idx  map[ssa.Value]int
	prev *ssa.BasicBlock
}

func (e *Evaluator) info(fn *ssa.Function) *fnInfo {
	if fi, ok := e.finfo[fn]; ok {
		return fi
	}
	fi := &fnInfo{index: map[ssa.Value]int{}}
	for _, p := range fn.Params {
		fi.index[p] = fi.n
		fi.n++
	}
	for _, b := range fn.Blocks {
		for _, ins := range b.Instrs {
			if v, ok := ins.(ssa.Value); ok {
				fi.index[v] = fi.n
				fi.n++
			}
		}
	}
	e.finfo[fn] = fi
	return fi
}

func (fr *frame) set(v ssa.Value, x Val) { fr.env[fr.idx[v]] = x }

// Call evaluates fn on args. Result is a single Val (TupleV for multi-results).
func (e *Evaluator) Call(fn *ssa.Function, args []Val) (Val, *evalErr) {
	if fn == nil || len(fn.Blocks) == 0 {
		return nil, unsupported("function %v has no body", fn)
	}
	// memoise calls whose (at most two) args are all scalars
	var key memoKey
	memo := len(args) <= 2
	if memo {
		key.fn, key.n = fn, len(args)
		for i, a := range args {
			var bits uint64
			var kind uint8
			switch x := a.(type) {
			case IntV:
				bits, kind = x.Bits, 1
			case BoolV:
				kind = 2
				if x {
					bits = 1
				}
			default:
				memo = false
			}
			if i == 0 {
				key.a0, key.k0 = bits, kind
			} else {
				key.a1, key.k1 = bits, kind
			}
		}
	}
	if memo {
		if r, ok := e.memo[key]; ok {
			return r.v, r.err
		}
	}
	e.depth++
	defer func() { e.depth-- }()
	if e.depth > 40 {
		return nil, unsupported("call depth")
	}
	v, err := e.run(fn, args)
	if memo {
		e.memo[key] = memoRes{v, err}
	}
	return v, err
}

func (e *Evaluator) run(fn *ssa.Function, args []Val) (Val, *evalErr) {
	fi := e.info(fn)
	var env []Val
	if k := len(fi.free); k > 0 {
		env = fi.free[k-1]
		fi.free = fi.free[:k-1]
	} else {
		env = make([]Val, fi.n)
	}
	defer func() {
		for i := range env {
			env[i] = nil
		}
		fi.free = append(fi.free, env)
	}()
	fr := &frame{fn: fn, env: env, idx: fi.index}
	if len(args) != len(fn.Params) {
		return nil, unsupported("arity mismatch calling %s", fn)
	}
	for i, p := range fn.Params {
		fr.set(p, args[i])
	}
	if len(fn.FreeVars) > 0 {
		return nil, unsupported("closure %s", fn)
	}
	b := fn.Blocks[0]
	for {
		var next *ssa.BasicBlock
		// phis first (parallel)
		var phiVals []Val
		var phis []*ssa.Phi
		for _, ins := range b.Instrs {
			phi, ok := ins.(*ssa.Phi)
			if !ok {
				break
			}
			idx := -1
			for i, p := range b.Preds {
				if p == fr.prev {
					idx = i
				}
			}
			if idx < 0 {
				return nil, unsupported("phi without predecessor")
			}
			v, err := e.get(fr, phi.Edges[idx])
			if err != nil {
				return nil, err
			}
			phis = append(phis, phi)
			phiVals = append(phiVals, v)
		}
		for i, p := range phis {
			fr.set(p, phiVals[i])
		}
		for _, ins := range b.Instrs[len(phis):] {
			e.steps++
			if e.steps > e.budget {
				return nil, unsupported("step budget exceeded in %s", fn)
			}
			switch n := ins.(type) {
			case *ssa.DebugRef:
			case *ssa.If:
				cv, err := e.get(fr, n.Cond)
				if err != nil {
					return nil, err
				}
				cb, ok := cv.(BoolV)
				if !ok {
					return nil, unsupported("branch on non-boolean/opaque value %T in %s (%s)", cv, fn, e.c.pos(n.Cond.Pos()))
				}
				if cb {
					next = b.Succs[0]
				} else {
					next = b.Succs[1]
				}
			case *ssa.Jump:
				next = b.Succs[0]
			case *ssa.Return:
				var rs []Val
				for _, r := range n.Results {
					v, err := e.get(fr, r)
					if err != nil {
						return nil, err
					}
					rs = append(rs, v)
				}
				switch len(rs) {
				case 0:
					return NilV{}, nil
				case 1:
					return rs[0], nil
				}
				return TupleV(rs), nil
			case *ssa.Panic:
				return nil, panics("explicit panic at %s", e.c.pos(n.Pos()))
			case *ssa.Store:
				a, err := e.get(fr, n.Addr)
				if err != nil {
					return nil, err
				}
				v, err := e.get(fr, n.Val)
				if err != nil {
					return nil, err
				}
				if err := e.store(a, v); err != nil {
					return nil, err
				}
			case ssa.Value:
				v, err := e.value(fr, n)
				if err != nil {
					return nil, err
				}
				fr.set(n, v)
			default:
				return nil, unsupported("instruction %T in %s", ins, fn)
			}
		}
		if next == nil {
			return nil, unsupported("fell off block in %s", fn)
		}
		fr.prev = b
		b = next
	}
}

func (e *Evaluator) get(fr *frame, v ssa.Value) (Val, *evalErr) {
	switch n := v.(type) {
	case *ssa.Const:
		if n.Value == nil {
			t := n.Type()
			if types.Identical(t, types.Universe.Lookup("error").Type()) {
				return ErrV{false}, nil
			}
			switch t.Underlying().(type) {
			case *types.Basic, *types.Struct, *types.Array:
				return e.zero(t), nil
			}
			return NilV{}, nil
		}
		return constToVal(n.Value, n.Type(), n.Type()), nil
	case *ssa.Global:
		c, err := e.globalCell(n)
		if err != nil {
			return nil, err
		}
		return PtrV{C: c}, nil
	case *ssa.Function:
		return FuncV{n}, nil
	case *ssa.Builtin:
		return OpaqueV{"builtin"}, nil
	}
	if i, ok := fr.idx[v]; ok && fr.env[i] != nil {
		return fr.env[i], nil
	}
	return nil, unsupported("value %s (%T) not evaluated", v.Name(), v)
}

func (e *Evaluator) deref(p Val) (Val, *evalErr) {
	pv, ok := p.(PtrV)
	if !ok {
		if _, isNil := p.(NilV); isNil {
			return nil, panics("nil pointer dereference")
		}
		if _, isOp := p.(OpaqueV); isOp {
			return OpaqueV{"load through opaque pointer"}, nil
		}
		return nil, unsupported("load through %T", p)
	}
	v := pv.C.V
	for _, i := range pv.Path {
		switch x := v.(type) {
		case StructV:
			v = x.F[i]
		case ArrayV:
			if i < 0 || i >= len(x.E) {
				return nil, panics("index out of range")
			}
			v = x.E[i]
		case OpaqueV:
			return x, nil
		default:
			return nil, unsupported("path into %T", v)
		}
	}
	return v, nil
}

func (e *Evaluator) store(a Val, v Val) *evalErr {
	pv, ok := a.(PtrV)
	if !ok {
		return unsupported("store through %T", a)
	}
	if pv.C.ReadOnly {
		return unsupported("store to package-level or literal storage %s (impure)", pv.C.Name)
	}
	pv.C.V = setPath(pv.C.V, pv.Path, v)
	return nil
}

func setPath(root Val, path []int, v Val) Val {
	if len(path) == 0 {
		return v
	}
	switch x := root.(type) {
	case StructV:
		nf := append([]Val(nil), x.F...)
		nf[path[0]] = setPath(nf[path[0]], path[1:], v)
		return StructV{nf}
	case ArrayV:
		ne := append([]Val(nil), x.E...)
		if path[0] >= 0 && path[0] < len(ne) {
			ne[path[0]] = setPath(ne[path[0]], path[1:], v)
		}
		return ArrayV{ne}
	}
	return root
}

func (e *Evaluator) value(fr *frame, v ssa.Value) (Val, *evalErr) {
	switch n := v.(type) {
	case *ssa.Alloc:
		return PtrV{C: &Cell{V: e.zero(n.Type().(*types.Pointer).Elem()), Name: n.Comment}}, nil
	case *ssa.UnOp:
		x, err := e.get(fr, n.X)
		if err != nil {
			return nil, err
		}
		switch n.Op {
		case token.MUL:
			return e.deref(x)
		case token.NOT:
			if b, ok := x.(BoolV); ok {
				return BoolV(!b), nil
			}
			return OpaqueV{"!opaque"}, nil
		case token.SUB:
			if i, ok := x.(IntV); ok {
				return mkInt(-i.Bits, n.Type()), nil
			}
		case token.XOR:
			if i, ok := x.(IntV); ok {
				return mkInt(^i.Bits, n.Type()), nil
			}
		}
		return OpaqueV{"unop"}, nil
	case *ssa.BinOp:
		x, err := e.get(fr, n.X)
		if err != nil {
			return nil, err
		}
		y, err := e.get(fr, n.Y)
		if err != nil {
			return nil, err
		}
		return e.binop(n, x, y)
	case *ssa.Convert:
		x, err := e.get(fr, n.X)
		if err != nil {
			return nil, err
		}
		return e.convert(x, n.X.Type(), n.Type()), nil
	case *ssa.ChangeType:
		x, err := e.get(fr, n.X)
		if err != nil {
			return nil, err
		}
		if i, ok := x.(IntV); ok {
			return mkInt(i.Bits, n.Type()), nil
		}
		return x, nil
	case *ssa.ChangeInterface:
		return e.get(fr, n.X)
	case *ssa.MakeInterface:
		x, err := e.get(fr, n.X)
		if err != nil {
			return nil, err
		}
		if types.Identical(n.Type(), types.Universe.Lookup("error").Type()) {
			return ErrV{true}, nil
		}
		return IfaceV{Dyn: x, T: n.X.Type()}, nil
	case *ssa.FieldAddr:
		x, err := e.get(fr, n.X)
		if err != nil {
			return nil, err
		}
		switch p := x.(type) {
		case PtrV:
			return PtrV{C: p.C, Path: append(append([]int(nil), p.Path...), n.Field)}, nil
		case NilV:
			return nil, panics("nil pointer dereference (field address) at %s", e.c.pos(n.Pos()))
		case OpaqueV:
			return OpaqueV{"field of opaque"}, nil
		}
		return nil, unsupported("FieldAddr on %T", x)
	case *ssa.Field:
		x, err := e.get(fr, n.X)
		if err != nil {
			return nil, err
		}
		if s, ok := x.(StructV); ok {
			return s.F[n.Field], nil
		}
		return OpaqueV{"field of opaque"}, nil
	case *ssa.IndexAddr:
		x, err := e.get(fr, n.X)
		if err != nil {
			return nil, err
		}
		iv, err := e.get(fr, n.Index)
		if err != nil {
			return nil, err
		}
		p, ok := x.(PtrV)
		if !ok {
			if _, op := x.(OpaqueV); op {
				return OpaqueV{"index of opaque"}, nil
			}
			return nil, unsupported("IndexAddr on %T", x)
		}
		ii, ok := iv.(IntV)
		if !ok {
			return nil, unsupported("opaque index")
		}
		idx := ii.S()
		// bounds
		cur, derr := e.deref(p)
		if derr != nil {
			return nil, derr
		}
		if a, ok := cur.(ArrayV); ok {
			if idx < 0 || idx >= int64(len(a.E)) {
				return nil, panics("index %d out of range [0,%d) at %s", idx, len(a.E), e.c.pos(n.Pos()))
			}
		} else if _, ok := cur.(OpaqueV); ok {
			return OpaqueV{"index of opaque"}, nil
		} else {
			return nil, unsupported("IndexAddr into %T", cur)
		}
		return PtrV{C: p.C, Path: append(append([]int(nil), p.Path...), int(idx))}, nil
	case *ssa.Index:
		x, err := e.get(fr, n.X)
		if err != nil {
			return nil, err
		}
		iv, err := e.get(fr, n.Index)
		if err != nil {
			return nil, err
		}
		a, ok := x.(ArrayV)
		ii, ok2 := iv.(IntV)
		if !ok || !ok2 {
			return OpaqueV{"index"}, nil
		}
		if ii.S() < 0 || ii.S() >= int64(len(a.E)) {
			return nil, panics("index out of range")
		}
		return a.E[ii.S()], nil
	case *ssa.Lookup:
		x, err := e.get(fr, n.X)
		if err != nil {
			return nil, err
		}
		iv, err := e.get(fr, n.Index)
		if err != nil {
			return nil, err
		}
		m, ok := x.(MapV)
		if !ok {
			return nil, unsupported("Lookup on %T", x)
		}
		ks, ok := mapKey(iv)
		if !ok {
			return nil, unsupported("opaque map key")
		}
		elt, found := m.M[ks]
		if !found {
			elt = m.ZeroElt
		}
		if n.CommaOk {
			return TupleV{elt, BoolV(found)}, nil
		}
		return elt, nil
	case *ssa.Extract:
		x, err := e.get(fr, n.Tuple)
		if err != nil {
			return nil, err
		}
		t, ok := x.(TupleV)
		if !ok {
			return OpaqueV{"extract"}, nil
		}
		return t[n.Index], nil
	case *ssa.Slice:
		return OpaqueV{"slice"}, nil
	case *ssa.MakeSlice, *ssa.MakeMap, *ssa.MakeChan, *ssa.MakeClosure:
		return OpaqueV{"make"}, nil
	case *ssa.TypeAssert:
		return nil, unsupported("type assertion")
	case *ssa.Call:
		return e.call(fr, n)
	case *ssa.Phi:
		return nil, unsupported("phi in the middle of a block")
	}
	return nil, unsupported("value instruction %T", v)
}

func (e *Evaluator) convert(x Val, from, to types.Type) Val {
	switch v := x.(type) {
	case IntV:
		tb := basicOf(to)
		if tb != nil && tb.Info()&types.IsInteger != 0 {
			if isSigned(v.T) {
				return mkInt(uint64(v.S()), to)
			}
			return mkInt(v.Bits, to)
		}
		return OpaqueV{"int->non-int conversion"}
	case StrV:
		if tb := basicOf(to); tb != nil && tb.Info()&types.IsString != 0 {
			return v
		}
	}
	return OpaqueV{"conversion"}
}

func (e *Evaluator) binop(n *ssa.BinOp, x, y Val) (Val, *evalErr) {
	switch n.Op {
	case token.EQL, token.NEQ:
		eq, ok := valEq(x, y)
		if !ok {
			return OpaqueV{"comparison of opaque values"}, nil
		}
		if n.Op == token.NEQ {
			eq = !eq
		}
		return BoolV(eq), nil
	}
	if xb, ok := x.(BoolV); ok {
		yb, ok := y.(BoolV)
		if !ok {
			return OpaqueV{"bool op"}, nil
		}
		switch n.Op {
		case token.AND, token.LAND:
			return BoolV(bool(xb) && bool(yb)), nil
		case token.OR, token.LOR:
			return BoolV(bool(xb) || bool(yb)), nil
		}
	}
	if xs, ok := x.(StrV); ok {
		if ys, ok := y.(StrV); ok && n.Op == token.ADD {
			return StrV(string(xs) + string(ys)), nil
		}
		return OpaqueV{"string op"}, nil
	}
	xi, ok1 := x.(IntV)
	yi, ok2 := y.(IntV)
	if !ok1 || !ok2 {
		return OpaqueV{"binop on opaque"}, nil
	}
	t := n.Type()
	signed := isSigned(xi.T)
	switch n.Op {
	case token.ADD:
		return mkInt(xi.Bits+yi.Bits, t), nil
	case token.SUB:
		return mkInt(xi.Bits-yi.Bits, t), nil
	case token.MUL:
		return mkInt(xi.Bits*yi.Bits, t), nil
	case token.QUO, token.REM:
		if yi.Bits == 0 {
			return nil, panics("integer divide by zero at %s", e.c.pos(n.Pos()))
		}
		if signed {
			if n.Op == token.QUO {
				return mkInt(uint64(xi.S()/yi.S()), t), nil
			}
			return mkInt(uint64(xi.S()%yi.S()), t), nil
		}
		if n.Op == token.QUO {
			return mkInt(xi.Bits/yi.Bits, t), nil
		}
		return mkInt(xi.Bits%yi.Bits, t), nil
	case token.AND:
		return mkInt(xi.Bits&yi.Bits, t), nil
	case token.OR:
		return mkInt(xi.Bits|yi.Bits, t), nil
	case token.XOR:
		return mkInt(xi.Bits^yi.Bits, t), nil
	case token.AND_NOT:
		return mkInt(xi.Bits&^yi.Bits, t), nil
	case token.SHL:
		sh := yi.Bits
		if isSigned(yi.T) && yi.S() < 0 {
			return nil, panics("negative shift")
		}
		if sh >= 64 {
			return mkInt(0, t), nil
		}
		return mkInt(xi.Bits<<sh, t), nil
	case token.SHR:
		sh := yi.Bits
		if isSigned(yi.T) && yi.S() < 0 {
			return nil, panics("negative shift")
		}
		if signed {
			if sh >= 64 {
				sh = 63
			}
			return mkInt(uint64(xi.S()>>sh), t), nil
		}
		if sh >= 64 {
			return mkInt(0, t), nil
		}
		return mkInt(xi.Bits>>sh, t), nil
	case token.LSS, token.LEQ, token.GTR, token.GEQ:
		var lt, eq bool
		if signed {
			lt, eq = xi.S() < yi.S(), xi.S() == yi.S()
		} else {
			lt, eq = xi.Bits < yi.Bits, xi.Bits == yi.Bits
		}
		switch n.Op {
		case token.LSS:
			return BoolV(lt), nil
		case token.LEQ:
			return BoolV(lt || eq), nil
		case token.GTR:
			return BoolV(!lt && !eq), nil
		default:
			return BoolV(!lt), nil
		}
	}
	return nil, unsupported("binop %s", n.Op)
}

func valEq(x, y Val) (bool, bool) {
	switch a := x.(type) {
	case IntV:
		if b, ok := y.(IntV); ok {
			return a.Bits == b.Bits, true
		}
	case BoolV:
		if b, ok := y.(BoolV); ok {
			return a == b, true
		}
	case StrV:
		if b, ok := y.(StrV); ok {
			return a == b, true
		}
	case NilV:
		switch b := y.(type) {
		case NilV:
			return true, true
		case PtrV:
			return false, true
		case ErrV:
			return !b.NonNil, true
		case IfaceV:
			return false, true
		}
	case PtrV:
		switch b := y.(type) {
		case NilV:
			return false, true
		case PtrV:
			if a.C != b.C || len(a.Path) != len(b.Path) {
				return false, true
			}
			for i := range a.Path {
				if a.Path[i] != b.Path[i] {
					return false, true
				}
			}
			return true, true
		}
	case ErrV:
		switch b := y.(type) {
		case NilV:
			return !a.NonNil, true
		case ErrV:
			if !a.NonNil && !b.NonNil {
				return true, true
			}
			if a.NonNil != b.NonNil {
				return false, true
			}
		}
	case IfaceV:
		if _, ok := y.(NilV); ok {
			return false, true
		}
	}
	return false, false
}

func (e *Evaluator) call(fr *frame, n *ssa.Call) (Val, *evalErr) {
	cc := n.Common()
	if cc.IsInvoke() {
		return nil, unsupported("dynamic call %s at %s", cc.Method.Name(), e.c.pos(n.Pos()))
	}
	var args []Val
	for _, a := range cc.Args {
		v, err := e.get(fr, a)
		if err != nil {
			return nil, err
		}
		args = append(args, v)
	}
	switch f := cc.Value.(type) {
	case *ssa.Builtin:
		switch f.Name() {
		case "len":
			switch a := args[0].(type) {
			case StrV:
				return mkInt(uint64(len(a)), types.Typ[types.Int]), nil
			case ArrayV:
				return mkInt(uint64(len(a.E)), types.Typ[types.Int]), nil
			case MapV:
				return mkInt(uint64(len(a.M)), types.Typ[types.Int]), nil
			}
			return OpaqueV{"len"}, nil
		}
		return nil, unsupported("builtin %s", f.Name())
	case *ssa.Function:
		if f.Pkg != nil && strings.HasPrefix(f.Pkg.Pkg.Path(), modPath) && len(f.Blocks) > 0 {
			return e.Call(f, args)
		}
		full := f.String()
		switch full {
		case "fmt.Errorf", "errors.New":
			return ErrV{true}, nil
		case "fmt.Sprintf", "fmt.Sprint":
			return OpaqueV{"formatted string"}, nil
		}
		return nil, unsupported("call to %s", full)
	}
	return nil, unsupported("indirect call at %s", e.c.pos(n.Pos()))
}
