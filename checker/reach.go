package main

import (
	"go/ast"
	"go/types"
	"sort"
	"strings"

	"golang.org/x/tools/go/ssa"
)

var decodeRoots = []string{"Decode", "DecodeChained", "CheckIntegrity", "DecodeHeader", "DecodeHeaderAndFileID"}
var encodeRoots = []string{"Encode"}
var otherRoots = []string{"Header.CheckIntegrity", "Header.MarshalBinary", "NewFile", "NewHeader"}

type reachInfo struct {
	parent map[*ssa.Function]*ssa.Function // BFS tree
	order  []*ssa.Function
}

func (c *Ctx) rootFuncs(names []string) ([]*ssa.Function, []string) {
	var out []*ssa.Function
	var missing []string
	for _, n := range names {
		f := c.ssaFn(c.fn(c.fit, n))
		if f == nil {
			missing = append(missing, n)
			continue
		}
		out = append(out, f)
	}
	return out, missing
}

// reach: all functions reachable in the VTA call graph from roots.
func (c *Ctx) reach(roots []*ssa.Function) *reachInfo {
	cg := c.callGraph()
	ri := &reachInfo{parent: map[*ssa.Function]*ssa.Function{}}
	var q []*ssa.Function
	for _, r := range roots {
		if _, ok := ri.parent[r]; !ok {
			ri.parent[r] = nil
			q = append(q, r)
		}
	}
	for len(q) > 0 {
		f := q[0]
		q = q[1:]
		ri.order = append(ri.order, f)
		n := cg.Nodes[f]
		if n == nil {
			continue
		}
		// deterministic order
		var outs []*ssa.Function
		for _, e := range n.Out {
			outs = append(outs, e.Callee.Func)
		}
		sort.Slice(outs, func(i, j int) bool { return outs[i].String() < outs[j].String() })
		for _, g := range outs {
			if _, ok := ri.parent[g]; !ok {
				ri.parent[g] = f
				q = append(q, g)
			}
		}
		// anonymous functions defined inside f are reachable when f is (closures stored/deferred)
		for _, an := range f.AnonFuncs {
			if _, ok := ri.parent[an]; !ok {
				ri.parent[an] = f
				q = append(q, an)
			}
		}
	}
	return ri
}

// reachMethodsOnly: like reach, but an edge from a function outside the module into the module is
// followed only when the callee is a method (interface callbacks such as sort.Interface, Stringer,
// error, io.Writer); plain functions and closures of the module are entered only from module code.
func (c *Ctx) reachMethodsOnly(roots []*ssa.Function) *reachInfo {
	cg := c.callGraph()
	ri := &reachInfo{parent: map[*ssa.Function]*ssa.Function{}}
	var q []*ssa.Function
	for _, r := range roots {
		if _, ok := ri.parent[r]; !ok {
			ri.parent[r] = nil
			q = append(q, r)
		}
	}
	for len(q) > 0 {
		f := q[0]
		q = q[1:]
		ri.order = append(ri.order, f)
		n := cg.Nodes[f]
		if n == nil {
			continue
		}
		fromModule := strings.HasPrefix(fnPkgPath(f), modPath)
		var outs []*ssa.Function
		for _, e := range n.Out {
			g := e.Callee.Func
			if !fromModule && strings.HasPrefix(fnPkgPath(g), modPath) && g.Signature.Recv() == nil {
				continue
			}
			outs = append(outs, g)
		}
		sort.Slice(outs, func(i, j int) bool { return outs[i].String() < outs[j].String() })
		for _, g := range outs {
			if _, ok := ri.parent[g]; !ok {
				ri.parent[g] = f
				q = append(q, g)
			}
		}
		if fromModule {
			for _, an := range f.AnonFuncs {
				if _, ok := ri.parent[an]; !ok {
					ri.parent[an] = f
					q = append(q, an)
				}
			}
		}
	}
	return ri
}

func (ri *reachInfo) has(f *ssa.Function) bool {
	_, ok := ri.parent[f]
	return ok
}

func (ri *reachInfo) path(f *ssa.Function) string {
	var names []string
	for x := f; x != nil; x = ri.parent[x] {
		names = append(names, x.String())
		if len(names) > 12 {
			names = append(names, "...")
			break
		}
	}
	for i, j := 0, len(names)-1; i < j; i, j = i+1, j-1 {
		names[i], names[j] = names[j], names[i]
	}
	return strings.Join(names, " -> ")
}

// moduleReach: reachable functions that belong to the module, sorted.
func (ri *reachInfo) module() []*ssa.Function {
	var out []*ssa.Function
	for f := range ri.parent {
		if strings.HasPrefix(fnPkgPath(f), modPath) && len(f.Blocks) > 0 {
			out = append(out, f)
		}
	}
	sort.Slice(out, func(i, j int) bool { return out[i].String() < out[j].String() })
	return out
}

// declOfSSA maps an ssa function (or the function enclosing an anonymous one) to its FuncDecl.
func (c *Ctx) declOfSSA(f *ssa.Function) *ast.FuncDecl {
	for f.Parent() != nil {
		f = f.Parent()
	}
	if o, ok := f.Object().(*types.Func); ok {
		return c.decl(o)
	}
	return nil
}
