package main

import (
	"fmt"
	"go/token"
	"go/types"
	"strings"

	"golang.org/x/tools/go/ssa"
)

func init() {
	register(&propDef{
		id: "C13", level: "other", run: runC13,
		explanation: "Decided: (R1) the dispatch of the record-header byte is evaluated from the SSA guards for all 256 values, in evaluation order, and compared with the FIT layout (1xxxxxxx compressed-timestamp data, 01xxxxxx definition, 00xxxxxx data); the local-type extraction is hdr&0x0F for normal headers and (hdr&0x60)>>5 for compressed ones and stays below the slot-array length for all 256 values; the two header tests of parseFileIdMsg are held against the same classes (a guard admitting bytes of another class, or all 256 bytes, is reported). (R2) slot discipline: the only stores to decoder.defmsgs are defmsgs[dm.localMsgType] = dm with dm the freshly parsed definition on its error-free edge; localMsgType is written once as hdr & 0x0F; the only load indexes with the extracted local type and is nil-checked before any use. (R3) independence: every definition is a fresh allocation whose field lists are fresh makes, and its byte order is set from the architecture byte by a two-constant switch (0 -> little endian, 1 -> big endian) with an error default. NOT decided: decoded values of interleavings. (R3-definition-immutable) outside the definition parser no member of a defmsg, nor the list loaded from it, is assigned, boxed or handed to a function. (R2, definition-used) the definition handed to the field parser is the value loaded from the record's slot itself.",
		trusted:     []string{"guard evaluation over the 256 byte values (checker/c13.go transfer functions: & const, >> const, ==, !=, !)", "go/ssa dominator tree"},
	})
}

// evalByte evaluates an SSA expression over one byte variable.
func evalByte(v ssa.Value, bvar ssa.Value, x uint8) (uint64, bool) {
	if v == bvar {
		return uint64(x), true
	}
	switch n := v.(type) {
	case *ssa.Const:
		if n.Value == nil {
			return 0, false
		}
		u, ok := constBits(n.Value, 64)
		return u, ok
	case *ssa.BinOp:
		a, ok1 := evalByte(n.X, bvar, x)
		b, ok2 := evalByte(n.Y, bvar, x)
		if !ok1 || !ok2 {
			return 0, false
		}
		w := width(basicOf(n.X.Type()))
		mask := uint64(1)<<w - 1
		if w == 0 || w >= 64 {
			mask = ^uint64(0)
		}
		switch n.Op {
		case token.AND:
			return a & b, true
		case token.OR:
			return a | b, true
		case token.XOR:
			return a ^ b, true
		case token.SHR:
			return a >> b, true
		case token.SHL:
			return (a << b) & mask, true
		case token.EQL:
			return b2u(a == b), true
		case token.NEQ:
			return b2u(a != b), true
		case token.LSS:
			return b2u(a < b), true
		case token.GTR:
			return b2u(a > b), true
		case token.LEQ:
			return b2u(a <= b), true
		case token.GEQ:
			return b2u(a >= b), true
		}
	case *ssa.UnOp:
		if n.Op == token.NOT {
			a, ok := evalByte(n.X, bvar, x)
			return 1 - a, ok
		}
	case *ssa.Convert:
		return evalByte(n.X, bvar, x)
	case *ssa.ChangeType:
		return evalByte(n.X, bvar, x)
	}
	return 0, false
}

func b2u(b bool) uint64 {
	if b {
		return 1
	}
	return 0
}

// classify walks the If chain from start for header byte x; returns the class reached.
func c13Walk(start *ssa.BasicBlock, bvar ssa.Value, x uint8) string {
	b := start
	for steps := 0; steps < 64; steps++ {
		// does this block contain a dispatch call?
		for _, ins := range b.Instrs {
			if call, ok := ins.(*ssa.Call); ok {
				if f := call.Common().StaticCallee(); f != nil {
					switch f.Name() {
					case "parseDefinitionMessage":
						return "definition"
					case "parseDataMessage":
						if k, ok := call.Common().Args[len(call.Common().Args)-1].(*ssa.Const); ok && k.Value != nil {
							if k.Value.ExactString() == "true" {
								return "compressed"
							}
							return "data"
						}
						return "data?"
					}
				}
			}
		}
		if len(b.Instrs) == 0 {
			return "?"
		}
		switch t := b.Instrs[len(b.Instrs)-1].(type) {
		case *ssa.If:
			v, ok := evalByte(t.Cond, bvar, x)
			if !ok {
				return "undecidable-guard"
			}
			if v != 0 {
				b = b.Succs[0]
			} else {
				b = b.Succs[1]
			}
		case *ssa.Jump:
			b = b.Succs[0]
		case *ssa.Return:
			return "error"
		default:
			return "?"
		}
	}
	return "?"
}

func fitClass(x uint8) string {
	switch {
	case x&0x80 != 0:
		return "compressed"
	case x&0x40 != 0:
		return "definition"
	}
	return "data"
}

func runC13(c *Ctx, r *Report) {
	// the 16 slots start empty for every file: per-file decoder state (perfile.go)
	perFileRule(c, r, "C13-R2-per-file-slots", []string{"defmsgs"}, "a data record of a local type the file never defined is decoded with the previous file's definition instead of being an error")
	// ---- R1: dispatch partition ----------------------------------------------------------
	fn := c.recordDispatchFn()
	if fn == nil {
		r.fail("C13-R1-dispatch", "record-dispatch", "", "the function that dispatches on the record header (the caller of parseDefinitionMessage other than parseFileIdMsg) was not found or is not unique")
		return
	}
	// the header byte: the result of readByte in this function, or a byte parameter that every caller
	// fills with the result of readByte on its error-free edge
	var bvar ssa.Value
	var start *ssa.BasicBlock
	var rb *ssa.Call
	headerRead := func(f *ssa.Function) (*ssa.Call, ssa.Value, *ssa.BasicBlock) {
		var call *ssa.Call
		for _, ci := range allCalls(f) {
			if g := ci.Common().StaticCallee(); g != nil && g.Name() == "readByte" {
				call, _ = ci.(*ssa.Call)
			}
		}
		if call == nil {
			return nil, nil, nil
		}
		var v ssa.Value
		for _, ref := range *call.Referrers() {
			if ex, ok := ref.(*ssa.Extract); ok && ex.Index == 0 {
				v = ex
			}
		}
		var st *ssa.BasicBlock
		if ifi, ok := call.Block().Instrs[len(call.Block().Instrs)-1].(*ssa.If); ok {
			if x, nn, ok := nilTest(ifi.Cond); ok && x != nil {
				st = call.Block().Succs[1]
				if !nn {
					st = call.Block().Succs[0]
				}
			}
		}
		return call, v, st
	}
	rb, bvar, start = headerRead(fn)
	if rb == nil {
		// header passed in as a parameter
		okCallers, nCallers := true, 0
		var param *ssa.Parameter
		for _, p := range fn.Params {
			if bt, ok := p.Type().Underlying().(*types.Basic); ok && bt.Kind() == types.Uint8 {
				param = p
			}
		}
		for _, caller := range c.moduleFuncs() {
			for _, ci := range allCalls(caller) {
				if ci.Common().StaticCallee() != fn {
					continue
				}
				nCallers++
				crb, cv, cst := headerRead(caller)
				okArg := false
				for _, a := range ci.Common().Args {
					if cv != nil && a == cv {
						okArg = true
					}
				}
				if crb == nil || !okArg || cst == nil || !(cst == ci.Block() || cst.Dominates(ci.Block())) {
					okCallers = false
				}
				rb = crb
			}
		}
		if param == nil || !okCallers || nCallers == 0 || len(fn.Blocks) == 0 {
			r.fail("C13-R1-dispatch", fn.Name()+"/readByte", "", "record header is not obtained through readByte (neither here nor, for a header parameter, on the error-free edge in every caller)")
			return
		}
		bvar, start = param, fn.Blocks[0]
	}
	if start == nil || bvar == nil {
		r.undecided("C13-R1-dispatch", fn.Name()+"/shape", c.pos(rb.Pos()), "cannot find the dispatch chain after the header read")
		return
	}
	counts := map[string]int{}
	firstBad := map[string]string{}
	for x := 0; x < 256; x++ {
		got := c13Walk(start, bvar, uint8(x))
		want := fitClass(uint8(x))
		if got == want {
			counts[want]++
		} else if _, ok := firstBad[want]; !ok {
			firstBad[want] = fmt.Sprintf("header byte %#02x (%08b) is a %s header by the FIT layout but is dispatched as %s", x, x, want, got)
		}
	}
	for _, cls := range []string{"compressed", "definition", "data"} {
		exp := map[string]int{"compressed": 128, "definition": 64, "data": 64}[cls]
		if bad, ok := firstBad[cls]; ok {
			r.fail("C13-R1-dispatch", fn.Name()+"/"+cls, c.pos(rb.Pos()), bad)
		} else {
			r.check(counts[cls] == exp, "C13-R1-dispatch", fn.Name()+"/"+cls, c.pos(rb.Pos()), fmt.Sprintf("all %d %s header bytes reach the %s parser", exp, cls, cls), "class count mismatch")
		}
	}
	r.set("header_bytes_evaluated", 256)

	// local-type extraction
	c13Extraction(c, r)
	// parseFileIdMsg guards
	c13FileIDGuards(c, r)
	// ---- R2 ----------------------------------------------------------------------------------
	c13Slots(c, r)
	c13DefinitionUsed(c, r)
	// ---- R3 ----------------------------------------------------------------------------------
	c13Fresh(c, r)
	byteOrderDiscipline(c, r, "C13-R3-byte-order-use")
	c13Immutable(c, r)
	// a record is consumed with exactly the sizes its own definition lists (no pre-computed total, no
	// truncated sum): otherwise the tail of one local type's record is read as headers of others
	c02SkipBySize(c, r)
}

// byteOrderDiscipline: every multi-byte read in the functions that parse a data record uses the byte
// order stored in that record's definition (dm.arch); the package-level le/be and any decoder-level
// flag are not a property of the definition.
func byteOrderDiscipline(c *Ctx, r *Report, rule string) {
	root := c.ssaFn(c.fn(c.fit, "decoder.parseDataMessage"))
	if root == nil {
		r.fail(rule, "parseDataMessage", "", "not found")
		return
	}
	ri := c.reach([]*ssa.Function{root})
	n := 0
	for _, fn := range ri.module() {
		if fnPkgPath(fn) != modPath {
			continue
		}
		idx := 0
		for _, ci := range allCalls(fn) {
			cc := ci.Common()
			name := ""
			var recv ssa.Value
			if cc.IsInvoke() && cc.Value.Type().String() == "encoding/binary.ByteOrder" {
				name, recv = cc.Method.Name(), cc.Value
			} else if f := cc.StaticCallee(); f != nil && f.Pkg != nil && f.Pkg.Pkg.Path() == "encoding/binary" && f.Signature.Recv() != nil {
				name = f.Name()
				if len(cc.Args) > 0 {
					recv = cc.Args[0]
				}
			}
			if !strings.HasPrefix(name, "Uint") && !strings.HasPrefix(name, "PutUint") {
				continue
			}
			n++
			key := fmt.Sprintf("%s/%s#%d", fn.Name(), name, idx)
			idx++
			p := pathOf(recv)
			okR := p == "*dm.arch"
			r.check(okR, rule, key, c.pos(ci.Pos()), "byte order taken from the record's own definition (dm.arch)", "multi-byte read in "+fn.Name()+" uses byte order "+p+" instead of the definition's (dm.arch): redefining another local type, or a big-endian definition, changes how this record decodes")
		}
	}
	r.need("multi-byte reads in the record-parsing functions", n, 15)
	// dm must be the definition loaded for this record: parseDataFields etc. receive dm from parseDataMessage's slot load
	okFlow := false
	for _, ci := range allCalls(root) {
		if f := ci.Common().StaticCallee(); f != nil && f.Name() == "parseDataFields" && len(ci.Common().Args) > 1 {
			if strings.Contains(pathOf(ci.Common().Args[1]), ".defmsgs[") {
				okFlow = true
			}
		}
	}
	r.check(okFlow, rule, "parseDataMessage/dm-flow", c.pos(root.Pos()), "the definition handed to the field parsers is the one loaded from the record's slot", "parseDataFields is not called with the definition loaded from the record's local-type slot")
}

func c13Extraction(c *Ctx, r *Report) {
	maxLocal, _ := c.constInt(c.fit, "maxLocalMesgs")
	fn := c.ssaFn(c.fn(c.fit, "decoder.parseDataMessage"))
	if fn == nil || len(fn.Params) < 3 {
		r.fail("C13-R1-extraction", "parseDataMessage", "", "not found")
		return
	}
	hdr := fn.Params[1]
	// the index used to load from defmsgs
	var idx ssa.Value
	var ia *ssa.IndexAddr
	for _, b := range fn.Blocks {
		for _, ins := range b.Instrs {
			if x, ok := ins.(*ssa.IndexAddr); ok && strings.HasSuffix(pathOf(x.X), ".defmsgs") {
				ia, idx = x, x.Index
			}
		}
	}
	if ia == nil {
		r.fail("C13-R1-extraction", "parseDataMessage/slot-load", "", "no load from the definition slots")
		return
	}
	phi, ok := idx.(*ssa.Phi)
	okShape := false
	detail := "local type is not selected by the compressed flag between (hdr&0x60)>>5 and hdr&0x0F"
	if ok && len(phi.Edges) == 2 {
		var compExpr, normExpr ssa.Value
		for i, e := range phi.Edges {
			p := phi.Block().Preds[i]
			// which edge is the compressed one: p dominated by true edge of If(compressed)
			isComp := domByBoolEdge(fn, p, true, func(v ssa.Value) bool { pp, ok := v.(*ssa.Parameter); return ok && pp.Name() == "compressed" })
			isNorm := domByBoolEdge(fn, p, false, func(v ssa.Value) bool { pp, ok := v.(*ssa.Parameter); return ok && pp.Name() == "compressed" })
			if isComp {
				compExpr = e
			}
			if isNorm {
				normExpr = e
			}
		}
		if compExpr != nil && normExpr != nil {
			okAll := true
			for x := 0; x < 256; x++ {
				cv, ok1 := evalByte(compExpr, hdr, uint8(x))
				nv, ok2 := evalByte(normExpr, hdr, uint8(x))
				if !ok1 || !ok2 || cv != uint64((x&0x60)>>5) || nv != uint64(x&0x0F) || int64(cv) >= maxLocal || int64(nv) >= maxLocal {
					okAll = false
					detail = fmt.Sprintf("for header byte %#02x the extracted local type is %d (compressed) / %d (normal), FIT says %d / %d, slots: %d", x, cv, nv, (x&0x60)>>5, x&0x0F, maxLocal)
					break
				}
			}
			if okAll {
				okShape = true
				detail = fmt.Sprintf("local type = (hdr&0x60)>>5 under compressed, hdr&0x0F otherwise, < %d for all 256 bytes", maxLocal)
			}
		}
	}
	r.check(okShape, "C13-R1-extraction", "parseDataMessage/local-type", c.pos(ia.Pos()), detail, detail)
	// nil check before use
	var ld *ssa.UnOp
	for _, ref := range *ia.Referrers() {
		if u, ok := ref.(*ssa.UnOp); ok {
			ld = u
		}
	}
	okNil := ld != nil
	if okNil {
		nf := c.newNilFacts(fn)
		for _, ref := range *ld.Referrers() {
			switch u := ref.(type) {
			case *ssa.BinOp, *ssa.DebugRef:
			case ssa.Instruction:
				if !nf.knownNonNilAt(ld, u.Block()) {
					okNil = false
				}
			}
		}
		// nil branch returns a non-nil error
		if len(nf.nilRoots[ld]) == 0 {
			okNil = false
		}
		for _, nb := range nf.nilRoots[ld] {
			for _, ret := range c.successReturns(fn) {
				if nb.Dominates(ret.Block()) {
					okNil = false
				}
			}
		}
	}
	r.check(okNil, "C13-R2-slot-discipline", "parseDataMessage/missing-definition", c.pos(ia.Pos()), "a record whose local type has no definition returns an error; the slot is used only on the non-nil edge", "the loaded definition is used without a nil test, or the missing-definition path does not return an error")
}

func c13FileIDGuards(c *Ctx, r *Report) {
	fn := c.ssaFn(c.fn(c.fit, "decoder.parseFileIdMsg"))
	if fn == nil {
		r.fail("C13-R1-fileid-guards", "parseFileIdMsg", "", "not found")
		return
	}
	// each readByte result b is followed by a guard and then a dispatch call
	n := 0
	for _, ci := range allCalls(fn) {
		f := ci.Common().StaticCallee()
		if f == nil || f.Name() != "readByte" {
			continue
		}
		call := ci.(*ssa.Call)
		var bvar ssa.Value
		for _, ref := range *call.Referrers() {
			if ex, ok := ref.(*ssa.Extract); ok && ex.Index == 0 {
				bvar = ex
			}
		}
		var start *ssa.BasicBlock
		if ifi, ok := call.Block().Instrs[len(call.Block().Instrs)-1].(*ssa.If); ok {
			if _, nn, ok := nilTest(ifi.Cond); ok {
				start = call.Block().Succs[1]
				if !nn {
					start = call.Block().Succs[0]
				}
			}
		}
		if start == nil || bvar == nil {
			r.undecided("C13-R1-fileid-guards", fmt.Sprintf("parseFileIdMsg/header-%d", n), c.pos(call.Pos()), "guard chain not found")
			n++
			continue
		}
		admitted := map[string]int{}
		var target string
		for x := 0; x < 256; x++ {
			got := c13Walk(start, bvar, uint8(x))
			if got == "error" {
				continue
			}
			target = got
			admitted[fitClass(uint8(x))]++
		}
		key := fmt.Sprintf("parseFileIdMsg/guard-%s", target)
		total := 0
		for _, v := range admitted {
			total += v
		}
		exact := total == map[string]int{"definition": 64, "data": 64, "compressed": 128}[target] && admitted[target] == total
		detail := fmt.Sprintf("guard before the %s parser admits exactly the %d %s header bytes", target, total, target)
		if !exact {
			detail = fmt.Sprintf("the header test before the %s parser admits %d of 256 byte values: %v by FIT class; bytes of another class are parsed as %s (a vacuous mask test admits everything)", target, total, admitted, target)
		}
		r.check(exact, "C13-R1-fileid-guards", key, c.pos(call.Pos()), detail, detail)
		n++
	}
	r.need("header tests in parseFileIdMsg", n, 2)
}

func c13Slots(c *Ctx, r *Report) {
	nStores := 0
	for _, fn := range c.moduleFuncs() {
		if fnPkgPath(fn) != modPath {
			continue
		}
		idx := 0
		for _, b := range fn.Blocks {
			for _, ins := range b.Instrs {
				st, ok := ins.(*ssa.Store)
				if !ok {
					continue
				}
				if fa, isFA := st.Addr.(*ssa.FieldAddr); isFA && fieldName(fa) == "defmsgs" && !c.isResetStore(st) {
					// the whole table assigned at once while a file is being decoded
					r.fail("C13-R2-slot-discipline", fmt.Sprintf("%s/table-store-%d", fn.Name(), idx), c.pos(st.Pos()), "the whole definition table is assigned in "+fn.Name()+", which runs while a file is being decoded: defining one local type drops the definitions of all the others, whose data records are then rejected (or decoded under nothing)")
					idx++
					continue
				}
				ia, ok := st.Addr.(*ssa.IndexAddr)
				if !ok || !strings.HasSuffix(pathOf(ia.X), ".defmsgs") {
					continue
				}
				nStores++
				key := fmt.Sprintf("%s/store-%d", fn.Name(), idx)
				idx++
				ex, ok := st.Val.(*ssa.Extract)
				var src *ssa.Call
				if ok && ex.Index == 0 {
					src, _ = ex.Tuple.(*ssa.Call)
				}
				okSrc := src != nil && src.Common().StaticCallee() != nil && src.Common().StaticCallee().Name() == "parseDefinitionMessage" && c.errNilDominates(fn, src, b)
				okIdx := okSrc && pathOf(ia.Index) == "*"+pathOf(st.Val)+".localMsgType"
				switch {
				case !okSrc:
					r.fail("C13-R2-slot-discipline", key, c.pos(st.Pos()), "a definition slot is stored with something other than the definition just parsed on its error-free edge")
				case !okIdx:
					r.fail("C13-R2-slot-discipline", key, c.pos(st.Pos()), "the definition is stored under index "+pathOf(ia.Index)+", not under its own local message type: another local type's definition is replaced")
				default:
					r.ok("C13-R2-slot-discipline", key, c.pos(st.Pos()), "defmsgs[dm.localMsgType] = dm for the definition just parsed")
				}
				// exactness: every successfully parsed definition is stored — the store is control dependent,
				// on the error-free part of the flow graph, only on tests of the record header's bits, on
				// comparisons of the parsed definition's message number with a constant (the file_id
				// premise), nil tests and loops. "Store only if it differs / has fields / ..." would leave
				// the previous definition of the local type in force.
				hdrBits := func(v ssa.Value) bool {
					bo, ok := v.(*ssa.BinOp)
					if !ok || (bo.Op != token.EQL && bo.Op != token.NEQ) {
						return false
					}
					x, k := bo.X, bo.Y
					if _, isK := x.(*ssa.Const); isK {
						x, k = k, x
					}
					if _, isK := k.(*ssa.Const); !isK {
						return false
					}
					if and, isAnd := x.(*ssa.BinOp); isAnd && and.Op == token.AND {
						for _, side := range []ssa.Value{and.X, and.Y} {
							switch y := side.(type) {
							case *ssa.Parameter:
								return basicOf(y.Type()) != nil && basicOf(y.Type()).Kind() == types.Uint8
							case *ssa.Extract:
								if call, isC := y.Tuple.(*ssa.Call); isC && call.Common().StaticCallee() != nil && call.Common().StaticCallee().Name() == "readByte" {
									return true
								}
							}
						}
						return false
					}
					// dm.globalMsgNum ==/!= K for the definition being stored
					return strings.HasSuffix(stripAddrs(pathOf(x)), ".globalMsgNum")
				}
				leaf := func(v ssa.Value) bool {
					if _, _, isNil := nilTest(v); isNil {
						return true
					}
					if _, isK := v.(*ssa.Const); isK {
						return true
					}
					return hdrBits(v)
				}
				if extra := extraControllersBy(c, fn, b, true, leaf); extra != "" {
					r.fail("C13-R2-slot-discipline", key+"/exact", c.pos(st.Pos()), "whether a parsed definition is stored also depends on "+extra+": when that fails the local type keeps its previous definition and the data records that follow are interpreted with it")
				} else {
					r.ok("C13-R2-slot-discipline", key+"/exact", c.pos(st.Pos()), "every successfully parsed definition is stored (controlled by header bits, error exits and loops only)")
				}
			}
		}
	}
	r.need("stores into the definition slots", nStores, 2)
	// localMsgType written once, as hdr & 0x0F
	nW := 0
	for _, fn := range c.moduleFuncs() {
		if fnPkgPath(fn) != modPath {
			continue
		}
		for _, b := range fn.Blocks {
			for _, ins := range b.Instrs {
				st, ok := ins.(*ssa.Store)
				if !ok || !strings.HasSuffix(pathOf(st.Addr), ".localMsgType") {
					continue
				}
				nW++
				v := pathOf(st.Val)
				r.check(fn.Name() == "parseDefinitionMessage" && v == "(recordHeader&15)", "C13-R2-slot-discipline", "localMsgType-store@"+fn.Name(), c.pos(st.Pos()), "local type of a definition = header & 0x0F", "the local message type of a definition is set to "+v+" in "+fn.Name())
			}
		}
	}
	r.need("stores to localMsgType", nW, 1)
}

func c13Fresh(c *Ctx, r *Report) {
	fn := c.ssaFn(c.fn(c.fit, "decoder.parseDefinitionMessage"))
	if fn == nil {
		r.fail("C13-R3-independence", "parseDefinitionMessage", "", "not found")
		return
	}
	// every success return returns a pointer to an Alloc of this function
	okFresh := true
	n := 0
	var dmAlloc *ssa.Alloc
	for _, ret := range c.successReturns(fn) {
		n++
		al, ok := ret.Results[0].(*ssa.Alloc)
		if !ok {
			okFresh = false
			continue
		}
		dmAlloc = al
	}
	r.check(okFresh && n > 0, "C13-R3-independence", "parseDefinitionMessage/fresh-definition", c.pos(fn.Pos()), "each parsed definition is a fresh allocation", "a definition returned by parseDefinitionMessage is not a fresh allocation: slots could share state")
	// field lists are fresh makes
	for _, f := range []string{"fieldDefs", "devDataFieldDescs"} {
		ok := true
		cnt := 0
		for _, b := range fn.Blocks {
			for _, ins := range b.Instrs {
				st, isS := ins.(*ssa.Store)
				if !isS || !strings.HasSuffix(pathOf(st.Addr), "."+f) {
					continue
				}
				cnt++
				if !freshSlice(st.Val, 0) {
					ok = false
				}
			}
		}
		r.check(ok && cnt > 0, "C13-R3-independence", "parseDefinitionMessage/"+f, c.pos(fn.Pos()), f+" is a fresh make per definition", f+" of a definition is not a fresh slice (it may alias the scratch buffer or another definition)")
	}
	// arch: two-constant switch with error default
	le0, _ := c.constInt(c.fit, "littleEndian")
	be1, _ := c.constInt(c.fit, "bigEndian")
	leInit, _ := c.varInit(c.fit, "le")
	beInit, _ := c.varInit(c.fit, "be")
	okOrders := leInit != nil && beInit != nil && exprStr(leInit) == "binary.LittleEndian" && exprStr(beInit) == "binary.BigEndian" && len(c.globalWrites(c.fit, "le")) == 0 && len(c.globalWrites(c.fit, "be")) == 0
	r.check(okOrders && le0 == 0 && be1 == 1, "C13-R3-byte-order", "le/be", "", "le = binary.LittleEndian, be = binary.BigEndian, never reassigned; architecture bytes 0 and 1", "the package-level byte orders or the architecture constants are not the FIT ones")
	got := map[int64]string{}
	nArch := 0
	var archVar ssa.Value
	for _, b := range fn.Blocks {
		for _, ins := range b.Instrs {
			st, isS := ins.(*ssa.Store)
			if !isS || !strings.HasSuffix(pathOf(st.Addr), ".arch") {
				continue
			}
			nArch++
			which := ""
			vp := pathOf(st.Val)
			if strings.Contains(vp, "fit.le") {
				which = "le"
			} else if strings.Contains(vp, "fit.be") {
				which = "be"
			}
			// the constant established on the edges into b for the arch byte
			for _, a := range fn.Blocks {
				if len(a.Instrs) == 0 {
					continue
				}
				ifi, ok := a.Instrs[len(a.Instrs)-1].(*ssa.If)
				if !ok {
					continue
				}
				bo, ok := ifi.Cond.(*ssa.BinOp)
				if !ok || bo.Op != token.EQL {
					continue
				}
				k, ok := bo.Y.(*ssa.Const)
				if !ok || k.Value == nil {
					continue
				}
				if ex, ok := bo.X.(*ssa.Extract); ok {
					if call, ok := ex.Tuple.(*ssa.Call); ok && call.Common().StaticCallee() != nil && call.Common().StaticCallee().Name() == "readByte" {
						if len(a.Succs[0].Preds) == 1 && a.Succs[0].Dominates(b) {
							got[k.Int64()] = which
							archVar = bo.X
						}
					}
				}
			}
		}
	}
	okArch := nArch == 2 && got[0] == "le" && got[1] == "be" && len(got) == 2
	// default: every other value returns an error — walk the chain for all 256 values of the arch byte
	okDefault := archVar != nil
	if okDefault {
		var start *ssa.BasicBlock
		if ex, ok := archVar.(*ssa.Extract); ok {
			call := ex.Tuple.(*ssa.Call)
			if ifi, ok := call.Block().Instrs[len(call.Block().Instrs)-1].(*ssa.If); ok {
				if _, nn, ok := nilTest(ifi.Cond); ok {
					start = call.Block().Succs[1]
					if !nn {
						start = call.Block().Succs[0]
					}
				}
			}
		}
		if start == nil {
			okDefault = false
		} else {
			for x := 2; x < 256; x++ {
				b := start
				res := ""
				for steps := 0; steps < 16 && res == ""; steps++ {
					switch t := b.Instrs[len(b.Instrs)-1].(type) {
					case *ssa.If:
						v, ok := evalByte(t.Cond, archVar, uint8(x))
						if !ok {
							res = "continues"
							break
						}
						if v != 0 {
							b = b.Succs[0]
						} else {
							b = b.Succs[1]
						}
					case *ssa.Return:
						res = "error"
					default:
						res = "continues"
					}
				}
				if res != "error" {
					okDefault = false
				}
			}
		}
	}
	if !(okArch && okDefault) {
		// alternative spelling: the order comes from a lookup helper, order, ok := f(archByte), the
		// store is under ok; the helper's path terms give the mapping for every byte value
		if m, okH := c13ArchHelper(c, fn); okH {
			okArch, okDefault = true, true
			got = m
			nArch = 1
		}
	}
	r.check(okArch && okDefault, "C13-R3-byte-order", "parseDefinitionMessage/arch-switch", c.pos(fn.Pos()), "architecture byte 0 -> little endian, 1 -> big endian, every other value is an error; set per definition", fmt.Sprintf("byte order of a definition is not set by the two-constant switch with an error default (stores: %d, mapping: %v, others rejected: %v)", nArch, got, okDefault))
	_ = dmAlloc
}

// freshSlice: the value is a make([]T, n) of this call, or the result of a module function that
// returns, at that position, only such makes (or nil): a helper may build the list.
func freshSlice(v ssa.Value, depth int) bool {
	if depth > 3 {
		return false
	}
	switch n := v.(type) {
	case *ssa.MakeSlice:
		return true
	case *ssa.Const:
		return n.Value == nil
	case *ssa.Phi:
		for _, e := range n.Edges {
			if !freshSlice(e, depth+1) {
				return false
			}
		}
		return true
	case *ssa.Extract:
		call, ok := n.Tuple.(*ssa.Call)
		if !ok {
			return false
		}
		return freshResult(call, n.Index, depth)
	case *ssa.Call:
		return freshResult(n, 0, depth)
	}
	return false
}

func freshResult(call *ssa.Call, idx int, depth int) bool {
	g := call.Common().StaticCallee()
	if g == nil || !strings.HasPrefix(fnPkgPath(g), modPath) || len(g.Blocks) == 0 {
		return false
	}
	n := 0
	for _, b := range g.Blocks {
		if ret, ok := b.Instrs[len(b.Instrs)-1].(*ssa.Return); ok {
			n++
			if idx >= len(ret.Results) || !freshSlice(ret.Results[idx], depth+1) {
				return false
			}
		}
	}
	return n > 0
}

// c13ArchHelper: dm.arch = extract #0 of a call h(archByte) of a loop-free module function whose
// path terms are exactly {arch == 0 -> (le, true); arch == 1 -> (be, true); otherwise -> (_, false)},
// the store (and every success return) being under the true edge of extract #1, and the argument
// being the byte read by readByte on its error-free edge.
func c13ArchHelper(c *Ctx, fn *ssa.Function) (map[int64]string, bool) {
	var st *ssa.Store
	n := 0
	for _, b := range fn.Blocks {
		for _, ins := range b.Instrs {
			if s, ok := ins.(*ssa.Store); ok && strings.HasSuffix(pathOf(s.Addr), ".arch") {
				st = s
				n++
			}
		}
	}
	if n != 1 {
		return nil, false
	}
	ex, ok := st.Val.(*ssa.Extract)
	if !ok || ex.Index != 0 {
		return nil, false
	}
	call, ok := ex.Tuple.(*ssa.Call)
	if !ok || call.Common().StaticCallee() == nil || len(call.Common().Args) != 1 {
		return nil, false
	}
	// argument: readByte result
	ax, ok := call.Common().Args[0].(*ssa.Extract)
	if !ok {
		return nil, false
	}
	rb, ok := ax.Tuple.(*ssa.Call)
	if !ok || rb.Common().StaticCallee() == nil || rb.Common().StaticCallee().Name() != "readByte" {
		return nil, false
	}
	// store and every success return under the ok flag; or, when the helper's second result is an
	// error, every success return behind `err == nil` (the store itself may come before the test:
	// the definition is not handed out on the error path)
	var okFlag ssa.Value
	for _, ref := range *call.Referrers() {
		if e, isE := ref.(*ssa.Extract); isE && e.Index == 1 {
			okFlag = e
		}
	}
	if okFlag == nil {
		return nil, false
	}
	errStyle := isErrorType(okFlag.Type())
	if errStyle {
		nf := c.newNilFacts(fn)
		for _, ret := range c.successReturns(fn) {
			if !nf.knownNilAt(okFlag, ret.Block()) {
				return nil, false
			}
		}
	} else {
		if !domByBoolEdge(fn, st.Block(), true, func(v ssa.Value) bool { return v == okFlag }) {
			return nil, false
		}
		for _, ret := range c.successReturns(fn) {
			if !domByBoolEdge(fn, ret.Block(), true, func(v ssa.Value) bool { return v == okFlag }) {
				return nil, false
			}
		}
	}
	o := symPaths(call.Common().StaticCallee(), nil, 1)
	if o.why != "" {
		return nil, false
	}
	got := map[int64]string{}
	for _, p := range o.paths {
		if len(p.rets) != 2 {
			return nil, false
		}
		okRet, badRet := "true", "false"
		if errStyle {
			okRet = "nil"
			if p.rets[1] != "nil" {
				badRet = p.rets[1]
			}
		}
		switch {
		case p.rets[1] == badRet && badRet != "nil":
			// must be the path on which the byte is neither 0 nor 1
			if strings.Join(p.conds, " ") != "F:(== 0 p0) F:(== 1 p0)" {
				return nil, false
			}
		case p.rets[1] == okRet && p.rets[0] == "(iface *g:le)" && strings.Join(p.conds, " ") == "T:(== 0 p0)":
			got[0] = "le"
		case p.rets[1] == okRet && p.rets[0] == "(iface *g:be)" && (strings.Join(p.conds, " ") == "F:(== 0 p0) T:(== 1 p0)" || strings.Join(p.conds, " ") == "T:(== 1 p0)"):
			got[1] = "be"
		default:
			return nil, false
		}
	}
	return got, len(got) == 2 && len(o.paths) == 3
}

// c13Immutable: a definition is written while it is being parsed and never afterwards: outside the
// function that allocates it, every access to a member of a defmsg — and to what is loaded from
// it: the field list, its elements — is a read. A stored definition that is modified later (its
// field list sorted for a log message, say) changes how the following records of that local type
// decode although no definition record was written.
func c13Immutable(c *Ctx, r *Report) {
	const rule = "C13-R3-definition-immutable"
	dmObj := c.fit.Types.Scope().Lookup("defmsg")
	if dmObj == nil {
		r.fail(rule, "defmsg", "", "type not found")
		return
	}
	n, nOut := 0, 0
	for _, fn := range c.moduleFuncs() {
		if fnPkgPath(fn) != modPath || !inLib(fn) {
			continue
		}
		// the constructor: allocates a defmsg
		ctor := false
		for _, b := range fn.Blocks {
			for _, ins := range b.Instrs {
				if al, ok := ins.(*ssa.Alloc); ok {
					if pt, ok := al.Type().Underlying().(*types.Pointer); ok && types.Identical(pt.Elem(), dmObj.Type()) && al.Heap {
						ctor = true
					}
				}
			}
		}
		k := 0
		for _, b := range fn.Blocks {
			for _, ins := range b.Instrs {
				fa, ok := ins.(*ssa.FieldAddr)
				if !ok {
					continue
				}
				o, fname := ownerOf(fa)
				if o == nil || o.Obj() != dmObj {
					continue
				}
				n++
				if ctor {
					continue
				}
				// a value receiver's spilled copy is the method's own
				if al, ok := fa.X.(*ssa.Alloc); ok && !al.Heap {
					continue
				}
				nOut++
				k++
				bad := mutatingUse(c, fa)
				r.check(bad == "", rule, fmt.Sprintf("%s/defmsg.%s#%d", fn.Name(), fname, k), c.pos(fa.Pos()), "read only", "member "+fname+" of a stored definition is "+bad+" outside the function that parses definitions: records of that local type decode differently afterwards although no new definition was written")
			}
		}
	}
	r.set("defmsg_member_accesses", n)
	r.need("accesses to definition members outside the definition parser", nOut, 10)
}

// mutatingUse: some use of the member address `root` (or of a slice / pointer / map loaded from it)
// can change the structure: an assignment through the address or through an element of the loaded
// list, or handing the address or the list itself to a function or an interface (which may then
// write through it). Scalars loaded from the member may go anywhere.
func mutatingUse(c *Ctx, root ssa.Value) string {
	bad := ""
	isRef := func(t types.Type) bool {
		switch t.Underlying().(type) {
		case *types.Slice, *types.Pointer, *types.Map:
			return true
		}
		return false
	}
	seen := map[ssa.Value]bool{}
	var visit func(v ssa.Value, isAddr bool, depth int)
	visit = func(v ssa.Value, isAddr bool, depth int) {
		if bad != "" || depth > 8 || v.Referrers() == nil || seen[v] {
			return
		}
		seen[v] = true
		for _, ref := range *v.Referrers() {
			if bad != "" {
				return
			}
			switch u := ref.(type) {
			case *ssa.DebugRef:
			case *ssa.Store:
				if u.Addr == v {
					if isAddr {
						bad = "assigned at " + c.pos(u.Pos())
					}
					continue
				}
				// v is the value stored: a local, non-escaping variable holding it is followed; anything else is an alias
				if al, ok := u.Addr.(*ssa.Alloc); ok && !al.Heap {
					visit(al, false, depth+1) // loads of the local give the reference again
					continue
				}
				bad = "stored at " + c.pos(u.Pos()) + " (an alias through which it can be modified later)"
			case *ssa.UnOp:
				if u.Op == token.MUL && u.X == v {
					if isAddr && isRef(u.Type()) {
						visit(u, false, depth+1)
					} else if !isAddr {
						// load of a local holding the reference
						if isRef(u.Type()) {
							visit(u, false, depth+1)
						}
					}
				}
			case *ssa.IndexAddr:
				if u.X == v {
					visit(u, true, depth+1)
				}
			case *ssa.FieldAddr:
				if u.X == v {
					visit(u, true, depth+1)
				}
			case *ssa.Slice:
				if u.X == v {
					visit(u, false, depth+1)
				}
			case *ssa.Index, *ssa.Field, *ssa.BinOp, *ssa.Return, *ssa.If, *ssa.Extract, *ssa.Lookup, *ssa.Range, *ssa.Next, *ssa.Convert, *ssa.ChangeType:
			case *ssa.Phi:
				if !isAddr {
					visit(u, false, depth+1)
				}
			case *ssa.MakeInterface:
				if isAddr || isRef(v.Type()) {
					bad = "boxed into an interface at " + c.pos(u.Pos()) + " (reflect or sort can modify it)"
				}
			case *ssa.MapUpdate:
				if u.Map == v {
					bad = "updated at " + c.pos(u.Pos())
				}
			case ssa.CallInstruction:
				cc := u.Common()
				if bi, ok := cc.Value.(*ssa.Builtin); ok {
					switch bi.Name() {
					case "len", "cap":
						continue
					case "copy":
						if len(cc.Args) == 2 && cc.Args[1] == v && cc.Args[0] != v {
							continue
						}
					}
				}
				if isAddr || isRef(v.Type()) {
					bad = "passed to " + calleeName(cc) + " at " + c.pos(u.Pos())
				}
			default:
				if isAddr || isRef(v.Type()) {
					bad = fmt.Sprintf("used by %T at %s", ref, c.pos(ref.Pos()))
				}
			}
		}
	}
	visit(root, true, 0)
	return bad
}

// c13DefinitionUsed (C13-R2-slot-discipline/definition-used, after wave-11 seed C13-P): the record is
// interpreted with the definition stored in its slot — the value loaded from defmsgs[local type] is
// the very value handed to the field parser, not a copy or a derivative of it.
func c13DefinitionUsed(c *Ctx, r *Report) {
	fn := c.ssaFn(c.fn(c.fit, "decoder.parseDataMessage"))
	if fn == nil {
		r.fail("C13-R2-slot-discipline", "parseDataMessage/definition-used", "", "parseDataMessage not found")
		return
	}
	n := 0
	for _, ci := range allCalls(fn) {
		f := ci.Common().StaticCallee()
		if f == nil || f.Name() != "parseDataFields" {
			continue
		}
		n++
		arg := ci.Common().Args[1]
		ok := false
		why := "the definition handed to parseDataFields is " + stripAddrs(pathOf(arg))
		if ld, isLd := arg.(*ssa.UnOp); isLd && ld.Op == token.MUL {
			if ia, isIA := ld.X.(*ssa.IndexAddr); isIA {
				if fa, isFA := ia.X.(*ssa.FieldAddr); isFA && isFieldOf(fa, "decoder", "defmsgs") {
					ok = true
					why = "parseDataFields gets the slot's own definition"
				}
			}
		}
		r.check(ok, "C13-R2-slot-discipline", fmt.Sprintf("parseDataMessage/definition-used#%d", n), c.pos(ci.Pos()), why, why+", not the value stored in the record's slot: the record is not interpreted with the most recent definition of its local type as it was defined")
	}
	r.need("parseDataFields calls in parseDataMessage", n, 1)
}
