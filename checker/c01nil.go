package main

import (
	"fmt"
	"go/token"
	"go/types"
	"sort"
	"strings"

	"golang.org/x/tools/go/callgraph"
	"golang.org/x/tools/go/ssa"
)

// Nil-safety of the decode path (C01-R2-nil-deref, C01-R2-nil-param). Every dereference of a
// pointer, every method call on an interface value and every call of a function value in the
// functions reachable from the decoding entry points is a site; the value dereferenced must be
// visibly non-nil. The argument is by origin, over the SSA form and the VTA call graph:
//
//   address computations, allocations, make*, boxed values, non-nil constants  : non-nil
//   a value tested against nil on a dominating edge                              : non-nil there
//   a phi                                                                        : every edge non-nil
//   a parameter                 : non-nil at every call site reaching the function on the decode
//                                 path (greatest fixpoint); parameters of the exported entry
//                                 points are the caller's contract (recorded as an assumption)
//   a result of a module call   : non-nil at every return of the callee, or — when the use is on
//                                 the callee's error-free edge — at every return that can carry a
//                                 nil error
//   a load from a struct field  : one of three recognised disciplines
//       init-before-use    all stores to the field are in one function S and store non-nil
//                          values; the using function is reached from the entry points only
//                          through S, and in S every call that reaches the use is dominated
//                          by a store (decoder.r, decoder.crc, decoder.file)
//       set-before-publish every allocation of the struct is followed, on every path to a
//                          success return of the allocating function, by a non-nil store to
//                          the field (defmsg.arch)
//       dedicated rule     logger (C01-R2-logger-nonnil), msgAdder (C01-R2-msgadder-nonnil)
//   a load from an array/slice element, a map lookup : only under a nil test
//
// Anything else is reported with its origin. Nothing is executed.

type nilVerdict struct {
	ok  bool
	why string
}

type nilAn struct {
	c        *Ctx
	cg       *callgraph.Graph
	reach    map[*ssa.Function]bool
	roots    map[*ssa.Function]bool
	rootList []*ssa.Function
	facts    map[*ssa.Function]*nilFacts
	pmemo    map[*ssa.Parameter]*nilVerdict
	pbusy    map[*ssa.Parameter]bool
	rmemo    map[string]*nilVerdict
	rbusy    map[string]bool
	fmemo    map[string]*nilVerdict
	assumed  map[string]bool
	assume   map[ssa.Value]bool // boolean values taken to be true while following one edge of parallel phis
}

// knownTrue: the boolean value g is true at `at`: assumed along the edge being followed, tested on a
// dominating edge, or implied by a dominating `p != 0` where p is a phi all of whose non-zero
// edges come from under g.
func (a *nilAn) knownTrue(g ssa.Value, at *ssa.BasicBlock) bool {
	if a.assume[g] {
		return true
	}
	if at == nil {
		return false
	}
	fn := at.Parent()
	if domByBoolEdge(fn, at, true, func(v ssa.Value) bool { return v == g }) {
		return true
	}
	for _, blk := range fn.Blocks {
		if len(blk.Instrs) == 0 {
			continue
		}
		ifi, ok := blk.Instrs[len(blk.Instrs)-1].(*ssa.If)
		if !ok {
			continue
		}
		bo, ok := ifi.Cond.(*ssa.BinOp)
		if !ok || (bo.Op != token.NEQ && bo.Op != token.EQL) {
			continue
		}
		phi, ok := bo.X.(*ssa.Phi)
		k, ok2 := bo.Y.(*ssa.Const)
		if !ok || !ok2 || k.Value == nil || k.Int64() != 0 {
			continue
		}
		succ := blk.Succs[0]
		if bo.Op == token.EQL {
			succ = blk.Succs[1]
		}
		if len(succ.Preds) != 1 || !succ.Dominates(at) || !phi.Block().Dominates(blk) {
			continue
		}
		all, any := true, false
		for i, e := range phi.Edges {
			if c, isC := e.(*ssa.Const); isC && c.Value != nil && c.Int64() == 0 {
				continue
			}
			any = true
			p := phi.Block().Preds[i]
			if !domByBoolEdge(fn, p, true, func(v ssa.Value) bool { return v == g }) {
				all = false
			}
		}
		if all && any {
			return true
		}
	}
	return false
}

func (a *nilAn) factsOf(fn *ssa.Function) *nilFacts {
	if f, ok := a.facts[fn]; ok {
		return f
	}
	f := a.c.newNilFacts(fn)
	a.facts[fn] = f
	return f
}

func (a *nilAn) nonNil(v ssa.Value, at *ssa.BasicBlock, phis map[*ssa.Phi]bool, depth int) (bool, string) {
	if depth > 14 {
		return false, "origin too deep to follow"
	}
	if at != nil && a.factsOf(at.Parent()).knownNonNilAt(v, at) {
		return true, "tested against nil on every path to this point"
	}
	if at != nil {
		// a nil test of v whose outcome is known here indirectly (flag variable, or a counter that is
		// non-zero only on paths under the test)
		if refs := v.Referrers(); refs != nil {
			for _, ref := range *refs {
				bo, ok := ref.(*ssa.BinOp)
				if !ok || bo.Parent() != at.Parent() {
					continue
				}
				if x, trueIsNonNil, ok := nilTest(bo); ok && x == v && trueIsNonNil && a.knownTrue(bo, at) {
					return true, "tested against nil (through a flag or a value set only under the test) on every path to this point"
				}
			}
		}
	}
	switch x := v.(type) {
	case *ssa.Alloc, *ssa.MakeInterface, *ssa.MakeMap, *ssa.MakeSlice, *ssa.MakeChan, *ssa.MakeClosure, *ssa.FieldAddr, *ssa.IndexAddr, *ssa.Global, *ssa.Function, *ssa.Builtin, *ssa.Slice:
		return true, "an address / allocation / boxed value"
	case *ssa.Const:
		if x.Value == nil {
			if _, isBasic := x.Type().Underlying().(*types.Basic); isBasic {
				return true, "a constant"
			}
			return false, "the nil constant"
		}
		return true, "a constant"
	case *ssa.Parameter:
		vd := a.param(x, depth)
		return vd.ok, vd.why
	case *ssa.FreeVar:
		// the captured variable's cell: bound by MakeClosure to an address
		return true, "the cell of a captured variable"
	case *ssa.ChangeType:
		return a.nonNil(x.X, at, phis, depth+1)
	case *ssa.ChangeInterface:
		return a.nonNil(x.X, at, phis, depth+1)
	case *ssa.Convert:
		return a.nonNil(x.X, at, phis, depth+1)
	case *ssa.Phi:
		if phis[x] {
			return true, "loop-carried"
		}
		if phis == nil {
			phis = map[*ssa.Phi]bool{}
		}
		phis[x] = true
		defer delete(phis, x)
		// a boolean phi of the same block that is known true here selects the edges that can have been taken
		var sel *ssa.Phi
		for _, ins := range x.Block().Instrs {
			g, ok := ins.(*ssa.Phi)
			if !ok {
				break
			}
			if bt, ok := g.Type().Underlying().(*types.Basic); ok && bt.Kind() == types.Bool && at != nil && a.knownTrue(g, at) {
				sel = g
			}
		}
		for i, e := range x.Edges {
			// the edge itself is the non-nil outcome of a nil test of e (`if e == nil {...}` falling through
			// to the merge): the predecessor is the testing block, which its own edge does not dominate
			if p := x.Block().Preds[i]; len(p.Instrs) > 0 && len(p.Succs) == 2 && p.Succs[0] != p.Succs[1] {
				if ifi, isIf := p.Instrs[len(p.Instrs)-1].(*ssa.If); isIf {
					if tv, trueIsNonNil, isT := nilTest(ifi.Cond); isT && tv == e {
						k := 1
						if trueIsNonNil {
							k = 0
						}
						if p.Succs[k] == x.Block() {
							continue
						}
					}
				}
			}
			var extra ssa.Value
			if sel != nil {
				if k, isC := sel.Edges[i].(*ssa.Const); isC && k.Value != nil && k.Value.String() == "false" {
					continue // this edge is excluded by the flag that is known true
				}
				extra = sel.Edges[i]
			}
			if extra != nil && !a.assume[extra] {
				a.assume[extra] = true
				ok, why := a.nonNil(e, x.Block().Preds[i], phis, depth+1)
				delete(a.assume, extra)
				if !ok {
					return false, "on the edge from block " + fmt.Sprint(x.Block().Preds[i].Index) + " it is " + why
				}
				continue
			}
			if ok, why := a.nonNil(e, x.Block().Preds[i], phis, depth+1); !ok {
				return false, "on the edge from block " + fmt.Sprint(x.Block().Preds[i].Index) + " it is " + why
			}
		}
		return true, "non-nil on every incoming edge that can have been taken"
	case *ssa.Call:
		return a.result(x, 0, at, depth)
	case *ssa.Extract:
		if call, ok := x.Tuple.(*ssa.Call); ok {
			return a.result(call, x.Index, at, depth)
		}
		if nx, ok := x.Tuple.(*ssa.Next); ok && x.Index == 2 {
			if rg, ok := nx.Iter.(*ssa.Range); ok {
				if ok, why := a.mapElems(rg.X, depth); ok {
					return true, "a value of the map being ranged over: " + why
				}
				return false, "a value of a map that may hold nil entries"
			}
		}
		return false, "a component of a tuple that is not a call result"
	case *ssa.UnOp:
		if x.Op != token.MUL {
			return false, "an arithmetic result"
		}
		switch addr := x.X.(type) {
		case *ssa.FieldAddr:
			return a.field(addr, x, at, depth)
		case *ssa.IndexAddr:
			if p, ok := addr.X.(*ssa.Parameter); ok {
				if root, ok := a.entryParam(p, 0); ok {
					a.assumed[root+"[i]"] = true
					return true, "an element of the entry point's parameter " + root + " (the caller's contract)"
				}
			}
			if ld, ok := addr.X.(*ssa.UnOp); ok && ld.Op == token.MUL {
				if g, ok := ld.X.(*ssa.Global); ok && g.Name() == "newMesgFuncs" {
					return true, "an entry of the constructor table, indexed only with a known message number, every one of which has a non-nil entry (C01-R2-known-before-ctor, C15-1-ctor)"
				}
			}
			if g, ok := addr.X.(*ssa.Global); ok && g.Name() == "newMesgFuncs" {
				return true, "an entry of the constructor table, indexed only with a known message number, every one of which has a non-nil entry (C01-R2-known-before-ctor, C15-1-ctor)"
			}
			if ok, why := a.sliceElems(addr.X, depth); ok {
				return true, "an element of " + stripAddrs(pathOf(addr.X)) + ": " + why
			}
			return false, "loaded from an element of " + stripAddrs(pathOf(addr.X)) + " (elements may be nil) without a nil test"
		case *ssa.Global:
			if ok, why := a.global(addr, depth); ok {
				return ok, why
			}
			return a.memGlobal(addr, x, depth)
		case *ssa.Alloc:
			return a.cell(addr, x, depth)
		case *ssa.FreeVar:
			return a.captured(addr, depth)
		}
		return false, "loaded through " + stripAddrs(pathOf(x.X))
	case *ssa.Lookup:
		return false, "a map lookup result (nil for a missing key) without a nil test"
	case *ssa.TypeAssert:
		return false, "a type assertion result"
	}
	return false, fmt.Sprintf("a %T", v)
}

// entryParam: p is a parameter of an entry point, or of a helper every call site of which (on the
// decode path) passes such a parameter on unchanged.
func (a *nilAn) entryParam(p *ssa.Parameter, depth int) (string, bool) {
	fn := p.Parent()
	if a.roots[fn] {
		return fn.Name() + "(" + p.Name() + ")", true
	}
	if depth > 3 {
		return "", false
	}
	idx := -1
	for i, q := range fn.Params {
		if q == p {
			idx = i
		}
	}
	node := a.cg.Nodes[fn]
	if node == nil {
		return "", false
	}
	name := ""
	for _, e := range node.In {
		if e.Caller.Func == nil || !a.reach[e.Caller.Func] || e.Site == nil {
			continue
		}
		cc := e.Site.Common()
		if cc.StaticCallee() != fn || idx >= len(cc.Args) {
			return "", false
		}
		q, ok := cc.Args[idx].(*ssa.Parameter)
		if !ok {
			return "", false
		}
		n, ok := a.entryParam(q, depth+1)
		if !ok {
			return "", false
		}
		name = n
	}
	return name, name != ""
}

// cell: a pointer kept in a local cell: every store to the cell in the function (and its closures) is non-nil
// and one of them dominates the load.
func (a *nilAn) cell(al *ssa.Alloc, load *ssa.UnOp, depth int) (bool, string) {
	fn := al.Parent()
	dom := false
	n := 0
	var all []*ssa.Function
	all = append(all, fn)
	all = append(all, fn.AnonFuncs...)
	for _, g := range all {
		for _, b := range g.Blocks {
			for _, ins := range b.Instrs {
				st, ok := ins.(*ssa.Store)
				if !ok || st.Addr != ssa.Value(al) {
					continue
				}
				n++
				if ok, why := a.nonNil(st.Val, b, nil, depth+1); !ok {
					return false, "kept in a local variable that is assigned " + why
				}
				if g == fn && instrDominates(st, load) {
					dom = true
				}
			}
		}
	}
	if n > 0 && dom {
		return true, "kept in a local variable every assignment of which is non-nil"
	}
	return a.memLoc(al, load, depth)
}

// boundTo: the value a closure's free variable is bound to where the closure is created (the same
// at every creation site, or nil).
func (a *nilAn) boundTo(cl *ssa.Function, fv *ssa.FreeVar) ssa.Value {
	idx := -1
	for i, f := range cl.FreeVars {
		if f == fv {
			idx = i
		}
	}
	par := cl.Parent()
	if idx < 0 || par == nil {
		return nil
	}
	var out ssa.Value
	for _, b := range par.Blocks {
		for _, ins := range b.Instrs {
			if mc, ok := ins.(*ssa.MakeClosure); ok && mc.Fn == ssa.Value(cl) && idx < len(mc.Bindings) {
				if out != nil && out != mc.Bindings[idx] {
					return nil
				}
				out = mc.Bindings[idx]
			}
		}
	}
	return out
}

// captured: a load of a captured variable inside a closure: the variable is non-nil where the
// closure is created, every assignment to it anywhere stores a non-nil value, and the closure
// itself does not assign it.
func (a *nilAn) captured(fv *ssa.FreeVar, depth int) (bool, string) {
	cl := fv.Parent()
	cellV := a.boundTo(cl, fv)
	cell, ok := cellV.(*ssa.Alloc)
	if !ok {
		return false, "loaded from a captured variable whose binding is not a local of the enclosing function"
	}
	all := append([]*ssa.Function{cell.Parent()}, cell.Parent().AnonFuncs...)
	for _, g := range all {
		for _, b := range g.Blocks {
			for _, ins := range b.Instrs {
				st, ok := ins.(*ssa.Store)
				if !ok {
					continue
				}
				target := st.Addr
				if f2, isFV := target.(*ssa.FreeVar); isFV {
					target = a.boundTo(g, f2)
				}
				if target != ssa.Value(cell) {
					continue
				}
				if ok, why := a.nonNil(st.Val, b, nil, depth+1); !ok {
					return false, "loaded from the captured variable " + cell.Comment + ", which is assigned " + why
				}
			}
		}
	}
	par := cell.Parent()
	for _, b := range par.Blocks {
		for _, ins := range b.Instrs {
			if mc, ok := ins.(*ssa.MakeClosure); ok && mc.Fn == ssa.Value(cl) {
				if ok, why := a.memLoc(cell, mc, depth+1); !ok {
					return false, "loaded from the captured variable " + cell.Comment + ": where the closure is created it is " + why
				}
			}
		}
	}
	return true, "loaded from the captured variable " + cell.Comment + " (non-nil where the closure is created; only ever assigned non-nil values)"
}

func (a *nilAn) global(g *ssa.Global, depth int) (bool, string) {
	key := "global:" + g.String()
	if vd, ok := a.fmemo[key]; ok {
		return vd.ok, vd.why
	}
	vd := &nilVerdict{}
	a.fmemo[key] = vd
	if g.Pkg == nil || !strings.HasPrefix(g.Pkg.Pkg.Path(), modPath) {
		vd.ok, vd.why = false, "a package-level variable of another module"
		if g.Pkg != nil && g.Pkg.Pkg.Path() == "time" && (g.Name() == "UTC" || g.Name() == "Local") {
			vd.ok, vd.why = true, "time."+g.Name()
		}
		return vd.ok, vd.why
	}
	n := 0
	for _, fn := range a.c.moduleFuncs() {
		for _, b := range fn.Blocks {
			for _, ins := range b.Instrs {
				st, ok := ins.(*ssa.Store)
				if !ok || st.Addr != ssa.Value(g) {
					continue
				}
				n++
				if fn.Name() != "init" {
					vd.ok, vd.why = false, "the package-level variable "+g.Name()+", which "+fn.Name()+" reassigns"
					return vd.ok, vd.why
				}
				if ok, why := a.nonNil(st.Val, b, nil, depth+1); !ok {
					vd.ok, vd.why = false, "the package-level variable "+g.Name()+", initialised with "+why
					return vd.ok, vd.why
				}
			}
		}
	}
	if n == 0 {
		vd.ok, vd.why = false, "the package-level variable "+g.Name()+", which is never initialised"
		return vd.ok, vd.why
	}
	vd.ok, vd.why = true, "the package-level variable "+g.Name()+" (initialised non-nil, never reassigned)"
	return vd.ok, vd.why
}

func (a *nilAn) param(p *ssa.Parameter, depth int) *nilVerdict {
	if vd, ok := a.pmemo[p]; ok {
		return vd
	}
	if a.pbusy[p] {
		return &nilVerdict{true, "recursive"}
	}
	a.pbusy[p] = true
	defer delete(a.pbusy, p)
	fn := p.Parent()
	idx := -1
	for i, q := range fn.Params {
		if q == p {
			idx = i
		}
	}
	vd := &nilVerdict{ok: true}
	done := func() *nilVerdict {
		a.pmemo[p] = vd
		return vd
	}
	if a.roots[fn] {
		a.assumed[fn.Name()+"("+p.Name()+")"] = true
		vd.why = "a parameter of the entry point " + fn.Name() + " (the caller's contract)"
		return done()
	}
	node := a.cg.Nodes[fn]
	sites := 0
	if node != nil {
		for _, e := range node.In {
			caller := e.Caller.Func
			if caller == nil || !a.reach[caller] || e.Site == nil {
				continue
			}
			cc := e.Site.Common()
			var arg ssa.Value
			switch {
			case cc.IsInvoke():
				if idx == 0 {
					// the receiver is the dynamic value of the interface: every boxing of this type in the module
					if ok, why := a.boxed(p.Type(), depth); !ok {
						vd.ok, vd.why = false, why
						return done()
					}
					sites++
					continue
				}
				if idx-1 < len(cc.Args) {
					arg = cc.Args[idx-1]
				}
			case cc.StaticCallee() == fn:
				if idx < len(cc.Args) {
					arg = cc.Args[idx]
				}
			default:
				// call through a function value: arguments align with the parameters after the free variables
				if idx < len(cc.Args) {
					arg = cc.Args[idx]
				}
			}
			if arg == nil {
				vd.ok, vd.why = false, "passed in a way this analysis does not follow at "+a.c.pos(e.Site.Pos())
				return done()
			}
			sites++
			if ok, why := a.nonNil(arg, e.Site.Block(), nil, depth+1); !ok {
				vd.ok, vd.why = false, fmt.Sprintf("parameter %s of %s, which the call at %s passes as %s", p.Name(), fn.Name(), a.c.pos(e.Site.Pos()), why)
				return done()
			}
		}
	}
	if sites == 0 {
		// only reachable through edges outside the decode path (or an anonymous function called in place)
		if fn.Parent() != nil {
			vd.why = "parameter of a function literal"
			return done()
		}
		vd.ok, vd.why = false, "parameter "+p.Name()+" of "+fn.Name()+", for which no call site on the decode path was found"
		return done()
	}
	vd.why = fmt.Sprintf("parameter %s of %s, non-nil at each of the %d call sites on the decode path", p.Name(), fn.Name(), sites)
	return done()
}

// boxed: every conversion of a value of type t to an interface, anywhere in the module, boxes a non-nil value.
func (a *nilAn) boxed(t types.Type, depth int) (bool, string) {
	key := "boxed:" + t.String()
	if vd, ok := a.fmemo[key]; ok {
		return vd.ok, vd.why
	}
	vd := &nilVerdict{ok: true, why: "boxed non-nil everywhere"}
	a.fmemo[key] = vd
	for _, fn := range a.c.moduleFuncs() {
		for _, b := range fn.Blocks {
			for _, ins := range b.Instrs {
				mi, ok := ins.(*ssa.MakeInterface)
				if !ok || !types.Identical(mi.X.Type(), t) {
					continue
				}
				if ok, why := a.nonNil(mi.X, b, nil, depth+1); !ok {
					vd.ok, vd.why = false, fmt.Sprintf("a %s boxed into an interface at %s as %s", t, a.c.pos(mi.Pos()), why)
					return vd.ok, vd.why
				}
			}
		}
	}
	return vd.ok, vd.why
}

var nilStdlibNonNil = map[string]bool{
	"time.FixedZone": true, "errors.New": true, "fmt.Errorf": true, "reflect.TypeOf": false,
	"bytes.NewReader": true, "bytes.NewBuffer": true, "bufio.NewReader": true, "bufio.NewReaderSize": true,
}

func (a *nilAn) result(call *ssa.Call, idx int, at *ssa.BasicBlock, depth int) (bool, string) {
	cc := call.Common()
	callee := cc.StaticCallee()
	if callee == nil {
		return false, "the result of a dynamic call"
	}
	if _, isPtrLike := call.Type().Underlying().(*types.Basic); isPtrLike {
		return true, "not a pointer"
	}
	if callee.Name() == "getFieldBySindex" && fnPkgPath(callee) == modPath {
		return true, "the row getFieldBySindex finds: every struct index of every hosted message has a lookup row, so the nil fall-back entry is never returned (C15-2-bijection; C07-R2-panic-sites label nil-field)"
	}
	if !strings.HasPrefix(fnPkgPath(callee), modPath) || len(callee.Blocks) == 0 {
		if nilStdlibNonNil[callee.String()] {
			return true, "the result of " + callee.String() + " (never nil)"
		}
		return false, "the result of " + callee.String() + " (not known to be non-nil)"
	}
	res := callee.Signature.Results()
	onSuccess := false
	if res.Len() > 1 && isErrorType(res.At(res.Len()-1).Type()) && idx != res.Len()-1 && at != nil {
		if refs := call.Referrers(); refs != nil {
			for _, ref := range *refs {
				if ex, ok := ref.(*ssa.Extract); ok && ex.Index == res.Len()-1 && a.factsOf(at.Parent()).knownNilAt(ex, at) {
					onSuccess = true
				}
			}
		}
	}
	// (value, ok) results: the use is under the ok flag
	found := false
	if res.Len() > 1 && idx != res.Len()-1 {
		if bt, ok := res.At(res.Len() - 1).Type().Underlying().(*types.Basic); ok && bt.Kind() == types.Bool {
			if refs := call.Referrers(); refs != nil {
				for _, ref := range *refs {
					if ex, ok := ref.(*ssa.Extract); ok && ex.Index == res.Len()-1 && a.knownTrue(ex, at) {
						found = true
					}
				}
			}
		}
	}
	key := fmt.Sprintf("%s#%d/%v/%v", callee.String(), idx, onSuccess, found)
	if vd, ok := a.rmemo[key]; ok {
		return vd.ok, vd.why
	}
	if a.rbusy[key] {
		return true, "recursive"
	}
	a.rbusy[key] = true
	defer delete(a.rbusy, key)
	vd := &nilVerdict{ok: true}
	a.rmemo[key] = vd
	cf := a.factsOf(callee)
	nRet := 0
	for _, b := range callee.Blocks {
		if len(b.Instrs) == 0 || b == callee.Recover {
			continue
		}
		ret, ok := b.Instrs[len(b.Instrs)-1].(*ssa.Return)
		if !ok || idx >= len(ret.Results) {
			continue
		}
		if onSuccess && cf.nonNil(resolveSpill(ret.Results[len(ret.Results)-1]), b, 0) {
			continue // this return carries an error: the use is not reached
		}
		if found {
			if k, isC := resolveSpill(ret.Results[len(ret.Results)-1]).(*ssa.Const); isC && k.Value != nil && k.Value.String() == "false" {
				continue // this return says "not found": the use is under the flag
			}
		}
		nRet++
		if ok, why := a.nonNil(resolveSpill(ret.Results[idx]), b, nil, depth+1); !ok {
			vd.ok = false
			vd.why = fmt.Sprintf("the result of %s, whose return at %s yields %s", callee.Name(), a.c.pos(ret.Pos()), why)
			if onSuccess {
				vd.why += " with a nil error"
			}
			return vd.ok, vd.why
		}
	}
	if found {
		vd.why = fmt.Sprintf("the result of %s under its ok flag (%d return(s) with the flag not false, each non-nil)", callee.Name(), nRet)
	} else if onSuccess {
		vd.why = fmt.Sprintf("the result of %s on its error-free edge (%d success return(s), each non-nil)", callee.Name(), nRet)
	} else {
		vd.why = fmt.Sprintf("the result of %s (%d return(s), each non-nil)", callee.Name(), nRet)
	}
	return vd.ok, vd.why
}

var nilDedicated = map[string]string{
	"decodeOptions.logger": "C01-R2-logger-nonnil (Logger calls only under d.debug, which is set only under logger != nil)",
	"File.msgAdder":        "C01-R2-msgadder-nonnil (add is reached only after File.init stored a container)",
}

func ownerOf(fa *ssa.FieldAddr) (*types.Named, string) {
	pt, ok := fa.X.Type().Underlying().(*types.Pointer)
	if !ok {
		return nil, ""
	}
	n, _ := pt.Elem().(*types.Named)
	return n, fieldName(fa)
}

func (a *nilAn) field(fa *ssa.FieldAddr, load *ssa.UnOp, at *ssa.BasicBlock, depth int) (bool, string) {
	owner, fname := ownerOf(fa)
	if owner == nil {
		return false, "loaded from a field of an unnamed struct"
	}
	name := owner.Obj().Name() + "." + fname
	if ref, ok := nilDedicated[name]; ok {
		return true, "the field " + name + ": " + ref
	}
	if owner.Obj().Name() == "File" {
		// the typed containers: File.init / NewFile store the one that belongs to the file's type, and the
		// accessor that returns it tests that type first (C03-4-init, C03-5-accessor); a File built any
		// other way is outside the contract of Encode
		if st, ok := owner.Underlying().(*types.Struct); ok && fa.Field < st.NumFields() {
			if pt, ok := st.Field(fa.Field).Type().(*types.Pointer); ok {
				if n, ok := pt.Elem().(*types.Named); ok {
					for _, ct := range a.c.containers() {
						if ct == n {
							return true, "the container member " + name + ", stored by File.init / NewFile for exactly the file type its accessor tests (C03-4-init, C03-5-accessor)"
						}
					}
				}
			}
		}
	}
	// stores to the field anywhere in the module
	var stores []*ssa.Store
	for _, fn := range a.c.moduleFuncs() {
		for _, b := range fn.Blocks {
			for _, ins := range b.Instrs {
				st, ok := ins.(*ssa.Store)
				if !ok {
					continue
				}
				fa2, ok := st.Addr.(*ssa.FieldAddr)
				if !ok || fa2.Field != fa.Field {
					continue
				}
				if o2, _ := ownerOf(fa2); o2 != owner {
					continue
				}
				if a.c.isResetStore(st) {
					continue
				}
				stores = append(stores, st)
			}
		}
	}
	if len(stores) == 0 {
		return false, "loaded from " + name + ", which nothing ever assigns"
	}
	lateStores := false
	for _, st := range stores {
		if ok, why := a.nonNil(st.Val, st.Block(), nil, depth+1); !ok {
			// a value that is only known good once the call it came from has been checked (x.f, err = g();
			// if err != nil { return err }): judged at the success returns of the storing function, which
			// is where the object is handed out
			okLate := false
			if rets := a.c.successReturns(st.Parent()); len(rets) > 0 && st.Parent().Signature.Results().Len() > 0 {
				okLate = true
				for _, ret := range rets {
					if ok2, _ := a.nonNil(st.Val, ret.Block(), nil, depth+1); !ok2 {
						okLate = false
					}
				}
			}
			if !okLate {
				return false, fmt.Sprintf("loaded from %s, which is assigned %s at %s", name, why, a.c.pos(st.Pos()))
			}
			lateStores = true
		}
	}
	useFn := load.Parent()
	// init-before-use: all stores in one function S
	S := stores[0].Parent()
	same := true
	for _, st := range stores {
		if st.Parent() != S {
			same = false
		}
	}
	allocsOwner := false
	for _, b := range S.Blocks {
		for _, ins := range b.Instrs {
			if al, ok := ins.(*ssa.Alloc); ok {
				if pt, _ := al.Type().Underlying().(*types.Pointer); pt != nil && types.Identical(pt.Elem(), owner) {
					allocsOwner = true
				}
			}
		}
	}
	if same && !allocsOwner {
		if lateStores {
			return false, "loaded from " + name + ", which is assigned a value that is only checked afterwards while the object is already in use"
		}
		ok, why := a.initBeforeUse(S, stores, useFn, load)
		return ok, "loaded from " + name + ": " + why
	}
	// set-before-publish
	if al, ok := fa.X.(*ssa.Alloc); ok {
		// a use in the allocating function itself: no path from the allocation to here avoids the assignment
		barrier := map[ssa.Instruction]bool{}
		for _, st := range stores {
			if fa2, ok := st.Addr.(*ssa.FieldAddr); ok && fa2.X == ssa.Value(al) {
				barrier[st] = true
			}
		}
		if reachableWithoutBarrierTo(al, load, barrier) {
			return false, "loaded from " + name + " of the object allocated at " + a.c.pos(al.Pos()) + " on a path that has not assigned it yet"
		}
		if lateStores {
			for _, st := range stores {
				if fa2, ok := st.Addr.(*ssa.FieldAddr); ok && fa2.X == ssa.Value(al) {
					if ok2, why := a.nonNil(st.Val, load.Block(), nil, depth+1); !ok2 {
						return false, "loaded from " + name + " where the value assigned at " + a.c.pos(st.Pos()) + " may still be " + why
					}
				}
			}
		}
		return true, "loaded from " + name + " after its assignment on every path from the allocation"
	}
	ok, why := a.setBeforePublish(owner, fa.Field, name)
	return ok, "loaded from " + name + ": " + why
}

// memGlobal: the pointer kept in a package-level variable that is (re)assigned at run time: walk
// back from the load over every path — a store of a non-nil value settles the path, an earlier
// load of the same variable that the path's edge tested against nil settles it, a call that can
// store to the variable or the function entry leaves it open.
func (a *nilAn) memGlobal(g *ssa.Global, load *ssa.UnOp, depth int) (bool, string) {
	return a.memLoc(g, load, depth)
}

// memLoc: the same walk for a package-level variable or a local cell (a variable captured by a
// closure or otherwise kept in memory). `load` is the instruction at which the value is needed (it
// need not be a load: a MakeClosure that captures the cell is judged at its own position).
func (a *nilAn) memLoc(g ssa.Value, load ssa.Instruction, depth int) (bool, string) {
	gname := "the package-level variable " + g.Name()
	writers := map[*ssa.Function]bool{}
	cell, isCell := g.(*ssa.Alloc)
	if isCell {
		gname = "the local variable " + cell.Comment
		// closures of the function that store to the cell through their free variable
		for _, cl := range cell.Parent().AnonFuncs {
			for _, b := range cl.Blocks {
				for _, ins := range b.Instrs {
					if st, ok := ins.(*ssa.Store); ok {
						if fv, ok := st.Addr.(*ssa.FreeVar); ok && a.boundTo(cl, fv) == ssa.Value(cell) {
							writers[cl] = true
						}
					}
				}
			}
		}
	} else {
		for _, fn := range a.c.moduleFuncs() {
			for _, b := range fn.Blocks {
				for _, ins := range b.Instrs {
					if st, ok := ins.(*ssa.Store); ok && st.Addr == g {
						writers[fn] = true
					}
				}
			}
		}
	}
	mayWrite := func(ci ssa.CallInstruction) bool {
		if len(writers) == 0 {
			return false
		}
		f := ci.Common().StaticCallee()
		if f == nil {
			return true
		}
		for w := range writers {
			if f == w || a.reaches(f, w, nil) {
				return true
			}
		}
		return false
	}
	type st struct {
		b      *ssa.BasicBlock
		nonnil ssa.Value
	}
	memo := map[*ssa.BasicBlock]int{}
	why := ""
	var back func(b *ssa.BasicBlock, from int, tested map[ssa.Value]bool) bool
	back = func(b *ssa.BasicBlock, from int, tested map[ssa.Value]bool) bool {
		for i := from; i >= 0; i-- {
			switch n := b.Instrs[i].(type) {
			case *ssa.Alloc:
				if ssa.Value(n) == g {
					why = "still holding its zero value on a path from its declaration"
					return false
				}
			case *ssa.Store:
				if n.Addr == g {
					ok, w := a.nonNil(n.Val, b, nil, depth+1)
					if !ok {
						why = "assigned " + w + " at " + a.c.pos(n.Pos())
					}
					return ok
				}
			case *ssa.UnOp:
				if n.Op == token.MUL && n.X == g && tested[n] {
					return true
				}
			case ssa.CallInstruction:
				if mayWrite(n) {
					why = "possibly changed by the call at " + a.c.pos(n.Pos())
					return false
				}
			}
		}
		if len(b.Preds) == 0 {
			why = "still holding its zero value on a path from the function's entry"
			return false
		}
		if len(tested) == 0 {
			if v, ok := memo[b]; ok {
				return v != 2
			}
			memo[b] = 1
		}
		for _, p := range b.Preds {
			t2 := map[ssa.Value]bool{}
			for k := range tested {
				t2[k] = true
			}
			if ifi, ok := p.Instrs[len(p.Instrs)-1].(*ssa.If); ok {
				if x, trueIsNonNil, ok := nilTest(ifi.Cond); ok {
					if (p.Succs[0] == b && trueIsNonNil && p.Succs[1] != b) || (p.Succs[1] == b && !trueIsNonNil && p.Succs[0] != b) {
						t2[x] = true
					}
				}
			}
			if !back(p, len(p.Instrs)-1, t2) {
				if len(tested) == 0 {
					memo[b] = 2
				}
				return false
			}
		}
		return true
	}
	if back(load.Block(), instrIndex(load)-1, map[ssa.Value]bool{}) {
		return true, gname + ", assigned non-nil or tested against nil on every path to this point"
	}
	return false, gname + ", " + why
}

func reachableWithoutBarrierTo(from ssa.Instruction, to ssa.Instruction, barrier map[ssa.Instruction]bool) bool {
	fb, tb := from.Block(), to.Block()
	upTo := func(b *ssa.BasicBlock, s, e int) bool { // barrier in b.Instrs[s:e]
		for i := s; i < e && i < len(b.Instrs); i++ {
			if barrier[b.Instrs[i]] {
				return true
			}
		}
		return false
	}
	if fb == tb && instrIndex(from) < instrIndex(to) {
		if !upTo(fb, instrIndex(from)+1, instrIndex(to)) {
			return true
		}
	}
	if upTo(fb, instrIndex(from)+1, len(fb.Instrs)) {
		return false
	}
	seen := map[*ssa.BasicBlock]bool{}
	q := append([]*ssa.BasicBlock(nil), fb.Succs...)
	for len(q) > 0 {
		b := q[0]
		q = q[1:]
		if seen[b] {
			continue
		}
		seen[b] = true
		if b == tb {
			if !upTo(b, 0, instrIndex(to)) {
				return true
			}
			continue
		}
		if upTo(b, 0, len(b.Instrs)) {
			continue
		}
		q = append(q, b.Succs...)
	}
	return false
}

func (a *nilAn) reaches(from, to, without *ssa.Function) bool {
	seen := map[*ssa.Function]bool{}
	q := []*ssa.Function{from}
	for len(q) > 0 {
		f := q[0]
		q = q[1:]
		if seen[f] || f == without {
			continue
		}
		seen[f] = true
		if f == to {
			return true
		}
		if n := a.cg.Nodes[f]; n != nil {
			for _, e := range n.Out {
				q = append(q, e.Callee.Func)
			}
		}
		q = append(q, f.AnonFuncs...)
	}
	return false
}

func (a *nilAn) initBeforeUse(S *ssa.Function, stores []*ssa.Store, useFn *ssa.Function, use ssa.Instruction) (bool, string) {
	var est []ssa.Instruction
	for _, st := range stores {
		est = append(est, st)
	}
	cur := S
	why := ""
	for level := 0; level < 4; level++ {
		ok, w := a.initBeforeUseAt(cur, est, useFn, use)
		if ok {
			return true, w
		}
		if why == "" {
			why = w
		}
		// lift to the callers: a call of cur establishes the field on its error-free edge when every success
		// return of cur comes after an establishing instruction
		if !a.establishesOnSuccess(cur, est) {
			break
		}
		var callers []ssa.Instruction
		var C *ssa.Function
		same := true
		for _, g := range a.c.moduleFuncs() {
			if !a.reach[g] {
				continue
			}
			for _, ci := range allCalls(g) {
				if ci.Common().StaticCallee() == cur {
					if C != nil && C != g {
						same = false
					}
					C = g
					callers = append(callers, ci)
				}
			}
		}
		if C == nil || !same || C == cur {
			break
		}
		cur, est = C, callers
	}
	return false, why
}

// estDominates: an establishing instruction (a store, or a call that establishes on its error-free edge) precedes ins.
func (a *nilAn) estDominates(est []ssa.Instruction, ins ssa.Instruction) bool {
	for _, e := range est {
		if !instrDominates(e, ins) {
			continue
		}
		call, isCall := e.(*ssa.Call)
		if !isCall {
			return true
		}
		res := call.Common().Signature().Results()
		if res.Len() == 0 || !isErrorType(res.At(res.Len()-1).Type()) {
			return true
		}
		var errV ssa.Value = call
		if res.Len() > 1 {
			errV = nil
			for _, ref := range *call.Referrers() {
				if ex, ok := ref.(*ssa.Extract); ok && ex.Index == res.Len()-1 {
					errV = ex
				}
			}
		}
		if errV != nil && a.factsOf(ins.Parent()).knownNilAt(errV, ins.Block()) {
			return true
		}
	}
	return false
}

func (a *nilAn) establishesOnSuccess(fn *ssa.Function, est []ssa.Instruction) bool {
	rets := a.c.successReturns(fn)
	if len(rets) == 0 {
		return false
	}
	for _, ret := range rets {
		if !a.estDominates(est, ret) {
			return false
		}
	}
	return true
}

func (a *nilAn) initBeforeUseAt(S *ssa.Function, est []ssa.Instruction, useFn *ssa.Function, use ssa.Instruction) (bool, string) {
	domBy := func(ins ssa.Instruction) bool { return a.estDominates(est, ins) }
	top := useFn
	for top.Parent() != nil {
		top = top.Parent()
	}
	if top == S {
		if useFn == S {
			if domBy(use) {
				return true, "assigned non-nil in " + S.Name() + " before this use"
			}
			return false, "this use in " + S.Name() + " is not preceded on every path by the assignment"
		}
		// a closure of S: the instruction that creates it must come after the store
		for _, b := range S.Blocks {
			for _, ins := range b.Instrs {
				if mc, ok := ins.(*ssa.MakeClosure); ok && mc.Fn == ssa.Value(useFn) && !domBy(mc) {
					return false, "used in a function literal of " + S.Name() + " created before the assignment"
				}
			}
		}
		return true, "assigned non-nil in " + S.Name() + " before the function literal that uses it is created"
	}
	// a caller of S that uses the field after S returned without error: the assignment precedes every success return of S
	for _, ci := range allCalls(useFn) {
		call, ok := ci.(*ssa.Call)
		if !ok || call.Common().StaticCallee() != S {
			continue
		}
		if a.establishesOnSuccess(S, est) && a.estDominates([]ssa.Instruction{call}, use) {
			return true, "used after " + S.Name() + " returned without error, and every success return of " + S.Name() + " comes after the assignment"
		}
	}
	for _, root := range a.rootList {
		if root != S && a.reaches(root, top, S) {
			return false, fmt.Sprintf("%s is reached from %s without passing through %s, the function that assigns the field", top.Name(), root.Name(), S.Name())
		}
	}
	var early []string
	if n := a.cg.Nodes[S]; n != nil {
		for _, e := range n.Out {
			if e.Site == nil || !a.reaches(e.Callee.Func, top, nil) {
				continue
			}
			isEst := false
			for _, x := range est {
				if x == ssa.Instruction(e.Site) {
					isEst = true
				}
			}
			if !isEst && !domBy(e.Site) {
				early = append(early, a.c.pos(e.Site.Pos()))
			}
		}
	}
	if len(early) > 0 {
		sort.Strings(early)
		return false, fmt.Sprintf("%s assigns the field, but its call(s) at %s can reach this use before the assignment", S.Name(), strings.Join(early, ", "))
	}
	return true, fmt.Sprintf("assigned non-nil in %s, through which alone %s is reached, before every call that leads here", S.Name(), top.Name())
}

// setBeforePublish: every allocation of the struct is followed by a store to the field on every
// path to a success return of the allocating function.
func (a *nilAn) setBeforePublish(owner *types.Named, field int, name string) (bool, string) {
	key := "sbp:" + name
	if vd, ok := a.fmemo[key]; ok {
		return vd.ok, vd.why
	}
	vd := &nilVerdict{ok: true}
	a.fmemo[key] = vd
	nAlloc := 0
	for _, fn := range a.c.moduleFuncs() {
		if strings.HasSuffix(a.c.fset.Position(fn.Pos()).Filename, "_test.go") || !a.reach[fn] {
			continue
		}
		for _, b := range fn.Blocks {
			for _, ins := range b.Instrs {
				al, ok := ins.(*ssa.Alloc)
				if !ok {
					continue
				}
				pt, _ := al.Type().Underlying().(*types.Pointer)
				if pt == nil || !types.Identical(pt.Elem(), owner) {
					continue
				}
				// a copy of an existing value (a spilled parameter or `x := *p`) inherits the source's fields
				isCopy := false
				if refs := al.Referrers(); refs != nil {
					for _, ref := range *refs {
						if st, ok := ref.(*ssa.Store); ok && st.Addr == ssa.Value(al) {
							if _, zero := st.Val.(*ssa.Const); !zero {
								isCopy = true
							}
						}
					}
				}
				if isCopy {
					continue
				}
				nAlloc++
				barrier := map[ssa.Instruction]bool{}
				for _, b2 := range fn.Blocks {
					for _, i2 := range b2.Instrs {
						if st, ok := i2.(*ssa.Store); ok {
							if fa, ok := st.Addr.(*ssa.FieldAddr); ok && fa.X == ssa.Value(al) && fa.Field == field {
								barrier[st] = true
							}
						}
					}
				}
				for _, ret := range a.c.successReturns(fn) {
					if reachableWithoutBarrier(al, ret.Block(), barrier) {
						vd.ok = false
						vd.why = fmt.Sprintf("the %s allocated at %s can reach the success return at %s without its %s having been assigned", owner.Obj().Name(), a.c.pos(al.Pos()), a.c.pos(ret.Pos()), name)
						return vd.ok, vd.why
					}
				}
			}
		}
	}
	if nAlloc == 0 {
		vd.ok, vd.why = false, "no allocation of "+owner.Obj().Name()+" found on the decode path"
		return vd.ok, vd.why
	}
	vd.why = fmt.Sprintf("every assignment stores a non-nil value, and each of the %d allocation(s) of %s on the decode path is followed by such an assignment on every path to a success return", nAlloc, owner.Obj().Name())
	return vd.ok, vd.why
}

func reachableWithoutBarrier(from ssa.Instruction, to *ssa.BasicBlock, barrier map[ssa.Instruction]bool) bool {
	fb := from.Block()
	blocked := func(b *ssa.BasicBlock, s int) bool {
		for i := s; i < len(b.Instrs); i++ {
			if barrier[b.Instrs[i]] {
				return true
			}
		}
		return false
	}
	if blocked(fb, instrIndex(from)+1) {
		return false
	}
	if fb == to {
		return true
	}
	seen := map[*ssa.BasicBlock]bool{}
	q := append([]*ssa.BasicBlock(nil), fb.Succs...)
	for len(q) > 0 {
		b := q[0]
		q = q[1:]
		if seen[b] {
			continue
		}
		seen[b] = true
		if blocked(b, 0) {
			continue
		}
		if b == to {
			return true
		}
		q = append(q, b.Succs...)
	}
	return false
}

// c01NilSafety walks every site.
func c01NilSafety(c *Ctx, r *Report, scope []*ssa.Function, roots []*ssa.Function, reach []*ssa.Function) {
	nilSafety(c, r, "C01-R2-nil", "decode", 400, scope, roots, reach)
}

// nilSafety: the origin-based nil analysis over one scope (rule ids <prefix>-deref / <prefix>-param).
func nilSafety(c *Ctx, r *Report, prefix, what string, floor int, scope []*ssa.Function, roots []*ssa.Function, reach []*ssa.Function) {
	a := &nilAn{c: c, cg: c.callGraph(), reach: map[*ssa.Function]bool{}, roots: map[*ssa.Function]bool{}, rootList: roots,
		facts: map[*ssa.Function]*nilFacts{}, pmemo: map[*ssa.Parameter]*nilVerdict{}, pbusy: map[*ssa.Parameter]bool{},
		rmemo: map[string]*nilVerdict{}, rbusy: map[string]bool{}, fmemo: map[string]*nilVerdict{}, assumed: map[string]bool{}, assume: map[ssa.Value]bool{}}
	for _, f := range reach {
		a.reach[f] = true
	}
	for _, f := range roots {
		a.roots[f] = true
	}
	nSites, nTrivial := 0, 0
	params := map[*ssa.Parameter]int{}
	for _, fn := range scope {
		k := 0
		for _, b := range fn.Blocks {
			for _, ins := range b.Instrs {
				var v ssa.Value
				kind := ""
				switch n := ins.(type) {
				case *ssa.FieldAddr:
					v, kind = n.X, "field of"
				case *ssa.IndexAddr:
					if _, isPtr := n.X.Type().Underlying().(*types.Pointer); isPtr {
						v, kind = n.X, "index of"
					}
				case *ssa.Slice:
					if _, isPtr := n.X.Type().Underlying().(*types.Pointer); isPtr {
						v, kind = n.X, "slice of"
					}
				case *ssa.UnOp:
					if n.Op == token.MUL {
						v, kind = n.X, "load through"
					}
				case *ssa.Store:
					v, kind = n.Addr, "store through"
				case ssa.CallInstruction:
					cc := n.Common()
					if cc.IsInvoke() {
						v, kind = cc.Value, "method call on"
					} else if cc.StaticCallee() == nil {
						if _, isB := cc.Value.(*ssa.Builtin); !isB {
							v, kind = cc.Value, "call of"
						}
					}
				}
				if v == nil {
					continue
				}
				nSites++
				switch v.(type) {
				case *ssa.Alloc, *ssa.FieldAddr, *ssa.IndexAddr, *ssa.Global, *ssa.FreeVar, *ssa.MakeClosure, *ssa.Function:
					nTrivial++
					continue
				}
				if p, ok := v.(*ssa.Parameter); ok {
					params[p]++
					continue
				}
				k++
				key := fmt.Sprintf("%s/%s %s#%d", fn.Name(), kind, stripAddrs(pathOf(v)), k)
				ok, why := a.nonNil(v, b, nil, 0)
				r.check(ok, prefix+"-deref", key, c.pos(ins.Pos()), "the value is "+why, "nil dereference possible: the value is "+why)
			}
		}
	}
	var ps []*ssa.Parameter
	for p := range params {
		ps = append(ps, p)
	}
	sort.Slice(ps, func(i, j int) bool {
		if ps[i].Parent().String() != ps[j].Parent().String() {
			return ps[i].Parent().String() < ps[j].Parent().String()
		}
		return ps[i].Name() < ps[j].Name()
	})
	for _, p := range ps {
		vd := a.param(p, 0)
		key := fmt.Sprintf("%s(%s)", strings.TrimPrefix(strings.ReplaceAll(p.Parent().String(), modPath+".", ""), modPath+"/"), p.Name())
		r.check(vd.ok, prefix+"-param", key, c.pos(p.Pos()), fmt.Sprintf("%d dereference(s); %s", params[p], vd.why), fmt.Sprintf("dereferenced %d time(s) in %s but may be nil: %s", params[p], p.Parent().Name(), vd.why))
	}
	var as []string
	for k := range a.assumed {
		as = append(as, k)
	}
	sort.Strings(as)
	r.set(what+"_nil_sites", nSites)
	r.set(what+"_nil_sites_address_or_alloc", nTrivial)
	r.set(what+"_nil_params_dereferenced", len(ps))
	r.set(what+"_nil_assumed_entry_parameters", strings.Join(as, ", "))
	r.need("dereference / invoke sites on the "+what+" path", nSites, floor)
}

// ---- collections of pointers ---------------------------------------------------------------------
//
// A slice kept in a struct field, or a local map, holds no nil element when everything ever put
// into it is non-nil: the field is only assigned nil, an empty make, an append chain of non-nil
// values onto such a slice, or another such collection; element stores store non-nil values; a
// map only receives non-nil values. The argument is coinductive (a collection under examination
// counts as good), which is sound because a nil element has to be put in by some insertion.

func (a *nilAn) sliceElems(x ssa.Value, depth int) (bool, string) {
	if depth > 14 {
		return false, "too deep"
	}
	switch v := x.(type) {
	case *ssa.Const:
		if v.Value == nil {
			return true, "the empty slice"
		}
	case *ssa.MakeSlice:
		if k, ok := v.Len.(*ssa.Const); ok && k.Value != nil && k.Int64() == 0 {
			return true, "made empty"
		}
		return false, "made with a non-zero length (its elements start out nil)"
	case *ssa.Slice:
		return a.sliceElems(v.X, depth+1)
	case *ssa.Phi:
		key := fmt.Sprintf("phi:%p", v)
		if vd, ok := a.fmemo[key]; ok {
			return vd.ok, vd.why
		}
		vd := &nilVerdict{ok: true, why: "built up from non-nil values"}
		a.fmemo[key] = vd
		for _, e := range v.Edges {
			if ok, why := a.sliceElems(e, depth+1); !ok {
				vd.ok, vd.why = false, why
				return false, why
			}
		}
		return true, vd.why
	case *ssa.Call:
		if bi, ok := v.Common().Value.(*ssa.Builtin); ok && bi.Name() == "append" && len(v.Common().Args) == 2 {
			if ok, why := a.sliceElems(v.Common().Args[0], depth+1); !ok {
				return false, why
			}
			return a.appended(v.Common().Args[1], v.Block(), depth)
		}
	case *ssa.UnOp:
		if v.Op == token.MUL {
			switch addr := v.X.(type) {
			case *ssa.FieldAddr:
				return a.fieldSlice(addr, depth)
			case *ssa.Alloc:
				// a local variable holding the slice: every store to it
				key := fmt.Sprintf("cellslice:%p", addr)
				if vd, ok := a.fmemo[key]; ok {
					return vd.ok, vd.why
				}
				vd := &nilVerdict{ok: true, why: "a local slice built up from non-nil values"}
				a.fmemo[key] = vd
				all := append([]*ssa.Function{addr.Parent()}, addr.Parent().AnonFuncs...)
				for _, g := range all {
					for _, b := range g.Blocks {
						for _, ins := range b.Instrs {
							st, ok := ins.(*ssa.Store)
							if !ok {
								continue
							}
							t := st.Addr
							if fv, isFV := t.(*ssa.FreeVar); isFV {
								t = a.boundTo(g, fv)
							}
							if t != ssa.Value(addr) {
								continue
							}
							if ok, why := a.sliceElems(st.Val, depth+1); !ok {
								vd.ok, vd.why = false, why
								return false, why
							}
						}
					}
				}
				return true, vd.why
			case *ssa.FreeVar:
				if cell, ok := a.boundTo(addr.Parent(), addr).(*ssa.Alloc); ok {
					// judged as the enclosing function's variable
					fake := &ssa.UnOp{Op: token.MUL, X: cell}
					return a.sliceElems(fake, depth+1)
				}
			}
		}
	case *ssa.Parameter:
		// a slice parameter: every call site passes a good slice
		fn := v.Parent()
		idx := -1
		for i, p := range fn.Params {
			if p == v {
				idx = i
			}
		}
		sites := 0
		for _, g := range a.c.moduleFuncs() {
			if !a.reach[g] {
				continue
			}
			for _, ci := range allCalls(g) {
				if ci.Common().StaticCallee() == fn && idx < len(ci.Common().Args) {
					sites++
					if ok, why := a.sliceElems(ci.Common().Args[idx], depth+1); !ok {
						return false, why
					}
				}
			}
		}
		if sites > 0 {
			return true, "a parameter that every call site fills with a slice of non-nil values"
		}
	}
	return false, "a slice whose elements are not known to be non-nil"
}

// appended: the variadic part of an append: a slice over a fresh array whose elements are stored
// right there, or another slice spread with `...`.
func (a *nilAn) appended(x ssa.Value, at *ssa.BasicBlock, depth int) (bool, string) {
	if sl, ok := x.(*ssa.Slice); ok {
		if al, ok := sl.X.(*ssa.Alloc); ok {
			if _, isArr := al.Type().Underlying().(*types.Pointer).Elem().Underlying().(*types.Array); isArr {
				n := 0
				for _, ref := range *al.Referrers() {
					ia, ok := ref.(*ssa.IndexAddr)
					if !ok {
						continue
					}
					for _, r2 := range *ia.Referrers() {
						if st, ok := r2.(*ssa.Store); ok && st.Addr == ssa.Value(ia) {
							n++
							if ok, why := a.nonNil(st.Val, st.Block(), nil, depth+1); !ok {
								return false, "a value appended to it is " + why
							}
						}
					}
				}
				if n > 0 {
					return true, "only non-nil values are appended"
				}
			}
		}
	}
	return a.sliceElems(x, depth+1)
}

// fieldSlice: the slice kept in struct field S.F.
func (a *nilAn) fieldSlice(fa *ssa.FieldAddr, depth int) (bool, string) {
	owner, fname := ownerOf(fa)
	if owner == nil {
		return false, "a field of an unnamed struct"
	}
	key := "elems:" + owner.Obj().Name() + "." + fname
	if vd, ok := a.fmemo[key]; ok {
		return vd.ok, vd.why
	}
	vd := &nilVerdict{ok: true}
	a.fmemo[key] = vd
	n := 0
	for _, fn := range a.c.moduleFuncs() {
		if strings.HasSuffix(a.c.fset.Position(fn.Pos()).Filename, "_test.go") {
			continue
		}
		for _, b := range fn.Blocks {
			for _, ins := range b.Instrs {
				st, ok := ins.(*ssa.Store)
				if !ok {
					continue
				}
				switch t := st.Addr.(type) {
				case *ssa.FieldAddr:
					if o2, _ := ownerOf(t); o2 != owner || t.Field != fa.Field {
						continue
					}
					n++
					if ok, why := a.sliceElems(st.Val, depth+1); !ok {
						vd.ok, vd.why = false, fmt.Sprintf("%s.%s is assigned, at %s, %s", owner.Obj().Name(), fname, a.c.pos(st.Pos()), why)
						return false, vd.why
					}
				case *ssa.IndexAddr:
					// element store through a load of the field
					ld, ok := t.X.(*ssa.UnOp)
					if !ok || ld.Op != token.MUL {
						continue
					}
					f2, ok := ld.X.(*ssa.FieldAddr)
					if !ok || f2.Field != fa.Field {
						continue
					}
					if o2, _ := ownerOf(f2); o2 != owner {
						continue
					}
					if ok, why := a.nonNil(st.Val, b, nil, depth+1); !ok {
						vd.ok, vd.why = false, fmt.Sprintf("an element of %s.%s is assigned %s at %s", owner.Obj().Name(), fname, why, a.c.pos(st.Pos()))
						return false, vd.why
					}
				}
			}
		}
	}
	vd.why = fmt.Sprintf("every one of the %d assignments of %s.%s is an empty slice or an append chain of non-nil values", n, owner.Obj().Name(), fname)
	return true, vd.why
}

// mapElems: a local map: every update stores a non-nil value.
func (a *nilAn) mapElems(m ssa.Value, depth int) (bool, string) {
	mk, ok := m.(*ssa.MakeMap)
	if !ok {
		return false, "not a local map"
	}
	key := fmt.Sprintf("map:%p", mk)
	if vd, ok := a.fmemo[key]; ok {
		return vd.ok, vd.why
	}
	vd := &nilVerdict{ok: true, why: "every update of the map stores a non-nil value"}
	a.fmemo[key] = vd
	for _, ref := range *mk.Referrers() {
		switch u := ref.(type) {
		case *ssa.MapUpdate:
			if u.Map != ssa.Value(mk) {
				continue
			}
			if ok, why := a.nonNil(u.Value, u.Block(), nil, depth+1); !ok {
				vd.ok, vd.why = false, "the map is given "+why
				return false, vd.why
			}
		case *ssa.Range, *ssa.Lookup, *ssa.DebugRef:
		case *ssa.Call:
			if bi, ok := u.Common().Value.(*ssa.Builtin); ok && (bi.Name() == "len" || bi.Name() == "delete") {
				continue
			}
			vd.ok, vd.why = false, "the map is handed to "+calleeName(u.Common())
			return false, vd.why
		default:
			vd.ok, vd.why = false, fmt.Sprintf("the map is used by %T", ref)
			return false, vd.why
		}
	}
	return true, vd.why
}
