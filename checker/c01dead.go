package main

import (
	"fmt"
	"go/constant"
	"go/token"
	"go/types"
	"sort"
	"strings"

	"golang.org/x/tools/go/ssa"
)

// Explicit panics on the decode path that are dead for a structural reason (formerly an audited
// table keyed by function name, under which a newly added panic in the same function would have
// been waved through). Each recognised shape returns the reason; anything else is a violation.

// c01DeadPanic decides an explicit panic that the cursor invariant did not already discharge.
func c01DeadPanic(c *Ctx, fn *ssa.Function, pn *ssa.Panic) (string, bool) {
	if why, ok := c01DefaultOfExhaustiveKindSwitch(c, fn, pn); ok {
		return why, true
	}
	if why, ok := c01KnownImpliesValid(c, fn, pn); ok {
		return why, true
	}
	return "", false
}

// c01DefaultOfExhaustiveKindSwitch: the panic is the default arm of a comparison chain on one
// value v = <profile field>.t.Kind() whose cases cover every declared constant of the Kind type,
// and the profile tables hold no other kind (C15-2-row rejects a row with kind > the largest
// declared constant). The field must come from the profile lookup (getField), not from input.
func c01DefaultOfExhaustiveKindSwitch(c *Ctx, fn *ssa.Function, pn *ssa.Panic) (string, bool) {
	b := pn.Block()
	var v ssa.Value
	seen := map[int64]bool{}
	for cur := b; ; {
		if len(cur.Preds) != 1 {
			break
		}
		p := cur.Preds[0]
		if len(p.Instrs) == 1 && len(p.Preds) == 1 {
			if _, isJump := p.Instrs[0].(*ssa.Jump); isJump {
				cur = p
				continue
			}
		}
		ifi, ok := p.Instrs[len(p.Instrs)-1].(*ssa.If)
		if !ok || p.Succs[1] != cur {
			break
		}
		bo, ok := ifi.Cond.(*ssa.BinOp)
		if !ok || bo.Op != token.EQL {
			break
		}
		k, ok := bo.Y.(*ssa.Const)
		if !ok || k.Value == nil || k.Value.Kind() != constant.Int {
			break
		}
		if v == nil {
			v = bo.X
		} else if v != bo.X {
			break
		}
		seen[k.Int64()] = true
		// the block that only evaluates the next comparison
		onlyCmp := true
		for _, ins := range p.Instrs[:len(p.Instrs)-1] {
			if ins != ssa.Instruction(bo) {
				if _, isDbg := ins.(*ssa.DebugRef); !isDbg {
					onlyCmp = false
				}
			}
		}
		if !onlyCmp {
			break // first comparison of the chain (its block also computes v)
		}
		cur = p
	}
	call, ok := v.(*ssa.Call)
	if !ok || call.Common().StaticCallee() == nil || call.Common().StaticCallee().Name() != "Kind" {
		return "", false
	}
	named, ok := call.Type().(*types.Named)
	if !ok {
		return "", false
	}
	// every declared constant of the Kind type
	var all []int64
	sc := named.Obj().Pkg().Scope()
	for _, n := range sc.Names() {
		if cn, ok := sc.Lookup(n).(*types.Const); ok && types.Identical(cn.Type(), named) {
			if x, ok := constant.Int64Val(cn.Val()); ok {
				all = append(all, x)
			}
		}
	}
	sort.Slice(all, func(i, j int) bool { return all[i] < all[j] })
	if len(all) == 0 {
		return "", false
	}
	for _, x := range all {
		if !seen[x] {
			return "", false
		}
	}
	// contiguous 0..max, so "kind <= max" (C15-2-row) means "kind is a declared constant"
	for i, x := range all {
		if x != int64(i) {
			return "", false
		}
	}
	if all[len(all)-1] != kindLng {
		return "", false // the C15-2-row bound is written against the largest kind this checker knows
	}
	// the receiver is the type of a profile field obtained from getField
	recv := call.Common().Args[0]
	if !c01FromProfileLookup(recv) {
		return "", false
	}
	return fmt.Sprintf("default arm of a switch on <profile field>.t.Kind() whose cases cover all %d declared kinds (0..%d); the field comes from the profile lookup and no table row has another kind (C15-2-row)", len(all), all[len(all)-1]), true
}

// c01FromProfileLookup: v is a load of the t field of the *field returned by getField.
func c01FromProfileLookup(v ssa.Value) bool {
	u, ok := v.(*ssa.UnOp)
	if !ok || u.Op != token.MUL {
		return false
	}
	fa, ok := u.X.(*ssa.FieldAddr)
	if !ok || fieldName(fa) != "t" {
		return false
	}
	if _, ok := rowOf(fa.X); ok {
		return true
	}
	return false
}

// c01KnownImpliesValid: the panic sits under `known && !m.IsValid()` for two parameters known
// (bool) and m (reflect.Value) that the function never reassigns, and at every call site in the
// module m is the result of getMesgAllInvalid on every edge that is not under `known == false`
// (the all-invalid value of a known message is the Elem() of a non-nil struct pointer:
// C01-R2-known-before-ctor, C15-1-ctor), where known is the very value passed as the flag.
func c01KnownImpliesValid(c *Ctx, fn *ssa.Function, pn *ssa.Panic) (string, bool) {
	b := pn.Block()
	var known, m *ssa.Parameter
	for _, p := range fn.Params {
		p := p
		if bt, ok := p.Type().Underlying().(*types.Basic); ok && bt.Kind() == types.Bool {
			if domByBoolEdge(fn, b, true, func(v ssa.Value) bool { return v == ssa.Value(p) }) {
				known = p
			}
		}
		if p.Type().String() == "reflect.Value" {
			if domByBoolEdge(fn, b, false, func(v ssa.Value) bool {
				cl, ok := v.(*ssa.Call)
				return ok && cl.Common().StaticCallee() != nil && cl.Common().StaticCallee().Name() == "IsValid" && len(cl.Common().Args) == 1 && cl.Common().Args[0] == ssa.Value(p)
			}) {
				m = p
			}
		}
	}
	if known == nil || m == nil {
		return "", false
	}
	ki, mi := -1, -1
	for i, p := range fn.Params {
		if p == known {
			ki = i
		}
		if p == m {
			mi = i
		}
	}
	sites := 0
	for _, g := range c.moduleFuncs() {
		for _, ci := range allCalls(g) {
			cc := ci.Common()
			if cc.StaticCallee() != fn {
				// a method value or interface call of fn would escape this census
				continue
			}
			sites++
			kv, mv := cc.Args[ki], cc.Args[mi]
			if !validUnless(g, mv, kv, ci.Block(), map[ssa.Value]bool{}) {
				return "", false
			}
		}
	}
	if sites == 0 || c.addressTaken(fn) {
		return "", false
	}
	return fmt.Sprintf("under `%s && !%s.IsValid()`: at each of the %d call sites of %s the value passed is getMesgAllInvalid(..) unless the flag is false, and the all-invalid value of a known message is valid (C01-R2-known-before-ctor, C15-1-ctor)", known.Name(), m.Name(), sites, fn.Name()), true
}

// validUnless: mv is the result of getMesgAllInvalid, or a phi each of whose edges is one or comes
// from a block in which kv is known false; or the use itself is under kv == false.
func validUnless(g *ssa.Function, mv, kv ssa.Value, at *ssa.BasicBlock, seen map[ssa.Value]bool) bool {
	if seen[mv] {
		return true
	}
	seen[mv] = true
	isK := func(v ssa.Value) bool { return v == kv }
	if domByBoolEdge(g, at, false, isK) {
		return true
	}
	switch x := mv.(type) {
	case *ssa.Call:
		f := x.Common().StaticCallee()
		return f != nil && f.Name() == "getMesgAllInvalid"
	case *ssa.Phi:
		for i, e := range x.Edges {
			p := x.Block().Preds[i]
			if domByBoolEdge(g, p, false, isK) || edgeFalse(p, x.Block(), kv) {
				continue
			}
			if !validUnless(g, e, kv, p, seen) {
				return false
			}
		}
		return true
	case *ssa.Parameter:
		// passed through from the caller's own parameters of the same shape: decided at that level
		return false
	}
	return false
}

// edgeFalse: the edge p -> s is the false edge of `if kv`.
func edgeFalse(p, s *ssa.BasicBlock, kv ssa.Value) bool {
	if len(p.Instrs) == 0 {
		return false
	}
	ifi, ok := p.Instrs[len(p.Instrs)-1].(*ssa.If)
	return ok && ifi.Cond == kv && p.Succs[1] == s && p.Succs[0] != s
}

// addressTaken: fn is used as a value somewhere in the module (method value, closure binding).
func (c *Ctx) addressTaken(fn *ssa.Function) bool {
	for _, g := range c.moduleFuncs() {
		for _, b := range g.Blocks {
			for _, ins := range b.Instrs {
				for _, op := range ins.Operands(nil) {
					if *op == ssa.Value(fn) {
						if ci, ok := ins.(ssa.CallInstruction); ok && ci.Common().Value == ssa.Value(fn) {
							continue
						}
						return true
					}
				}
			}
		}
	}
	return false
}

var _ = strings.Contains

// kindsExcludedAt: the declared Kind constants that <x>.Kind() is known to differ from on every path
// to block b (dominating `== k` false edges and `!= k` true edges, all on one SSA value), that
// value, and the list of all declared constants of its type.
func kindsExcludedAt(fn *ssa.Function, b *ssa.BasicBlock) (map[int64]bool, *ssa.Call, []int64) {
	excl := map[int64]bool{}
	var v *ssa.Call
	for _, a := range fn.Blocks {
		if len(a.Instrs) == 0 {
			continue
		}
		ifi, ok := a.Instrs[len(a.Instrs)-1].(*ssa.If)
		if !ok {
			continue
		}
		bo, ok := ifi.Cond.(*ssa.BinOp)
		if !ok || (bo.Op != token.EQL && bo.Op != token.NEQ) {
			continue
		}
		call, ok := bo.X.(*ssa.Call)
		if !ok || call.Common().StaticCallee() == nil || call.Common().StaticCallee().Name() != "Kind" {
			continue
		}
		k, ok := bo.Y.(*ssa.Const)
		if !ok || k.Value == nil || k.Value.Kind() != constant.Int {
			continue
		}
		edge := a.Succs[1] // `== k` false
		if bo.Op == token.NEQ {
			edge = a.Succs[0]
		}
		if len(edge.Preds) != 1 || !edge.Dominates(b) {
			continue
		}
		if v != nil && v != call {
			return nil, nil, nil // two different Kind() values: not one chain
		}
		v = call
		excl[k.Int64()] = true
	}
	if v == nil {
		return excl, nil, nil
	}
	var all []int64
	if named, ok := v.Type().(*types.Named); ok {
		sc := named.Obj().Pkg().Scope()
		for _, n := range sc.Names() {
			if cn, ok := sc.Lookup(n).(*types.Const); ok && types.Identical(cn.Type(), named) {
				if x, ok := constant.Int64Val(cn.Val()); ok {
					all = append(all, x)
				}
			}
		}
	}
	sort.Slice(all, func(i, j int) bool { return all[i] < all[j] })
	return excl, v, all
}
