package main

// Error-flow analysis with a small nilness domain (DESIGN.md 3.2 "error nilness").

import (
	"fmt"
	"go/token"
	"go/types"
	"strings"

	"golang.org/x/tools/go/ssa"
)

var errorType = types.Universe.Lookup("error").Type()

func isErrorType(t types.Type) bool { return types.Identical(t, errorType) }

type errSite struct {
	fn     *ssa.Function
	call   ssa.CallInstruction
	val    ssa.Value // the error value
	callee string
}

// errorValues: for each call in fn whose last result is error, the SSA value carrying it.
func errorCalls(fn *ssa.Function) []errSite {
	var out []errSite
	for _, b := range fn.Blocks {
		for _, ins := range b.Instrs {
			call, ok := ins.(*ssa.Call)
			if !ok {
				continue
			}
			sig := call.Common().Signature()
			res := sig.Results()
			if res.Len() == 0 || !isErrorType(res.At(res.Len()-1).Type()) {
				continue
			}
			name := calleeName(call.Common())
			var val ssa.Value
			if res.Len() == 1 {
				val = call
			} else {
				for _, ref := range *call.Referrers() {
					if ex, ok := ref.(*ssa.Extract); ok && ex.Index == res.Len()-1 {
						val = ex
					}
				}
			}
			out = append(out, errSite{fn, call, val, name})
		}
	}
	return out
}

func calleeName(cc *ssa.CallCommon) string {
	if cc.IsInvoke() {
		return "(" + cc.Value.Type().String() + ")." + cc.Method.Name()
	}
	if f := cc.StaticCallee(); f != nil {
		return f.String()
	}
	return "dynamic:" + cc.Value.Name()
}

type nilFacts struct {
	fn *ssa.Function
	// nonNilIn[v] = blocks (by dominance root) in which v is known non-nil
	nonNilRoots map[ssa.Value][]*ssa.BasicBlock
	nilRoots    map[ssa.Value][]*ssa.BasicBlock
	c           *Ctx
	nnMemo      map[*ssa.Function]int // summaries: 1 = always non-nil result, 2 = non-nil if param0 non-nil
}

func isNilConst(v ssa.Value) bool {
	k, ok := v.(*ssa.Const)
	return ok && k.Value == nil
}

// nilTest: if cond is `x != nil` or `x == nil` returns x and whether the true branch means non-nil.
func nilTest(cond ssa.Value) (ssa.Value, bool, bool) {
	bo, ok := cond.(*ssa.BinOp)
	if !ok || (bo.Op != token.NEQ && bo.Op != token.EQL) {
		return nil, false, false
	}
	var x ssa.Value
	switch {
	case isNilConst(bo.Y):
		x = bo.X
	case isNilConst(bo.X):
		x = bo.Y
	default:
		return nil, false, false
	}
	return x, bo.Op == token.NEQ, true
}

func (c *Ctx) newNilFacts(fn *ssa.Function) *nilFacts {
	nf := &nilFacts{fn: fn, nonNilRoots: map[ssa.Value][]*ssa.BasicBlock{}, nilRoots: map[ssa.Value][]*ssa.BasicBlock{}, c: c, nnMemo: map[*ssa.Function]int{}}
	for _, b := range fn.Blocks {
		if len(b.Instrs) == 0 {
			continue
		}
		ifi, ok := b.Instrs[len(b.Instrs)-1].(*ssa.If)
		if !ok {
			continue
		}
		x, trueIsNonNil, ok := nilTest(ifi.Cond)
		if !ok {
			continue
		}
		nn, ni := b.Succs[0], b.Succs[1]
		if !trueIsNonNil {
			nn, ni = ni, nn
		}
		if len(nn.Preds) == 1 {
			nf.nonNilRoots[x] = append(nf.nonNilRoots[x], nn)
		}
		if len(ni.Preds) == 1 {
			nf.nilRoots[x] = append(nf.nilRoots[x], ni)
		}
	}
	return nf
}

func (nf *nilFacts) knownNonNilAt(v ssa.Value, b *ssa.BasicBlock) bool {
	for _, r := range nf.nonNilRoots[v] {
		if r.Dominates(b) {
			return true
		}
	}
	return false
}

func (nf *nilFacts) knownNilAt(v ssa.Value, b *ssa.BasicBlock) bool {
	for _, r := range nf.nilRoots[v] {
		if r.Dominates(b) {
			return true
		}
	}
	return false
}

// nonNil: v is statically a non-nil error when evaluated in block b.
func (nf *nilFacts) nonNil(v ssa.Value, b *ssa.BasicBlock, depth int) bool {
	if depth > 8 {
		return false
	}
	if nf.knownNonNilAt(v, b) {
		return true
	}
	switch n := v.(type) {
	case *ssa.MakeInterface:
		return true
	case *ssa.ChangeInterface:
		return nf.nonNil(n.X, b, depth+1)
	case *ssa.Phi:
		for i, e := range n.Edges {
			if !nf.nonNil(e, n.Block().Preds[i], depth+1) {
				return false
			}
		}
		return len(n.Edges) > 0
	case *ssa.UnOp:
		if n.Op == token.MUL {
			if g, ok := n.X.(*ssa.Global); ok {
				return nf.c.globalErrNonNil(g)
			}
		}
	case *ssa.Call:
		cal := n.Common().StaticCallee()
		if cal == nil {
			return false
		}
		switch cal.String() {
		case "fmt.Errorf", "errors.New":
			return true
		}
		if strings.HasPrefix(fnPkgPath(cal), modPath) {
			switch nf.c.nonNilSummary(cal, nf.nnMemo) {
			case 1:
				return true
			case 2:
				if len(n.Common().Args) > 0 {
					return nf.nonNil(n.Common().Args[0], b, depth+1)
				}
			}
		}
	}
	return false
}

// globalErrNonNil: a package-level error variable that is initialised non-nil and never reassigned.
func (c *Ctx) globalErrNonNil(g *ssa.Global) bool {
	if g.Pkg == nil {
		return false
	}
	pp := g.Pkg.Pkg.Path()
	if !strings.HasPrefix(pp, modPath) {
		// standard-library sentinel errors (io.EOF, io.ErrUnexpectedEOF, ...) are non-nil by contract
		return strings.HasPrefix(g.Name(), "Err") || g.Name() == "EOF"
	}
	if pp != modPath {
		return false
	}
	if v, ok := c.errGlobalMemo[g]; ok {
		return v
	}
	init, _ := c.varInit(c.fit, g.Name())
	res := init != nil && c.nonNilErrExpr(c.fit.TypesInfo, init) && len(c.globalWrites(c.fit, g.Name())) == 0
	if c.errGlobalMemo == nil {
		c.errGlobalMemo = map[*ssa.Global]bool{}
	}
	c.errGlobalMemo[g] = res
	return res
}

// nonNilSummary for a module function with a single error result (or last result error):
// 0 unknown, 1 always non-nil, 2 non-nil whenever parameter 0 is non-nil.
func (c *Ctx) nonNilSummary(fn *ssa.Function, memo map[*ssa.Function]int) int {
	if v, ok := memo[fn]; ok {
		return v
	}
	memo[fn] = 0
	if len(fn.Blocks) == 0 {
		return 0
	}
	nf := c.newNilFacts(fn)
	nf.nnMemo = memo
	always, ifParam := true, true
	var p0 ssa.Value
	if len(fn.Params) > 0 && isErrorType(fn.Params[0].Type()) {
		p0 = fn.Params[0]
	}
	for _, b := range fn.Blocks {
		if len(b.Instrs) == 0 {
			continue
		}
		ret, ok := b.Instrs[len(b.Instrs)-1].(*ssa.Return)
		if !ok || len(ret.Results) == 0 {
			continue
		}
		r := resolveSpill(ret.Results[len(ret.Results)-1])
		if nf.nonNil(r, b, 0) {
			continue
		}
		always = false
		if p0 != nil && r == p0 {
			continue
		}
		ifParam = false
	}
	res := 0
	if always {
		res = 1
	} else if ifParam && p0 != nil {
		res = 2
	}
	memo[fn] = res
	return res
}

// errFlowResult for one error-producing call.
type errFlowResult struct {
	site     errSite
	swallows []*ssa.Return // returns that may carry a nil error while the callee error is non-nil
	// the call is executed again (a loop came round) on a path on which its earlier error was still
	// pending: the earlier error is overwritten without ever having been returned
	overwritten bool
	tested      bool
	unused      bool
}

// resolveSpill: go/ssa spills results of functions with defers (`*t0 = X; rundefers; t = *t0; return t`)
// and address-taken locals; map a load of a local Alloc back to the value stored last in the same block.
func resolveSpill(v ssa.Value) ssa.Value {
	u, ok := v.(*ssa.UnOp)
	if !ok || u.Op != token.MUL {
		return v
	}
	al, ok := u.X.(*ssa.Alloc)
	if !ok {
		return v
	}
	var last ssa.Value
	for _, ins := range u.Block().Instrs {
		if ins == ssa.Instruction(u) {
			break
		}
		if st, ok := ins.(*ssa.Store); ok && st.Addr == ssa.Value(al) {
			last = st.Val
		}
	}
	if last != nil {
		return last
	}
	return v
}

// analyseSite: path exploration from the call, carrying the set of SSA values (and local
// slots) that currently hold the callee's error; never crosses an edge on which that error
// is known nil.
func (nf *nilFacts) analyseSite(s errSite) errFlowResult {
	res := errFlowResult{site: s}
	e := s.val
	if e == nil {
		res.unused = true
	} else {
		n := 0
		for _, ref := range *e.Referrers() {
			if _, ok := ref.(*ssa.DebugRef); !ok {
				n++
			}
		}
		res.unused = n == 0
	}
	type state struct {
		b     *ssa.BasicBlock
		alias string
	}
	seen := map[state]bool{}
	seenRet := map[*ssa.Return]bool{}
	keyOf := func(al map[ssa.Value]bool) string {
		var ks []string
		for v := range al {
			ks = append(ks, v.Name())
		}
		sortStrings(ks)
		return strings.Join(ks, ",")
	}
	var visit func(b *ssa.BasicBlock, pred *ssa.BasicBlock, alias map[ssa.Value]bool, startAfter ssa.Instruction)
	visit = func(b *ssa.BasicBlock, pred *ssa.BasicBlock, alias map[ssa.Value]bool, startAfter ssa.Instruction) {
		al := map[ssa.Value]bool{}
		for k := range alias {
			al[k] = true
		}
		// phis
		if pred != nil {
			idx := -1
			for i, p := range b.Preds {
				if p == pred {
					idx = i
				}
			}
			for _, ins := range b.Instrs {
				phi, ok := ins.(*ssa.Phi)
				if !ok {
					break
				}
				if idx >= 0 && al[phi.Edges[idx]] {
					al[phi] = true
				} else {
					delete(al, phi)
				}
			}
		}
		if startAfter == nil {
			st := state{b, keyOf(al)}
			if seen[st] {
				return
			}
			seen[st] = true
		}
		started := startAfter == nil
		for _, ins := range b.Instrs {
			if !started {
				if ins == startAfter {
					started = true
				}
				continue
			}
			if ins == ssa.Instruction(s.call) && len(al) > 0 {
				// back at the call with its previous error still held somewhere: that error is dropped here
				res.overwritten = true
				return
			}
			switch n := ins.(type) {
			case *ssa.Store:
				if a, ok := n.Addr.(*ssa.Alloc); ok {
					if al[n.Val] {
						al[a] = true
					} else {
						delete(al, a)
					}
				}
			case *ssa.UnOp:
				if n.Op == token.MUL {
					if a, ok := n.X.(*ssa.Alloc); ok && al[a] {
						al[n] = true
					}
				}
			case *ssa.Extract:
				if e != nil && ssa.Value(n) == e {
					al[n] = true
				}
			case *ssa.ChangeInterface:
				if al[n.X] {
					al[n] = true
				}
			case *ssa.Call:
				// wrapper in the module that returns its argument when non-nil (noEOF)
				cal := n.Common().StaticCallee()
				if cal != nil && strings.HasPrefix(fnPkgPath(cal), modPath) && len(n.Common().Args) > 0 && al[n.Common().Args[0]] {
					if nf.c.nonNilSummary(cal, nf.nnMemo) == 2 {
						al[n] = true
					}
				}
			}
		}
		last := b.Instrs[len(b.Instrs)-1]
		switch t := last.(type) {
		case *ssa.Return:
			if len(t.Results) == 0 || seenRet[t] {
				return
			}
			r := t.Results[len(t.Results)-1]
			if !isErrorType(r.Type()) {
				return
			}
			if al[r] {
				return
			}
			rr := resolveSpill(r)
			if al[rr] || nf.nonNil(rr, b, 0) {
				return
			}
			seenRet[t] = true
			res.swallows = append(res.swallows, t)
		case *ssa.If:
			x, trueIsNonNil, ok := nilTest(t.Cond)
			if ok && al[x] {
				res.tested = true
				nn := b.Succs[0]
				if !trueIsNonNil {
					nn = b.Succs[1]
				}
				visit(nn, b, al, nil)
				return
			}
			visit(b.Succs[0], b, al, nil)
			visit(b.Succs[1], b, al, nil)
		case *ssa.Jump:
			visit(b.Succs[0], b, al, nil)
		}
	}
	init := map[ssa.Value]bool{}
	if e != nil {
		init[e] = true
	}
	if c, ok := s.call.(*ssa.Call); ok && e == ssa.Value(c) {
		init[c] = true
	}
	visit(s.call.Block(), nil, init, s.call)
	return res
}

func sortStrings(s []string) {
	for i := 1; i < len(s); i++ {
		for j := i; j > 0 && s[j] < s[j-1]; j-- {
			s[j], s[j-1] = s[j-1], s[j]
		}
	}
}

// derived: r carries e (possibly wrapped or converted) on every path.
func (nf *nilFacts) derived(r, e ssa.Value, depth int) bool {
	if depth > 6 {
		return false
	}
	if r == e {
		return true
	}
	switch n := r.(type) {
	case *ssa.Phi:
		for _, x := range n.Edges {
			if !nf.derived(x, e, depth+1) {
				return false
			}
		}
		return len(n.Edges) > 0
	case *ssa.ChangeInterface:
		return nf.derived(n.X, e, depth+1)
	case *ssa.Call:
		cal := n.Common().StaticCallee()
		if cal != nil && strings.HasPrefix(fnPkgPath(cal), modPath) && len(n.Common().Args) > 0 {
			if nf.c.nonNilSummary(cal, nf.nnMemo) == 2 {
				return nf.derived(n.Common().Args[0], e, depth+1)
			}
		}
	}
	return false
}

func describeReturn(c *Ctx, r *ssa.Return) string {
	return fmt.Sprintf("return at %s", c.pos(r.Pos()))
}
