package main

import (
	"fmt"
	"go/token"
	"go/types"
	"os"
	"sort"
	"strings"

	"golang.org/x/tools/go/ssa"
)

// Linear loop invariants by candidate elimination (Houdini) — used for loops whose safety and
// termination rest on a relation between several counters, which intervals cannot express (the
// string-array scanner: j + k < size).
//
// For a loop header H with integer phis Φ:
//   candidates  φ >= 0 for every φ whose entry value is a non-negative constant, and, for every
//               comparison `E >= D` / `E < D` inside the loop with E linear in Φ and D defined
//               outside the loop:  (E − const(E)) − D <= −1   (i.e. "the counters stay below D").
//   elimination every path through the body from H back to H is enumerated with its branch
//               conditions as linear facts; a candidate survives if it holds on entry (from the
//               interval facts of D at the entry edge) and is implied on every back-edge path by
//               the surviving candidates + the path's facts (a sum of at most three facts with the
//               target's coefficients). Repeat until nothing is removed.
//   use         a site inside the loop is proven when its bound follows the same way from the
//               invariants, the facts of the branch edges that dominate it, and interval facts;
//               the loop terminates when some positive combination of the phis (the left side of a
//               surviving "below D" invariant) grows by at least 1 on every back-edge path.
// Everything is linear arithmetic over SSA values; nothing is executed.

type lin struct {
	coef map[ssa.Value]int64
	k    int64
}

func (a lin) add(b lin, s int64) lin {
	out := lin{coef: map[ssa.Value]int64{}, k: a.k + s*b.k}
	for v, c := range a.coef {
		out.coef[v] = c
	}
	for v, c := range b.coef {
		out.coef[v] += s * c
		if out.coef[v] == 0 {
			delete(out.coef, v)
		}
	}
	return out
}

func (a lin) sameCoef(b lin) bool {
	if len(a.coef) != len(b.coef) {
		return false
	}
	for v, c := range a.coef {
		if b.coef[v] != c {
			return false
		}
	}
	return true
}

func (a lin) String() string {
	var parts []string
	for v, c := range a.coef {
		parts = append(parts, fmt.Sprintf("%+d*%s", c, stripAddrs(pathOf(v))))
	}
	sort.Strings(parts)
	return strings.Join(parts, " ") + fmt.Sprintf(" %+d <= 0", a.k)
}

// linOf: v as a linear form over opaque SSA values. Integer +, -, constants, no-op conversions.
func linOf(v ssa.Value, depth int) lin {
	if depth < 12 {
		switch n := v.(type) {
		case *ssa.Const:
			if n.Value != nil {
				if b, ok := n.Type().Underlying().(*types.Basic); ok && b.Info()&types.IsInteger != 0 {
					return lin{coef: map[ssa.Value]int64{}, k: n.Int64()}
				}
			}
		case *ssa.BinOp:
			if b, ok := n.Type().Underlying().(*types.Basic); ok && b.Kind() == types.Int {
				switch n.Op {
				case token.ADD:
					return linOf(n.X, depth+1).add(linOf(n.Y, depth+1), 1)
				case token.SUB:
					return linOf(n.X, depth+1).add(linOf(n.Y, depth+1), -1)
				}
			}
		}
	}
	return lin{coef: map[ssa.Value]int64{v: 1}}
}

// factsOfCond: linear facts (each "lin <= 0") established by cond having the given truth value.
func factsOfCond(cond ssa.Value, truth bool) []lin {
	if u, ok := cond.(*ssa.UnOp); ok && u.Op == token.NOT {
		return factsOfCond(u.X, !truth)
	}
	bo, ok := cond.(*ssa.BinOp)
	if !ok {
		return nil
	}
	if b, ok := bo.X.Type().Underlying().(*types.Basic); !ok || b.Kind() != types.Int {
		return nil // only `int` comparisons: no wrap-around in range for the sizes involved
	}
	x, y := linOf(bo.X, 0), linOf(bo.Y, 0)
	op := bo.Op
	if !truth {
		switch op {
		case token.LSS:
			op = token.GEQ
		case token.LEQ:
			op = token.GTR
		case token.GTR:
			op = token.LEQ
		case token.GEQ:
			op = token.LSS
		case token.EQL:
			op = token.NEQ
		case token.NEQ:
			op = token.EQL
		}
	}
	one := lin{coef: map[ssa.Value]int64{}, k: 1}
	switch op {
	case token.LSS: // x - y + 1 <= 0
		return []lin{x.add(y, -1).add(one, 1)}
	case token.LEQ:
		return []lin{x.add(y, -1)}
	case token.GTR:
		return []lin{y.add(x, -1).add(one, 1)}
	case token.GEQ:
		return []lin{y.add(x, -1)}
	case token.EQL:
		return []lin{x.add(y, -1), y.add(x, -1)}
	}
	return nil
}

// implied: target follows from a non-negative sum of at most three facts.
func implied(target lin, facts []lin) bool {
	try := func(sum lin) bool { return sum.sameCoef(target) && sum.k >= target.k }
	zero := lin{coef: map[ssa.Value]int64{}}
	if try(zero) {
		return true
	}
	for i := range facts {
		if try(facts[i]) {
			return true
		}
		for j := i; j < len(facts); j++ {
			s2 := facts[i].add(facts[j], 1)
			if try(s2) {
				return true
			}
			for k := j; k < len(facts); k++ {
				if try(s2.add(facts[k], 1)) {
					return true
				}
			}
		}
	}
	return false
}

type loopPath struct {
	facts []lin
	back  *ssa.BasicBlock // predecessor through which H is re-entered (nil: path leaves the loop)
}

type loopProof struct {
	fn     *ssa.Function
	header *ssa.BasicBlock
	body   map[*ssa.BasicBlock]bool
	phis   []*ssa.Phi
	inv    []lin
	paths  []loopPath
	bc     *boundsCtx
	rank   string // non-empty: termination argument
}

func loopBody(h *ssa.BasicBlock) (map[*ssa.BasicBlock]bool, []*ssa.BasicBlock) {
	var latches []*ssa.BasicBlock
	for _, p := range h.Preds {
		if h.Dominates(p) {
			latches = append(latches, p)
		}
	}
	body := map[*ssa.BasicBlock]bool{h: true}
	stack := append([]*ssa.BasicBlock{}, latches...)
	for len(stack) > 0 {
		x := stack[len(stack)-1]
		stack = stack[:len(stack)-1]
		if body[x] {
			continue
		}
		body[x] = true
		stack = append(stack, x.Preds...)
	}
	return body, latches
}

// intervalFacts: lo <= v <= hi from the interval analysis, as linear facts.
func (lp *loopProof) intervalFacts(vals map[ssa.Value]bool, at *ssa.BasicBlock) []lin {
	var out []lin
	for v := range vals {
		if _, isPhi := v.(*ssa.Phi); isPhi {
			continue
		}
		r := lp.bc.rangeAt(v, at)
		if r.okHi {
			out = append(out, lin{coef: map[ssa.Value]int64{v: 1}, k: -r.hi})
		}
		if r.okLo {
			out = append(out, lin{coef: map[ssa.Value]int64{v: -1}, k: r.lo})
		}
	}
	return out
}

func (c *Ctx) proveLoop(fn *ssa.Function, h *ssa.BasicBlock, bc *boundsCtx) *loopProof {
	body, latches := loopBody(h)
	if len(latches) == 0 {
		return nil
	}
	lp := &loopProof{fn: fn, header: h, body: body, bc: bc}
	for _, ins := range h.Instrs {
		if phi, ok := ins.(*ssa.Phi); ok {
			if b, ok := phi.Type().Underlying().(*types.Basic); ok && b.Kind() == types.Int {
				lp.phis = append(lp.phis, phi)
			}
		}
	}
	if len(lp.phis) == 0 || len(body) > 24 {
		return nil
	}
	isPhi := map[ssa.Value]bool{}
	for _, p := range lp.phis {
		isPhi[p] = true
	}
	// paths through the body
	var walk func(b *ssa.BasicBlock, facts []lin, seen map[*ssa.BasicBlock]bool)
	walk = func(b *ssa.BasicBlock, facts []lin, seen map[*ssa.BasicBlock]bool) {
		if len(lp.paths) > 64 {
			return
		}
		for i, s := range b.Succs {
			f2 := facts
			if ifi, ok := b.Instrs[len(b.Instrs)-1].(*ssa.If); ok {
				f2 = append(append([]lin{}, facts...), factsOfCond(ifi.Cond, i == 0)...)
			}
			switch {
			case s == h:
				lp.paths = append(lp.paths, loopPath{facts: f2, back: b})
			case !body[s]:
				// leaves the loop
			case seen[s]:
				// inner cycle: not handled
				lp.paths = append(lp.paths, loopPath{facts: nil, back: nil})
			default:
				s2 := map[*ssa.BasicBlock]bool{}
				for k := range seen {
					s2[k] = true
				}
				s2[s] = true
				walk(s, f2, s2)
			}
		}
	}
	walk(h, nil, map[*ssa.BasicBlock]bool{h: true})
	for _, p := range lp.paths {
		if p.back == nil {
			return nil // nested loop inside: out of scope of this prover
		}
	}
	// candidates
	var cands []lin
	outside := func(v ssa.Value) bool {
		ins, ok := v.(ssa.Instruction)
		return !ok || !body[ins.Block()]
	}
	for _, p := range lp.phis {
		for i, e := range p.Edges {
			if body[h.Preds[i]] {
				continue
			}
			if k, ok := e.(*ssa.Const); ok && k.Value != nil && k.Int64() >= 0 {
				cands = append(cands, lin{coef: map[ssa.Value]int64{p: -1}}) // -p <= 0
			}
		}
	}
	for b := range body {
		ifi, ok := b.Instrs[len(b.Instrs)-1].(*ssa.If)
		if !ok {
			continue
		}
		bo, ok := ifi.Cond.(*ssa.BinOp)
		if !ok || (bo.Op != token.GEQ && bo.Op != token.LSS) {
			continue
		}
		e, d := linOf(bo.X, 0), linOf(bo.Y, 0)
		okE := len(e.coef) > 0
		for v, cf := range e.coef {
			if !isPhi[v] || cf <= 0 {
				okE = false
			}
		}
		okD := len(d.coef) == 1 && d.k == 0
		for v := range d.coef {
			if !outside(v) {
				okD = false
			}
		}
		if okE && okD {
			cand := lin{coef: map[ssa.Value]int64{}, k: 1}
			for v, cf := range e.coef {
				cand.coef[v] = cf
			}
			cand = cand.add(d, -1) // Σφ − D + 1 <= 0
			dup := false
			for _, x := range cands {
				if x.sameCoef(cand) && x.k == cand.k {
					dup = true
				}
			}
			if !dup {
				cands = append(cands, cand)
			}
		}
	}
	// elimination
	subst := func(t lin, back *ssa.BasicBlock) lin { // t with every phi replaced by its value on the back edge
		out := lin{coef: map[ssa.Value]int64{}, k: t.k}
		idx := -1
		for i, p := range h.Preds {
			if p == back {
				idx = i
			}
		}
		for v, cf := range t.coef {
			if phi, ok := v.(*ssa.Phi); ok && isPhi[v] && idx >= 0 {
				out = out.add(linOf(phi.Edges[idx], 0), cf)
			} else {
				out = out.add(lin{coef: map[ssa.Value]int64{v: 1}}, cf)
			}
		}
		return out
	}
	entryIdx := -1
	for i, p := range h.Preds {
		if !body[p] {
			if entryIdx >= 0 {
				return nil // several entries
			}
			entryIdx = i
		}
	}
	if entryIdx < 0 {
		return nil
	}
	for changed := true; changed; {
		changed = false
		var keep []lin
		for _, cand := range cands {
			ok := true
			// entry
			init := lin{coef: map[ssa.Value]int64{}, k: cand.k}
			vals := map[ssa.Value]bool{}
			for v, cf := range cand.coef {
				if phi, isP := v.(*ssa.Phi); isP && isPhi[v] {
					init = init.add(linOf(phi.Edges[entryIdx], 0), cf)
				} else {
					init = init.add(lin{coef: map[ssa.Value]int64{v: 1}}, cf)
					vals[v] = true
				}
			}
			for v := range init.coef {
				vals[v] = true
			}
			if !implied(init, lp.intervalFacts(vals, h)) {
				ok = false
			}
			// preservation
			for _, p := range lp.paths {
				if !ok {
					break
				}
				facts := append(append([]lin{}, cands...), p.facts...)
				if !implied(subst(cand, p.back), facts) {
					ok = false
				}
			}
			if os.Getenv("FITCHECK_DEBUG_LOOP") != "" {
				fmt.Fprintf(os.Stderr, "loop %s@%d cand %s init=%s keep=%v\n", fn.Name(), h.Index, cand.String(), init.String(), ok)
			}
			if ok {
				keep = append(keep, cand)
			} else {
				changed = true
			}
		}
		cands = keep
	}
	lp.inv = cands
	// termination: a "below D" invariant whose phi-sum grows by >= 1 on every back edge
	for _, inv := range lp.inv {
		sum := lin{coef: map[ssa.Value]int64{}}
		hasD := false
		for v, cf := range inv.coef {
			if isPhi[v] {
				sum.coef[v] = cf
			} else if cf < 0 {
				hasD = true
			}
		}
		if !hasD || len(sum.coef) == 0 {
			continue
		}
		grows := true
		for _, p := range lp.paths {
			// sum − subst(sum) + 1 <= 0
			t := sum.add(subst(sum, p.back), -1).add(lin{coef: map[ssa.Value]int64{}, k: 1}, 1)
			if !implied(t, append(append([]lin{}, lp.inv...), p.facts...)) {
				grows = false
			}
		}
		if grows {
			lp.rank = "the counters' sum " + strings.TrimSuffix(sum.String(), " +0 <= 0") + " grows on every iteration and stays below its bound (" + inv.String() + ")"
		}
	}
	return lp
}

// dominatingFacts: facts of branch edges inside the loop that dominate block b.
func (lp *loopProof) dominatingFacts(b *ssa.BasicBlock) []lin {
	var out []lin
	for a := range lp.body {
		ifi, ok := a.Instrs[len(a.Instrs)-1].(*ssa.If)
		if !ok {
			continue
		}
		for i, s := range a.Succs {
			if len(s.Preds) == 1 && s.Dominates(b) {
				out = append(out, factsOfCond(ifi.Cond, i == 0)...)
			}
		}
	}
	return out
}

// proveRange: 0 <= lo <= hi <= limit at block b (lo/hi nil-able: lo==nil means 0; hi==nil means index form lo < limit).
func (lp *loopProof) proveIndex(idx ssa.Value, limit int64, b *ssa.BasicBlock) bool {
	e := linOf(idx, 0)
	vals := map[ssa.Value]bool{}
	for v := range e.coef {
		vals[v] = true
	}
	for _, inv := range lp.inv {
		for v := range inv.coef {
			vals[v] = true
		}
	}
	facts := append(append(append([]lin{}, lp.inv...), lp.dominatingFacts(b)...), lp.intervalFacts(vals, b)...)
	upper := e.add(lin{coef: map[ssa.Value]int64{}, k: -(limit - 1)}, 1) // e - (limit-1) <= 0
	lower := lin{coef: map[ssa.Value]int64{}}.add(e, -1)                 // -e <= 0
	return implied(upper, facts) && implied(lower, facts)
}

func (lp *loopProof) proveSlice(lo, hi ssa.Value, limit int64, b *ssa.BasicBlock) bool {
	zero := lin{coef: map[ssa.Value]int64{}}
	l, h := zero, lin{coef: map[ssa.Value]int64{}, k: limit}
	if lo != nil {
		l = linOf(lo, 0)
	}
	if hi != nil {
		h = linOf(hi, 0)
	}
	vals := map[ssa.Value]bool{}
	for v := range l.coef {
		vals[v] = true
	}
	for v := range h.coef {
		vals[v] = true
	}
	for _, inv := range lp.inv {
		for v := range inv.coef {
			vals[v] = true
		}
	}
	facts := append(append(append([]lin{}, lp.inv...), lp.dominatingFacts(b)...), lp.intervalFacts(vals, b)...)
	return implied(zero.add(l, -1), facts) && // -lo <= 0
		implied(l.add(h, -1), facts) && // lo - hi <= 0
		implied(h.add(lin{coef: map[ssa.Value]int64{}, k: -limit}, 1), facts) // hi - limit <= 0
}

func (lp *loopProof) describe() string {
	var s []string
	for _, i := range lp.inv {
		s = append(s, i.String())
	}
	sort.Strings(s)
	return strings.Join(s, "; ")
}

// loopProofs: per function, one proof per loop header (nil when the prover does not apply).
func (c *Ctx) loopProofs(fn *ssa.Function, bc *boundsCtx) map[*ssa.BasicBlock]*loopProof {
	out := map[*ssa.BasicBlock]*loopProof{}
	for _, h := range fn.Blocks {
		isHdr := false
		for _, p := range h.Preds {
			if h.Dominates(p) {
				isHdr = true
			}
		}
		if !isHdr {
			continue
		}
		if lp := c.proveLoop(fn, h, bc); lp != nil && len(lp.inv) > 0 {
			out[h] = lp
		}
	}
	return out
}

// innermostProof: the proof of the innermost proven loop containing b.
func innermostProof(proofs map[*ssa.BasicBlock]*loopProof, b *ssa.BasicBlock) *loopProof {
	var best *loopProof
	for _, lp := range proofs {
		in := lp.body[b]
		if !in {
			// a block entered only through an exit edge of the loop: the counters still have the values of
			// the iteration that left, so the invariant (which holds at the header of every iteration) applies
			for a := range lp.body {
				for _, s := range a.Succs {
					if !lp.body[s] && len(s.Preds) == 1 && s.Dominates(b) {
						in = true
					}
				}
			}
		}
		if in && (best == nil || len(lp.body) < len(best.body)) {
			best = lp
		}
	}
	return best
}
