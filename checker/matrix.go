package main

// Validator x consumer matrix (DESIGN.md C01-R1, C02-R2/R3).
//
// The accepted set of decoder.validateFieldDef is computed exactly by folding its SSA over the
// complete product (profile field class x definition base-type byte x definition size); the
// consumer side (what each arm of parseFitField / parseFitFieldArray reads and which reflect
// setter it uses) is read off the syntax. Obligations join the two.

import (
	"fmt"
	"go/ast"
	"go/token"
	"go/types"
	"sort"
	"strings"
	"sync"

	"golang.org/x/tools/go/ssa"
)

type fieldClass struct {
	Name    string // "absent/unknown-message", "absent/known-message", or "Fit(t)"
	T       uint16
	Found   bool
	Kind    int
	Array   bool
	Base    byte
	Msg     int64
	Num     int
	GoKinds map[string]bool // Go kinds of the struct fields (or slice elements) in this class
	Rows    int
}

type fieldArm struct {
	Consts    []byte
	Width     int    // bytes read by the arm (0: not determined)
	Setter    string // SetUint | SetInt | SetFloat | SetString | SetBytes | Set
	ConvChain []string
	Order     string // byte order receiver expression of the read
	Pos       token.Pos
}

type matrix struct {
	classes  []*fieldClass
	accepted map[string]*[256][256]bool
	evalErrs map[string]string // class -> first evaluation problem
	scalar   []fieldArm
	array    []fieldArm
	armErrs  []string
	nAccept  int
	nEval    int
}

func (e *Evaluator) Eval(fn *ssa.Function, args []Val) (Val, *evalErr) {
	e.steps = 0
	return e.Call(fn, args)
}

func goKindOf(t types.Type) string {
	if sl, ok := t.Underlying().(*types.Slice); ok {
		t = sl.Elem()
	}
	if b := basicOf(t); b != nil {
		switch {
		case b.Info()&types.IsString != 0:
			return "string"
		case b.Info()&types.IsFloat != 0:
			return fmt.Sprintf("float%d", typeWidthF(b))
		case b.Info()&types.IsInteger != 0 && isSigned(b):
			return fmt.Sprintf("int%d", width(b))
		case b.Info()&types.IsInteger != 0:
			return fmt.Sprintf("uint%d", width(b))
		}
	}
	if n, ok := t.(*types.Named); ok {
		return n.Obj().Name()
	}
	return t.String()
}

func typeWidthF(b *types.Basic) int {
	if b.Kind() == types.Float32 {
		return 32
	}
	return 64
}

func (c *Ctx) matrix() *matrix {
	if c.mx != nil {
		return c.mx
	}
	m := &matrix{accepted: map[string]*[256][256]bool{}, evalErrs: map[string]string{}}
	c.mx = m
	p, errs := c.profile()
	if p == nil || len(errs) > 0 {
		m.armErrs = append(m.armErrs, "profile tables unreadable: "+strings.Join(errs, "; "))
		return m
	}
	// classes
	byT := map[uint16]*fieldClass{}
	for _, mn := range p.sortedMsgs() {
		if !p.Known[mn] {
			continue
		}
		mt := p.MsgTypes[mn]
		var st *types.Struct
		if mt != nil {
			st, _ = mt.Underlying().(*types.Struct)
		}
		for _, num := range p.sortedNums(mn) {
			pf := p.Fields[mn][num]
			fc := byT[pf.T]
			if fc == nil {
				fc = &fieldClass{Name: fmt.Sprintf("Fit(%d)", pf.T), T: pf.T, Found: true, Kind: pf.Kind, Array: pf.Array, Base: pf.Base, Msg: mn, Num: num, GoKinds: map[string]bool{}}
				byT[pf.T] = fc
			}
			fc.Rows++
			if st != nil && pf.Sindex >= 0 && pf.Sindex < st.NumFields() {
				fc.GoKinds[goKindOf(st.Field(pf.Sindex).Type())] = true
			}
		}
	}
	var ts []int
	for t := range byT {
		ts = append(ts, int(t))
	}
	sort.Ints(ts)
	for _, t := range ts {
		m.classes = append(m.classes, byT[uint16(t)])
	}
	// absent field of a known message; unknown message
	var knownMsg, unknownMsg int64 = -1, -1
	absentNum := -1
	for _, mn := range p.sortedMsgs() {
		if p.Known[mn] && knownMsg < 0 {
			for n := 0; n < 256; n++ {
				if _, ok := p.Fields[mn][n]; !ok {
					knownMsg, absentNum = mn, n
					break
				}
			}
		}
	}
	for cand := int64(0); cand < 65535; cand++ {
		if !p.Known[cand] {
			unknownMsg = cand
			break
		}
	}
	m.classes = append(m.classes,
		&fieldClass{Name: "absent/known-message", Msg: knownMsg, Num: absentNum},
		&fieldClass{Name: "absent/unknown-message", Msg: unknownMsg, Num: 0},
		&fieldClass{Name: "absent/message-beyond-table", Msg: 65000, Num: 3})

	// accepted sets, in parallel (one evaluator per worker)
	vfn := c.ssaFn(c.fn(c.fit, "decoder.validateFieldDef"))
	if vfn == nil {
		m.armErrs = append(m.armErrs, "decoder.validateFieldDef not found")
		return m
	}
	mesgNumT := c.fit.Types.Scope().Lookup("MesgNum")
	baseT := c.typ.Types.Scope().Lookup("Base")
	if mesgNumT == nil || baseT == nil || len(vfn.Params) != 3 {
		m.armErrs = append(m.armErrs, "validateFieldDef signature changed")
		return m
	}
	fdT := vfn.Params[2].Type()
	fdSt, _ := fdT.Underlying().(*types.Struct)
	if fdSt == nil || fdSt.NumFields() != 3 {
		m.armErrs = append(m.armErrs, "fieldDef is not a three-member struct")
		return m
	}
	var mu sync.Mutex
	var wg sync.WaitGroup
	sem := make(chan struct{}, 16)
	for _, fc := range m.classes {
		fc := fc
		wg.Add(1)
		sem <- struct{}{}
		go func() {
			defer wg.Done()
			defer func() { <-sem }()
			ev := newEvaluator(c)
			// receiver: a zero-valued decoder (no logger, debug off): option-dependent branches are decided
			// by C16 to be logging only, so the validator's verdict is the one of the default configuration
			var recv Val = OpaqueV{"decoder"}
			if pt, ok := vfn.Params[0].Type().(*types.Pointer); ok {
				recv = PtrV{C: &Cell{V: ev.zero(pt.Elem()), ReadOnly: true, Name: "decoder"}}
			}
			tbl := &[256][256]bool{}
			nAcc, nEv := 0, 0
			firstErr := ""
			for db := 0; db < 256; db++ {
				for ds := 0; ds < 256; ds++ {
					fd := StructV{F: []Val{nil, nil, nil}}
					for i := 0; i < 3; i++ {
						switch fdSt.Field(i).Name() {
						case "num":
							fd.F[i] = mkInt(uint64(fc.Num), fdSt.Field(i).Type())
						case "size":
							fd.F[i] = mkInt(uint64(ds), fdSt.Field(i).Type())
						case "btype":
							fd.F[i] = mkInt(uint64(db), fdSt.Field(i).Type())
						}
					}
					res, err := ev.Eval(vfn, []Val{recv, mkInt(uint64(fc.Msg), mesgNumT.Type()), fd})
					nEv++
					if err != nil {
						if firstErr == "" {
							firstErr = fmt.Sprintf("base %#02x size %d: %s", db, ds, err.Error())
						}
						continue
					}
					if ev2, ok := res.(ErrV); ok {
						if !ev2.NonNil {
							tbl[db][ds] = true
							nAcc++
						}
					} else if firstErr == "" {
						firstErr = fmt.Sprintf("base %#02x size %d: result is %T, not an error value", db, ds, res)
					}
				}
			}
			mu.Lock()
			m.accepted[fc.Name] = tbl
			m.nAccept += nAcc
			m.nEval += nEv
			if firstErr != "" {
				m.evalErrs[fc.Name] = firstErr
			}
			mu.Unlock()
		}()
	}
	wg.Wait()
	m.scalar, m.array = c.extractArms(m)
	return m
}

// extractArms reads the consumer side from the syntax of parseFitField / parseFitFieldArray.
func (c *Ctx) extractArms(m *matrix) (scalar, array []fieldArm) {
	info := c.fit.TypesInfo
	get := func(fname string) []fieldArm {
		fd := c.decl(c.fn(c.fit, fname))
		if fd == nil {
			m.armErrs = append(m.armErrs, fname+" not found")
			return nil
		}
		var out []fieldArm
		var sw *ast.SwitchStmt
		for _, s := range fd.Body.List {
			if x, ok := s.(*ast.SwitchStmt); ok && x.Tag != nil {
				sw = x
			}
		}
		if sw == nil {
			m.armErrs = append(m.armErrs, fname+": no switch on the definition base type")
			return nil
		}
		tag := strings.ReplaceAll(exprStr(sw.Tag), " ", "")
		if tag != "dfield.btype" && tag != "dbt" {
			m.armErrs = append(m.armErrs, fname+": switch tag is "+tag+", expected the definition's base type")
		}
		hasDefaultErr := false
		for _, cl := range sw.Body.List {
			cc := cl.(*ast.CaseClause)
			if cc.List == nil {
				hasDefaultErr = c.alwaysReturnsErr(cc.Body)
				continue
			}
			arm := fieldArm{Pos: cc.Pos()}
			for _, e := range cc.List {
				v, ok := exprInt(info, e)
				if !ok {
					m.armErrs = append(m.armErrs, fname+": non-constant case "+exprStr(e))
					continue
				}
				arm.Consts = append(arm.Consts, byte(v))
			}
			// locals defined in the arm
			defs := map[types.Object]ast.Expr{}
			ast.Inspect(&ast.BlockStmt{List: cc.Body}, func(nd ast.Node) bool {
				if as, ok := nd.(*ast.AssignStmt); ok && as.Tok == token.DEFINE && len(as.Lhs) == len(as.Rhs) {
					for i, l := range as.Lhs {
						if id := identOf(l); id != nil {
							defs[info.Defs[id]] = as.Rhs[i]
						}
					}
				}
				return true
			})
			var resolve func(e ast.Expr, depth int) ast.Expr
			resolve = func(e ast.Expr, depth int) ast.Expr {
				e = unparen(e)
				if id, ok := e.(*ast.Ident); ok && depth < 4 {
					if d, ok := defs[info.Uses[id]]; ok {
						return resolve(d, depth+1)
					}
				}
				return e
			}
			ast.Inspect(&ast.BlockStmt{List: cc.Body}, func(nd ast.Node) bool {
				call, ok := nd.(*ast.CallExpr)
				if !ok {
					return true
				}
				sel, ok := call.Fun.(*ast.SelectorExpr)
				if !ok {
					return true
				}
				name := sel.Sel.Name
				switch {
				case strings.HasPrefix(name, "Uint") && len(call.Args) == 1:
					if t := info.TypeOf(sel.X); t != nil && strings.HasSuffix(t.String(), "ByteOrder") || strings.Contains(exprStr(sel.X), "arch") || exprStr(sel.X) == "le" || exprStr(sel.X) == "be" {
						w := map[string]int{"Uint16": 2, "Uint32": 4, "Uint64": 8}[name]
						if w > 0 {
							arm.Width = w
							arm.Order = exprStr(sel.X)
						}
					}
				case strings.HasPrefix(name, "Set") && len(call.Args) == 1:
					if f, ok := callee(info, call).(*types.Func); ok && f.Pkg() != nil && f.Pkg().Path() == "reflect" {
						if arm.Setter == "" || name != "Set" {
							if !(arm.Setter != "" && name == "Set") {
								arm.Setter = name
							}
						}
						// conversion chain of the argument
						e := resolve(call.Args[0], 0)
						var chain []string
						for {
							ce, ok := e.(*ast.CallExpr)
							if !ok || len(ce.Args) != 1 {
								break
							}
							if tv, ok := info.Types[ce.Fun]; ok && tv.IsType() {
								chain = append(chain, goKindOf(tv.Type))
								e = resolve(ce.Args[0], 0)
								continue
							}
							if isPkgFunc(callee(info, ce), "math", "Float32frombits") {
								chain = append(chain, "float32frombits")
								e = resolve(ce.Args[0], 0)
								continue
							}
							if isPkgFunc(callee(info, ce), "math", "Float64frombits") {
								chain = append(chain, "float64frombits")
								e = resolve(ce.Args[0], 0)
								continue
							}
							break
						}
						if name != "Set" {
							arm.ConvChain = chain
						}
						// byte reads: d.tmp[0] / d.tmp[j]
						if ix, ok := e.(*ast.IndexExpr); ok && strings.HasSuffix(exprStr(ix.X), ".tmp") && arm.Width == 0 {
							arm.Width = 1
						}
					}
				}
				return true
			})
			if arm.Width == 0 && (arm.Setter == "SetString" || arm.Setter == "SetBytes" || (arm.Setter == "Set" && len(arm.Consts) == 1 && arm.Consts[0] == 0x07)) {
				arm.Width = 1
			}
			out = append(out, arm)
		}
		if !hasDefaultErr {
			m.armErrs = append(m.armErrs, fname+": base types without an arm do not end in an error return")
		}
		return out
	}
	scalar = get("decoder.parseFitField")
	array = get("decoder.parseFitFieldArray")
	// the byte-array fast path of parseFitFieldArray precedes the switch
	if fd := c.decl(c.fn(c.fit, "decoder.parseFitFieldArray")); fd != nil {
		for _, s := range fd.Body.List {
			if ifs, ok := s.(*ast.IfStmt); ok {
				if be, ok := unparen(ifs.Cond).(*ast.BinaryExpr); ok && be.Op == token.EQL {
					if v, ok := exprInt(info, be.Y); ok && strings.Contains(exprStrBlock(ifs.Body), "SetBytes") {
						array = append(array, fieldArm{Consts: []byte{byte(v)}, Width: 1, Setter: "SetBytes", Pos: ifs.Pos()})
					}
				}
			}
		}
	}
	return
}

func exprStrBlock(b *ast.BlockStmt) string {
	var sb strings.Builder
	ast.Inspect(b, func(n ast.Node) bool {
		if c, ok := n.(*ast.CallExpr); ok {
			sb.WriteString(exprStr(c.Fun) + ";")
		}
		return true
	})
	return sb.String()
}

func armFor(arms []fieldArm, db byte) *fieldArm {
	for i := range arms {
		for _, k := range arms[i].Consts {
			if k == db {
				return &arms[i]
			}
		}
	}
	return nil
}

// setterAccepts: does reflect setter s accept a field (or element) of Go kind k without panicking?
func setterAccepts(s, k string) bool {
	switch s {
	case "SetUint":
		return strings.HasPrefix(k, "uint")
	case "SetInt":
		return strings.HasPrefix(k, "int")
	case "SetFloat":
		return strings.HasPrefix(k, "float")
	case "SetString":
		return k == "string"
	case "SetBytes":
		return k == "uint8"
	}
	return false
}
