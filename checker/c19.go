package main

import (
	"fmt"
	"go/ast"
	"go/constant"
	"go/token"
	"go/types"
	"strings"

	"golang.org/x/tools/go/ssa"
)

func init() {
	register(&propDef{
		id: "C19", level: "other", run: runC19,
		explanation: "Decided: two structural necessary conditions in the generator packages (cmd/fitgen, its profile and fitstringer packages). (R1) determinism lint: every range over a map either only builds a map/set or commutative accumulations, or fills slices that are sorted before use, or runs where the map provably holds at most one entry; one frozen exception with its reason (genExpandComponents over dynCompFieldIndices, order-sensitive only with two or more dynamic-component fields in one message, which no bundled workbook has); the generation time reaches the output only under the timestamp flag; no other ambient input is used by the emitters. (R2b) the product-profile selection is an input: nothing in the generator stores into the example column of a workbook row. (R3) a pointer fetched from a map is dereferenced only under a nil/comma-ok test or with a key collected from the same map: a selection in which the key is absent must not panic. (R2) emitter agreement: the struct-field emitter, the constructor emitter and the lookup-table emitter each iterate msg.Fields without skipping and emit exactly one item per element, the table's struct index is the loop index and its key and number are the field's definition number; the SDK version printed is the pair handed to NewGenerator; rows with an empty or zero example column are skipped before the field slice is built. NOT decided: exit status, compilation of the output, byte identity of repeated runs, behaviour for every dependency-closed subset of rows: all of these need the command to run. Added: pick-any map loops need exactly one entry (C19-R2-pick-one, interprocedural length facts plus a re-checked fill chain); the version string from a zip name is exactly the name minus suffix and prefix; output files are written truncating (C19-R4-output-writes). (R2-imports) every import line the generator emits is a top-level, unconditional statement of its emitter: the generated file compiles whatever the profile contains. (R2-options-from-flags) every generator option constructed in the command is passed unconditionally or under flag loads only. (R5-full-scan) downward index scans that look at element i only reach index 0. (R5-const-index) constant indexes into lists of the generator's own structures are behind a length test.",
		trusted:     []string{"Go's map iteration order is the only source of nondeterminism in sequential code without ambient inputs", "go/types resolution of the generator packages"},
	})
}

func runC19(c *Ctx, r *Report) {
	exceptions := map[string]string{
		"*codeGenerator.genExpandComponents/range-dynCompFieldIndices": "emits one block per dynamic-component field in map order; order matters only when a message has two or more such fields, which none of the five bundled workbooks (hence no subset of their rows) produces",
	}
	n := 0
	nFuncs := 0
	for _, pp := range []string{mainPath, genPath, strPath} {
		p := c.pkgs[pp]
		if p == nil {
			r.fail("C19-R1-determinism", pp, "", "generator package not loaded")
			continue
		}
		for _, f := range p.Syntax {
			if strings.HasSuffix(c.fset.Position(f.Pos()).Filename, "_test.go") {
				continue
			}
			for _, d := range f.Decls {
				fd, ok := d.(*ast.FuncDecl)
				if !ok || fd.Body == nil {
					continue
				}
				nFuncs++
				n += mapOrderInDecl(c, r, p.TypesInfo, fd, "C19-R1-determinism", exceptions)
			}
		}
	}
	c19Selection(c, r)
	c19VersionParsing(c, r)
	c19PickOne(c, r)
	c19OutputWrites(c, r)
	c19FlagPrecedence(c, r)
	c19InputLimits(c, r)
	c19Imports(c, r)
	c19OptionsFromFlags(c, r)
	c19FullScans(c, r)
	c19ConstIndex(c, r)
	c19DynCompPremise(c, r)
	r.set("generator_functions", nFuncs)
	r.set("map_ranges", n)
	r.need("map ranges in the generator", n, 6)

	// ambient inputs in the emitters (profile package): only time.Now, stored in genTime
	if sp := c.ssaPkgs[genPath]; sp != nil {
		nNow := 0
		for _, fn := range c.moduleFuncs() {
			if fnPkgPath(fn) != genPath && fnPkgPath(fn) != strPath {
				continue
			}
			for _, ci := range allCalls(fn) {
				cal := ci.Common().StaticCallee()
				if cal == nil {
					continue
				}
				name := cal.String()
				if why, banned := ambientCalls[name]; banned || (cal.Pkg != nil && (cal.Pkg.Pkg.Path() == "math/rand" || cal.Pkg.Pkg.Path() == "math/rand/v2")) {
					if name == "time.Now" {
						nNow++
						// result must be stored into genTime only
						okStore := false
						if v, ok := ci.(*ssa.Call); ok {
							for _, ref := range *v.Referrers() {
								if st, ok := ref.(*ssa.Store); ok && strings.HasSuffix(pathOf(st.Addr), ".genTime") {
									okStore = true
								}
							}
						}
						r.check(okStore, "C19-R1-ambient", fn.Name()+"/time.Now", c.pos(ci.Pos()), "the wall clock is only stored in genTime", "time.Now() is used for something other than the generation-time stamp")
						continue
					}
					if fnPkgPath(fn) == strPath && (strings.HasPrefix(name, "os.")) {
						continue
					}
					r.fail("C19-R1-ambient", fn.Name()+"/"+name, c.pos(ci.Pos()), "generator calls "+name+" ("+why+"): output depends on more than the workbook and the flags")
				}
			}
		}
		// every read of genTime is under addGenTime
		nUse := 0
		for _, fn := range c.moduleFuncs() {
			if fnPkgPath(fn) != genPath {
				continue
			}
			for _, b := range fn.Blocks {
				for _, ins := range b.Instrs {
					u, ok := ins.(*ssa.UnOp)
					if !ok || u.Op != token.MUL || !strings.HasSuffix(pathOf(u.X), ".genTime") {
						continue
					}
					nUse++
					okG := domByBoolEdge(fn, b, true, func(v ssa.Value) bool { return strings.HasSuffix(pathOf(v), ".addGenTime") })
					r.check(okG, "C19-R1-ambient", fmt.Sprintf("%s/genTime-use-%d", fn.Name(), nUse), c.pos(u.Pos()), "generation time is emitted only under the timestamp flag", "the generation time reaches the output without the timestamp flag: repeated runs differ")
				}
			}
		}
		r.need("uses of the generation time", nUse, 1)
		_ = nNow
	}

	// ---- R2 emitter agreement ---------------------------------------------------------------------
	info := c.pkgs[genPath].TypesInfo
	decl := func(name string) *ast.FuncDecl { return c.decl(c.fn(c.pkgs[genPath], name)) }
	// one emission per element, no skipping
	oneEmission := func(fname string) (bool, string, *ast.FuncDecl) {
		fd := decl(fname)
		if fd == nil {
			return false, fname + " not found", nil
		}
		var loop ast.Stmt
		var body *ast.BlockStmt
		for _, s := range fd.Body.List {
			switch x := s.(type) {
			case *ast.RangeStmt:
				if strings.HasSuffix(exprStr(x.X), "msg.Fields") {
					loop, body = x, x.Body
				}
			case *ast.ForStmt:
				if x.Cond != nil && strings.Contains(exprStr(x.Cond), "len(msg.Fields)") {
					loop, body = x, x.Body
				}
			}
		}
		if loop == nil {
			return false, "no loop over msg.Fields at the top level of " + fname, fd
		}
		// count g.p calls on each path through the top-level statements of the body; no continue/break/return
		bad := ""
		count := 0
		for _, s := range body.List {
			switch x := s.(type) {
			case *ast.ExprStmt:
				if isGP(x.X) {
					count++
				}
			case *ast.IfStmt:
				// either both branches emit exactly one (counted once) or neither emits
				t, e := countGP(x.Body), -1
				if eb, ok := x.Else.(*ast.BlockStmt); ok {
					e = countGP(eb)
				}
				switch {
				case t == 0 && (e == 0 || e == -1):
				case t == 1 && e == 1:
					count++
				default:
					bad = "a conditional emits for some fields only"
				}
			}
			ast.Inspect(s, func(n ast.Node) bool {
				if br, ok := n.(*ast.BranchStmt); ok && (br.Tok == token.CONTINUE || br.Tok == token.BREAK || br.Tok == token.GOTO) {
					// continue inside a nested loop is fine
					inner := false
					ast.Inspect(s, func(m ast.Node) bool {
						switch l := m.(type) {
						case *ast.RangeStmt:
							if l.Pos() <= br.Pos() && br.End() <= l.End() {
								inner = true
							}
						case *ast.ForStmt:
							if l.Pos() <= br.Pos() && br.End() <= l.End() {
								inner = true
							}
						}
						return true
					})
					if !inner {
						bad = "the loop skips elements (" + br.Tok.String() + ")"
					}
				}
				if _, ok := n.(*ast.ReturnStmt); ok {
					bad = "the loop returns early"
				}
				return true
			})
		}
		if bad != "" {
			return false, bad, fd
		}
		if count != 1 {
			return false, fmt.Sprintf("%d emissions per field", count), fd
		}
		return true, "exactly one emission per element of msg.Fields, no element skipped", fd
	}
	for _, fname := range []string{"codeGenerator.genFields", "codeGenerator.genConstructor"} {
		ok, why, fd := oneEmission(fname)
		pos := ""
		if fd != nil {
			pos = c.pos(fd.Pos())
		}
		r.check(ok, "C19-R2-emitter-agreement", fname, pos, why, fname+": "+why+": struct fields, constructor entries and lookup rows no longer correspond one to one")
	}
	// genFieldsArray: nested (per message) loop; match the inner emission
	if fd := decl("codeGenerator.genFieldsArray"); fd != nil {
		okTbl := false
		why := "lookup-table emitter not recognised"
		rowCheck := func(es *ast.ExprStmt) {
			call := es.X.(*ast.CallExpr)
			var args []string
			for _, a := range call.Args {
				if s, ok := constStrOf(info, a); ok {
					args = append(args, "'"+strings.ReplaceAll(s, " ", "")+"'")
				} else {
					args = append(args, strings.ReplaceAll(exprStr(a), " ", ""))
				}
			}
			got := strings.Join(args, " ")
			want := "f.DefNum ':{' i ',' f.DefNum ',' f.FType.ValueString() ',' f.Length '},'"
			if got == want {
				okTbl = true
				why = "row key = definition number, struct index = position in msg.Fields, number = definition number, then type code and length"
			} else {
				why = "table row is emitted as [" + got + "], expected [" + want + "]"
			}
		}
		ast.Inspect(fd.Body, func(nd ast.Node) bool {
			// the same loop as `for i, f := range msg.Fields { emit }`
			if rs, ok := nd.(*ast.RangeStmt); ok && rs.Tok == token.DEFINE && rs.Key != nil && rs.Value != nil &&
				exprStr(rs.Key) == "i" && exprStr(rs.Value) == "f" && strings.ReplaceAll(exprStr(rs.X), " ", "") == "msg.Fields" {
				if len(rs.Body.List) == 1 {
					if es, ok := rs.Body.List[0].(*ast.ExprStmt); ok && isGP(es.X) {
						rowCheck(es)
						return true
					}
				}
				why = "table loop body is not a single g.p(...)"
				return true
			}
			fs, ok := nd.(*ast.ForStmt)
			if !ok || fs.Cond == nil || strings.ReplaceAll(exprStr(fs.Cond), " ", "") != "i<len(msg.Fields)" {
				return true
			}
			init := ""
			if as, ok := fs.Init.(*ast.AssignStmt); ok {
				init = strings.ReplaceAll(exprStr(as.Lhs[0])+":="+exprStr(as.Rhs[0]), " ", "")
			}
			post := ""
			if inc, ok := fs.Post.(*ast.IncDecStmt); ok && inc.Tok == token.INC {
				post = exprStr(inc.X)
			}
			if init != "i:=0" || post != "i" || len(fs.Body.List) != 2 {
				why = "table loop is not `for i := 0; i < len(msg.Fields); i++ { f := msg.Fields[i]; emit }`"
				return true
			}
			as, ok1 := fs.Body.List[0].(*ast.AssignStmt)
			es, ok2 := fs.Body.List[1].(*ast.ExprStmt)
			if !ok1 || !ok2 || strings.ReplaceAll(exprStr(as.Rhs[0]), " ", "") != "msg.Fields[i]" || !isGP(es.X) {
				why = "table loop body is not `f := msg.Fields[i]; g.p(...)`"
				return true
			}
			call := es.X.(*ast.CallExpr)
			var args []string
			for _, a := range call.Args {
				if s, ok := constStrOf(info, a); ok {
					args = append(args, "'"+strings.ReplaceAll(s, " ", "")+"'")
				} else {
					args = append(args, strings.ReplaceAll(exprStr(a), " ", ""))
				}
			}
			got := strings.Join(args, " ")
			want := "f.DefNum ':{' i ',' f.DefNum ',' f.FType.ValueString() ',' f.Length '},'"
			if got == want {
				okTbl = true
				why = "row key = definition number, struct index = position in msg.Fields, number = definition number, then type code and length"
			} else {
				why = "table row is emitted as [" + got + "], expected [" + want + "]"
			}
			return true
		})
		r.check(okTbl, "C19-R2-emitter-agreement", "codeGenerator.genFieldsArray", c.pos(fd.Pos()), why, why)
	} else {
		r.fail("C19-R2-emitter-agreement", "codeGenerator.genFieldsArray", "", "not found")
	}
	// version
	if fd := decl("newCodeGenerator"); fd != nil {
		src := ""
		for _, s := range fd.Body.List {
			src += strings.ReplaceAll(stmtStr(c, s), " ", "") + ";"
		}
		ok := strings.Contains(src, "g.sdkMajVer=sdkMajVer;") && strings.Contains(src, "g.sdkMinVer=sdkMinVer;") && strings.Contains(src, `g.sdkFullVer=fmt.Sprintf("%d.%d",sdkMajVer,sdkMinVer);`)
		r.check(ok, "C19-R2-version", "newCodeGenerator", c.pos(fd.Pos()), "version fields are the constructor's arguments", "the code generator does not record the SDK version it was given")
	}
	for _, e := range []struct{ fn, need string }{{"codeGenerator.genHeader", "g.sdkFullVer"}, {"codeGenerator.genVersionConsts", "g.sdkMajVer"}, {"codeGenerator.genVersionConsts", "g.sdkMinVer"}} {
		fd := decl(e.fn)
		ok := false
		if fd != nil {
			ast.Inspect(fd.Body, func(n ast.Node) bool {
				if call, isC := n.(*ast.CallExpr); isC && isGP(call) {
					for _, a := range call.Args {
						if exprStr(a) == e.need {
							ok = true
						}
					}
				}
				return true
			})
		}
		r.check(ok, "C19-R2-version", e.fn+"/"+e.need, "", "prints "+e.need, e.fn+" does not print "+e.need+": the generated code does not declare the requested SDK version")
	}
	// the Generator hands its own (sdkMajVer, sdkMinVer) — set once from NewGenerator's arguments — to the code generator
	{
		okPass, nCalls := true, 0
		for _, fn := range c.moduleFuncs() {
			if fnPkgPath(fn) != genPath {
				continue
			}
			for _, ci := range allCalls(fn) {
				if f := ci.Common().StaticCallee(); f != nil && f.Name() == "newCodeGenerator" {
					nCalls++
					a0, a1 := pathOf(ci.Common().Args[0]), pathOf(ci.Common().Args[1])
					if !(strings.HasSuffix(a0, ".sdkMajVer") && strings.HasSuffix(a1, ".sdkMinVer")) {
						okPass = false
					}
				}
			}
			for _, b := range fn.Blocks {
				for _, ins := range b.Instrs {
					if st, ok := ins.(*ssa.Store); ok && (isFieldOf(st.Addr, "Generator", "sdkMajVer") || isFieldOf(st.Addr, "Generator", "sdkMinVer")) {
						if _, isParam := st.Val.(*ssa.Parameter); !isParam || fn.Name() != "NewGenerator" {
							okPass = false
						}
					}
				}
			}
		}
		r.check(okPass && nCalls >= 1, "C19-R2-version", "Generator/passes-version", "", "the version given to NewGenerator is stored once and handed to the code generator unchanged", "the SDK version printed is not the pair passed to NewGenerator")
	}
	// stores to the version fields only in the constructor
	for _, fn := range c.moduleFuncs() {
		if fnPkgPath(fn) != genPath || fn.Name() == "newCodeGenerator" {
			continue
		}
		for _, b := range fn.Blocks {
			for _, ins := range b.Instrs {
				if st, ok := ins.(*ssa.Store); ok {
					p := pathOf(st.Addr)
					if !(isFieldOf(st.Addr, "codeGenerator", "sdkMajVer") || isFieldOf(st.Addr, "codeGenerator", "sdkMinVer") || isFieldOf(st.Addr, "codeGenerator", "sdkFullVer")) {
						continue
					}
					if strings.HasSuffix(p, ".sdkMajVer") || strings.HasSuffix(p, ".sdkMinVer") || strings.HasSuffix(p, ".sdkFullVer") {
						r.fail("C19-R2-version", "store@"+fn.Name(), c.pos(st.Pos()), "the SDK version is changed after construction")
					}
				}
			}
		}
	}
	// skip rule
	if fd := decl("Field.transform"); fd != nil && len(fd.Body.List) > 0 {
		ifs, ok := fd.Body.List[0].(*ast.IfStmt)
		okSkip := false
		if ok {
			cond := strings.ReplaceAll(exprStr(ifs.Cond), " ", "")
			if cond == `f.data[mEXAMPLE]==""||f.data[mEXAMPLE]=="0"` {
				ast.Inspect(ifs.Body, func(n ast.Node) bool {
					if rs, isR := n.(*ast.ReturnStmt); isR && len(rs.Results) == 2 && exprStr(rs.Results[0]) == "true" {
						okSkip = true
					}
					return true
				})
			}
		}
		r.check(okSkip, "C19-R2-skip-rule", "Field.transform", c.pos(fd.Pos()), "rows with an empty or zero example column are reported as skipped before anything else is derived", "Field.transform does not start by skipping rows whose example column is empty or 0")
	}
	if fd := decl("TransformMsgs"); fd != nil {
		okOrder := false
		ast.Inspect(fd.Body, func(n ast.Node) bool {
			rg, ok := n.(*ast.RangeStmt)
			if !ok || !strings.HasSuffix(exprStr(rg.X), "pmsg.Fields") {
				return true
			}
			seenSkip := false
			for _, s := range rg.Body.List {
				if ifs, ok := s.(*ast.IfStmt); ok && exprStr(ifs.Cond) == "skip" && len(ifs.Body.List) == 1 {
					if br, ok := ifs.Body.List[0].(*ast.BranchStmt); ok && br.Tok == token.CONTINUE {
						seenSkip = true
					}
				}
				if as, ok := s.(*ast.AssignStmt); ok && strings.Contains(stmtStr(c, as), "append(msg.Fields") {
					okOrder = seenSkip
				}
			}
			return true
		})
		r.check(okOrder, "C19-R2-skip-rule", "TransformMsgs", c.pos(fd.Pos()), "skipped rows never enter msg.Fields", "a skipped (disabled) row can enter msg.Fields")
	}
	_ = types.Typ
}

func isGP(e ast.Expr) bool {
	call, ok := e.(*ast.CallExpr)
	if !ok {
		return false
	}
	sel, ok := call.Fun.(*ast.SelectorExpr)
	return ok && sel.Sel.Name == "p" && exprStr(sel.X) == "g"
}

func countGP(b *ast.BlockStmt) int {
	n := 0
	for _, s := range b.List {
		if es, ok := s.(*ast.ExprStmt); ok && isGP(es.X) {
			n++
		}
	}
	return n
}

// c19Selection: the product-profile selection is an input. (a) Nothing in the generator writes
// the example column of a workbook row (a row is a []string; the column index is the constant
// mEXAMPLE): whether a row is generated is decided by the workbook alone. (b) Generating must not
// panic for a selection the shipped workbooks do not contain: a pointer fetched from a map without
// the comma-ok form is nil for a missing key, so it may be dereferenced only under a nil test.
func c19Selection(c *Ctx, r *Report) {
	ex, okEx := c.constInt(c.pkgs[genPath], "mEXAMPLE")
	if !okEx {
		r.fail("C19-R2-selection-readonly", "mEXAMPLE", "", "column constant not found")
		return
	}
	nStores, nLookups := 0, 0
	for _, fn := range c.moduleFuncs() {
		if fnPkgPath(fn) != genPath && fnPkgPath(fn) != mainPath {
			continue
		}
		if strings.HasSuffix(c.fset.Position(fn.Pos()).Filename, "_test.go") {
			continue
		}
		idxL := 0
		for _, b := range fn.Blocks {
			for _, ins := range b.Instrs {
				switch n := ins.(type) {
				case *ssa.Store:
					ia, ok := n.Addr.(*ssa.IndexAddr)
					if !ok {
						continue
					}
					sl, ok := ia.X.Type().Underlying().(*types.Slice)
					if !ok {
						continue
					}
					if bt, ok := sl.Elem().Underlying().(*types.Basic); !ok || bt.Kind() != types.String {
						continue
					}
					nStores++
					if k, ok := ia.Index.(*ssa.Const); ok && k.Value != nil && k.Int64() == ex {
						r.fail("C19-R2-selection-readonly", fn.Name()+"/"+stripAddrs(pathOf(ia)), c.pos(n.Pos()), "the example column (product-profile selection) of a workbook row is overwritten: code is generated for a row the profile disabled (or not generated for one it enabled)")
					}
				case *ssa.Lookup:
					mt, ok := n.X.Type().Underlying().(*types.Map)
					if !ok {
						continue
					}
					if _, isPtr := mt.Elem().Underlying().(*types.Pointer); !isPtr {
						continue
					}
					nLookups++
					key := fmt.Sprintf("%s/lookup-%s#%d", fn.Name(), stripAddrs(pathOf(n.X)), idxL)
					idxL++
					// sorted-keys idiom: the keys were collected by ranging over this very map in this function
					sameMapRanged := false
					for _, b2 := range fn.Blocks {
						for _, i2 := range b2.Instrs {
							if rg, ok := i2.(*ssa.Range); ok && stripAddrs(pathOf(rg.X)) == stripAddrs(pathOf(n.X)) {
								if _, isIdx := n.Index.(*ssa.UnOp); isIdx { // key is an element loaded from the key slice
									sameMapRanged = true
								}
							}
						}
					}
					if sameMapRanged {
						r.ok("C19-R3-lookup-nil", key, c.pos(n.Pos()), "key taken from the keys collected by ranging over the same map in this function (present by construction)")
						continue
					}
					var val ssa.Value = n
					var okFlag ssa.Value
					if n.CommaOk {
						val = nil
						for _, ref := range *n.Referrers() {
							if e, ok := ref.(*ssa.Extract); ok {
								if e.Index == 0 {
									val = e
								} else {
									okFlag = e
								}
							}
						}
					}
					if val == nil {
						r.ok("C19-R3-lookup-nil", key, c.pos(n.Pos()), "value unused")
						continue
					}
					bad := ""
					for _, ref := range *val.Referrers() {
						var at *ssa.BasicBlock
						switch u := ref.(type) {
						case *ssa.FieldAddr:
							at = u.Block()
						case *ssa.UnOp:
							if u.Op == token.MUL {
								at = u.Block()
							}
						case *ssa.Call:
							if u.Common().IsInvoke() {
								continue
							}
							if f := u.Common().StaticCallee(); f != nil && f.Signature.Recv() != nil && len(u.Common().Args) > 0 && u.Common().Args[0] == val {
								at = u.Block() // method call on a possibly nil receiver
							}
						}
						if at == nil {
							continue
						}
						guarded := domByBoolEdge(fn, at, true, func(v ssa.Value) bool {
							if okFlag != nil && v == okFlag {
								return true
							}
							bo, ok := v.(*ssa.BinOp)
							return ok && bo.Op == token.NEQ && bo.X == val && isNilConst(bo.Y)
						}) || domByBoolEdge(fn, at, false, func(v ssa.Value) bool {
							bo, ok := v.(*ssa.BinOp)
							return ok && bo.Op == token.EQL && bo.X == val && isNilConst(bo.Y)
						})
						if !guarded {
							bad = c.pos(ref.Pos())
						}
					}
					r.check(bad == "", "C19-R3-lookup-nil", key, c.pos(n.Pos()), "dereferenced only under a nil / comma-ok test", "a pointer fetched from a map is dereferenced at "+bad+" without a nil or comma-ok test: for a product profile in which the key is absent (a disabled row) the generator panics instead of exiting successfully")
				}
			}
		}
	}
	r.set("string_slice_element_stores", nStores)
	r.set("pointer_map_lookups", nLookups)
	r.ok("C19-R2-selection-readonly", "scan", "", fmt.Sprintf("%d stores into []string elements in the generator: none into the example column", nStores))
}

// c19VersionParsing: the SDK version requested through a zip file name is the file name minus
// ".zip" and the "FitSDKRelease_" prefix, nothing else (decided on the function's path terms), and
// no Trim/TrimLeft/TrimRight in the command or the generator is given a multi-character cutset
// (a set of characters, not a suffix: TrimRight("21.40.00", ".0") is "21.4").
func c19VersionParsing(c *Ctx, r *Report) {
	mp := c.pkgs[mainPath]
	if mp == nil {
		r.fail("C19-R2-version", "main", "", "cmd/fitgen not loaded")
		return
	}
	if fn := c.ssaFn(c.fn(mp, "parseSDKVersionStringFromZipFilePath")); fn != nil {
		o := symPaths(fn, nil, 2)
		want := `(call strings.TrimPrefix (call strings.TrimSuffix (ext1 (call filepath.Split p0)) ".zip") "FitSDKRelease_")`
		ok := o.why == "" && len(o.paths) == 1 && len(o.paths[0].rets) == 1 && o.paths[0].rets[0] == want
		got := o.why
		if len(o.paths) > 0 && len(o.paths[0].rets) > 0 {
			got = o.paths[0].rets[0]
		}
		r.check(ok, "C19-R2-version", "parseSDKVersionStringFromZipFilePath", c.pos(fn.Pos()), "version string = base name minus .zip and FitSDKRelease_", "the SDK version taken from the zip file name is not `TrimPrefix(TrimSuffix(base, \".zip\"), \"FitSDKRelease_\")`: "+got+" — the declared SDK version can differ from the requested one")
	} else {
		r.fail("C19-R2-version", "parseSDKVersionStringFromZipFilePath", "", "not found")
	}
	n := 0
	for _, fn := range c.moduleFuncs() {
		// the command package only: that is where version strings are handled (in the generator package
		// a Trim with a set of characters, e.g. Trim(cell, "[]"), is an ordinary way to strip brackets)
		if pp := fnPkgPath(fn); pp != mainPath {
			continue
		}
		for _, ci := range allCalls(fn) {
			f := ci.Common().StaticCallee()
			if f == nil || f.Pkg == nil || f.Pkg.Pkg.Path() != "strings" {
				continue
			}
			switch f.Name() {
			case "Trim", "TrimLeft", "TrimRight":
			default:
				continue
			}
			n++
			k, ok := ci.Common().Args[1].(*ssa.Const)
			bad := !ok
			if ok && k.Value != nil {
				set := map[rune]bool{}
				for _, ch := range constant.StringVal(k.Value) {
					if ch != ' ' && ch != '\t' && ch != '\n' && ch != '\r' {
						set[ch] = true
					}
				}
				bad = len(set) > 1
			}
			r.check(!bad, "C19-R2-version", fmt.Sprintf("%s/strings.%s-cutset", fn.Name(), f.Name()), c.pos(ci.Pos()), "single-character or whitespace cutset", "strings."+f.Name()+" is given a cutset of several characters: it removes any run of those characters, not a suffix/prefix")
		}
	}
	r.set("trim_cutset_calls", n)
}
