package main

import (
	"fmt"
	"go/ast"
	"go/token"
	"go/types"
	"sort"
	"strings"

	"golang.org/x/tools/go/ssa"
)

func init() {
	register(&propDef{
		id: "C04", level: "other", run: runC04,
		explanation: "Decided: (R1) the input reader is read at exactly the enumerated sites; (R2) for each read site, every path from the read to a success exit of the enclosing function passes a write of exactly the bytes read into the running checksum (structural equality of slice access paths for exact-length reads; base/low/high = low+n algebra for the partial read in fill; the CRC-only copy's sink is the hash itself); (R3) hash typestate: every Sum16 whose result is compared or stored is dominated by at least one Write on that hash since its creation; (R4) verdict dominance: each nil return of checkCRC/decodeHeader/Header.CheckIntegrity/decode is dominated by a zero-residue test or a documented exemption edge (12-byte header, stored header CRC 0, header-only/file-id-only mode); (R5) the header layouts of decodeHeader, Header.CheckIntegrity and Header.MarshalBinary are identical tables; (R6) Encode feeds the hash the same slices in the same order as it writes, CRC little-endian last. With C14 (the polynomial has degree 16 and non-zero constant term, so every burst of <= 16 bits changes the residue) this gives the detection clause. NOT decided: the quantified statement as an input-output fact (the step from R1-R4 + C14 to it is on paper; corruptions that change which bytes are parsed are argued there), nor that a file Encode produced passes CheckIntegrity as an observation. C10-R4-shared-decode runs here too: no entry point has a private reading path.",
		trusted:     []string{"io.ReadFull/binary.Read read exactly len(buf)/sizeof bytes or fail", "io.CopyN(dst,src,n) writes to dst every byte it reads from src and reads exactly n when it returns nil", "io.Reader.Read(p) fills p[0:n]", "CRC burst-error theorem applied to the polynomial proven in C14"},
	})
}

type hashWrite struct {
	call ssa.CallInstruction
	recv string
	arg  ssa.Value
}

func isHash16(t types.Type) bool {
	s := t.String()
	return s == crcPath+".Hash16" || strings.HasPrefix(s, "hash.Hash")
}

func hashWrites(fn *ssa.Function) []hashWrite {
	var out []hashWrite
	for _, ci := range allCalls(fn) {
		cc := ci.Common()
		if cc.IsInvoke() && cc.Method.Name() == "Write" && isHash16(cc.Value.Type()) && len(cc.Args) == 1 {
			out = append(out, hashWrite{ci, pathOf(cc.Value), cc.Args[0]})
		}
	}
	return out
}

func runC04(c *Ctx, r *Report) {
	decT := c.fit.Types.Scope().Lookup("decoder")
	if decT == nil {
		r.fail("C04-anchors", "decoder", "", "type decoder not found")
		return
	}
	c04ReadDiscipline(c, r)

	// ---- R3: hash typestate ------------------------------------------------------------
	c04Typestate(c, r)

	// ---- R4: verdict dominance ------------------------------------------------------------
	c04Verdicts(c, r)

	// ---- R5: header layouts ------------------------------------------------------------
	c04Layouts(c, r)

	// ---- R6: encoder pairing ---------------------------------------------------------------
	c04Encoder(c, r)

	// ---- R7: a verdict, once produced, reaches the caller --------------------------------------
	c04VerdictPropagation(c, r)
}

// c04ReadDiscipline: R1 (who reads the input reader) and R2 (every byte read is fed to the running
// checksum exactly once, whatever the reader's chunking). Shared with C10: a byte hashed twice or not
// at all makes the verdict, and with it the result of Decode / DecodeChained, depend on the chunking.
func c04ReadDiscipline(c *Ctx, r *Report) {
	// ---- R1: who reads d.r ----------------------------------------------------
	type readSite struct {
		fn   *ssa.Function
		call ssa.CallInstruction
		kind string
	}
	var reads []readSite
	nStores := 0
	for _, fn := range c.moduleFuncs() {
		if fnPkgPath(fn) != modPath {
			continue
		}
		for _, b := range fn.Blocks {
			for _, ins := range b.Instrs {
				fa, ok := ins.(*ssa.FieldAddr)
				if !ok || !isFieldOf(fa, "decoder", "r") {
					continue
				}
				for _, ref := range *fa.Referrers() {
					switch u := ref.(type) {
					case *ssa.Store:
						nStores++
						isParam := readerFromCaller(c, u)
						r.check(isParam, "C04-R1-reader-assign", fn.String(), c.pos(u.Pos()), "reader field is assigned once, from the parameter, unwrapped", "decoder.r is assigned somewhere else or from something other than the caller's reader (wrapping it would read ahead)")
					case *ssa.UnOp:
						for _, use := range *u.Referrers() {
							ci, ok := use.(ssa.CallInstruction)
							if !ok {
								if _, isDbg := use.(*ssa.DebugRef); isDbg {
									continue
								}
								r.fail("C04-R1-who-reads", fn.String()+"/"+fmt.Sprintf("%T", use), c.pos(use.Pos()), "the input reader escapes into a non-call use")
								continue
							}
							cc := ci.Common()
							kind := ""
							switch {
							case cc.IsInvoke() && cc.Value == ssa.Value(u) && cc.Method.Name() == "Read":
								kind = "Read"
							case cc.StaticCallee() != nil && cc.StaticCallee().String() == "io.ReadFull":
								kind = "io.ReadFull"
							case cc.StaticCallee() != nil && cc.StaticCallee().String() == "encoding/binary.Read":
								kind = "binary.Read"
							case cc.StaticCallee() != nil && cc.StaticCallee().String() == "io.CopyN":
								kind = "io.CopyN"
							}
							if kind == "" {
								r.fail("C04-R1-who-reads", fn.String()+"/"+calleeName(cc), c.pos(ci.Pos()), "the input reader is handed to "+calleeName(cc)+": bytes read there bypass the running checksum and the framing limit")
								continue
							}
							reads = append(reads, readSite{fn, ci, kind})
						}
					}
				}
			}
		}
	}
	allowed := map[string]bool{"decodeHeader/binary.Read": true, "decodeHeader/io.ReadFull": true, "fill/Read": true, "checkCRC/io.ReadFull": true, "decode/io.CopyN": true}
	for i, rs := range reads {
		k := rs.fn.Name() + "/" + rs.kind
		if rs.kind == "io.CopyN" {
			k = "decode/io.CopyN" // the CRC-only copy may live in a helper; the feed rule (R2) is applied where it is
		}
		r.check(allowed[k], "C04-R1-who-reads", fmt.Sprintf("%s#%d", k, i), c.pos(rs.call.Pos()), "enumerated read site", "unexpected read site of the input reader: "+k)
	}
	r.need("read sites of the input reader", len(reads), 5)
	r.need("assignments of the reader field", nStores, 1)

	// ---- R2: read-feed pairing -----------------------------------------------------
	for i, rs := range reads {
		key := fmt.Sprintf("%s/%s#%d", rs.fn.Name(), rs.kind, i)
		pos := c.pos(rs.call.Pos())
		ok, detail := c04Pairing(c, rs.fn, rs.call, rs.kind)
		r.check(ok, "C04-R2-read-feed", key, pos, detail, detail)
	}
}

func storesInto(fn *ssa.Function, prefix string) []ssa.Instruction {
	var out []ssa.Instruction
	for _, b := range fn.Blocks {
		for _, ins := range b.Instrs {
			if st, ok := ins.(*ssa.Store); ok && strings.HasPrefix(pathOf(st.Addr), prefix) {
				out = append(out, st)
			}
		}
	}
	return out
}

func c04Pairing(c *Ctx, fn *ssa.Function, call ssa.CallInstruction, kind string) (bool, string) {
	cc := call.Common()
	succ := c.successReturns(fn)
	writes := hashWrites(fn)
	covers := func(w hashWrite) bool {
		bar := map[ssa.Instruction]bool{w.call: true}
		for _, ret := range succ {
			if reachableWithout(call, ret.Block(), bar) {
				return false
			}
		}
		return true
	}
	recvName := fn.Params[0].Name()
	crcRecv := "*" + recvName + ".crc"
	switch kind {
	case "io.ReadFull":
		buf := pathOf(cc.Args[1])
		for _, w := range writes {
			if w.recv == crcRecv && pathOf(w.arg) == buf {
				if !covers(w) {
					return false, fmt.Sprintf("a success exit of %s is reachable from the read of %s without passing crc.Write(%s)", fn.Name(), buf, buf)
				}
				// the buffer and the bound must not change in between
				base := strings.SplitN(buf, "[", 2)[0]
				if st := storesInto(fn, base); len(st) > 0 {
					return false, fmt.Sprintf("%s stores into %s between reading and feeding it (%s)", fn.Name(), base, c.pos(st[0].Pos()))
				}
				if st := storesInto(fn, recvName+".h.Size"); len(st) > 0 {
					return false, "header size is stored to between the read and the feed"
				}
				return true, fmt.Sprintf("every success path feeds exactly %s to the running CRC", buf)
			}
		}
		return false, fmt.Sprintf("no crc.Write of %s (the bytes read) in %s", buf, fn.Name())
	case "binary.Read":
		// data argument: interface holding &d.h.Size
		data := cc.Args[2]
		if mi, ok := data.(*ssa.MakeInterface); ok {
			data = mi.X
		}
		p := pathOf(data)
		for _, w := range writes {
			if w.recv != crcRecv {
				continue
			}
			sl, ok := w.arg.(*ssa.Slice)
			if !ok {
				continue
			}
			al, ok := sl.X.(*ssa.Alloc)
			if !ok {
				continue
			}
			at, ok := al.Type().Underlying().(*types.Pointer).Elem().Underlying().(*types.Array)
			if !ok || at.Len() != 1 {
				continue
			}
			for _, ref := range *al.Referrers() {
				ia, ok := ref.(*ssa.IndexAddr)
				if !ok {
					continue
				}
				for _, r2 := range *ia.Referrers() {
					if st, ok := r2.(*ssa.Store); ok && pathOf(st.Val) == "*"+p {
						if !covers(w) {
							return false, "a success exit is reachable from the size read without feeding the size byte"
						}
						return true, "the size byte read into " + p + " is fed as []byte{" + p + "}"
					}
				}
			}
		}
		return false, "the byte read into " + p + " is never fed to the running CRC"
	case "io.CopyN":
		dst := pathOf(cc.Args[0])
		if !strings.Contains(dst, crcRecv) {
			return false, "CRC-only copy does not copy into the running checksum (dst = " + dst + ")"
		}
		n := pathOf(cc.Args[2])
		if !strings.Contains(n, recvName+".h.DataSize") {
			return false, "CRC-only copy length is not the header's data size (n = " + n + ")"
		}
		return true, "CRC-only mode copies exactly DataSize bytes from the reader into the hash"
	case "Read":
		return c04Fill(c, fn, call.(*ssa.Call), crcRecv, writes)
	}
	return false, "unknown read kind"
}

// c04Fill: partial read. buf[lo:end] is read; the fed slice must be buf[lo:lo+n].
func c04Fill(c *Ctx, fn *ssa.Function, call *ssa.Call, crcRecv string, writes []hashWrite) (bool, string) {
	sl, ok := call.Common().Args[0].(*ssa.Slice)
	if !ok || sl.Low == nil {
		return false, "Read buffer is not a slice expression with a low bound"
	}
	base := pathOf(sl.X)
	lowLoad, ok := sl.Low.(*ssa.UnOp)
	if !ok || lowLoad.Op != token.MUL {
		return false, "low bound of the read buffer is not a loaded field"
	}
	pI := pathOf(lowLoad.X) // d.bytes.i
	// n = extract #0
	var n ssa.Value
	for _, ref := range *call.Referrers() {
		if ex, ok := ref.(*ssa.Extract); ok && ex.Index == 0 {
			n = ex
		}
	}
	if n == nil {
		return false, "byte count of Read is discarded"
	}
	// find Store P_j := load(P_j) + n after the call
	var pJ string
	var jStore *ssa.Store
	for _, b := range fn.Blocks {
		for _, ins := range b.Instrs {
			st, ok := ins.(*ssa.Store)
			if !ok {
				continue
			}
			bo, ok := st.Val.(*ssa.BinOp)
			if !ok || bo.Op != token.ADD {
				continue
			}
			var other ssa.Value
			if bo.Y == n {
				other = bo.X
			} else if bo.X == n {
				other = bo.Y
			} else {
				continue
			}
			if pathOf(other) == "*"+pathOf(st.Addr) && instrDominates(call, st) {
				pJ = pathOf(st.Addr)
				jStore = st
			}
		}
	}
	if jStore == nil {
		return false, "no `j += n` bookkeeping store after the Read"
	}
	// before the call: stores P_i := K and P_j := K with the same constant, dominating the call, last stores to those paths
	constOf := func(p string) (string, bool) {
		var last *ssa.Store
		for _, b := range fn.Blocks {
			for _, ins := range b.Instrs {
				st, ok := ins.(*ssa.Store)
				if !ok || pathOf(st.Addr) != p || st == jStore {
					continue
				}
				if !instrDominates(st, call) {
					return "", false // a store to the index that does not dominate the read
				}
				if last == nil || instrDominates(last, st) {
					last = st
				}
			}
		}
		if last == nil {
			return "", false
		}
		k, ok := last.Val.(*ssa.Const)
		if !ok {
			return "", false
		}
		return k.Value.ExactString(), true
	}
	ki, ok1 := constOf(pI)
	kj, ok2 := constOf(pJ)
	if !ok1 || !ok2 || ki != kj {
		return false, fmt.Sprintf("before the Read, %s and %s are not reset to the same constant (the fed range would not start where the read buffer starts)", pI, pJ)
	}
	// the Write: base[load P_i : load P_j], dominated by n > 0, after jStore
	for _, w := range writes {
		if w.recv != crcRecv {
			continue
		}
		ws, ok := w.arg.(*ssa.Slice)
		if !ok || pathOf(ws.X) != base || ws.Low == nil || ws.High == nil {
			continue
		}
		if pathOf(ws.Low) != "*"+pI || pathOf(ws.High) != "*"+pJ {
			continue
		}
		if !instrDominates(jStore, w.call) {
			return false, "the feed happens before the `j += n` bookkeeping"
		}
		// guard n > 0
		guarded := false
		for _, gb := range fn.Blocks {
			if len(gb.Instrs) == 0 {
				continue
			}
			ifi, ok := gb.Instrs[len(gb.Instrs)-1].(*ssa.If)
			if !ok {
				continue
			}
			bo, ok := ifi.Cond.(*ssa.BinOp)
			if !ok || bo.Op != token.GTR || bo.X != n {
				continue
			}
			if k, ok := bo.Y.(*ssa.Const); ok && k.Value != nil && k.Int64() == 0 && len(gb.Succs[0].Preds) == 1 && gb.Succs[0].Dominates(w.call.Block()) {
				// the other branch must not feed and must not be a success with bytes: n <= 0 there
				guarded = true
			}
		}
		if !guarded {
			return false, "the feed of the bytes read is not on the n > 0 path"
		}
		return true, fmt.Sprintf("Read fills %s[%s:%s+n]; `%s += n` with %s == %s == %s beforehand; the n > 0 path feeds %s[%s:%s]", base, pI, pI, pJ, pI, pJ, ki, base, pI, pJ)
	}
	return false, "no crc.Write of " + base + "[" + pI + ":" + pJ + "] (the bytes just read) in fill"
}

// ---- R3 ---------------------------------------------------------------------------

func c04Typestate(c *Ctx, r *Report) {
	n := 0
	for _, fn := range c.moduleFuncs() {
		if fnPkgPath(fn) != modPath {
			continue
		}
		writes := hashWrites(fn)
		idx := 0
		for _, ci := range allCalls(fn) {
			cc := ci.Common()
			if !(cc.IsInvoke() && cc.Method.Name() == "Sum16" && isHash16(cc.Value.Type())) {
				continue
			}
			v, ok := ci.(*ssa.Call)
			if !ok {
				continue
			}
			// verdict use: compared or stored (not merely printed)
			verdict := false
			for _, ref := range *v.Referrers() {
				switch u := ref.(type) {
				case *ssa.BinOp:
					verdict = true
				case *ssa.Store:
					verdict = true
					_ = u
				case *ssa.Return:
					verdict = true
				}
			}
			if !verdict {
				continue
			}
			n++
			key := fmt.Sprintf("%s/Sum16#%d", fn.String(), idx)
			idx++
			recv := pathOf(cc.Value)
			fed := false
			for _, w := range writes {
				if w.recv == recv && instrDominates(w.call, v) {
					fed = true
				}
			}
			// CopyN sink counts as a feed
			for _, ci2 := range allCalls(fn) {
				if f := ci2.Common().StaticCallee(); f != nil && f.String() == "io.CopyN" && strings.Contains(pathOf(ci2.Common().Args[0]), recv) && instrDominates(ci2, v) {
					fed = true
				}
			}
			if !fed {
				// hash created in this function?
				created := false
				if call, ok := cc.Value.(*ssa.Call); ok && call.Common().StaticCallee() != nil && call.Common().StaticCallee().Name() == "New" {
					created = true
				}
				if created || fn.Name() != "checkCRC" {
					r.fail("C04-R3-hash-typestate", key, c.pos(v.Pos()), fmt.Sprintf("Sum16 of %s is used as a verdict but no Write on that hash dominates it: the sum of an unfed hash is the constant 0, so every input \"matches\"", recv))
					continue
				}
			}
			r.ok("C04-R3-hash-typestate", key, c.pos(v.Pos()), "a Write on "+recv+" dominates the verdict")
		}
	}
	r.need("Sum16 verdict sites", n, 4)
}

// ---- R4 ---------------------------------------------------------------------------

type guardEdge struct {
	from *ssa.BasicBlock // the edge from -> blk is taken only with the guard's fact true
	blk  *ssa.BasicBlock
	what string
}

// zeroResidueEdges: successors on which `hash.Sum16() == 0` holds.
func zeroResidueEdges(fn *ssa.Function) []guardEdge {
	var out []guardEdge
	for _, b := range fn.Blocks {
		if len(b.Instrs) == 0 {
			continue
		}
		ifi, ok := b.Instrs[len(b.Instrs)-1].(*ssa.If)
		if !ok {
			continue
		}
		bo, ok := ifi.Cond.(*ssa.BinOp)
		if !ok || (bo.Op != token.NEQ && bo.Op != token.EQL) {
			continue
		}
		var call *ssa.Call
		var k *ssa.Const
		if x, ok := bo.X.(*ssa.Call); ok {
			call = x
			k, _ = bo.Y.(*ssa.Const)
		} else if y, ok := bo.Y.(*ssa.Call); ok {
			call = y
			k, _ = bo.X.(*ssa.Const)
		}
		if call == nil || k == nil || k.Value == nil || k.Uint64() != 0 {
			continue
		}
		cc := call.Common()
		if !(cc.IsInvoke() && cc.Method.Name() == "Sum16" && isHash16(cc.Value.Type())) {
			continue
		}
		succ := b.Succs[1]
		if bo.Op == token.EQL {
			succ = b.Succs[0]
		}
		out = append(out, guardEdge{b, succ, "zero residue of " + pathOf(cc.Value)})
	}
	return out
}

// eqConstEdges: successors on which load(path) == const holds (path suffix match).
func eqConstEdges(c *Ctx, fn *ssa.Function, pathSuffix string, want []int64, what string) []guardEdge {
	var out []guardEdge
	for _, b := range fn.Blocks {
		if len(b.Instrs) == 0 {
			continue
		}
		ifi, ok := b.Instrs[len(b.Instrs)-1].(*ssa.If)
		if !ok {
			continue
		}
		bo, ok := ifi.Cond.(*ssa.BinOp)
		if !ok || (bo.Op != token.NEQ && bo.Op != token.EQL) {
			continue
		}
		x, k := bo.X, bo.Y
		if _, isC := x.(*ssa.Const); isC {
			x, k = k, x
		}
		kc, ok := k.(*ssa.Const)
		if !ok || kc.Value == nil {
			continue
		}
		if !strings.HasSuffix(pathOf(x), pathSuffix) {
			continue
		}
		match := false
		for _, w := range want {
			if kc.Int64() == w {
				match = true
			}
		}
		if !match {
			continue
		}
		succ := b.Succs[0]
		if bo.Op == token.NEQ {
			succ = b.Succs[1]
		}
		out = append(out, guardEdge{b, succ, what})
	}
	return out
}

func paramTrueEdges(fn *ssa.Function, names ...string) []guardEdge {
	var out []guardEdge
	for _, b := range fn.Blocks {
		if len(b.Instrs) == 0 {
			continue
		}
		ifi, ok := b.Instrs[len(b.Instrs)-1].(*ssa.If)
		if !ok {
			continue
		}
		p, ok := ifi.Cond.(*ssa.Parameter)
		if !ok {
			continue
		}
		for _, n := range names {
			if p.Name() == n && b.Succs[0] != b.Succs[1] {
				out = append(out, guardEdge{b, b.Succs[0], "mode " + n})
			}
		}
	}
	return out
}

func c04Verdicts(c *Ctx, r *Report) {
	noCRC, _ := c.constInt(c.fit, "headerSizeNoCRC")
	check := func(fname string, edges func(fn *ssa.Function) []guardEdge, tailCallOK string) {
		fn := c.ssaFn(c.fn(c.fit, fname))
		if fn == nil {
			r.fail("C04-R4-verdict-dominance", fname, "", "function not found")
			return
		}
		ge := edges(fn)
		i := 0
		for _, ret := range c.successReturns(fn) {
			key := fmt.Sprintf("%s/success-return#%d", fname, i)
			i++
			res := resolveSpill(ret.Results[len(ret.Results)-1])
			if call, ok := res.(*ssa.Call); ok && tailCallOK != "" && call.Common().StaticCallee() != nil && (call.Common().StaticCallee().Name() == tailCallOK || c.reachesTargetOnSuccess(call.Common().StaticCallee(), tailCallOK, 1)) {
				r.ok("C04-R4-verdict-dominance", key, c.pos(ret.Pos()), "returns the verdict of "+tailCallOK)
				continue
			}
			// every path from the entry to this return takes one of the guard edges: with those edges cut
			// the return is unreachable (a return behind `a || b`, or after `a && b` failed, has no single
			// dominating edge)
			found := ""
			{
				cut := map[[2]*ssa.BasicBlock]string{}
				for _, g := range ge {
					if g.from.Succs[0] != g.from.Succs[1] {
						cut[[2]*ssa.BasicBlock{g.from, g.blk}] = g.what
					}
				}
				seen := map[*ssa.BasicBlock]bool{fn.Blocks[0]: true}
				q := []*ssa.BasicBlock{fn.Blocks[0]}
				used := map[string]bool{}
				for len(q) > 0 {
					b := q[0]
					q = q[1:]
					for _, s := range b.Succs {
						if w, isCut := cut[[2]*ssa.BasicBlock{b, s}]; isCut {
							used[w] = true
							continue
						}
						if !seen[s] {
							seen[s] = true
							q = append(q, s)
						}
					}
				}
				if !seen[ret.Block()] {
					var ws []string
					for w := range used {
						ws = append(ws, w)
					}
					sort.Strings(ws)
					found = strings.Join(ws, " | ")
					if found == "" {
						found = "unreachable"
					}
				}
			}
			if found == "" {
				r.fail("C04-R4-verdict-dominance", key, c.pos(ret.Pos()), fmt.Sprintf("%s can return success here without passing a zero-residue test or a documented exemption: corrupted input would be accepted", fname))
			} else {
				r.ok("C04-R4-verdict-dominance", key, c.pos(ret.Pos()), "every path here passes: "+found)
			}
		}
		if i == 0 {
			r.fail("C04-R4-verdict-dominance", fname+"/none", "", "no success return found")
		}
	}
	check("decoder.checkCRC", func(fn *ssa.Function) []guardEdge { return zeroResidueEdges(fn) }, "")
	check("decoder.decodeHeader", func(fn *ssa.Function) []guardEdge {
		g := zeroResidueEdges(fn)
		g = append(g, eqConstEdges(c, fn, ".h.Size", []int64{noCRC}, "12-byte header carries no CRC")...)
		g = append(g, eqConstEdges(c, fn, ".h.CRC", []int64{0}, "stored header CRC 0 means not computed")...)
		return g
	}, "")
	check("Header.CheckIntegrity", func(fn *ssa.Function) []guardEdge {
		g := zeroResidueEdges(fn)
		g = append(g, eqConstEdges(c, fn, ".Size", []int64{noCRC}, "12-byte header carries no CRC")...)
		g = append(g, eqConstEdges(c, fn, ".CRC", []int64{0}, "stored header CRC 0 means not computed")...)
		return g
	}, "")
	check("decoder.decode", func(fn *ssa.Function) []guardEdge {
		return paramTrueEdges(fn, "headerOnly", "fileIDOnly")
	}, "checkCRC")
	// the header verdict must run in every mode: decodeHeader call dominates every success return of decode
	if fn := c.ssaFn(c.fn(c.fit, "decoder.decode")); fn != nil {
		hdrs := c.callsVia(fn, "decodeHeader") // directly, or through a helper that returns success only behind it
		ok := len(hdrs) > 0
		for _, ret := range c.successReturns(fn) {
			dom := false
			for _, h := range hdrs {
				if instrDominates(h, ret) {
					dom = true
				}
			}
			if !dom {
				ok = false
			}
		}
		r.check(ok, "C04-R4-verdict-dominance", "decoder.decode/header-first", "", "decodeHeader dominates every success return of decode (all entry points check the header alike)", "a success return of decode is not dominated by decodeHeader")
	}
}

// ---- R5 ---------------------------------------------------------------------------

type layoutRow struct {
	off, n int
}

func c04Layouts(c *Ctx, r *Report) {
	info := c.fit.TypesInfo
	want := map[string]layoutRow{"Size": {0, 1}, "ProtocolVersion": {1, 1}, "ProfileVersion": {2, 2}, "DataSize": {4, 4}, "DataType": {8, 4}, "CRC": {12, 2}}
	sizeCRC, _ := c.constInt(c.fit, "headerSizeCRC")
	show := func(m map[string]layoutRow) string {
		var ks []string
		for k, v := range m {
			ks = append(ks, fmt.Sprintf("%s@%d+%d", k, v.off, v.n))
		}
		sort.Strings(ks)
		return strings.Join(ks, " ")
	}
	widthOf := func(name string) int {
		switch name {
		case "Uint16", "PutUint16":
			return 2
		case "Uint32", "PutUint32":
			return 4
		case "Uint64", "PutUint64":
			return 8
		}
		return 0
	}
	isLE := func(e ast.Expr) bool {
		e = unparen(e)
		if id, ok := e.(*ast.Ident); ok {
			if v, ok := info.Uses[id].(*types.Var); ok && v.Name() == "le" {
				init, _ := c.varInit(c.fit, "le")
				return init != nil && exprStr(init) == "binary.LittleEndian" && len(c.globalWrites(c.fit, "le")) == 0
			}
		}
		return exprStr(e) == "binary.LittleEndian"
	}
	sliceBounds := func(e ast.Expr, hiDefault int) (string, int, int, bool) {
		se, ok := unparen(e).(*ast.SliceExpr)
		if !ok {
			return "", 0, 0, false
		}
		lo, hi := 0, hiDefault
		if se.Low != nil {
			v, ok := exprInt(info, se.Low)
			if !ok {
				return "", 0, 0, false
			}
			lo = int(v)
		}
		if se.High != nil {
			v, ok := exprInt(info, se.High)
			if !ok {
				// d.h.Size-1 with Size == 14 on this path
				be, isBin := unparen(se.High).(*ast.BinaryExpr)
				one, isOne := int64(0), false
				if isBin && be.Op == token.SUB {
					one, isOne = exprInt(info, be.Y)
				}
				if isBin && be.Op == token.SUB && strings.HasSuffix(exprStr(be.X), ".Size") && isOne && one == 1 {
					v = sizeCRC - 1
				} else {
					return "", 0, 0, false
				}
			}
			hi = int(v)
		}
		return exprStr(se.X), lo, hi, true
	}
	// (a) decodeHeader: d.h.F = le.UintN(d.tmp[a:b]) / d.tmp[k] / copy(d.h.DataType[:], d.tmp[a:b]); offsets +1
	got := map[string]layoutRow{}
	if fd := c.decl(c.fn(c.fit, "decoder.decodeHeader")); fd != nil {
		ast.Inspect(fd.Body, func(nd ast.Node) bool {
			switch x := nd.(type) {
			case *ast.AssignStmt:
				if len(x.Lhs) != 1 || len(x.Rhs) != 1 {
					return true
				}
				lsel, ok := x.Lhs[0].(*ast.SelectorExpr)
				if !ok || !strings.HasSuffix(exprStr(lsel.X), ".h") {
					return true
				}
				f := lsel.Sel.Name
				rhs := unparen(x.Rhs[0])
				if ix, ok := rhs.(*ast.IndexExpr); ok && strings.HasSuffix(exprStr(ix.X), ".tmp") {
					if k, ok := exprInt(info, ix.Index); ok {
						got[f] = layoutRow{int(k) + 1, 1}
					}
				}
				if call, ok := rhs.(*ast.CallExpr); ok && len(call.Args) == 1 {
					if sel, ok := call.Fun.(*ast.SelectorExpr); ok && isLE(sel.X) && widthOf(sel.Sel.Name) > 0 {
						if base, lo, hi, ok := sliceBounds(call.Args[0], 0); ok && strings.HasSuffix(base, ".tmp") && hi-lo == widthOf(sel.Sel.Name) {
							got[f] = layoutRow{lo + 1, hi - lo}
						} else if ok {
							got[f] = layoutRow{lo + 1, -1}
						}
					}
				}
			case *ast.CallExpr:
				if b, ok := info.Uses[identOf(x.Fun)].(*types.Builtin); ok && b.Name() == "copy" && len(x.Args) == 2 {
					if dse, ok := unparen(x.Args[0]).(*ast.SliceExpr); ok {
						if dsel, ok := dse.X.(*ast.SelectorExpr); ok && strings.HasSuffix(exprStr(dsel.X), ".h") {
							if base, lo, hi, ok := sliceBounds(x.Args[1], 0); ok && strings.HasSuffix(base, ".tmp") {
								got[dsel.Sel.Name] = layoutRow{lo + 1, hi - lo}
							}
						}
					}
				}
			case *ast.UnaryExpr:
				// binary.Read(d.r, le, &d.h.Size): first byte
				if x.Op == token.AND {
					if sel, ok := x.X.(*ast.SelectorExpr); ok && strings.HasSuffix(exprStr(sel.X), ".h") && sel.Sel.Name == "Size" {
						got["Size"] = layoutRow{0, 1}
					}
				}
			}
			return true
		})
		okA := len(got) == len(want)
		for k, v := range want {
			if got[k] != v {
				okA = false
			}
		}
		r.check(okA, "C04-R5-header-layout", "decodeHeader", c.pos(fd.Pos()), "layout "+show(got), "decodeHeader reads the header fields at "+show(got)+", FIT layout is "+show(want))
	} else {
		r.fail("C04-R5-header-layout", "decodeHeader", "", "not found")
	}
	// (b) Header.CheckIntegrity: bh[k] = h.F ; le.PutUintN(bh[a:b], h.F); copy(bh[a:b], h.DataType[:])
	got2 := map[string]layoutRow{}
	if fd := c.decl(c.fn(c.fit, "Header.CheckIntegrity")); fd != nil {
		ast.Inspect(fd.Body, func(nd ast.Node) bool {
			switch x := nd.(type) {
			case *ast.AssignStmt:
				if len(x.Lhs) == 1 && len(x.Rhs) == 1 {
					if ix, ok := x.Lhs[0].(*ast.IndexExpr); ok && exprStr(ix.X) == "bh" {
						if k, ok := exprInt(info, ix.Index); ok {
							if sel, ok := unparen(x.Rhs[0]).(*ast.SelectorExpr); ok {
								got2[sel.Sel.Name] = layoutRow{int(k), 1}
							}
						}
					}
				}
			case *ast.CallExpr:
				if sel, ok := x.Fun.(*ast.SelectorExpr); ok && isLE(sel.X) && widthOf(sel.Sel.Name) > 0 && len(x.Args) == 2 {
					if base, lo, hi, ok := sliceBounds(x.Args[0], 0); ok && base == "bh" {
						if fs, ok := unparen(x.Args[1]).(*ast.SelectorExpr); ok {
							n := hi - lo
							if n != widthOf(sel.Sel.Name) {
								n = -1
							}
							got2[fs.Sel.Name] = layoutRow{lo, n}
						}
					}
				}
				if b, ok := info.Uses[identOf(x.Fun)].(*types.Builtin); ok && b.Name() == "copy" && len(x.Args) == 2 {
					if base, lo, hi, ok := sliceBounds(x.Args[0], 0); ok && base == "bh" {
						if sse, ok := unparen(x.Args[1]).(*ast.SliceExpr); ok {
							if fs, ok := sse.X.(*ast.SelectorExpr); ok {
								got2[fs.Sel.Name] = layoutRow{lo, hi - lo}
							}
						}
					}
				}
			}
			return true
		})
		okB := len(got2) == len(want)
		for k, v := range want {
			if got2[k] != v {
				okB = false
			}
		}
		// the whole serialised header (and nothing else) is what gets hashed: crc.Write(bh), bh = make([]byte, h.Size)
		fedWhole, madeSize := false, false
		ast.Inspect(fd.Body, func(nd ast.Node) bool {
			switch x := nd.(type) {
			case *ast.CallExpr:
				if sel, ok := x.Fun.(*ast.SelectorExpr); ok && sel.Sel.Name == "Write" && len(x.Args) == 1 {
					if t := info.TypeOf(sel.X); t != nil && isHash16(t) && exprStr(x.Args[0]) == "bh" {
						fedWhole = true
					}
				}
			case *ast.AssignStmt:
				if len(x.Lhs) == 1 && len(x.Rhs) == 1 && exprStr(x.Lhs[0]) == "bh" {
					if call, ok := x.Rhs[0].(*ast.CallExpr); ok && len(call.Args) == 2 {
						if b, ok := info.Uses[identOf(call.Fun)].(*types.Builtin); ok && b.Name() == "make" && strings.HasSuffix(exprStr(call.Args[1]), ".Size") {
							madeSize = true
						}
					}
				}
			}
			return true
		})
		r.check(fedWhole && madeSize, "C04-R5-header-layout", "Header.CheckIntegrity/feeds-whole-header", c.pos(fd.Pos()), "hashes exactly the h.Size serialised bytes", "Header.CheckIntegrity does not hash exactly the serialised header bytes (crc.Write(bh) with bh = make([]byte, h.Size))")
		r.check(okB, "C04-R5-header-layout", "Header.CheckIntegrity", c.pos(fd.Pos()), "layout "+show(got2), "Header.CheckIntegrity serialises the header as "+show(got2)+", FIT layout is "+show(want))
	} else {
		r.fail("C04-R5-header-layout", "Header.CheckIntegrity", "", "not found")
	}
	// (c) Header.MarshalBinary: sequence of binary.Write(buf, binary.LittleEndian, h.F)
	got3 := map[string]layoutRow{}
	if fd := c.decl(c.fn(c.fit, "Header.MarshalBinary")); fd != nil {
		off := 0
		hdrT := c.fit.Types.Scope().Lookup("Header").Type().Underlying().(*types.Struct)
		sz := types.SizesFor("gc", "amd64")
		okOrder := true
		ast.Inspect(fd.Body, func(nd ast.Node) bool {
			call, ok := nd.(*ast.CallExpr)
			if !ok || !isPkgFunc(callee(info, call), "encoding/binary", "Write") || len(call.Args) != 3 {
				return true
			}
			if !isLE(call.Args[1]) {
				okOrder = false
			}
			sel, ok := unparen(call.Args[2]).(*ast.SelectorExpr)
			if !ok {
				okOrder = false
				return true
			}
			for i := 0; i < hdrT.NumFields(); i++ {
				if hdrT.Field(i).Name() == sel.Sel.Name {
					n := int(sz.Sizeof(hdrT.Field(i).Type()))
					got3[sel.Sel.Name] = layoutRow{off, n}
					off += n
				}
			}
			return true
		})
		okC := okOrder && len(got3) == len(want)
		for k, v := range want {
			if got3[k] != v {
				okC = false
			}
		}
		r.check(okC, "C04-R5-header-layout", "Header.MarshalBinary", c.pos(fd.Pos()), "layout "+show(got3)+" little-endian", "Header.MarshalBinary writes "+show(got3)+" (little-endian everywhere: "+fmt.Sprint(okOrder)+"), FIT layout is "+show(want))
	} else {
		r.fail("C04-R5-header-layout", "Header.MarshalBinary", "", "not found")
	}
}

// ---- R6 ---------------------------------------------------------------------------

func c04Encoder(c *Ctx, r *Report) {
	info := c.fit.TypesInfo
	fd := c.decl(c.fn(c.fit, "Encode"))
	if fd == nil {
		r.fail("C04-R6-encoder-pairing", "Encode", "", "Encode not found")
		return
	}
	// the hashing and output tail may live in a helper whose result Encode returns (c05.go encodeUnit)
	if u := c.encodeUnit(); u != nil && len(u.chain) > 0 {
		if d := c.declOfSSA(u.fn); d != nil {
			// no output may be written by the callers on the chain
			for _, caller := range u.chain {
				for _, ci := range allCalls(caller) {
					cc := ci.Common()
					if cc.IsInvoke() && cc.Method.Name() == "Write" && cc.Value.Type().String() == "io.Writer" {
						r.fail("C04-R6-encoder-pairing", caller.Name()+"/early-output", c.pos(ci.Pos()), "output is written before the tail that computes the checksum")
					}
				}
			}
			fd = d
		}
	}
	var hashed, written []string
	crcLast := false
	order := []string{}
	for _, s := range fd.Body.List {
		ast.Inspect(s, func(nd ast.Node) bool {
			call, ok := nd.(*ast.CallExpr)
			if !ok {
				return true
			}
			if sel, ok := call.Fun.(*ast.SelectorExpr); ok && sel.Sel.Name == "Write" && len(call.Args) == 1 {
				t := info.TypeOf(sel.X)
				if t != nil && isHash16(t) {
					hashed = append(hashed, exprStr(call.Args[0]))
					order = append(order, "hash")
				} else if t != nil && t.String() == "io.Writer" {
					written = append(written, exprStr(call.Args[0]))
					order = append(order, "out")
					crcLast = false
				}
			}
			if isPkgFunc(callee(info, call), "encoding/binary", "Write") && len(call.Args) == 3 {
				if t := info.TypeOf(call.Args[0]); t != nil && t.String() == "io.Writer" && identOf(call.Args[0]) != nil {
					if exprStr(call.Args[1]) == "binary.LittleEndian" && strings.HasSuffix(exprStr(call.Args[2]), ".CRC") {
						crcLast = true
						order = append(order, "crc")
					}
				}
			}
			return true
		})
	}
	same := len(hashed) == len(written) && len(hashed) >= 2
	for i := range hashed {
		if i < len(written) && hashed[i] != written[i] {
			same = false
		}
	}
	r.check(same, "C04-R6-encoder-pairing", "Encode/hash-vs-output", c.pos(fd.Pos()), "hash input "+strings.Join(hashed, ", ")+" = output "+strings.Join(written, ", "), fmt.Sprintf("Encode hashes %v but writes %v: the trailing CRC does not cover the bytes written", hashed, written))
	r.check(crcLast, "C04-R6-encoder-pairing", "Encode/crc-last-le", c.pos(fd.Pos()), "file CRC is written little-endian after header and records", "the file CRC is not the last thing written, or not little-endian")
	// file.CRC = crc.Sum16() between
	okSum := false
	ast.Inspect(fd.Body, func(nd ast.Node) bool {
		if as, ok := nd.(*ast.AssignStmt); ok && len(as.Lhs) == 1 && len(as.Rhs) == 1 && strings.HasSuffix(exprStr(as.Lhs[0]), ".CRC") {
			if call, ok := as.Rhs[0].(*ast.CallExpr); ok {
				if sel, ok := call.Fun.(*ast.SelectorExpr); ok && sel.Sel.Name == "Sum16" {
					okSum = true
				}
			}
		}
		return true
	})
	r.check(okSum, "C04-R6-encoder-pairing", "Encode/crc-value", c.pos(fd.Pos()), "the CRC written is the hash's Sum16", "the value written as CRC is not the Sum16 of the hash")
	encodePrivateBuffer(c, r, "C04-R6-encoder-pairing")
}

// c04VerdictPropagation (R7): an integrity verdict, once produced, reaches the caller. The
// functions that create an IntegrityError (header CRC mismatch, file CRC mismatch) and every
// module function that calls one of them are the verdict carriers; at every call of a carrier in
// the reachable decoder the error is returned or replaced by a non-nil error on every path
// (same path analysis as C11-R1), the only exception being the chain-end guard of DecodeChained,
// which tests for the read-size sentinel and therefore cannot match an IntegrityError.
func c04VerdictPropagation(c *Ctx, r *Report) {
	sharedDecode(c, r) // no entry point has a private reading path that skips the verdicts
	errorTypePropagates(c, r, "C04-R7-verdict-propagates", "IntegrityError", 2, 5,
		"which can report a checksum failure", "a checksum verdict", "a file with a mismatching checksum is accepted by %s while other entry points reject it")
}

// errorTypePropagates: the functions that create an error of the named type, and every module
// function calling one, are its carriers; at each call of a carrier in the reachable decoder the
// error is returned on every path (the C11 path analysis), the one exception being DecodeChained's
// read-size sentinel guard.
func errorTypePropagates(c *Ctx, r *Report, rule, typeName string, floorOrigins, floorCalls int, what, whatShort, consequence string) {
	roots, _ := c.rootFuncs(decodeRoots)
	ri := c.reach(roots)
	ieObj := c.fit.Types.Scope().Lookup(typeName)
	if ieObj == nil {
		r.fail(rule, typeName, "", "type not found")
		return
	}
	isIE := func(t types.Type) bool { return types.Identical(t, ieObj.Type()) }
	carrier := map[*ssa.Function]bool{}
	var scope []*ssa.Function
	for _, fn := range ri.module() {
		if fnPkgPath(fn) != modPath {
			continue
		}
		scope = append(scope, fn)
		for _, b := range fn.Blocks {
			for _, ins := range b.Instrs {
				for _, op := range ins.Operands(nil) {
					if *op == nil {
						continue
					}
					switch v := (*op).(type) {
					case *ssa.Const:
						if isIE(v.Type()) {
							carrier[fn] = true
						}
					case *ssa.Global:
						if pt, ok := v.Type().(*types.Pointer); ok && isIE(pt.Elem()) {
							if _, isLoad := ins.(*ssa.UnOp); isLoad {
								// only a load that flows into a return/MakeInterface creates a verdict; comparisons (errors.Is) do not
								if ld := ins.(*ssa.UnOp); ld.Referrers() != nil {
									for _, ref := range *ld.Referrers() {
										if mi, ok := ref.(*ssa.MakeInterface); ok && mi.Referrers() != nil {
											for _, r2 := range *mi.Referrers() {
												if _, isRet := r2.(*ssa.Return); isRet {
													carrier[fn] = true
												}
												if _, isPhi := r2.(*ssa.Phi); isPhi {
													carrier[fn] = true
												}
											}
										}
									}
								}
							}
						}
					}
				}
			}
		}
	}
	nOrigins := len(carrier)
	cg := c.callGraph()
	for changed := true; changed; {
		changed = false
		for _, fn := range scope {
			if carrier[fn] {
				continue
			}
			res := fn.Signature.Results()
			if res.Len() == 0 || !isErrorType(res.At(res.Len()-1).Type()) {
				continue
			}
			if n := cg.Nodes[fn]; n != nil {
				for _, e := range n.Out {
					if carrier[e.Callee.Func] {
						carrier[fn] = true
						changed = true
					}
				}
			}
		}
	}
	n := 0
	for _, fn := range scope {
		sites := errorCalls(fn)
		if len(sites) == 0 {
			continue
		}
		nf := c.newNilFacts(fn)
		per := map[string]int{}
		for _, s := range sites {
			f := s.call.Common().StaticCallee()
			if f == nil || !carrier[f] {
				continue
			}
			n++
			key := fmt.Sprintf("%s/%s#%d", fn.Name(), f.Name(), per[f.Name()])
			per[f.Name()]++
			pos := c.pos(s.call.Pos())
			res := fn.Signature.Results()
			if res.Len() == 0 || !isErrorType(res.At(res.Len()-1).Type()) {
				r.fail(rule, key, pos, fn.Name()+" calls "+f.Name()+", "+what+", but cannot return an error itself")
				continue
			}
			fr := nf.analyseSite(s)
			if fr.overwritten {
				r.fail(rule, key, pos, fmt.Sprintf("the error of %s (%s) is dropped when the loop in %s comes round: the call is made again on a path on which its previous error was never returned: "+consequence, f.Name(), what, fn.Name(), fn.Name()))
				continue
			}
			if len(fr.swallows) == 0 {
				r.ok(rule, key, pos, "the error of "+f.Name()+" is returned on every path")
				continue
			}
			if fn.Name() == "DecodeChained" {
				ok, why := c11ChainSwallow(c, fn, s, fr.swallows)
				r.check(ok, rule, key, pos, "only the read-size sentinel ends a chain silently: "+why, "DecodeChained can drop "+whatShort+": "+why)
				continue
			}
			var where []string
			for _, sw := range fr.swallows {
				where = append(where, describeReturn(c, sw))
			}
			r.fail(rule, key, pos, fmt.Sprintf("the error of %s (%s) is not returned on a path to %s: "+consequence, f.Name(), what, strings.Join(where, ", "), fn.Name()))
		}
	}
	r.set(typeName+"_origins", nOrigins)
	r.need("functions creating a "+typeName, nOrigins, floorOrigins)
	r.need("calls of "+typeName+" carriers", n, floorCalls)
}

// encodePrivateBuffer: the record buffer is private to one Encode call: nothing Encode reaches uses
// a sync primitive (pools), a goroutine or a channel. Premise of the hash/output pairing (C04), of
// "the stream is what this call produced" (C05) and of re-encodability (C07).
func encodePrivateBuffer(c *Ctx, r *Report, rule string) {
	// the pairing above compares what is hashed with what is written by expression; that is sound only
	// if the bytes cannot change between the two, i.e. the record buffer is private to this call:
	// nothing Encode reaches uses a sync primitive (pools), a goroutine or a channel.
	if encFn := c.ssaFn(c.fn(c.fit, "Encode")); encFn != nil {
		shared := ""
		nFn := 0
		for _, fn := range c.reach([]*ssa.Function{encFn}).module() {
			if !inLib(fn) {
				continue
			}
			nFn++
			for _, b := range fn.Blocks {
				for _, ins := range b.Instrs {
					switch ins.(type) {
					case *ssa.Go, *ssa.Send, *ssa.Select, *ssa.MakeChan:
						shared = fn.Name() + " at " + c.pos(ins.Pos())
					}
					if call, ok := ins.(ssa.CallInstruction); ok {
						if cal := call.Common().StaticCallee(); cal != nil && cal.Pkg != nil {
							if pp := cal.Pkg.Pkg.Path(); pp == "sync" || pp == "sync/atomic" {
								shared = cal.String() + " in " + fn.Name() + " at " + c.pos(ins.Pos())
							}
						}
					}
				}
			}
		}
		r.check(shared == "" && nFn > 5, rule, "Encode/private-buffer", c.pos(encFn.Pos()), fmt.Sprintf("%d functions reachable from Encode: no pool, lock, goroutine or channel; the hashed bytes cannot change before they are written", nFn), "Encode reaches "+shared+": the record buffer can be shared with another call (pooled), so the bytes that were hashed need not be the bytes that are written and a successful Encode can produce a file that fails CheckIntegrity")
	}
}
