package main

import (
	"fmt"
	"go/ast"
	"go/token"
	"go/types"
	"sort"
	"strings"

	"golang.org/x/tools/go/ssa"
)

func init() {
	register(&propDef{
		id: "C03", level: "proof", run: runC03,
		explanation: "Structural proof over syntax+types: container structs hold only *XMsg/[]*XMsg with pairwise distinct element types (so Go's type checker pins each arm to its slot); each of the 17 routers is a type switch whose arms are in bijection with the container's fields and are exactly `x.F = &tmp` or `x.F = append(x.F, &tmp)` (optionally after tmp.expandComponents()) with an empty default; File.add routes the common messages and forwards everything else exactly once; File.init allocates and installs the container matching the file type and rejects every other value on all paths; accessors and Encode's switch use the same (file type, container) pairing; the decoder calls File.add only on the error-free path, once per record. Trusted: the argument that these obligations imply the statement (DESIGN.md C03). Also: File.FileId is written only by File.add on the decode path, and the C13 slot rules run here as the premise that the message handed to the router is the one its own local slot defines. (4-reject-propagates) the NotSupportedError of a rejected file type is returned on every path of every caller of a carrier, and not overwritten by a loop's next call.",
		trusted:     []string{"Go semantics of type switch, append and assignment", "go/types", "go/ssa dominator tree", "the paper argument of DESIGN.md section C03 that obligations 1-6 imply the routing statement"},
	})
}

type armInfo struct {
	msgType *types.Named
	field   string
	isSlice bool
	expand  bool
	pos     token.Pos
}

// parseRouter matches: x := msg.Interface(); switch tmp := x.(type) { case T: ...; default: }
// extra(cc) may accept non-standard arms (used by File.add's default).
func (c *Ctx) parseRouter(fd *ast.FuncDecl, recvStruct *types.Struct) (arms []armInfo, deflt *ast.CaseClause, errs []string) {
	info := c.fit.TypesInfo
	bad := func(f string, a ...interface{}) { errs = append(errs, fmt.Sprintf(f, a...)) }
	if fd == nil || fd.Body == nil || fd.Recv == nil || len(fd.Recv.List) != 1 || len(fd.Recv.List[0].Names) != 1 {
		bad("router has no named receiver")
		return
	}
	recv := info.Defs[fd.Recv.List[0].Names[0]]
	if fd.Type.Params == nil || len(fd.Type.Params.List) != 1 || len(fd.Type.Params.List[0].Names) != 1 {
		bad("router does not take exactly one parameter")
		return
	}
	param := info.Defs[fd.Type.Params.List[0].Names[0]]
	// two spellings: `x := msg.Interface(); switch tmp := x.(type) {...}` or `switch tmp := msg.Interface().(type) {...}`
	isIfaceOfParam := func(e ast.Expr) bool {
		call, ok := unparen(e).(*ast.CallExpr)
		if !ok || len(call.Args) != 0 || !isMethod(callee(info, call), "reflect", "Value", "Interface") {
			return false
		}
		sel, ok := call.Fun.(*ast.SelectorExpr)
		return ok && info.Uses[identOf(sel.X)] == param
	}
	var xobj types.Object
	var ts *ast.TypeSwitchStmt
	switch len(fd.Body.List) {
	case 2:
		as, ok := fd.Body.List[0].(*ast.AssignStmt)
		if !ok || as.Tok != token.DEFINE || len(as.Lhs) != 1 || len(as.Rhs) != 1 || !isIfaceOfParam(as.Rhs[0]) {
			bad("first statement is not x := msg.Interface() on the parameter")
			return
		}
		xobj = info.Defs[as.Lhs[0].(*ast.Ident)]
		ts, _ = fd.Body.List[1].(*ast.TypeSwitchStmt)
	case 1:
		ts, _ = fd.Body.List[0].(*ast.TypeSwitchStmt)
	default:
		bad("router body is not `[x := msg.Interface();] switch tmp := x.(type) {...}` (%d statements)", len(fd.Body.List))
		return
	}
	if ts == nil || ts.Init != nil {
		bad("router body does not end in a type switch")
		return
	}
	tas, ok := ts.Assign.(*ast.AssignStmt)
	if !ok || len(tas.Rhs) != 1 {
		bad("type switch does not bind tmp := x.(type)")
		return
	}
	ta, ok := tas.Rhs[0].(*ast.TypeAssertExpr)
	if !ok || ta.Type != nil {
		bad("type switch does not bind tmp := x.(type)")
		return
	}
	if xobj != nil {
		if info.Uses[identOf(ta.X)] != xobj {
			bad("type switch is not on x")
			return
		}
	} else if !isIfaceOfParam(ta.X) {
		bad("type switch is not on msg.Interface() of the parameter")
		return
	}
	for _, s := range ts.Body.List {
		cc := s.(*ast.CaseClause)
		if cc.List == nil {
			deflt = cc
			continue
		}
		if len(cc.List) != 1 {
			bad("case with several types at %s", c.pos(cc.Pos()))
			continue
		}
		mt, ok := info.TypeOf(cc.List[0]).(*types.Named)
		if !ok {
			bad("case type is not a named message struct at %s", c.pos(cc.Pos()))
			continue
		}
		tmp := info.Implicits[cc] // the per-clause tmp object
		arm := armInfo{msgType: mt, pos: cc.Pos()}
		body := cc.Body
		if len(body) == 2 {
			// tmp.expandComponents()
			es, ok := body[0].(*ast.ExprStmt)
			okc := false
			if ok {
				if ecall, ok := es.X.(*ast.CallExpr); ok && len(ecall.Args) == 0 {
					if sel, ok := ecall.Fun.(*ast.SelectorExpr); ok && info.Uses[identOf(sel.X)] == tmp {
						if f, ok := callee(info, ecall).(*types.Func); ok && f.Name() == "expandComponents" {
							okc = true
						}
					}
				}
			}
			if !okc {
				bad("arm %s: first of two statements is not tmp.expandComponents() at %s", mt.Obj().Name(), c.pos(cc.Pos()))
				continue
			}
			arm.expand = true
			body = body[1:]
		}
		if len(body) != 1 {
			bad("arm %s: body is not a single store (optionally after tmp.expandComponents()) at %s", mt.Obj().Name(), c.pos(cc.Pos()))
			continue
		}
		st, ok := body[0].(*ast.AssignStmt)
		if !ok || st.Tok != token.ASSIGN || len(st.Lhs) != 1 || len(st.Rhs) != 1 {
			bad("arm %s: not an assignment at %s", mt.Obj().Name(), c.pos(cc.Pos()))
			continue
		}
		lsel, ok := st.Lhs[0].(*ast.SelectorExpr)
		if !ok || info.Uses[identOf(lsel.X)] != recv {
			bad("arm %s: destination is not a field of the receiver at %s", mt.Obj().Name(), c.pos(cc.Pos()))
			continue
		}
		arm.field = lsel.Sel.Name
		isAddrTmp := func(e ast.Expr) bool {
			ue, ok := unparen(e).(*ast.UnaryExpr)
			return ok && ue.Op == token.AND && info.Uses[identOf(ue.X)] == tmp
		}
		rhs := unparen(st.Rhs[0])
		switch {
		case isAddrTmp(rhs):
			arm.isSlice = false
		default:
			ac, ok := rhs.(*ast.CallExpr)
			if !ok || len(ac.Args) != 2 || ac.Ellipsis.IsValid() {
				bad("arm %s: right side is neither &tmp nor append(x.F, &tmp) at %s", mt.Obj().Name(), c.pos(cc.Pos()))
				continue
			}
			if b, ok := info.Uses[identOf(ac.Fun)].(*types.Builtin); !ok || b.Name() != "append" {
				bad("arm %s: right side is neither &tmp nor append(x.F, &tmp) at %s", mt.Obj().Name(), c.pos(cc.Pos()))
				continue
			}
			ssel, ok := unparen(ac.Args[0]).(*ast.SelectorExpr)
			if !ok || info.Uses[identOf(ssel.X)] != recv || ssel.Sel.Name != arm.field {
				bad("arm %s: append source %s is not the destination field %s (order/exactly-once broken) at %s", mt.Obj().Name(), exprStr(ac.Args[0]), arm.field, c.pos(cc.Pos()))
				continue
			}
			if !isAddrTmp(ac.Args[1]) {
				bad("arm %s: appended value is not &tmp at %s", mt.Obj().Name(), c.pos(cc.Pos()))
				continue
			}
			arm.isSlice = true
		}
		arms = append(arms, arm)
	}
	return
}

func identOf(e ast.Expr) *ast.Ident {
	id, _ := unparen(e).(*ast.Ident)
	return id
}

func runC03(c *Ctx, r *Report) {
	info := c.fit.TypesInfo
	conts := c.containers()
	r.set("containers", len(conts))
	nArms := 0
	contByName := map[string]*types.Named{}
	for _, ct := range conts {
		cn := ct.Obj().Name()
		contByName[cn] = ct
		st := ct.Underlying().(*types.Struct)
		// obligation 1
		seen := map[string]string{}
		fields := map[string]*types.Var{}
		for i := 0; i < st.NumFields(); i++ {
			f := st.Field(i)
			key := cn + "." + f.Name()
			el := containerElem(f.Type())
			if el == nil {
				r.fail("C03-1-members", key, c.pos(f.Pos()), "container member is neither *XMsg nor []*XMsg")
				continue
			}
			if prev, dup := seen[el.Obj().Name()]; dup {
				r.fail("C03-1-members", key, c.pos(f.Pos()), fmt.Sprintf("message type %s is held by both %s and %s: the type checker no longer pins an arm to one slot", el.Obj().Name(), prev, f.Name()))
				continue
			}
			seen[el.Obj().Name()] = f.Name()
			fields[f.Name()] = f
			r.ok("C03-1-members", key, c.pos(f.Pos()), "holds "+f.Type().String())
		}
		// obligation 2
		addFn := c.fn(c.fit, cn+".add")
		fd := c.decl(addFn)
		if fd == nil {
			r.fail("C03-2-router", cn, "", "container has no add method declaration")
			continue
		}
		arms, deflt, errs := c.parseRouter(fd, st)
		for i, e := range errs {
			r.undecided("C03-2-router", fmt.Sprintf("%s/shape-%d", cn, i), c.pos(fd.Pos()), e)
		}
		armed := map[string]bool{}
		for _, a := range arms {
			key := cn + "/" + a.msgType.Obj().Name()
			f, ok := fields[a.field]
			if !ok {
				r.fail("C03-2-arm", key, c.pos(a.pos), "arm stores into "+a.field+" which is not a container member")
				continue
			}
			el := containerElem(f.Type())
			_, fIsSlice := f.Type().(*types.Slice)
			if el == nil || !types.Identical(el, a.msgType) || fIsSlice != a.isSlice {
				r.fail("C03-2-arm", key, c.pos(a.pos), fmt.Sprintf("arm for %s stores into %s of type %s", a.msgType.Obj().Name(), a.field, f.Type()))
				continue
			}
			if armed[a.field] {
				r.fail("C03-2-arm", key, c.pos(a.pos), "two arms store into "+a.field)
				continue
			}
			armed[a.field] = true
			nArms++
			how := "overwrites single slot"
			if a.isSlice {
				how = "appends in stream order"
			}
			r.ok("C03-2-arm", key, c.pos(a.pos), fmt.Sprintf("%s %s.%s", how, cn, a.field))
		}
		for name, f := range fields {
			if !armed[name] {
				r.fail("C03-2-bijection", cn+"."+name, c.pos(f.Pos()), "container member has no routing arm: messages of its type are dropped")
			} else {
				r.ok("C03-2-bijection", cn+"."+name, c.pos(f.Pos()), "member has exactly one arm")
			}
		}
		if deflt != nil && len(deflt.Body) != 0 {
			r.fail("C03-2-default", cn, c.pos(deflt.Pos()), "default arm is not empty: unheld message types have an effect")
		} else {
			r.ok("C03-2-default", cn, c.pos(fd.Pos()), "unheld message types fall to an empty default")
		}
	}
	r.set("router_arms", nArms)

	// ---- obligation 3: File.add ------------------------------------------------
	fileT := c.fit.Types.Scope().Lookup("File")
	if fileT == nil {
		r.fail("C03-3-fileadd", "File", "", "type File not found")
		return
	}
	fileSt := fileT.Type().Underlying().(*types.Struct)
	fadd := c.decl(c.fn(c.fit, "File.add"))
	if fadd == nil {
		r.fail("C03-3-fileadd", "File.add", "", "File.add not found")
	} else {
		// the common arms store values (FileId) or pointers/slices; parse with a tolerant matcher
		c03FileAdd(c, r, fadd, fileSt)
	}

	// ---- obligation 4: File.init -------------------------------------------------
	pairing := c03FileInit(c, r, fileSt, contByName)

	// ---- obligation 5: accessors and Encode --------------------------------------
	c03Accessors(c, r, pairing, fileSt)
	c03EncodeSwitch(c, r, pairing)

	// ---- obligation 6: decoder adds only complete, valid messages -----------------
	c03DecoderAdds(c, r)
	c03ContainerWriters(c, r)
	// premise of routing: the message handed to the router is the one the record's own local slot defines
	// (slot stores and fresh definitions: the C13 rules for the 16 definition slots)
	c13Slots(c, r)
	c13Fresh(c, r)
	// the rejection of a file type reaches the caller: the NotSupportedError (manufacturer-specific and
	// unsupported types) is returned on every path of every function that calls a carrier of it
	errorTypePropagates(c, r, "C03-4-reject-propagates", "NotSupportedError", 1, 2,
		"which rejects file types the library has no container for", "the rejection of a file type", "a file of a rejected type is accepted by %s")

	_ = info
	r.need("containers", len(conts), 17)
	r.need("router arms", nArms, 60)
	r.need("file-type pairings", len(pairing), 17)
}

func c03FileAdd(c *Ctx, r *Report, fd *ast.FuncDecl, fileSt *types.Struct) {
	info := c.fit.TypesInfo
	pos := c.pos(fd.Pos())
	if len(fd.Body.List) != 2 && len(fd.Body.List) != 1 {
		r.undecided("C03-3-fileadd", "File.add/shape", pos, "body is not `[x := msg.Interface();] switch tmp := x.(type)`")
		return
	}
	recv := info.Defs[fd.Recv.List[0].Names[0]]
	param := info.Defs[fd.Type.Params.List[0].Names[0]]
	ts, ok := fd.Body.List[len(fd.Body.List)-1].(*ast.TypeSwitchStmt)
	if !ok {
		r.undecided("C03-3-fileadd", "File.add/shape", pos, "no type switch")
		return
	}
	// the switched value is msg.Interface(): either bound first (`x := msg.Interface(); switch tmp := x.(type)`)
	// or in place (`switch tmp := msg.Interface().(type)`)
	var ifaceExpr ast.Expr
	if len(fd.Body.List) == 2 {
		as, ok := fd.Body.List[0].(*ast.AssignStmt)
		if !ok || len(as.Rhs) != 1 {
			r.undecided("C03-3-fileadd", "File.add/shape", pos, "first statement")
			return
		}
		ifaceExpr = as.Rhs[0]
	} else if tas, ok := ts.Assign.(*ast.AssignStmt); ok && len(tas.Rhs) == 1 && ts.Init == nil {
		if ta, ok := tas.Rhs[0].(*ast.TypeAssertExpr); ok {
			ifaceExpr = ta.X
		}
	}
	if call, ok := unparen(ifaceExpr).(*ast.CallExpr); ifaceExpr == nil || !ok || !isMethod(callee(info, call), "reflect", "Value", "Interface") {
		r.undecided("C03-3-fileadd", "File.add/shape", pos, "the switched value is not msg.Interface()")
		return
	}
	fields := map[string]*types.Var{}
	for i := 0; i < fileSt.NumFields(); i++ {
		fields[fileSt.Field(i).Name()] = fileSt.Field(i)
	}
	narms := 0
	seenDefault := false
	for _, s := range ts.Body.List {
		cc := s.(*ast.CaseClause)
		if cc.List == nil {
			seenDefault = true
			// f.msgAdder.add(msg) exactly once
			okd := false
			if len(cc.Body) == 1 {
				if es, ok := cc.Body[0].(*ast.ExprStmt); ok {
					if call, ok := es.X.(*ast.CallExpr); ok && len(call.Args) == 1 && info.Uses[identOf(call.Args[0])] == param {
						if sel, ok := call.Fun.(*ast.SelectorExpr); ok && sel.Sel.Name == "add" {
							if inner, ok := sel.X.(*ast.SelectorExpr); ok && inner.Sel.Name == "msgAdder" && info.Uses[identOf(inner.X)] == recv {
								okd = true
							}
						}
					}
				}
			}
			r.check(okd, "C03-3-fileadd", "File.add/default", c.pos(cc.Pos()), "every other message is forwarded to f.msgAdder.add(msg) exactly once", "default arm is not exactly one f.msgAdder.add(msg)")
			continue
		}
		if len(cc.List) != 1 {
			r.undecided("C03-3-fileadd", "File.add/multi-type-case", c.pos(cc.Pos()), "case with several types")
			continue
		}
		mt, _ := info.TypeOf(cc.List[0]).(*types.Named)
		if mt == nil {
			r.undecided("C03-3-fileadd", "File.add/case", c.pos(cc.Pos()), "case type not named")
			continue
		}
		key := "File.add/" + mt.Obj().Name()
		tmp := info.Implicits[cc]
		if len(cc.Body) != 1 {
			r.undecided("C03-3-fileadd", key, c.pos(cc.Pos()), "arm is not a single store")
			continue
		}
		st, ok := cc.Body[0].(*ast.AssignStmt)
		if !ok || len(st.Lhs) != 1 || len(st.Rhs) != 1 {
			r.undecided("C03-3-fileadd", key, c.pos(cc.Pos()), "arm is not a single store")
			continue
		}
		lsel, ok := st.Lhs[0].(*ast.SelectorExpr)
		if !ok || info.Uses[identOf(lsel.X)] != recv {
			r.fail("C03-3-fileadd", key, c.pos(cc.Pos()), "destination is not a File member")
			continue
		}
		f := fields[lsel.Sel.Name]
		if f == nil {
			r.fail("C03-3-fileadd", key, c.pos(cc.Pos()), "unknown destination")
			continue
		}
		rhs := unparen(st.Rhs[0])
		okArm := false
		switch ft := f.Type().(type) {
		case *types.Named: // FileId FileIdMsg: f.FileId = tmp
			okArm = types.Identical(ft, mt) && info.Uses[identOf(rhs)] == tmp
		case *types.Pointer:
			ue, ok := rhs.(*ast.UnaryExpr)
			okArm = types.Identical(ft.Elem(), mt) && ok && ue.Op == token.AND && info.Uses[identOf(ue.X)] == tmp
		case *types.Slice:
			el := containerElem(ft)
			if ac, ok := rhs.(*ast.CallExpr); ok && len(ac.Args) == 2 && el != nil && types.Identical(el, mt) {
				if b, ok := info.Uses[identOf(ac.Fun)].(*types.Builtin); ok && b.Name() == "append" {
					ssel, ok1 := unparen(ac.Args[0]).(*ast.SelectorExpr)
					ue, ok2 := unparen(ac.Args[1]).(*ast.UnaryExpr)
					okArm = ok1 && ok2 && ssel.Sel.Name == lsel.Sel.Name && info.Uses[identOf(ssel.X)] == recv && ue.Op == token.AND && info.Uses[identOf(ue.X)] == tmp
				}
			}
		}
		if okArm {
			narms++
		}
		r.check(okArm, "C03-3-fileadd", key, c.pos(cc.Pos()), "common message routed to File."+lsel.Sel.Name, "arm does not store/append the message into the File member of its own type")
	}
	if !seenDefault {
		r.fail("C03-3-fileadd", "File.add/default", pos, "no default arm: container messages are never forwarded")
	}
	r.set("file_add_arms", narms)
}

type ftPair struct {
	constName string
	value     int64
	member    string // File member holding the container
	cont      *types.Named
	accessor  string
}

// alwaysErr: every path through stmts returns a non-nil error (single result).
func (c *Ctx) alwaysReturnsErr(stmts []ast.Stmt) bool {
	if len(stmts) == 0 {
		return false
	}
	info := c.fit.TypesInfo
	switch s := stmts[len(stmts)-1].(type) {
	case *ast.ReturnStmt:
		if len(s.Results) == 0 {
			return false
		}
		return c.nonNilErrExpr(info, s.Results[len(s.Results)-1]) // the error is the last result
	case *ast.SwitchStmt:
		hasDefault := false
		for _, cl := range s.Body.List {
			cc := cl.(*ast.CaseClause)
			if cc.List == nil {
				hasDefault = true
			}
			if !c.alwaysReturnsErr(cc.Body) {
				return false
			}
		}
		return hasDefault
	case *ast.IfStmt:
		if s.Else == nil {
			return false
		}
		eb, ok := s.Else.(*ast.BlockStmt)
		if !ok {
			return c.alwaysReturnsErr([]ast.Stmt{s.Else}) && c.alwaysReturnsErr(s.Body.List)
		}
		return c.alwaysReturnsErr(s.Body.List) && c.alwaysReturnsErr(eb.List)
	}
	return false
}

// nonNilErrExpr: expression statically known to be a non-nil error value.
func (c *Ctx) nonNilErrExpr(info *types.Info, e ast.Expr) bool {
	e = unparen(e)
	if id, ok := e.(*ast.Ident); ok && id.Name == "nil" {
		return false
	}
	switch n := e.(type) {
	case *ast.CallExpr:
		// conversion to a concrete (non-interface, non-pointer) error type, or fmt.Errorf / errors.New
		if tv, ok := info.Types[n.Fun]; ok && tv.IsType() {
			_, isIface := tv.Type.Underlying().(*types.Interface)
			_, isPtr := tv.Type.Underlying().(*types.Pointer)
			return !isIface && !isPtr
		}
		o := callee(info, n)
		if isPkgFunc(o, "fmt", "Errorf") || isPkgFunc(o, "errors", "New") {
			return true
		}
		// a module helper every return of which is such an expression (wrongType(requested))
		if f, ok := o.(*types.Func); ok && f.Pkg() != nil && strings.HasPrefix(f.Pkg().Path(), modPath) {
			if fd := c.decl(f); fd != nil && fd.Body != nil && fd.Type.Results != nil && len(fd.Type.Results.List) == 1 {
				nRet, okAll := 0, true
				ast.Inspect(fd.Body, func(nd ast.Node) bool {
					if _, isLit := nd.(*ast.FuncLit); isLit {
						return false
					}
					if rs, ok := nd.(*ast.ReturnStmt); ok {
						nRet++
						if len(rs.Results) != 1 || !c.nonNilErrExpr(info, rs.Results[0]) {
							okAll = false
						}
					}
					return true
				})
				return nRet > 0 && okAll
			}
		}
		return false
	case *ast.CompositeLit:
		return true
	case *ast.Ident:
		// package-level error variable initialised with a concrete value and never reassigned
		if v, ok := info.Uses[n].(*types.Var); ok && v.Parent() == c.fit.Types.Scope() {
			init, _ := c.varInit(c.fit, v.Name())
			if init != nil && c.nonNilErrExpr(info, init) && len(c.globalWrites(c.fit, v.Name())) == 0 {
				return true
			}
		}
	}
	return false
}

func c03FileInit(c *Ctx, r *Report, fileSt *types.Struct, conts map[string]*types.Named) map[int64]*ftPair {
	info := c.fit.TypesInfo
	out := map[int64]*ftPair{}
	fd := c.decl(c.fn(c.fit, "File.init"))
	if fd == nil {
		r.fail("C03-4-init", "File.init", "", "File.init not found")
		return out
	}
	recv := info.Defs[fd.Recv.List[0].Names[0]]
	var sw *ast.SwitchStmt
	for _, s := range fd.Body.List {
		if x, ok := s.(*ast.SwitchStmt); ok && x.Tag != nil {
			sw = x
		}
	}
	if sw == nil {
		r.undecided("C03-4-init", "File.init/shape", c.pos(fd.Pos()), "no switch on the file type")
		return out
	}
	// the tag must be the file's type: t := f.Type() or f.FileId.Type
	tagOK := false
	if id := identOf(sw.Tag); id != nil {
		// find its definition
		for _, s := range fd.Body.List {
			if as, ok := s.(*ast.AssignStmt); ok && len(as.Lhs) == 1 && len(as.Rhs) == 1 && info.Defs[identOf(as.Lhs[0])] == info.Uses[id] {
				if call, ok := as.Rhs[0].(*ast.CallExpr); ok && isMethod(callee(info, call), modPath, "File", "Type") {
					tagOK = true
				}
				if exprStr(as.Rhs[0]) == fd.Recv.List[0].Names[0].Name+".FileId.Type" {
					tagOK = true
				}
			}
		}
	} else if call, ok := sw.Tag.(*ast.CallExpr); ok && isMethod(callee(info, call), modPath, "File", "Type") {
		tagOK = true
	}
	r.check(tagOK, "C03-4-init", "File.init/tag", c.pos(sw.Pos()), "switch is on f.Type()", "switch tag is not the file's type")
	// File.Type returns f.FileId.Type
	if tfd := c.decl(c.fn(c.fit, "File.Type")); tfd != nil && len(tfd.Body.List) == 1 {
		rs, ok := tfd.Body.List[0].(*ast.ReturnStmt)
		okT := ok && len(rs.Results) == 1 && strings.HasSuffix(exprStr(rs.Results[0]), ".FileId.Type")
		r.check(okT, "C03-4-init", "File.Type", c.pos(tfd.Pos()), "Type() returns FileId.Type", "File.Type does not return FileId.Type")
	} else {
		r.undecided("C03-4-init", "File.Type", "", "File.Type shape")
	}
	hasDefault := false
	usedMember := map[string]string{}
	for _, s := range sw.Body.List {
		cc := s.(*ast.CaseClause)
		if cc.List == nil {
			hasDefault = true
			r.check(c.alwaysReturnsErr(cc.Body), "C03-4-reject", "File.init/default", c.pos(cc.Pos()), "every path of the default arm returns a non-nil error", "default arm can complete without an error: an unsupported file type is accepted")
			continue
		}
		for _, ce := range cc.List {
			v, ok := exprInt(info, ce)
			name := exprStr(ce)
			if !ok {
				r.undecided("C03-4-init", "File.init/case-"+name, c.pos(ce.Pos()), "case expression not constant")
				continue
			}
			key := "File.init/" + name
			if c.alwaysReturnsErr(cc.Body) {
				r.ok("C03-4-reject", key, c.pos(cc.Pos()), "explicitly rejected with an error")
				continue
			}
			// accepting arm: f.m = new(XFile); f.msgAdder = f.m
			okArm := false
			var member string
			var cont *types.Named
			if len(cc.Body) == 2 && len(cc.List) == 1 {
				a1, ok1 := cc.Body[0].(*ast.AssignStmt)
				a2, ok2 := cc.Body[1].(*ast.AssignStmt)
				if ok1 && ok2 && len(a1.Lhs) == 1 && len(a2.Lhs) == 1 && len(a1.Rhs) == 1 && len(a2.Rhs) == 1 {
					l1, okl1 := a1.Lhs[0].(*ast.SelectorExpr)
					l2, okl2 := a2.Lhs[0].(*ast.SelectorExpr)
					r2, okr2 := unparen(a2.Rhs[0]).(*ast.SelectorExpr)
					if okl1 && okl2 && okr2 && info.Uses[identOf(l1.X)] == recv && info.Uses[identOf(l2.X)] == recv && info.Uses[identOf(r2.X)] == recv &&
						l2.Sel.Name == "msgAdder" && r2.Sel.Name == l1.Sel.Name {
						// new(XFile) or &XFile{}
						var t types.Type
						if call, ok := unparen(a1.Rhs[0]).(*ast.CallExpr); ok && len(call.Args) == 1 {
							if b, ok := info.Uses[identOf(call.Fun)].(*types.Builtin); ok && b.Name() == "new" {
								t = info.TypeOf(call.Args[0])
							}
						} else if ue, ok := unparen(a1.Rhs[0]).(*ast.UnaryExpr); ok && ue.Op == token.AND {
							if cl, ok := ue.X.(*ast.CompositeLit); ok && len(cl.Elts) == 0 {
								t = info.TypeOf(cl)
							}
						}
						if n, ok := t.(*types.Named); ok && conts[n.Obj().Name()] != nil {
							member, cont, okArm = l1.Sel.Name, n, true
						}
					}
				}
			}
			if !okArm {
				r.undecided("C03-4-init", key, c.pos(cc.Pos()), "accepting arm is not `f.m = new(XFile); f.msgAdder = f.m`")
				continue
			}
			if prev, dup := usedMember[member]; dup {
				r.fail("C03-4-init", key, c.pos(cc.Pos()), fmt.Sprintf("container member %s is also installed for %s", member, prev))
				continue
			}
			usedMember[member] = name
			out[v] = &ftPair{constName: name, value: v, member: member, cont: cont}
			r.ok("C03-4-init", key, c.pos(cc.Pos()), fmt.Sprintf("allocates %s into f.%s and installs it as msgAdder", cont.Obj().Name(), member))
		}
	}
	if !hasDefault {
		r.fail("C03-4-reject", "File.init/default", c.pos(sw.Pos()), "switch has no default: unsupported file types are accepted with a nil msgAdder")
	}
	// after the switch: return nil only
	last := fd.Body.List[len(fd.Body.List)-1]
	if rs, ok := last.(*ast.ReturnStmt); !ok || len(rs.Results) != 1 || exprStr(rs.Results[0]) != "nil" {
		r.undecided("C03-4-init", "File.init/tail", c.pos(last.Pos()), "function does not end with `return nil`")
	}
	// each container installed for some type
	for name := range conts {
		found := false
		for _, p := range out {
			if p.cont.Obj().Name() == name {
				found = true
			}
		}
		r.check(found, "C03-4-coverage", name, "", "container is selected by a file type", "container is never installed by File.init")
	}
	// FileTypeInvalid must be rejected
	if v, ok := c.constInt(c.fit, "FileTypeInvalid"); ok {
		_, accepted := out[v]
		r.check(!accepted, "C03-4-reject", "FileTypeInvalid", "", "invalid file type is not accepted", "FileTypeInvalid selects a container")
	}
	return out
}

func c03Accessors(c *Ctx, r *Report, pairing map[int64]*ftPair, fileSt *types.Struct) {
	info := c.fit.TypesInfo
	fileNamed := c.fit.Types.Scope().Lookup("File").Type().(*types.Named)
	byMember := map[string]*ftPair{}
	for _, p := range pairing {
		byMember[p.member] = p
	}
	found := map[string]bool{}
	ms := types.NewMethodSet(types.NewPointer(fileNamed))
	for i := 0; i < ms.Len(); i++ {
		fn := ms.At(i).Obj().(*types.Func)
		sig := fn.Type().(*types.Signature)
		if sig.Params().Len() != 0 || sig.Results().Len() != 2 {
			continue
		}
		pt, ok := sig.Results().At(0).Type().(*types.Pointer)
		if !ok {
			continue
		}
		cont, ok := pt.Elem().(*types.Named)
		if !ok {
			continue
		}
		isCont := false
		for _, p := range pairing {
			if types.Identical(p.cont, cont) {
				isCont = true
			}
		}
		if !isCont {
			continue
		}
		key := "File." + fn.Name()
		fd := c.decl(fn)
		if fd == nil || len(fd.Body.List) != 2 {
			r.undecided("C03-5-accessor", key, "", "accessor is not `if !(f.FileId.Type == K) { return nil, err }; return f.m, nil`")
			continue
		}
		recv := info.Defs[fd.Recv.List[0].Names[0]]
		ifs, ok1 := fd.Body.List[0].(*ast.IfStmt)
		rs, ok2 := fd.Body.List[1].(*ast.ReturnStmt)
		if !ok1 || !ok2 || ifs.Else != nil || ifs.Init != nil || len(rs.Results) != 2 {
			r.undecided("C03-5-accessor", key, c.pos(fd.Pos()), "accessor shape")
			continue
		}
		// guard: !(f.FileId.Type == K) or f.FileId.Type != K
		cond := unparen(ifs.Cond)
		neg := false
		if ue, ok := cond.(*ast.UnaryExpr); ok && ue.Op == token.NOT {
			neg = true
			cond = unparen(ue.X)
		}
		be, ok := cond.(*ast.BinaryExpr)
		if !ok || !((neg && be.Op == token.EQL) || (!neg && be.Op == token.NEQ)) {
			r.undecided("C03-5-accessor", key, c.pos(fd.Pos()), "guard is not a mismatch test on the file type")
			continue
		}
		lhs, kexp := be.X, be.Y
		if _, isConst := exprConst(info, lhs); isConst {
			lhs, kexp = kexp, lhs
		}
		lstr := exprStr(lhs)
		isType := lstr == fd.Recv.List[0].Names[0].Name+".FileId.Type"
		if call, ok := unparen(lhs).(*ast.CallExpr); ok && isMethod(callee(info, call), modPath, "File", "Type") {
			isType = true
		}
		k, okK := exprInt(info, kexp)
		if !isType || !okK {
			r.undecided("C03-5-accessor", key, c.pos(fd.Pos()), "guard does not compare f.FileId.Type with a constant")
			continue
		}
		// mismatch branch returns nil, non-nil error
		okErr := false
		if len(ifs.Body.List) == 1 {
			if ers, ok := ifs.Body.List[0].(*ast.ReturnStmt); ok && len(ers.Results) == 2 && exprStr(ers.Results[0]) == "nil" && c.nonNilErrExpr(info, ers.Results[1]) {
				okErr = true
			}
		}
		// match branch returns f.member, nil
		msel, ok := unparen(rs.Results[0]).(*ast.SelectorExpr)
		okRet := ok && info.Uses[identOf(msel.X)] == recv && exprStr(rs.Results[1]) == "nil"
		p := pairing[k]
		switch {
		case !okErr:
			r.fail("C03-5-accessor", key, c.pos(fd.Pos()), "mismatch branch does not return (nil, non-nil error)")
		case !okRet:
			r.fail("C03-5-accessor", key, c.pos(fd.Pos()), "match branch does not return (f.member, nil)")
		case p == nil:
			r.fail("C03-5-accessor", key, c.pos(fd.Pos()), fmt.Sprintf("accessor tests file type %s which File.init does not accept", exprStr(kexp)))
		case p.member != msel.Sel.Name:
			r.fail("C03-5-accessor", key, c.pos(fd.Pos()), fmt.Sprintf("for file type %s File.init fills f.%s but the accessor returns f.%s", p.constName, p.member, msel.Sel.Name))
		case !types.Identical(p.cont, cont):
			r.fail("C03-5-accessor", key, c.pos(fd.Pos()), "accessor result type differs from the container installed for its file type")
		default:
			r.ok("C03-5-accessor", key, c.pos(fd.Pos()), fmt.Sprintf("returns f.%s iff FileId.Type == %s, error otherwise", p.member, p.constName))
			p.accessor = fn.Name()
			found[p.member] = true
		}
	}
	var names []string
	for _, p := range pairing {
		names = append(names, p.constName)
		if !found[p.member] {
			r.fail("C03-5-accessor-coverage", p.constName, "", "no accessor returns the container of this file type")
		} else {
			r.ok("C03-5-accessor-coverage", p.constName, "", "accessor "+p.accessor)
		}
	}
	sort.Strings(names)
	r.set("file_types", names)
}

func c03EncodeSwitch(c *Ctx, r *Report, pairing map[int64]*ftPair) {
	info := c.fit.TypesInfo
	fd := c.decl(c.fn(c.fit, "Encode"))
	if fd == nil {
		r.fail("C03-5-encode", "Encode", "", "Encode not found")
		return
	}
	var sw *ast.SwitchStmt
	findSwitch := func(d *ast.FuncDecl) *ast.SwitchStmt {
		for _, s := range d.Body.List {
			if x, ok := s.(*ast.SwitchStmt); ok && x.Tag != nil {
				if call, ok := x.Tag.(*ast.CallExpr); ok && isMethod(callee(info, call), modPath, "File", "Type") {
					return x
				}
			}
		}
		return nil
	}
	sw = findSwitch(fd)
	if sw == nil {
		// the switch may live in a helper that Encode calls with its *File (fileTypeData(file))
		if enc := c.ssaFn(c.fn(c.fit, "Encode")); enc != nil {
			for _, ci := range allCalls(enc) {
				g := ci.Common().StaticCallee()
				if g == nil || fnPkgPath(g) != modPath {
					continue
				}
				passesFile := false
				for _, a := range ci.Common().Args {
					if p, ok := a.(*ssa.Parameter); ok && strings.HasSuffix(p.Type().String(), ".File") {
						passesFile = true
					}
				}
				if d := c.declOfSSA(g); passesFile && d != nil && d.Body != nil {
					if x := findSwitch(d); x != nil {
						sw, fd = x, d
					}
				}
			}
		}
	}
	if sw == nil {
		r.undecided("C03-5-encode", "Encode/shape", c.pos(fd.Pos()), "no switch on file.Type()")
		return
	}
	seen := map[int64]bool{}
	for _, s := range sw.Body.List {
		cc := s.(*ast.CaseClause)
		if cc.List == nil {
			r.check(c.alwaysReturnsErr(cc.Body), "C03-5-encode", "Encode/default", c.pos(cc.Pos()), "unknown file type is an error", "default arm does not return an error")
			continue
		}
		if len(cc.List) != 1 {
			r.undecided("C03-5-encode", "Encode/multi", c.pos(cc.Pos()), "case with several constants")
			continue
		}
		k, ok := exprInt(info, cc.List[0])
		name := exprStr(cc.List[0])
		key := "Encode/" + name
		if !ok {
			r.undecided("C03-5-encode", key, c.pos(cc.Pos()), "non-constant case")
			continue
		}
		p := pairing[k]
		if p == nil {
			r.fail("C03-5-encode", key, c.pos(cc.Pos()), "Encode handles a file type File.init rejects")
			continue
		}
		// first statement: v, err := file.Accessor()
		okA := false
		if len(cc.Body) >= 1 {
			if as, ok := cc.Body[0].(*ast.AssignStmt); ok && len(as.Rhs) == 1 {
				if call, ok := as.Rhs[0].(*ast.CallExpr); ok {
					if f, ok := callee(info, call).(*types.Func); ok && f.Name() == p.accessor {
						okA = true
					}
				}
			}
		}
		seen[k] = true
		r.check(okA, "C03-5-encode", key, c.pos(cc.Pos()), "uses accessor "+p.accessor, "arm does not fetch the container through the accessor paired with its file type ("+p.accessor+")")
	}
	for k, p := range pairing {
		if !seen[k] {
			r.fail("C03-5-encode", "Encode/"+p.constName, c.pos(sw.Pos()), "Encode has no arm for a file type File.init accepts")
		}
	}
}

// c03DecoderAdds: every call of (*File).add in the decoder is dominated by the
// err == nil edge of the parse call that produced its argument, and no add call
// dominates another (once per record).
func c03DecoderAdds(c *Ctx, r *Report) {
	addFn := c.ssaFn(c.fn(c.fit, "File.add"))
	if addFn == nil {
		r.fail("C03-6-add-sites", "File.add", "", "File.add not found")
		return
	}
	n := 0
	disp := c.recordDispatchFn()
	if disp == nil {
		r.fail("C03-6-add-sites", "record-dispatch", "", "the function that dispatches on the record header (the caller of parseDefinitionMessage other than parseFileIdMsg) was not found or is not unique")
		return
	}
	for _, fn := range []*ssa.Function{disp, c.ssaFn(c.fn(c.fit, "decoder.parseFileIdMsg"))} {
		if fn == nil {
			r.fail("C03-6-add-sites", "decoder.parseFileIdMsg", "", "function not found")
			continue
		}
		fname := "decoder." + fn.Name()
		var adds []*ssa.Call
		for _, b := range fn.Blocks {
			for _, ins := range b.Instrs {
				if call, ok := ins.(*ssa.Call); ok && call.Common().StaticCallee() == addFn {
					adds = append(adds, call)
				}
			}
		}
		for i, a := range adds {
			key := fmt.Sprintf("%s/add-%d", fname, i)
			// argument must come from a parse call's first result
			arg := a.Common().Args[len(a.Common().Args)-1]
			ex, ok := arg.(*ssa.Extract)
			var src *ssa.Call
			if ok {
				src, _ = ex.Tuple.(*ssa.Call)
			}
			if src == nil {
				// allow phi-free reload from a local (var msg declared outside): find through Alloc store
				src = c.traceStoredCall(fn, arg)
			}
			if src == nil || src.Common().StaticCallee() == nil || src.Common().StaticCallee().Name() != "parseDataMessage" {
				r.undecided("C03-6-add-sites", key, c.pos(a.Pos()), "added message does not come directly from parseDataMessage")
				continue
			}
			if !c.errNilDominates(fn, src, a.Block()) {
				r.fail("C03-6-add-sites", key, c.pos(a.Pos()), "File.add is reachable without passing the err == nil test of the parse call: a partially parsed message can be added")
				continue
			}
			r.ok("C03-6-add-sites", key, c.pos(a.Pos()), "add is dominated by the error-free edge of its parseDataMessage call")
			n++
		}
		for i, a := range adds {
			for j, b := range adds {
				if i != j && (a.Block() == b.Block() || a.Block().Dominates(b.Block())) {
					r.fail("C03-6-once", fmt.Sprintf("%s/add-%d-%d", fname, i, j), c.pos(b.Pos()), "two File.add calls on one path: a message would be added twice")
				}
			}
		}
	}
	c03MessageFlows(c, r)
	// nobody else calls File.add or a container add
	for _, fn := range c.moduleFuncs() {
		if fnPkgPath(fn) != modPath {
			continue
		}
		for _, b := range fn.Blocks {
			for _, ins := range b.Instrs {
				call, ok := ins.(*ssa.Call)
				if !ok {
					continue
				}
				cal := call.Common().StaticCallee()
				isAdd := cal == addFn || (call.Common().IsInvoke() && call.Common().Method.Name() == "add")
				if !isAdd {
					continue
				}
				name := fn.Name()
				okCaller := fn == disp || name == "parseFileIdMsg" || (name == "add" && call.Common().IsInvoke())
				r.check(okCaller, "C03-6-who-adds", fn.String()+"@"+fmt.Sprint(call.Common().IsInvoke()), c.pos(call.Pos()), "expected add caller", "unexpected caller of the routing functions")
			}
		}
	}
	r.need("decoder add sites", n, 3)
}

// traceStoredCall: arg is a load from a local Alloc whose reaching store (in a dominating
// position) holds Extract #0 of a call.
func (c *Ctx) traceStoredCall(fn *ssa.Function, v ssa.Value) *ssa.Call {
	u, ok := v.(*ssa.UnOp)
	if !ok || u.Op != token.MUL {
		return nil
	}
	al, ok := u.X.(*ssa.Alloc)
	if !ok {
		return nil
	}
	var best *ssa.Call
	for _, ref := range *al.Referrers() {
		st, ok := ref.(*ssa.Store)
		if !ok || st.Addr != ssa.Value(al) {
			continue
		}
		if !st.Block().Dominates(u.Block()) {
			continue
		}
		if ex, ok := st.Val.(*ssa.Extract); ok {
			if call, ok := ex.Tuple.(*ssa.Call); ok {
				if best == nil || best.Block().Dominates(call.Block()) {
					best = call
				}
			}
		}
	}
	return best
}

// errNilDominates: block b is dominated by the "err == nil" successor of a test on the
// error result (last tuple element) of call.
func (c *Ctx) errNilDominates(fn *ssa.Function, call *ssa.Call, b *ssa.BasicBlock) bool {
	res := call.Common().Signature().Results()
	errIdx := res.Len() - 1
	for _, blk := range fn.Blocks {
		if len(blk.Instrs) == 0 {
			continue
		}
		ifi, ok := blk.Instrs[len(blk.Instrs)-1].(*ssa.If)
		if !ok {
			continue
		}
		bo, ok := ifi.Cond.(*ssa.BinOp)
		if !ok || (bo.Op != token.NEQ && bo.Op != token.EQL) {
			continue
		}
		isErr := func(v ssa.Value) bool {
			v = c.throughLocal(v)
			if res.Len() == 1 {
				return v == ssa.Value(call)
			}
			ex, ok := v.(*ssa.Extract)
			return ok && ex.Tuple == ssa.Value(call) && ex.Index == errIdx
		}
		isNil := func(v ssa.Value) bool {
			k, ok := v.(*ssa.Const)
			return ok && k.Value == nil
		}
		if !((isErr(bo.X) && isNil(bo.Y)) || (isErr(bo.Y) && isNil(bo.X))) {
			continue
		}
		nilSucc := blk.Succs[1] // err != nil false-branch
		if bo.Op == token.EQL {
			nilSucc = blk.Succs[0]
		}
		if len(nilSucc.Preds) == 1 && nilSucc.Dominates(b) {
			return true
		}
	}
	return false
}

// throughLocal: if v is a load of a local Alloc with exactly one dominating store in the
// same block chain, return the stored value (handles `var err error` declared outside).
func (c *Ctx) throughLocal(v ssa.Value) ssa.Value {
	u, ok := v.(*ssa.UnOp)
	if !ok || u.Op != token.MUL {
		return v
	}
	al, ok := u.X.(*ssa.Alloc)
	if !ok {
		return v
	}
	// nearest preceding store in the same block
	blk := u.Block()
	var last ssa.Value
	for _, ins := range blk.Instrs {
		if ins == ssa.Instruction(u) {
			break
		}
		if st, ok := ins.(*ssa.Store); ok && st.Addr == ssa.Value(al) {
			last = st.Val
		}
	}
	if last != nil {
		return last
	}
	return v
}

// c03MessageFlows: every successfully parsed record of a known message reaches the add site:
// parseDataFields returns the message value it was given, parseDataMessage returns exactly the result
// of parseDataFields for a message built by getMesgAllInvalid when the number is known, and the decoder
// adds it whenever it is valid.
func c03MessageFlows(c *Ctx, r *Report) {
	if fn := c.ssaFn(c.fn(c.fit, "decoder.parseDataFields")); fn != nil {
		ok, n := true, 0
		for _, ret := range c.successReturns(fn) {
			n++
			p, isP := ret.Results[0].(*ssa.Parameter)
			if !isP || p.Name() != "msgv" {
				ok = false
			}
		}
		r.check(ok && n > 0, "C03-6-message-flows", "parseDataFields/returns-message", c.pos(fn.Pos()), "every success return hands back the message value it filled", "parseDataFields can succeed without returning the message it was given: the record is dropped or replaced")
	} else {
		r.fail("C03-6-message-flows", "parseDataFields", "", "not found")
	}
	if fn := c.ssaFn(c.fn(c.fit, "decoder.parseDataMessage")); fn != nil {
		ok, n := true, 0
		why := ""
		for _, ret := range c.successReturns(fn) {
			n++
			ex, isEx := ret.Results[0].(*ssa.Extract)
			var call *ssa.Call
			if isEx && ex.Index == 0 {
				call, _ = ex.Tuple.(*ssa.Call)
			}
			if call == nil || call.Common().StaticCallee() == nil || call.Common().StaticCallee().Name() != "parseDataFields" {
				ok = false
				why = "a success return at " + c.pos(ret.Pos()) + " does not return the result of parseDataFields (records of some definitions are skipped instead of routed)"
				continue
			}
			args := call.Common().Args
			msgv := args[len(args)-1]
			known := args[len(args)-2]
			// msgv: getMesgAllInvalid(...) on the known edge, zero value otherwise
			okMsg := false
			if phi, isPhi := msgv.(*ssa.Phi); isPhi {
				hasCtor := false
				allOK := true
				for _, e := range phi.Edges {
					if cc, isCall := e.(*ssa.Call); isCall && cc.Common().StaticCallee() != nil && cc.Common().StaticCallee().Name() == "getMesgAllInvalid" {
						if domByBoolEdge(fn, cc.Block(), true, func(v ssa.Value) bool { return v == known }) {
							hasCtor = true
							continue
						}
					}
					if k, isK := e.(*ssa.Const); isK && k.Value == nil {
						continue
					}
					allOK = false
				}
				okMsg = hasCtor && allOK
			}
			lk, isLk := known.(*ssa.Lookup)
			okKnown := isLk && pathOf(lk.X) == "*fit.knownMsgNums"
			if !okMsg || !okKnown {
				ok = false
				why = "the message handed to parseDataFields is not `getMesgAllInvalid(number)` exactly when knownMsgNums[number]"
			}
		}
		r.check(ok && n > 0, "C03-6-message-flows", "parseDataMessage/returns-parsed-message", c.pos(fn.Pos()), fmt.Sprintf("all %d success returns return parseDataFields' result for the all-invalid message of a known number", n), why)
	} else {
		r.fail("C03-6-message-flows", "parseDataMessage", "", "not found")
	}
	// the add is guarded by exactly IsValid(msg) of the same message
	if fn := c.recordDispatchFn(); fn != nil {
		addFn := c.ssaFn(c.fn(c.fit, "File.add"))
		n, ok := 0, true
		for _, ci := range allCalls(fn) {
			if ci.Common().StaticCallee() != addFn {
				continue
			}
			n++
			arg := ci.Common().Args[len(ci.Common().Args)-1]
			b := ci.Block()
			guard := false
			if len(b.Preds) == 1 {
				p := b.Preds[0]
				if ifi, isIf := p.Instrs[len(p.Instrs)-1].(*ssa.If); isIf && p.Succs[0] == b {
					if call, isCall := ifi.Cond.(*ssa.Call); isCall && call.Common().StaticCallee() != nil && call.Common().StaticCallee().String() == "(reflect.Value).IsValid" && call.Common().Args[0] == arg {
						// and that If block is the err == nil successor of the parse call
						guard = true
					}
				}
			}
			if !guard {
				ok = false
			}
		}
		r.check(ok && n >= 2, "C03-6-message-flows", fn.Name()+"/add-iff-valid", c.pos(fn.Pos()), "each parsed message is added exactly when it is a valid (known) message value", "an add site in "+fn.Name()+" is guarded by something other than IsValid() of the parsed message")
	}
}

// c03ContainerWriters: obligation 7. The slots and lists of the 17 containers are written only by
// the container's own router (add). Anywhere else in the library a container member may be read
// (len, range, index loads, returned, compared) but not assigned, not written through an index,
// and not handed to a function or boxed into an interface that could reorder or modify it (sort,
// reflect): the stream order and last-wins content the routers establish is what callers see.
func c03ContainerWriters(c *Ctx, r *Report) {
	isCont := map[*types.Named]bool{}
	for _, ct := range c.containers() {
		isCont[ct] = true
	}
	contOf := func(t types.Type) *types.Named {
		pt, ok := t.Underlying().(*types.Pointer)
		if !ok {
			return nil
		}
		n, _ := pt.Elem().(*types.Named)
		if n != nil && isCont[n] {
			return n
		}
		return nil
	}
	nSites, nOutside := 0, 0
	// File.FileId is the container of the file_id message: on the decode path only File.add may
	// write it (a message is stored when it is complete, never filled in place)
	var fileNamed *types.Named
	if fo := c.fit.Types.Scope().Lookup("File"); fo != nil {
		fileNamed, _ = fo.Type().(*types.Named)
	}
	decReach := map[*ssa.Function]bool{}
	if dec := c.ssaFn(c.fn(c.fit, "decoder.decode")); dec != nil {
		for _, f := range c.reach([]*ssa.Function{dec}).order {
			decReach[f] = true
		}
	}
	nFileId := 0
	for _, fn := range c.moduleFuncs() {
		if fnPkgPath(fn) != modPath || !inLib(fn) {
			continue
		}
		for _, b := range fn.Blocks {
			for _, ins := range b.Instrs {
				fa, ok := ins.(*ssa.FieldAddr)
				if !ok {
					continue
				}
				ct := contOf(fa.X.Type())
				if ct == nil && fileNamed != nil && decReach[fn] {
					if pt, ok := fa.X.Type().Underlying().(*types.Pointer); ok && pt.Elem() == types.Type(fileNamed) {
						if fileNamed.Underlying().(*types.Struct).Field(fa.Field).Name() == "FileId" {
							ct = fileNamed
							nFileId++
						}
					}
				}
				if ct == nil {
					continue
				}
				nSites++
				// the router itself
				if fn.Signature.Recv() != nil && fn.Name() == "add" && contOf(fn.Signature.Recv().Type()) == ct {
					continue
				}
				if ct == fileNamed && fn.Signature.Recv() != nil && fn.Name() == "add" {
					if pt, ok := fn.Signature.Recv().Type().(*types.Pointer); ok && pt.Elem() == types.Type(fileNamed) {
						continue
					}
				}
				nOutside++
				member := ct.Obj().Name() + "." + ct.Underlying().(*types.Struct).Field(fa.Field).Name()
				key := fn.Name() + "/" + member
				bad := readOnlyUses(c, fa)
				r.check(bad == "", "C03-7-container-writers", key, c.pos(fa.Pos()), "read only outside the router", "container member "+member+" is "+bad+" outside "+ct.Obj().Name()+".add: the stream order / last-wins content established by the router can change after the message was stored")
			}
		}
	}
	r.set("container_member_accesses", nSites)
	r.need("container member accesses", nSites, 60)
	r.need("accesses to File.FileId on the decode path", nFileId, 1)
	r.ok("C03-7-container-writers", "scan", "", fmt.Sprintf("%d accesses to container members, %d outside the routers", nSites, nOutside))
}

// readOnlyUses: every use of the address v (a member of a structure) and of what is loaded from it
// is a read: loads, len/cap, index reads, returns, comparisons. An assignment through it, a write
// through an index, boxing into an interface or passing it to a function is returned as text.
func readOnlyUses(c *Ctx, root ssa.Value) string {
	bad := ""
	var visit func(v ssa.Value, isAddr bool, depth int)
	visit = func(v ssa.Value, isAddr bool, depth int) {
		if bad != "" || depth > 6 || v.Referrers() == nil {
			return
		}
		for _, ref := range *v.Referrers() {
			switch u := ref.(type) {
			case *ssa.DebugRef:
			case *ssa.Store:
				if isAddr && u.Addr == v {
					bad = "assigned at " + c.pos(u.Pos())
				} else if u.Val == v {
					bad = "stored elsewhere at " + c.pos(u.Pos()) + " (alias that can be modified later)"
				}
			case *ssa.UnOp:
				if u.Op == token.MUL {
					// a scalar copy (number, bool, string) read out of the member can go anywhere
					if _, isBasic := u.Type().Underlying().(*types.Basic); isBasic {
						continue
					}
					visit(u, false, depth+1)
				}
			case *ssa.IndexAddr:
				visit(u, true, depth+1)
			case *ssa.FieldAddr:
				visit(u, true, depth+1)
			case *ssa.Slice:
				visit(u, false, depth+1)
			case *ssa.Index, *ssa.Field, *ssa.BinOp, *ssa.Return, *ssa.Phi, *ssa.If, *ssa.Extract:
			case *ssa.MakeInterface:
				bad = "boxed into an interface at " + c.pos(u.Pos()) + " (reflect or sort can modify it)"
			case *ssa.Call:
				cc := u.Common()
				if bi, ok := cc.Value.(*ssa.Builtin); ok && (bi.Name() == "len" || bi.Name() == "cap") {
					continue
				}
				if bi, ok := cc.Value.(*ssa.Builtin); ok && bi.Name() == "copy" && len(cc.Args) == 2 && cc.Args[1] == v && cc.Args[0] != v {
					continue
				}
				if f := cc.StaticCallee(); f != nil && f.Signature.Recv() != nil && len(cc.Args) > 0 && cc.Args[0] == v && !isAddr {
					// method call on a loaded element value (e.g. expandComponents on *Msg): element methods are covered by C18/C08
					continue
				}
				bad = "passed to " + calleeName(cc) + " at " + c.pos(u.Pos())
			default:
				bad = fmt.Sprintf("used by %T at %s", ref, c.pos(ref.Pos()))
			}
			if bad != "" {
				return
			}
		}
	}
	visit(root, true, 0)
	return bad
}

// recordDispatchFn: the per-record dispatcher, found by what it does rather than by name: the
// one function of the package, other than parseFileIdMsg, that calls parseDefinitionMessage.
func (c *Ctx) recordDispatchFn() *ssa.Function {
	var out []*ssa.Function
	for _, fn := range c.moduleFuncs() {
		if fnPkgPath(fn) != modPath || fn.Name() == "parseFileIdMsg" {
			continue
		}
		for _, ci := range allCalls(fn) {
			if f := ci.Common().StaticCallee(); f != nil && f.Name() == "parseDefinitionMessage" && fnPkgPath(f) == modPath {
				out = append(out, fn)
				break
			}
		}
	}
	if len(out) != 1 {
		return nil
	}
	return out[0]
}
