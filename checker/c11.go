package main

import (
	"fmt"
	"go/ast"
	"go/token"
	"go/types"
	"strings"

	"golang.org/x/tools/go/ssa"
)

func init() {
	register(&propDef{
		id: "C11", level: "other", run: runC11,
		explanation: "Decided per path (which covers every cut/fault offset): (R1) every call in the reachable decoder functions whose result includes an error is followed, on every path on which that error is non-nil, by a return whose error operand is that error, a wrapper of it, or statically non-nil; the only frozen exceptions are hash Write (never fails) and fill's `n > 0 => err = nil` (data was delivered; the io.Reader contract re-delivers the error). (R2) a return that may carry nil while a callee error is non-nil (a swallow site) is allowed only in DecodeChained, only under errors.Is(err, <EOF class>) and only after at least one file. (R3) the EOF-class sentinel that ends a chain is produced only by the first-byte EOF branch of decodeHeader. (R4) messages are added only after they parsed completely (C03-6). (R5) Decode returns the File on every path; DecodeChained appends the partial File before returning an error. NOT decided: the per-offset enumeration as an observation, or that the partial File contains exactly the complete messages (follows from R4). C03-7-container-writers runs here too: messages reach File.FileId and the containers only complete, through the routers, so the partial File beside an error holds no half-decoded message. An error still pending when the loop re-executes the call that produced it counts as dropped. The read discipline of C04 and the capped read of C10 run here too: input is obtained only at the enumerated read sites, each reading what the framing says is still due. (R6-no-read-ahead) more input is requested only while the caller still needs a byte.",
		trusted:     []string{"go/ssa CFG and dominator tree", "hash.Hash.Write never returns an error (documented)", "fmt.Errorf/errors.New never return nil", "standard-library sentinel errors are non-nil"},
	})
}

type c11Exception struct{ fn, callee, reason string }

var c11Exceptions = []c11Exception{
	{"(*github.com/tormoder/fit.decoder).fill", ").Read", "n > 0 => err = nil: data was delivered and will be consumed; the io.Reader contract returns the error again on the next call"},
}

func isHashWrite(cc *ssa.CallCommon) bool {
	if !cc.IsInvoke() || cc.Method.Name() != "Write" {
		return false
	}
	t := cc.Value.Type().String()
	return t == crcPath+".Hash16" || strings.HasPrefix(t, "hash.Hash")
}

func runC11(c *Ctx, r *Report) {
	roots, missing := c.rootFuncs(decodeRoots)
	for _, m := range missing {
		r.fail("C11-roots", m, "", "entry point not found")
	}
	ri := c.reach(roots)
	nSites, nFuncs := 0, 0
	var scope []*ssa.Function
	for _, fn := range ri.module() {
		if fnPkgPath(fn) == modPath {
			scope = append(scope, fn)
		}
	}
	swallowSites := 0
	for _, fn := range scope {
		sites := errorCalls(fn)
		if len(sites) == 0 {
			continue
		}
		nFuncs++
		nf := c.newNilFacts(fn)
		perCallee := map[string]int{}
		for _, s := range sites {
			nSites++
			idx := perCallee[s.callee]
			perCallee[s.callee]++
			key := fmt.Sprintf("%s/%s#%d", fn.String(), s.callee, idx)
			pos := c.pos(s.call.Pos())
			if isHashWrite(s.call.Common()) {
				r.ok("C11-R1-no-dropped-error", key, pos, "frozen exception: hash.Hash.Write never returns an error")
				continue
			}
			// the function itself must be able to report: last result error
			res := fn.Signature.Results()
			if res.Len() == 0 || !isErrorType(res.At(res.Len()-1).Type()) {
				// function cannot return an error: the callee error must not exist or must be handled otherwise
				r.fail("C11-R1-no-dropped-error", key, pos, fmt.Sprintf("%s returns no error but calls %s which can fail: the failure cannot be reported", fn.Name(), s.callee))
				continue
			}
			fr := nf.analyseSite(s)
			if fr.overwritten {
				r.fail("C11-R1-no-dropped-error", key, pos, fmt.Sprintf("error of %s is dropped when the loop in %s comes round: on a path on which it is non-nil the call is made again without the error having been returned, so a failure there (a rejected or damaged file, a truncation) can end in success. Path from entry: %s", s.callee, fn.Name(), ri.path(fn)))
				continue
			}
			if len(fr.swallows) == 0 {
				how := "tested and propagated"
				if !fr.tested {
					how = "returned directly"
				}
				r.ok("C11-R1-no-dropped-error", key, pos, "error of "+s.callee+" is "+how+" on every path")
				continue
			}
			// frozen exception?
			exc := ""
			for _, x := range c11Exceptions {
				if fn.String() == x.fn && strings.HasSuffix(s.callee, x.callee) {
					exc = x.reason
				}
			}
			if exc != "" {
				// the exception is exactly: result = phi[nil under n > 0, err]
				if c11FillShape(fn, s) {
					r.ok("C11-R1-no-dropped-error", key, pos, "frozen exception: "+exc)
				} else {
					r.fail("C11-R1-no-dropped-error", key, pos, "fill no longer has the shape `if n > 0 { err = nil }; return err`: the reader's error can be dropped without data having been delivered")
				}
				continue
			}
			var where []string
			for _, sw := range fr.swallows {
				where = append(where, describeReturn(c, sw))
			}
			if fn.Name() == "DecodeChained" {
				swallowSites++
				ok, why := c11ChainSwallow(c, fn, s, fr.swallows)
				r.check(ok, "C11-R2-swallow-guard", key, pos, why, why)
				continue
			}
			what := "is neither returned nor replaced by a non-nil error"
			if fr.unused {
				what = "is discarded"
			}
			r.fail("C11-R1-no-dropped-error", key, pos, fmt.Sprintf("error of %s %s on a path to %s: a truncation or reader fault there yields silent success. Path from entry: %s", s.callee, what, strings.Join(where, ", "), ri.path(fn)))
		}
	}
	r.set("decoder_functions_with_error_calls", nFuncs)
	r.set("error_call_sites", nSites)
	r.need("error-producing call sites in the decoder", nSites, 25)
	r.need("swallow sites examined in DecodeChained", swallowSites, 1)

	c11Sentinel(c, r)
	c11Results(c, r)
	c11FreshDecoder(c, r)
	readerKindIndependent(c, r, "C11-R5-results")
	// premise of "every cut or fault is an error": input is obtained only at the enumerated read sites,
	// each reading what the framing says is still due (a read that fetches bytes of the next section
	// early moves the place where a short read would have been noticed)
	c04ReadDiscipline(c, r)
	if fn := c.ssaFn(c.fn(c.fit, "decoder.fill")); fn != nil {
		c10FillCap(c, r, fn)
	}
	c11NoReadAhead(c, r)
	// R4
	c03DecoderAdds(c, r)
	c03ContainerWriters(c, r) // a message reaches its container complete, through the router, or not at all
	// the partial File holds complete messages *as Decode delivers them*: component expansion happens
	// when a message is stored, not in a pass that an error return skips
	c18ExpansionCalled(c, r)
}

// c11FillShape: the returned error is phi[nil, err] where the nil edge is dominated by n > 0.
func c11FillShape(fn *ssa.Function, s errSite) bool {
	for _, b := range fn.Blocks {
		if len(b.Instrs) == 0 {
			continue
		}
		ret, ok := b.Instrs[len(b.Instrs)-1].(*ssa.Return)
		if !ok || len(ret.Results) != 1 {
			continue
		}
		if _, isMI := ret.Results[0].(*ssa.MakeInterface); isMI {
			continue
		}
		if ret.Results[0] == s.val {
			continue
		}
		phi, ok := ret.Results[0].(*ssa.Phi)
		if !ok || len(phi.Edges) != 2 {
			return false
		}
		for i, e := range phi.Edges {
			pred := phi.Block().Preds[i]
			if e == s.val {
				continue
			}
			if !isNilConst(e) {
				return false
			}
			// pred must be dominated by the true branch of `n > 0`, n being the count result of the same call
			okGuard := false
			for _, gb := range fn.Blocks {
				if len(gb.Instrs) == 0 {
					continue
				}
				ifi, ok := gb.Instrs[len(gb.Instrs)-1].(*ssa.If)
				if !ok {
					continue
				}
				bo, ok := ifi.Cond.(*ssa.BinOp)
				if !ok || bo.Op != token.GTR {
					continue
				}
				ex, ok := bo.X.(*ssa.Extract)
				k, ok2 := bo.Y.(*ssa.Const)
				if !ok || !ok2 || ex.Tuple != ssa.Value(s.call.(*ssa.Call)) || ex.Index != 0 || k.Value == nil || k.Int64() != 0 {
					continue
				}
				if len(gb.Succs[0].Preds) == 1 && gb.Succs[0].Dominates(pred) {
					okGuard = true
				}
			}
			if !okGuard {
				return false
			}
		}
	}
	return true
}

var eofClass = map[string]bool{"io.EOF": true, "io.ErrUnexpectedEOF": true, modPath + ".errReadSize": true}

// c11ChainSwallow: every swallowing return is dominated by errors.Is(err, <EOF class>) == true and by i != 0.
func c11ChainSwallow(c *Ctx, fn *ssa.Function, s errSite, rets []*ssa.Return) (bool, string) {
	for _, ret := range rets {
		rb := ret.Block()
		eofOK, afterFirst := false, false
		classGuard := ""
		for _, b := range fn.Blocks {
			if len(b.Instrs) == 0 {
				continue
			}
			ifi, ok := b.Instrs[len(b.Instrs)-1].(*ssa.If)
			if !ok {
				continue
			}
			t := b.Succs[0]
			if len(t.Preds) != 1 || !t.Dominates(rb) {
				continue
			}
			// errors.Is(err, G)
			if call, ok := ifi.Cond.(*ssa.Call); ok {
				if cal := call.Common().StaticCallee(); cal != nil && cal.String() == "errors.Is" && len(call.Common().Args) == 2 && call.Common().Args[0] == s.val {
					if tgt := c.errTargetName(call.Common().Args[1]); eofClass[tgt] {
						eofOK = true
						if !strings.HasPrefix(tgt, modPath) {
							classGuard = tgt
						}
					}
				}
			}
			// i != 0 where i = phi[0, i+1]
			if bo, ok := ifi.Cond.(*ssa.BinOp); ok && bo.Op == token.NEQ {
				if k, ok := bo.Y.(*ssa.Const); ok && k.Value != nil && k.Int64() == 0 {
					if phi, ok := bo.X.(*ssa.Phi); ok && isCounterPhi(phi) {
						afterFirst = true
					}
				}
			}
			if bo, ok := ifi.Cond.(*ssa.BinOp); ok && bo.Op == token.GTR {
				if k, ok := bo.Y.(*ssa.Const); ok && k.Value != nil && k.Int64() == 0 {
					if phi, ok := bo.X.(*ssa.Phi); ok && isCounterPhi(phi) {
						afterFirst = true
					}
				}
			}
		}
		if !eofOK {
			return false, fmt.Sprintf("%s returns a nil error although decode failed, and is not guarded by errors.Is(err, <io.EOF | io.ErrUnexpectedEOF | errReadSize>): any error on the first header byte of a following file (including a non-EOF reader fault or a garbage byte) ends the chain silently", describeReturn(c, ret))
		}
		if !afterFirst {
			return false, fmt.Sprintf("%s swallows an EOF-class error without requiring that at least one file was decoded", describeReturn(c, ret))
		}
		if classGuard != "" {
			return false, fmt.Sprintf("%s ends the chain on errors.Is(err, %s), which matches the end of input at any read site (a read that finds no byte at all returns io.EOF), not only the library's own first-header-byte sentinel: a stream cut exactly in front of a later read (the two CRC bytes of a non-first file) ends the chain without an error", describeReturn(c, ret), classGuard)
		}
	}
	return true, "the only nil-returning error path is guarded by an EOF-class test on the decode error and by `at least one file decoded`"
}

func isCounterPhi(phi *ssa.Phi) bool {
	zero, inc := false, false
	for _, e := range phi.Edges {
		if k, ok := e.(*ssa.Const); ok && k.Value != nil && k.Int64() == 0 {
			zero = true
			continue
		}
		if bo, ok := e.(*ssa.BinOp); ok && bo.Op == token.ADD && bo.X == ssa.Value(phi) {
			if k, ok := bo.Y.(*ssa.Const); ok && k.Value != nil && k.Int64() == 1 {
				inc = true
				continue
			}
		}
		return false
	}
	return zero && inc
}

// errTargetName: name of the package-level error a value is loaded/boxed from.
func (c *Ctx) errTargetName(v ssa.Value) string {
	for i := 0; i < 6; i++ {
		switch n := v.(type) {
		case *ssa.MakeInterface:
			v = n.X
		case *ssa.ChangeInterface:
			v = n.X
		case *ssa.UnOp:
			if g, ok := n.X.(*ssa.Global); ok && g.Pkg != nil {
				return g.Pkg.Pkg.Path() + "." + g.Name()
			}
			return ""
		default:
			return ""
		}
	}
	return ""
}

// c11Sentinel: errReadSize is produced only by decodeHeader under errors.Is(err, io.EOF) of the first read.
func c11Sentinel(c *Ctx, r *Report) {
	g := c.ssaGlobal(c.fit, "errReadSize")
	if g == nil {
		r.note("errReadSize not present: chain termination must use another EOF-class sentinel")
		return
	}
	c.moduleFuncs()
	// identity of the sentinel: errors.Is(err, errReadSize) must mean "err is (or wraps) exactly this
	// value". A method Is on the sentinel's type widens the match to whatever that method accepts, and
	// a comparable struct type makes every equal-valued literal the sentinel: (a) no Is method on the
	// type; (b) no composite literal of the type outside the sentinels' own initialisers is built with
	// only constants (such a value could compare equal).
	if pt, ok := g.Type().(*types.Pointer); ok {
		st := pt.Elem()
		ms := c.prog.MethodSets.MethodSet(st)
		hasIs := ms.Lookup(c.fit.Types, "Is") != nil || ms.Lookup(nil, "Is") != nil
		for i := 0; i < ms.Len(); i++ {
			if ms.At(i).Obj().Name() == "Is" {
				hasIs = true
			}
		}
		r.check(!hasIs, "C11-R3-sentinel", "errReadSize/identity", c.pos(g.Pos()), "the sentinel's type has no Is method: errors.Is matches this value only", "the type of errReadSize defines an Is method: errors.Is(err, errReadSize) now also accepts other errors of that type, so DecodeChained can end a chain silently on a reader fault that is not end of input")
	}
	for _, fn := range c.globalUsers[g] {
		if fn.Synthetic != "" && fn.Name() == "init" {
			continue
		}
		key := "errReadSize@" + fn.String()
		switch fn.Name() {
		case "DecodeChained":
			r.ok("C11-R3-sentinel", key, "", "used as errors.Is target")
		case "decodeHeader":
			// every load that is returned must be dominated by errors.Is(e, io.EOF) where e is the error of the first read (binary.Read of the size byte)
			ok := true
			why := "returned only when the first header byte hits io.EOF"
			for _, b := range fn.Blocks {
				for _, ins := range b.Instrs {
					u, isU := ins.(*ssa.UnOp)
					if !isU || u.X != ssa.Value(g) {
						continue
					}
					dom := false
					for _, gb := range fn.Blocks {
						if len(gb.Instrs) == 0 {
							continue
						}
						ifi, isIf := gb.Instrs[len(gb.Instrs)-1].(*ssa.If)
						if !isIf {
							continue
						}
						call, isC := ifi.Cond.(*ssa.Call)
						if !isC || call.Common().StaticCallee() == nil || call.Common().StaticCallee().String() != "errors.Is" {
							continue
						}
						if c.errTargetName(call.Common().Args[1]) != "io.EOF" {
							continue
						}
						// error must come from encoding/binary.Read (the one-byte size read)
						src, isCall := call.Common().Args[0].(*ssa.Call)
						if !isCall || src.Common().StaticCallee() == nil || src.Common().StaticCallee().String() != "encoding/binary.Read" {
							continue
						}
						if len(gb.Succs[0].Preds) == 1 && gb.Succs[0].Dominates(b) {
							dom = true
						}
					}
					if !dom {
						ok = false
						why = "errReadSize is produced at " + c.pos(u.Pos()) + " outside the first-byte io.EOF branch: a truncation inside a frame would end a chain silently"
					}
				}
			}
			r.check(ok, "C11-R3-sentinel", key, c.pos(fn.Pos()), why, why)
		default:
			r.fail("C11-R3-sentinel", key, c.pos(fn.Pos()), "the chain-terminating sentinel errReadSize is used outside decodeHeader/DecodeChained")
		}
	}
}

// c11Results: R5.
func c11Results(c *Ctx, r *Report) {
	info := c.fit.TypesInfo
	// Decode: every return's first result is d.file
	if fd := c.decl(c.fn(c.fit, "Decode")); fd != nil {
		ok := true
		n := 0
		ast.Inspect(fd.Body, func(nd ast.Node) bool {
			if rs, isR := nd.(*ast.ReturnStmt); isR {
				n++
				if len(rs.Results) != 2 || !strings.HasSuffix(exprStr(rs.Results[0]), ".file") {
					ok = false
				}
			}
			return true
		})
		r.check(ok && n > 0, "C11-R5-results", "Decode", c.pos(fd.Pos()), "Decode returns the decoder's File on every path", "a return of Decode does not hand back the partially decoded File")
	} else {
		r.fail("C11-R5-results", "Decode", "", "Decode not found")
	}
	// DecodeChained: every return with a non-nil error is preceded (same block list) by `if d.file != nil { fitFiles = append(fitFiles, d.file) }`
	if fd := c.decl(c.fn(c.fit, "DecodeChained")); fd != nil {
		ok := true
		n := 0
		var walk func(list []ast.Stmt)
		walk = func(list []ast.Stmt) {
			for i, s := range list {
				switch x := s.(type) {
				case *ast.ReturnStmt:
					if len(x.Results) == 2 && exprStr(x.Results[1]) != "nil" {
						n++
						found := false
						for _, p := range list[:i] {
							if ifs, isIf := p.(*ast.IfStmt); isIf && strings.Contains(exprStr(ifs.Cond), ".file != nil") {
								for _, bs := range ifs.Body.List {
									if as, isA := bs.(*ast.AssignStmt); isA && len(as.Rhs) == 1 && strings.Contains(exprStr(as.Rhs[0]), "append(") && strings.Contains(exprStr(as.Rhs[0]), ".file") && exprStr(as.Lhs[0]) == exprStr(x.Results[0]) {
										found = true
									}
								}
							}
						}
						if !found {
							ok = false
						}
					}
				case *ast.IfStmt:
					walk(x.Body.List)
					if eb, isB := x.Else.(*ast.BlockStmt); isB {
						walk(eb.List)
					}
				case *ast.ForStmt:
					walk(x.Body.List)
				case *ast.BlockStmt:
					walk(x.List)
				}
			}
		}
		walk(fd.Body.List)
		r.check(ok && n > 0, "C11-R5-results", "DecodeChained", c.pos(fd.Pos()), "the partial File of the failing element is appended before the error is returned", "an error return of DecodeChained does not append the partially decoded File first")
	} else {
		r.fail("C11-R5-results", "DecodeChained", "", "DecodeChained not found")
	}
	_ = info
}

// c11FreshDecoder: the File handed back next to an error is the one this call built: every entry
// point runs decode on a decoder that is a fresh zero value of the call itself (for DecodeChained:
// per file, perfile.go) — a pooled or reused decoder can still hold the File of an earlier call
// when the header of a cut stream fails before a new File is created. And the CRC-only mode reads
// exactly int64(DataSize) bytes, with no arithmetic in a narrower type that could wrap to a length
// the cut stream satisfies.
func c11FreshDecoder(c *Ctx, r *Report) {
	dec := c.ssaFn(c.fn(c.fit, "decoder.decode"))
	for _, name := range []string{"Decode", "DecodeHeader", "DecodeHeaderAndFileID", "CheckIntegrity"} {
		fn := c.ssaFn(c.fn(c.fit, name))
		if fn == nil || dec == nil {
			r.fail("C11-R5-results", name+"/fresh-decoder", "", "entry point or decode not found")
			continue
		}
		ok, n := true, 0
		for _, ci := range allCalls(fn) {
			if ci.Common().StaticCallee() != dec {
				continue
			}
			n++
			if !c.freshDecoderValue(ci.Common().Args[0], fn) {
				ok = false
			}
		}
		r.check(ok && n > 0, "C11-R5-results", name+"/fresh-decoder", c.pos(fn.Pos()), "decode runs on a zero decoder local to the call", name+" does not run decode on a fresh local decoder: state of an earlier call (its File, its definitions) can be handed back next to the error of a stream that fails early")
	}
	perFileRule(c, r, "C11-R5-results", []string{"file"}, "the File of the previous chained file is returned next to the error of the next one")
	if dec != nil {
		n := 0
		for _, fn := range c.reach([]*ssa.Function{dec}).module() {
			for _, ci := range allCalls(fn) {
				if f := ci.Common().StaticCallee(); f != nil && f.String() == "io.CopyN" {
					n++
					p := stripAddrs(pathOf(ci.Common().Args[2]))
					r.check(p == "conv<int64>(*d.h.DataSize)", "C11-R1-no-dropped-error", fn.Name()+"/CopyN-length", c.pos(ci.Pos()), "CRC-only mode copies int64(DataSize) bytes", "the CRC-only copy reads "+p+" bytes instead of int64(DataSize): a length computed in a narrower type can wrap, and a stream cut anywhere behind the header then verifies")
				}
			}
		}
		r.need("CopyN sites under decode", n, 1)
	}
}

// c11NoReadAhead (C11-R6-no-read-ahead, after wave-13 seed C11-R): the decoder asks its reader for
// more input only when the caller still needs a byte — every call of fill is dominated by the edge
// "the window is empty" (i == j) of a byte reader, or "bytes are still due" (len(rest) != 0) of a
// block reader. A refill issued after the request was already satisfied turns a cut or fault at a
// record boundary into an error for a message that was complete (it is then not filed), and shifts
// every "first failing read" by one request.
func c11NoReadAhead(c *Ctx, r *Report) {
	const rule = "C11-R6-no-read-ahead"
	fill := c.ssaFn(c.fn(c.fit, "decoder.fill"))
	if fill == nil {
		r.fail(rule, "decoder.fill", "", "not found")
		return
	}
	n := 0
	for _, fn := range c.moduleFuncs() {
		if fnPkgPath(fn) != modPath || fn == fill {
			continue
		}
		idx := 0
		for _, ci := range allCalls(fn) {
			if ci.Common().StaticCallee() != fill {
				continue
			}
			n++
			idx++
			isEmptyWindow := func(v ssa.Value) (bool, bool) { // matches, polarity (true: cond true means "needs a byte")
				bo, ok := v.(*ssa.BinOp)
				if !ok {
					return false, false
				}
				x, y := stripAddrs(pathOf(bo.X)), stripAddrs(pathOf(bo.Y))
				ij := (strings.HasSuffix(x, ".bytes.i") && strings.HasSuffix(y, ".bytes.j")) || (strings.HasSuffix(x, ".bytes.j") && strings.HasSuffix(y, ".bytes.i"))
				if ij && bo.Op == token.EQL {
					return true, true
				}
				if ij && bo.Op == token.NEQ {
					return true, false
				}
				// len(rest) ==/!=/> 0
				isLen := func(a ssa.Value) bool {
					call, ok := a.(*ssa.Call)
					if !ok {
						return false
					}
					bi, ok := call.Common().Value.(*ssa.Builtin)
					return ok && bi.Name() == "len"
				}
				isZero := func(a ssa.Value) bool {
					k, ok := a.(*ssa.Const)
					return ok && k.Value != nil && k.Int64() == 0
				}
				if isLen(bo.X) && isZero(bo.Y) {
					switch bo.Op {
					case token.EQL:
						return true, false
					case token.NEQ, token.GTR:
						return true, true
					}
				}
				if isZero(bo.X) && isLen(bo.Y) {
					switch bo.Op {
					case token.EQL:
						return true, false
					case token.NEQ, token.LSS:
						return true, true
					}
				}
				return false, false
			}
			ok := domByBoolEdge(fn, ci.Block(), true, func(v ssa.Value) bool { m, pol := isEmptyWindow(v); return m && pol }) ||
				domByBoolEdge(fn, ci.Block(), false, func(v ssa.Value) bool { m, pol := isEmptyWindow(v); return m && !pol })
			r.check(ok, rule, fmt.Sprintf("%s/fill#%d", fn.Name(), idx), c.pos(ci.Pos()), "more input is requested only while the caller still needs a byte", "fill is called in "+fn.Name()+" on a path where the request is already satisfied (not under `window empty` / `bytes still due`): a cut or fault right after a complete record becomes that record's error, and the message is not filed")
		}
	}
	r.need("calls of fill", n, 1)
}
