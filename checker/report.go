package main

import (
	"encoding/json"
	"fmt"
	"os"
	"path/filepath"
	"sort"
	"strings"
	"time"
)

// Obligation is one rule instance, keyed by rule id + construct (never by line).
type Obligation struct {
	Rule   string `json:"rule"`
	Key    string `json:"key"`
	Pos    string `json:"pos,omitempty"`
	Status string `json:"status"` // discharged | violation | undecided | known-finding
	Detail string `json:"detail,omitempty"`
}

type Report struct {
	p        *propDef
	tier     string
	verif    string
	obls     []Obligation
	seen     map[string]bool
	analysed map[string]interface{}
	floors   []floor
	loadInfo map[string]interface{}
	notes    []string
	// only: when set, obligations of other rules (and floors, counters) are dropped: used to run a
	// shared rule family under a second property without its unrelated siblings
	only map[string]bool
}

type floor struct {
	what string
	got  int
	min  int
}

func newReport(p *propDef, tier, verif string) *Report {
	return &Report{p: p, tier: tier, verif: verif, seen: map[string]bool{}, analysed: map[string]interface{}{}}
}

func (r *Report) add(status, rule, key, pos, detail string) {
	if r.only != nil && !r.only[rule] {
		return
	}
	key, detail = stripAddrs(key), stripAddrs(detail) // value identities (@0x..) are run-specific: keys are stable across runs
	k := rule + "|" + key
	if r.seen[k] {
		// duplicate key: keep the worst status
		for i := range r.obls {
			if r.obls[i].Rule == rule && r.obls[i].Key == key {
				if r.obls[i].Status == "discharged" && status != "discharged" {
					r.obls[i].Status, r.obls[i].Detail, r.obls[i].Pos = status, detail, pos
				}
				return
			}
		}
	}
	r.seen[k] = true
	r.obls = append(r.obls, Obligation{Rule: rule, Key: key, Pos: pos, Status: status, Detail: detail})
}

func (r *Report) ok(rule, key, pos, detail string)   { r.add("discharged", rule, key, pos, detail) }
func (r *Report) fail(rule, key, pos, detail string) { r.add("violation", rule, key, pos, detail) }
func (r *Report) undecided(rule, key, pos, detail string) {
	r.add("undecided", rule, key, pos, "UNDECIDED (not recognised, counted as violation): "+detail)
}

// check is ok/fail in one call.
func (r *Report) check(cond bool, rule, key, pos, okDetail, failDetail string) bool {
	if cond {
		r.ok(rule, key, pos, okDetail)
	} else {
		r.fail(rule, key, pos, failDetail)
	}
	return cond
}

// need records a vacuity floor: the rule must have matched at least min instances.
func (r *Report) need(what string, got, min int) {
	if r.only != nil {
		return
	}
	r.floors = append(r.floors, floor{what, got, min})
}

func (r *Report) note(s string) { r.notes = append(r.notes, s) }

func (r *Report) set(k string, v interface{}) {
	if r.only != nil {
		return
	}
	r.analysed[k] = v
}

// ---- known findings ---------------------------------------------------------

type KnownFinding struct {
	Property string `json:"property"`
	Rule     string `json:"rule"`
	Key      string `json:"key"`
	What     string `json:"what"`
	Witness  string `json:"witness,omitempty"`
	Status   string `json:"status"` // "known" suppresses; "fixed" suppresses nothing
	Commit   string `json:"commit,omitempty"`
	Record   string `json:"record,omitempty"`
}

type knownFile struct {
	Comment  string         `json:"comment"`
	Findings []KnownFinding `json:"findings"`
}

func loadKnown(verif string) ([]KnownFinding, error) {
	b, err := os.ReadFile(filepath.Join(verif, "known_findings.json"))
	if err != nil {
		if os.IsNotExist(err) {
			return nil, nil
		}
		return nil, err
	}
	var kf knownFile
	if err := json.Unmarshal(b, &kf); err != nil {
		return nil, err
	}
	return kf.Findings, nil
}

// ---- finish: evidence + verdict ----------------------------------------------

func (r *Report) finish(t0 time.Time, list bool, only *Obligation) int {
	id := r.p.id
	for _, f := range r.floors {
		if f.got < f.min {
			r.fail("vacuity", f.what, "", fmt.Sprintf("rule matched %d instances, need at least %d (anchor lost or code shape no longer recognised)", f.got, f.min))
		} else {
			r.ok("vacuity", f.what, "", fmt.Sprintf("%d instances (floor %d)", f.got, f.min))
		}
	}
	if len(r.obls) == 0 {
		r.fail("vacuity", "no-obligations", "", "property produced no obligations")
	}
	known, kerr := loadKnown(r.verif)
	if kerr != nil {
		r.fail("internal", "known-findings-file", "", "cannot read known_findings.json: "+kerr.Error())
	}
	kidx := map[string]KnownFinding{}
	for _, k := range known {
		if k.Property == id && k.Status == "known" {
			kidx[k.Rule+"|"+k.Key] = k
		}
	}
	var viol []Obligation
	nKnown, nDis := 0, 0
	for i := range r.obls {
		o := &r.obls[i]
		switch o.Status {
		case "discharged":
			nDis++
		case "violation", "undecided":
			if k, ok := kidx[o.Rule+"|"+o.Key]; ok && o.Status == "violation" {
				o.Status = "known-finding"
				nKnown++
				fmt.Printf("KNOWN-FINDING: property=%s %s [%s %s %s]\n", id, k.What, o.Rule, o.Key, o.Pos)
			} else {
				viol = append(viol, *o)
			}
		}
	}
	sort.SliceStable(viol, func(i, j int) bool { return viol[i].Rule+viol[i].Key < viol[j].Rule+viol[j].Key })

	if only != nil {
		// replay mode: report only on the recorded construct
		for _, o := range r.obls {
			if o.Rule == only.Rule && o.Key == only.Key {
				fmt.Printf("replay: %s %s %s -> %s\n  %s\n", id, o.Rule, o.Key, o.Status, o.Detail)
				if o.Status == "violation" || o.Status == "undecided" {
					fmt.Printf("VIOLATION property=%s replay=%s\n", id, "(replayed)")
					return 1
				}
				return 0
			}
		}
		fmt.Printf("replay: construct %s %s no longer produces an obligation\n", only.Rule, only.Key)
		return 1
	}

	// replay files
	rdir := filepath.Join(r.verif, "evidence", "replay")
	os.MkdirAll(rdir, 0o755)
	old, _ := filepath.Glob(filepath.Join(rdir, id+"-*.json"))
	for _, f := range old {
		os.Remove(f)
	}
	for i, v := range viol {
		path := filepath.Join(rdir, fmt.Sprintf("%s-%d.json", id, i+1))
		b, _ := json.MarshalIndent(map[string]interface{}{
			"property": id, "tier": r.tier, "obligation": v,
			"how_to_replay": fmt.Sprintf("/verif/bin/fitcheck -replay %s", path),
		}, "", " ")
		os.WriteFile(path, b, 0o644)
		fmt.Printf("%s %s: %s: %s\n  %s\n", v.Pos, id, v.Rule, v.Key, v.Detail)
		fmt.Printf("VIOLATION property=%s replay=%s\n", id, path)
	}

	if list {
		for _, o := range r.obls {
			fmt.Printf("[%s] %s | %s | %s | %s\n", o.Status, o.Rule, o.Key, o.Pos, o.Detail)
		}
	}

	// evidence
	byRule := map[string][2]int{}
	for _, o := range r.obls {
		x := byRule[o.Rule]
		x[0]++
		if o.Status == "discharged" {
			x[1]++
		}
		byRule[o.Rule] = x
	}
	rules := map[string]interface{}{}
	var ruleNames []string
	for k, v := range byRule {
		rules[k] = map[string]int{"obligations": v[0], "discharged": v[1]}
		ruleNames = append(ruleNames, k)
	}
	sort.Strings(ruleNames)
	// samples: first obligation of each rule, up to 40, plus all non-discharged
	var samples []interface{}
	got := map[string]int{}
	for _, o := range r.obls {
		if o.Status != "discharged" || got[o.Rule] < 2 {
			if len(samples) < 80 {
				samples = append(samples, o)
			}
			got[o.Rule]++
		}
	}
	if r.p.trusted == nil {
		r.p.trusted = []string{}
	}
	if r.p.assumptions == nil {
		r.p.assumptions = []string{"go/packages, go/types and go/ssa (x/tools v0.29.0) represent /repo's source faithfully"}
	}
	cov := map[string]interface{}{
		"obligations":         len(r.obls),
		"discharged":          nDis,
		"known_findings":      nKnown,
		"checker_cmd":         fmt.Sprintf("/verif/check %s %s", id, r.tier),
		"trusted_base":        r.p.trusted,
		"explanation":         r.p.explanation,
		"samples":             samples,
		"evaluations":         len(r.obls),
		"distinct_nontrivial": len(r.seen),
		"rule":                "one obligation per (rule id, construct) pair found in /repo's type-checked source; distinct = distinct (rule,construct) keys; every key names a specific function, call site, table row, case constant or access path",
		"exhaustive":          true,
		"per_rule":            rules,
		"rules":               ruleNames,
		"analysed":            r.analysed,
		"load":                r.loadInfo,
		"notes":               r.notes,
	}
	if r.p.level == "proof" && nKnown > 0 {
		cov["explanation"] = r.p.explanation + " NOTE: known findings present; discharged < obligations."
	}
	ev := map[string]interface{}{
		"property_id": id,
		"tier":        r.tier,
		"seed":        seed(),
		"level":       r.p.level,
		"coverage":    cov,
		"assumptions": r.p.assumptions,
		"wall_s":      time.Since(t0).Seconds(),
		"violations":  len(viol),
	}
	b, _ := json.MarshalIndent(ev, "", " ")
	os.MkdirAll(filepath.Join(r.verif, "evidence"), 0o755)
	if err := os.WriteFile(filepath.Join(r.verif, "evidence", id+".json"), b, 0o644); err != nil {
		fmt.Printf("cannot write evidence: %v\n", err)
		return 1
	}
	fmt.Printf("%s tier=%s obligations=%d discharged=%d known-findings=%d violations=%d rules=%s wall=%.1fs\n",
		id, r.tier, len(r.obls), nDis, nKnown, len(viol), strings.Join(ruleNames, ","), time.Since(t0).Seconds())
	if len(viol) > 0 {
		return 1
	}
	return 0
}

func seed() int {
	var s int
	fmt.Sscanf(os.Getenv("VERIF_SEED"), "%d", &s)
	return s
}

func doReplay(path, repo, verif string) int {
	b, err := os.ReadFile(path)
	if err != nil {
		fmt.Println("cannot read replay file:", err)
		return 2
	}
	var x struct {
		Property   string     `json:"property"`
		Tier       string     `json:"tier"`
		Obligation Obligation `json:"obligation"`
	}
	if err := json.Unmarshal(b, &x); err != nil {
		fmt.Println("bad replay file:", err)
		return 2
	}
	p, ok := props[x.Property]
	if !ok {
		fmt.Println("unknown property in replay file")
		return 2
	}
	var shared *Ctx
	// replay writes its evidence to a scratch dir so that the real evidence file is untouched
	tmp, _ := os.MkdirTemp("", "fitcheck-replay")
	defer os.RemoveAll(tmp)
	if kb, err := os.ReadFile(filepath.Join(verif, "known_findings.json")); err == nil {
		os.WriteFile(filepath.Join(tmp, "known_findings.json"), kb, 0o644)
	}
	return runProp(p, x.Tier, repo, tmp, false, &shared, &x.Obligation)
}
