package main

// Thorough tier: everything the quick tier does, plus
//   - positive controls: catalogue mutants (mutants/*.json) applied as an in-memory overlay of the
//     working tree; the property's rules must report the expected rule id on each of them. A control
//     whose text pattern no longer occurs in the tree is skipped (reported), never failed.
//   - extra build configurations: GOARCH=386 (32-bit int) for the lossy-conversion rule, and
//     -tags gofuzz (adds fuzz.go) for the scope comparison.
//   - CHA-versus-VTA reachability comparison for the effect rules.

import (
	"runtime"

	"encoding/json"
	"fitcheck/rewrite"
	"fmt"
	"go/types"
	"os"
	"path/filepath"
	"sort"
	"strings"

	"golang.org/x/tools/go/callgraph/cha"
	"golang.org/x/tools/go/ssa"
)

type catMutant struct {
	Name   string   `json:"name"`
	Props  []string `json:"props"`
	Expect string   `json:"expect"`
	Edits  []struct {
		File  string `json:"file"`
		Old   string `json:"old"`
		New   string `json:"new"`
		Count int    `json:"count"`
	} `json:"edits"`
}

func loadCatalogue(verif string) []catMutant {
	var out []catMutant
	files, _ := filepath.Glob(filepath.Join(verif, "mutants", "*.json"))
	sort.Strings(files)
	for _, f := range files {
		b, err := os.ReadFile(f)
		if err != nil {
			continue
		}
		var ms []catMutant
		if json.Unmarshal(b, &ms) == nil {
			out = append(out, ms...)
		}
	}
	return out
}

func thoroughExtras(c *Ctx, r *Report, p *propDef, verif string) {
	// ---- positive controls --------------------------------------------------------------------
	cat := loadCatalogue(verif)
	if len(cat) == 0 {
		// the catalogue is looked up next to the real /verif when running from a scratch evidence dir
		cat = loadCatalogue("/verif")
	}
	max := 40 // in practice: every catalogue mutant that names the property
	ran, caught, skipped := 0, 0, 0
	var details []string
	for _, m := range cat {
		has := false
		for _, q := range m.Props {
			if q == p.id {
				has = true
			}
		}
		if !has || ran >= max {
			continue
		}
		overlay := map[string][]byte{}
		okPat := true
		for _, e := range m.Edits {
			path := filepath.Join(c.repo, e.File)
			src, ok := overlay[path]
			if !ok {
				b, err := os.ReadFile(path)
				if err != nil {
					okPat = false
					break
				}
				src = b
			}
			want := e.Count
			if want == 0 {
				want = 1
			}
			if strings.Count(string(src), e.Old) != want {
				okPat = false
				break
			}
			overlay[path] = []byte(strings.ReplaceAll(string(src), e.Old, e.New))
		}
		if !okPat {
			skipped++
			details = append(details, m.Name+": skipped (pattern not present in the current tree)")
			continue
		}
		mc, err := loadOverlay(c.repo, "quick", nil, nil, overlay)
		if err != nil {
			skipped++
			details = append(details, m.Name+": skipped (mutant does not type-check: "+firstLine(err.Error())+")")
			continue
		}
		ran++
		mr := newReport(p, "quick", verif)
		func() {
			defer func() {
				if e := recover(); e != nil {
					mr.fail("internal", "checker-panic", "", fmt.Sprint(e))
				}
			}()
			p.run(mc, mr)
		}()
		hit := false
		for _, o := range mr.obls {
			if (o.Status == "violation" || o.Status == "undecided") && strings.Contains(o.Rule+" "+o.Key+" "+o.Detail, m.Expect) {
				hit = true
			}
		}
		if hit {
			caught++
			details = append(details, m.Name+": reported ("+m.Expect+")")
		} else {
			details = append(details, m.Name+": NOT reported")
			r.fail("thorough-positive-control", m.Name, "", "the rules of "+p.id+" do not report the catalogue mutant "+m.Name+" (expected "+m.Expect+"): the rule has lost its teeth on the current tree")
		}
	}
	r.set("positive_controls", details)
	thoroughNegativeControls(c, r, p, verif)
	if ran > 0 && caught == ran {
		r.ok("thorough-positive-control", "catalogue", "", fmt.Sprintf("%d of %d in-memory mutants of the catalogue reported (%d skipped)", caught, ran, skipped))
	}

	switch p.id {
	case "C01", "C10":
		thorough386(c, r, p)
	case "C08", "C09":
		thoroughCHA(c, r, p)
	case "C07":
		thoroughFuzzTag(c, r)
	}
}

func firstLine(s string) string {
	if i := strings.Index(s, "\n"); i >= 0 {
		s = s[:i]
	}
	if len(s) > 200 {
		s = s[:200]
	}
	return s
}

// thorough386: under GOARCH=386 `int` is 32 bits: conversions from 32-bit unsigned (or wider)
// values to int in the decode path may wrap negative and feed slice bounds.
func thorough386(c *Ctx, r *Report, p *propDef) {
	c3, err := loadCfg(c.repo, "quick", []string{"GOARCH=386"}, nil)
	if err != nil {
		r.fail("thorough-386", "load", "", "GOARCH=386 configuration does not load: "+firstLine(err.Error()))
		return
	}
	roots, _ := c3.rootFuncs(decodeRoots)
	ri := c3.reachMethodsOnly(roots)
	sizes := types.SizesFor("gc", "386")
	n := 0
	for _, fn := range ri.module() {
		if !inLib(fn) || fn.Name() == "String" {
			continue
		}
		bc := c3.newBounds(fn)
		idx := 0
		for _, b := range fn.Blocks {
			for _, ins := range b.Instrs {
				cv, ok := ins.(*ssa.Convert)
				if !ok {
					continue
				}
				tb, fb := basicOf(cv.Type()), basicOf(cv.X.Type())
				if tb == nil || fb == nil || tb.Kind() != types.Int || fb.Info()&types.IsInteger == 0 {
					continue
				}
				if isSigned(fb) || sizes.Sizeof(fb) < 4 {
					continue
				}
				n++
				key := fmt.Sprintf("%s/int(%s)#%d", fn.Name(), stripAddrs(pathOf(cv.X)), idx)
				idx++
				xr := bc.rangeAt(cv.X, b)
				if xr.okHi && xr.hi <= 1<<31-1 {
					r.ok("thorough-386-lossy-int", key, c3.pos(cv.Pos()), "source range "+xr.String()+" fits a 32-bit int")
				} else {
					r.fail("thorough-386-lossy-int", key, c3.pos(cv.Pos()), fmt.Sprintf("on 32-bit targets int(%s) wraps negative for values >= 2^31 (range %s); the result bounds reads and slices of the decode buffer", stripAddrs(pathOf(cv.X)), xr.String()))
				}
			}
		}
	}
	r.set("conversions_to_int_examined_386", n)
}

// thoroughCHA: the effect rules use VTA reachability; report what CHA alone would add and make sure
// no global-write site hides in the difference.
func thoroughCHA(c *Ctx, r *Report, p *propDef) {
	roots, _ := c.rootFuncs(append(append([]string{}, decodeRoots...), encodeRoots...))
	vta := c.reach(roots)
	chaG := cha.CallGraph(c.prog)
	seen := map[*ssa.Function]bool{}
	var q []*ssa.Function
	for _, f := range roots {
		seen[f] = true
		q = append(q, f)
	}
	for len(q) > 0 {
		f := q[0]
		q = q[1:]
		if n := chaG.Nodes[f]; n != nil {
			for _, e := range n.Out {
				if g := e.Callee.Func; !seen[g] {
					seen[g] = true
					q = append(q, g)
				}
			}
		}
	}
	var only []string
	for f := range seen {
		if inLib(f) && !vta.has(f) && len(f.Blocks) > 0 {
			only = append(only, f.String())
		}
	}
	sort.Strings(only)
	r.set("library_functions_reachable_under_CHA_only", only)
	// global writes inside the CHA-only set are listed in the evidence (informational)
	var chaOnlyWrites []string
	e := c.newEffects()
	for _, pp := range libPkgs(c) {
		sp := c.ssaPkgs[pp]
		for name, m := range sp.Members {
			g, ok := m.(*ssa.Global)
			if !ok || strings.Contains(name, "$") {
				continue
			}
			for _, w := range e.globalWriteSites(g) {
				if seen[w.fn] && !vta.has(w.fn) {
					// CHA resolves every interface call to every implementation in the program; a write that only CHA
					// reaches is recorded for the reader, it is not evidence of a history channel
					chaOnlyWrites = append(chaOnlyWrites, fmt.Sprintf("%s in %s (%s)", name, w.fn.String(), w.what))
				}
			}
		}
	}
	sort.Strings(chaOnlyWrites)
	r.set("package_variable_writes_reachable_under_CHA_only", chaOnlyWrites)
	r.ok("thorough-cha-superset", "comparison", "", fmt.Sprintf("%d library functions are reachable under CHA only (listed in the evidence with %d package-variable write sites among them; CHA's all-implementations dispatch is not evidence of reachability)", len(only), len(chaOnlyWrites)))
}

// thoroughFuzzTag: with -tags gofuzz the package gains Fuzz (the C07 oracle of the repository):
// it must type-check and must not bring new functions into the Encode scope.
func thoroughFuzzTag(c *Ctx, r *Report) {
	cf, err := loadCfg(c.repo, "quick", nil, []string{"gofuzz"})
	if err != nil {
		r.fail("thorough-gofuzz", "load", "", "-tags gofuzz configuration does not load: "+firstLine(err.Error()))
		return
	}
	fz := cf.ssaFn(cf.fn(cf.fit, "Fuzz"))
	if fz == nil {
		r.fail("thorough-gofuzz", "Fuzz", "", "Fuzz not found under -tags gofuzz")
		return
	}
	calls := map[string]bool{}
	for _, ci := range allCalls(fz) {
		if f := ci.Common().StaticCallee(); f != nil && strings.HasPrefix(fnPkgPath(f), modPath) {
			calls[f.Name()] = true
		}
	}
	r.check(calls["Decode"] && calls["Encode"] && len(calls) == 2, "thorough-gofuzz", "Fuzz/scope", cf.pos(fz.Pos()), "Fuzz only composes Decode and Encode: its behaviour is covered by the C01 and C07 censuses", fmt.Sprintf("Fuzz calls %v", calls))
}

// thoroughNegativeControls: the working tree is rewritten in memory by each mechanical
// behaviour-preserving rewrite (rewrite package: rename every local, spell out compound
// assignments, negate if/else tests, swap the operands of pure commutative integer operations)
// and the property's rules are run on the result: apart from the known findings nothing may be
// reported. A rule that depends on a spelling shows up here on every thorough run.
func thoroughNegativeControls(c *Ctx, r *Report, p *propDef, verif string) {
	env := append(os.Environ(), "GOFLAGS=-mod=mod", "GOPROXY=off", "GOSUMDB=off", "GOTOOLCHAIN=local", "GOWORK=off")
	known, _ := loadKnown(verif)
	if len(known) == 0 {
		known, _ = loadKnown("/verif")
	}
	kidx := map[string]bool{}
	for _, k := range known {
		if k.Property == p.id && k.Status == "known" {
			kidx[k.Rule+"|"+k.Key] = true
		}
	}
	var details []string
	for _, mode := range []string{"rename-locals", "swap-operands", "negate", "compound"} {
		ov, n, err := rewrite.Apply(c.repo, env, mode)
		if err != nil {
			r.fail("thorough-negative-control", mode, "", "rewrite failed: "+firstLine(err.Error()))
			continue
		}
		mc, err := loadOverlay(c.repo, "quick", nil, nil, ov)
		if err != nil {
			r.fail("thorough-negative-control", mode, "", "rewritten tree does not load: "+firstLine(err.Error()))
			continue
		}
		mr := newReport(p, "quick", verif)
		func() {
			defer func() {
				if e := recover(); e != nil {
					mr.fail("internal", "checker-panic", "", fmt.Sprint(e))
				}
			}()
			p.run(mc, mr)
		}()
		for _, f := range mr.floors {
			if f.got < f.min {
				mr.fail("vacuity", f.what, "", "floor not reached on the rewritten tree")
			}
		}
		bad := ""
		for _, o := range mr.obls {
			if (o.Status == "violation" && !kidx[o.Rule+"|"+o.Key]) || o.Status == "undecided" {
				bad = o.Rule + " " + o.Key
				break
			}
		}
		if bad != "" {
			r.fail("thorough-negative-control", mode, "", fmt.Sprintf("after the behaviour-preserving rewrite %q (%d edits) the rules of %s report %s: that rule depends on a spelling", mode, n, p.id, bad))
		} else {
			r.ok("thorough-negative-control", mode, "", fmt.Sprintf("%d edits, nothing reported beyond the known findings", n))
		}
		details = append(details, fmt.Sprintf("%s: %d edits", mode, n))
		runtime.GC()
	}
	r.set("negative_controls", details)
}
