package main

import (
	"fmt"
	"go/ast"
	"go/token"
	"go/types"
	"sort"
	"strings"

	"golang.org/x/tools/go/ssa"
)

func init() {
	register(&propDef{
		id: "C08", level: "other", run: runC08,
		explanation: "Decided: absence of a history channel. (R1/R2) global-write effect analysis: every package-level variable of the three library packages, every store to it, through it (pointers, maps, slices loaded from it), or via a callee that writes through a pointer derived from it, in any function reachable from Decode/DecodeChained/CheckIntegrity/Encode in the VTA call graph; profile rows additionally by a type-based who-may-write rule. (R3) map-order lint: a range over a map in reachable code may only build maps/sets or append to a slice that is sorted afterwards. (R4) no ambient input (time.Now, math/rand, os.Getenv, os.Args, file reads) in reachable module code. NOT decided: equality with 'a fresh process' as an observation; that is the consequence of R1-R4 assuming the standard library is pure for the calls made. (R6) nothing on Encode's call tree writes a member of a message it was handed: Encode leaves the caller's File as it found it. No reflect setter reachable from the roots sets through a reflect.Value read out of a package-level variable.",
		trusted:     []string{"VTA call graph over CHA (x/tools v0.29.0) over-approximates dynamic dispatch", "read-only summaries of the external callees listed in checker/effects.go"},
	})
	register(&propDef{
		id: "C09", level: "other", run: runC09,
		explanation: "Decided: absence of shared mutable locations between calls on independent arguments. Same effect analysis as C08-R1/R2 (a shared location written by any call is exactly a potential race), plus: no go statement, channel operation or sync primitive in reachable module code, and every store in reachable module code is rooted at a parameter/receiver, a captured variable of the caller's closure, or an allocation of the same call tree. NOT decided: schedules are not explored; the claim is absence of shared mutable memory, which is sufficient for race freedom on independent inputs, not an observation under the race detector.",
		trusted:     []string{"VTA call graph over CHA", "read-only summaries of external callees in checker/effects.go", "standard-library functions called on per-call values do not share hidden mutable state"},
	})
}

func libPkgs(c *Ctx) []string { return []string{modPath, crcPath, typesPath} }

// globalHistory: R1/R2 shared by C08 and C09.
func globalHistory(c *Ctx, r *Report, ri *reachInfo, rule string) (nvars int) {
	e := c.newEffects()
	for _, pp := range libPkgs(c) {
		sp := c.ssaPkgs[pp]
		if sp == nil {
			r.fail(rule, pp, "", "package not built")
			continue
		}
		var names []string
		for n, m := range sp.Members {
			if _, ok := m.(*ssa.Global); ok && !strings.Contains(n, "$") {
				names = append(names, n)
			}
		}
		sort.Strings(names)
		short := pp[strings.LastIndex(pp, "/")+1:]
		for _, n := range names {
			g := sp.Members[n].(*ssa.Global)
			nvars++
			sites := e.globalWriteSites(g)
			if n == "_fields" {
				for _, s := range c.fieldRowWrites() {
					r.fail(rule, short+"._fields@rows", "", s)
				}
			}
			if len(sites) == 0 {
				r.ok(rule, short+"."+n, c.pos(g.Pos()), "never written outside its initializer")
				continue
			}
			byFn := map[*ssa.Function][]writeSite{}
			for _, s := range sites {
				byFn[s.fn] = append(byFn[s.fn], s)
			}
			clean := true
			for fn, ss := range byFn {
				var what []string
				for _, s := range ss {
					what = append(what, fmt.Sprintf("%s at %s", s.what, c.pos(s.pos)))
				}
				sort.Strings(what)
				if ri.has(fn) {
					clean = false
					r.fail(rule, fmt.Sprintf("%s.%s@%s", short, n, fn.String()), c.pos(ss[0].pos),
						fmt.Sprintf("package-level variable %s is written on a path from the entry points: %s. Call path: %s", n, strings.Join(what, "; "), ri.path(fn)))
				} else {
					r.note(fmt.Sprintf("%s.%s is written in %s, which is not reachable from the entry points (%s)", short, n, fn.String(), strings.Join(what, "; ")))
				}
			}
			if clean {
				r.ok(rule, short+"."+n, c.pos(g.Pos()), "written only in functions unreachable from the entry points")
			}
		}
	}
	return
}

func runC08(c *Ctx, r *Report) {
	closureState(c, r, "C08-R5-closure-state")
	encodeLeavesMessages(c, r, "C08-R6-encode-leaves-file")
	roots, missing := c.rootFuncs(append(append([]string{}, decodeRoots...), encodeRoots...))
	for _, m := range missing {
		r.fail("C08-roots", m, "", "entry point not found")
	}
	ri := c.reach(roots)
	mods := ri.module()
	r.set("reachable_functions_total", len(ri.order))
	r.set("reachable_module_functions", len(mods))
	nv := globalHistory(c, r, ri, "C08-R1-global-write")
	reflectGlobalSets(c, r, ri, "C08-R1-global-write", "the shared value changes, and every later Decode / Encode that reads it sees what this call left there")
	// which of the package-level accumulators carries state that a later Decode *sees*: one built with a
	// roll-over width continues its running sum from call to call; one built as a zero value (mask 0)
	// always yields 0 — written, but without effect on any result (C18's finding, not a history
	// dependence). Giving such an accumulator its width turns the recorded write into a visible one.
	for _, al := range liveAccumulators(c) {
		key := "fit." + al.g.Name() + "/live-state"
		if al.masked {
			r.fail("C08-R1-global-write", key, c.pos(al.g.Pos()), "accumulator "+al.g.Name()+" is package-level, never reset, and built with a roll-over width: the values decoded from it depend on every Decode that ran before in the process")
		} else {
			r.ok("C08-R1-global-write", key, c.pos(al.g.Pos()), "package-level, but built with mask 0: always yields 0, whatever ran before")
		}
	}
	r.set("package_variables", nv)
	r.need("package-level variables examined", nv, 150)
	r.need("reachable module functions", len(mods), 60)

	// R3 map-order lint
	nRanges := mapOrderLint(c, r, mods, "C08-R3-map-order")
	r.set("map_ranges_in_reachable_code", nRanges)
	r.need("map ranges found", nRanges, 3)

	// R4 ambient inputs
	ambient(c, r, mods, "C08-R4-ambient")
}

var ambientCalls = map[string]string{
	"time.Now": "wall clock", "time.Since": "wall clock", "time.Until": "wall clock",
	"os.Getenv": "environment", "os.LookupEnv": "environment", "os.Environ": "environment",
	"os.ReadFile": "file system", "os.Open": "file system", "os.OpenFile": "file system", "os.Stat": "file system", "os.Getwd": "process state", "os.Getpid": "process state", "os.Hostname": "host",
	"runtime.NumGoroutine": "scheduler", "runtime.NumCPU": "host", "runtime.GOMAXPROCS": "scheduler",
}

func ambient(c *Ctx, r *Report, mods []*ssa.Function, rule string) {
	n := 0
	for _, fn := range mods {
		if !inLib(fn) {
			continue
		}
		for _, b := range fn.Blocks {
			for _, ins := range b.Instrs {
				// reads of os.Args
				for _, op := range ins.Operands(nil) {
					if g, ok := (*op).(*ssa.Global); ok && g.Pkg != nil && g.Pkg.Pkg.Path() == "os" && g.Name() == "Args" {
						r.fail(rule, fn.String()+"/os.Args", c.pos(ins.Pos()), "reads os.Args on a path from the entry points")
					}
				}
				call, ok := ins.(ssa.CallInstruction)
				if !ok {
					continue
				}
				cal := call.Common().StaticCallee()
				if cal == nil {
					continue
				}
				n++
				name := cal.String()
				why, banned := ambientCalls[name]
				if !banned && cal.Pkg != nil && (cal.Pkg.Pkg.Path() == "math/rand" || cal.Pkg.Pkg.Path() == "math/rand/v2" || cal.Pkg.Pkg.Path() == "crypto/rand") {
					why, banned = "random source", true
				}
				if banned {
					r.fail(rule, fn.String()+"/"+name, c.pos(ins.Pos()), fmt.Sprintf("calls %s (%s) on a path from the entry points: the result depends on more than input and options", name, why))
				}
			}
		}
	}
	r.ok(rule, "scan", "", fmt.Sprintf("%d static call sites in reachable library functions examined, none to an ambient-input function", n))
}

func inLib(fn *ssa.Function) bool {
	p := fnPkgPath(fn)
	return p == modPath || p == crcPath || p == typesPath
}

// mapOrderLint: range over a map in reachable library code.
func mapOrderLint(c *Ctx, r *Report, mods []*ssa.Function, rule string) int {
	seenDecl := map[*ast.FuncDecl]bool{}
	n := 0
	for _, fn := range mods {
		if !inLib(fn) {
			continue
		}
		fd := c.declOfSSA(fn)
		if fd == nil || fd.Body == nil || seenDecl[fd] {
			continue
		}
		seenDecl[fd] = true
		pkg := c.pkgs[fnPkgPath(fn)]
		n += mapOrderInDecl(c, r, pkg.TypesInfo, fd, rule, nil)
	}
	return n
}

// mapOrderInDecl checks every range-over-map in fd. exceptions: key -> reason (frozen).
func mapOrderInDecl(c *Ctx, r *Report, info *types.Info, fd *ast.FuncDecl, rule string, exceptions map[string]string) int {
	n := 0
	fname := fd.Name.Name
	if fd.Recv != nil && len(fd.Recv.List) == 1 {
		fname = exprStr(fd.Recv.List[0].Type) + "." + fname
	}
	idx := 0
	// walk with parent statement lists so that "after the loop" is defined
	var walkList func(list []ast.Stmt)
	var walkStmt func(s ast.Stmt, rest []ast.Stmt)
	walkList = func(list []ast.Stmt) {
		for i, s := range list {
			walkStmt(s, list[i+1:])
		}
	}
	walkStmt = func(s ast.Stmt, rest []ast.Stmt) {
		switch x := s.(type) {
		case *ast.RangeStmt:
			if _, isMap := info.TypeOf(x.X).Underlying().(*types.Map); isMap {
				n++
				key := fmt.Sprintf("%s/range-%s#%d", fname, exprStr(x.X), idx)
				idx++
				if why, ok := exceptions[fmt.Sprintf("%s/range-%s", fname, exprStr(x.X))]; ok {
					r.ok(rule, key, c.pos(x.Pos()), "frozen exception: "+why)
				} else if fact := atMostOneFact(c, info, fd, x); fact != "" {
					r.ok(rule, key, c.pos(x.Pos()), "map has at most one entry here ("+fact+"): iteration order is immaterial")
				} else {
					verdict, detail := mapRangeBody(c, info, x, rest)
					switch verdict {
					case 1:
						r.ok(rule, key, c.pos(x.Pos()), detail)
					case 0:
						r.fail(rule, key, c.pos(x.Pos()), detail)
					default:
						r.undecided(rule, key, c.pos(x.Pos()), detail)
					}
				}
			}
			walkList(x.Body.List)
		case *ast.BlockStmt:
			walkList(x.List)
		case *ast.IfStmt:
			walkList(x.Body.List)
			if x.Else != nil {
				walkStmt(x.Else, nil)
			}
		case *ast.ForStmt:
			walkList(x.Body.List)
		case *ast.SwitchStmt:
			for _, cl := range x.Body.List {
				walkList(cl.(*ast.CaseClause).Body)
			}
		case *ast.TypeSwitchStmt:
			for _, cl := range x.Body.List {
				walkList(cl.(*ast.CaseClause).Body)
			}
		case *ast.SelectStmt:
			for _, cl := range x.Body.List {
				walkList(cl.(*ast.CommClause).Body)
			}
		case *ast.LabeledStmt:
			walkStmt(x.Stmt, rest)
		}
	}
	walkList(fd.Body.List)
	// function literals
	ast.Inspect(fd.Body, func(nd ast.Node) bool {
		if fl, ok := nd.(*ast.FuncLit); ok {
			walkList(fl.Body.List)
		}
		return true
	})
	return n
}

// mapRangeBody: 1 ok, 0 violation, 2 undecided.
func mapRangeBody(c *Ctx, info *types.Info, rg *ast.RangeStmt, rest []ast.Stmt) (int, string) {
	var appended []string // slices appended to (as expression strings)
	orderFree := true
	var why string
	depth := 0
	var check func(list []ast.Stmt)
	check = func(list []ast.Stmt) {
		for _, s := range list {
			switch x := s.(type) {
			case *ast.AssignStmt:
				for i, l := range x.Lhs {
					if ix, ok := unparen(l).(*ast.IndexExpr); ok {
						if _, isMap := info.TypeOf(ix.X).Underlying().(*types.Map); isMap {
							continue // m[k] = v : order-insensitive
						}
					}
					if id := identOf(l); id != nil && (id.Name == "_" || x.Tok == token.DEFINE) {
						// local definition; fine if rhs has no call with effects
						continue
					}
					// x = append(x, ...)
					if i < len(x.Rhs) {
						if call, ok := unparen(x.Rhs[i]).(*ast.CallExpr); ok {
							if b, ok := info.Uses[identOf(call.Fun)].(*types.Builtin); ok && b.Name() == "append" && len(call.Args) >= 1 && exprStr(call.Args[0]) == exprStr(l) {
								appended = append(appended, exprStr(l))
								continue
							}
						}
					}
					// commutative accumulation into a scalar (+=, |=, etc. on integers) is order-insensitive
					if x.Tok == token.ADD_ASSIGN || x.Tok == token.OR_ASSIGN || x.Tok == token.AND_ASSIGN || x.Tok == token.XOR_ASSIGN {
						if b := basicOf(info.TypeOf(l)); b != nil && b.Info()&types.IsInteger != 0 {
							continue
						}
					}
					// boolean flag set to a constant
					if _, isConst := exprConst(info, x.Rhs[min(i, len(x.Rhs)-1)]); isConst && x.Tok == token.ASSIGN {
						continue
					}
					orderFree = false
					why = "assignment to " + exprStr(l) + " inside a map range depends on iteration order"
				}
			case *ast.IncDecStmt:
				continue
			case *ast.IfStmt:
				check(x.Body.List)
				if eb, ok := x.Else.(*ast.BlockStmt); ok {
					check(eb.List)
				} else if x.Else != nil {
					check([]ast.Stmt{x.Else})
				}
			case *ast.BlockStmt:
				check(x.List)
			case *ast.BranchStmt:
				if (x.Tok == token.BREAK && depth == 0) || x.Tok == token.GOTO {
					orderFree = false
					why = "early exit from a map range selects an iteration-order dependent element"
				}
			case *ast.ExprStmt:
				if call, ok := x.X.(*ast.CallExpr); ok {
					if b, ok := info.Uses[identOf(call.Fun)].(*types.Builtin); ok && (b.Name() == "delete" || b.Name() == "panic") {
						continue // panic aborts the run: no output order is produced
					}
					orderFree = false
					why = "call " + exprStr(call.Fun) + " inside a map range happens in iteration order"
				}
			case *ast.ReturnStmt:
				orderFree = false
				why = "return inside a map range selects an iteration-order dependent element"
			case *ast.RangeStmt:
				depth++
				check(x.Body.List)
				depth--
			case *ast.ForStmt:
				depth++
				check(x.Body.List)
				depth--
			case *ast.DeclStmt:
			default:
				orderFree = false
				why = fmt.Sprintf("statement %T inside a map range is not classified", s)
			}
		}
	}
	check(rg.Body.List)
	if !orderFree {
		return 0, why
	}
	if len(appended) == 0 {
		return 1, "body only builds maps/sets or commutative accumulations"
	}
	// each appended slice must be sorted after the loop (same statement list), before anything else uses it
	for _, sl := range appended {
		sorted := false
		for _, s := range rest {
			if isSortOf(info, s, sl) {
				sorted = true
				break
			}
			if mentions(s, sl) {
				break
			}
		}
		if !sorted {
			return 0, fmt.Sprintf("slice %s is filled in map iteration order and used without being sorted first: output order differs between identical calls", sl)
		}
	}
	return 1, "slices filled in map order (" + strings.Join(appended, ", ") + ") are sorted before use"
}

func min(a, b int) int {
	if a < b {
		return a
	}
	return b
}

func mentions(s ast.Stmt, expr string) bool {
	found := false
	ast.Inspect(s, func(n ast.Node) bool {
		if e, ok := n.(ast.Expr); ok && exprStr(e) == expr {
			found = true
		}
		return !found
	})
	return found
}

// isSortOf: statement is sort.Sort(T(x)) / sort.Slice(x, ...) / sort.Strings(x) / sort.Ints / slices.Sort* on expr.
func isSortOf(info *types.Info, s ast.Stmt, expr string) bool {
	es, ok := s.(*ast.ExprStmt)
	if !ok {
		return false
	}
	call, ok := es.X.(*ast.CallExpr)
	if !ok || len(call.Args) == 0 {
		return false
	}
	f, ok := callee(info, call).(*types.Func)
	if !ok || f.Pkg() == nil {
		return false
	}
	if f.Pkg().Path() != "sort" && f.Pkg().Path() != "slices" {
		return false
	}
	if !strings.HasPrefix(f.Name(), "Sort") && f.Name() != "Slice" && f.Name() != "SliceStable" && f.Name() != "Strings" && f.Name() != "Ints" && f.Name() != "Stable" {
		return false
	}
	arg := unparen(call.Args[0])
	if exprStr(arg) == expr {
		return true
	}
	if conv, ok := arg.(*ast.CallExpr); ok && len(conv.Args) == 1 && exprStr(conv.Args[0]) == expr {
		return true
	}
	return false
}

// ---------------------------------------------------------------------------------

func runC09(c *Ctx, r *Report) {
	closureState(c, r, "C09-R4-closure-state")
	roots, missing := c.rootFuncs(append(append([]string{}, decodeRoots...), encodeRoots...))
	for _, m := range missing {
		r.fail("C09-roots", m, "", "entry point not found")
	}
	ri := c.reach(roots)
	mods := ri.module()
	r.set("reachable_module_functions", len(mods))
	nv := globalHistory(c, r, ri, "C09-R1-shared-write")
	reflectGlobalSets(c, r, ri, "C09-R1-shared-write", "two goroutines decoding at the same time write the same memory without synchronisation")
	r.set("package_variables", nv)
	r.need("package-level variables examined", nv, 150)

	// no concurrency constructs inside the library on these paths
	nIns := 0
	classes := map[string]int{}
	for _, fn := range mods {
		if !inLib(fn) {
			continue
		}
		for _, b := range fn.Blocks {
			for _, ins := range b.Instrs {
				nIns++
				switch n := ins.(type) {
				case *ssa.Go:
					r.fail("C09-R2-no-concurrency", fn.String()+"/go", c.pos(n.Pos()), "go statement on a path from the entry points: per-call state may be shared by the library itself")
				case *ssa.Send, *ssa.Select, *ssa.MakeChan:
					r.fail("C09-R2-no-concurrency", fn.String()+"/chan", c.pos(ins.Pos()), "channel operation on a path from the entry points")
				case *ssa.Store:
					root := storeRoot(n.Addr, 0)
					classes[root]++
					if root == "unknown" {
						r.undecided("C09-R3-store-root", fmt.Sprintf("%s/%s", fn.String(), shortExpr(n.Addr)), c.pos(n.Pos()), "store whose address root cannot be classified as parameter/receiver, captured variable, fresh allocation or package variable")
					}
				case *ssa.MapUpdate:
					root := storeRoot(n.Map, 0)
					classes[root]++
					if root == "unknown" {
						r.undecided("C09-R3-store-root", fmt.Sprintf("%s/%s", fn.String(), shortExpr(n.Map)), c.pos(n.Pos()), "map update whose root cannot be classified")
					}
				}
				if call, ok := ins.(ssa.CallInstruction); ok {
					if cal := call.Common().StaticCallee(); cal != nil && cal.Pkg != nil {
						pp := cal.Pkg.Pkg.Path()
						if pp == "sync" || pp == "sync/atomic" {
							r.fail("C09-R2-no-concurrency", fn.String()+"/"+cal.String(), c.pos(ins.Pos()), "sync primitive on a path from the entry points implies shared state")
						}
					}
				}
			}
		}
	}
	r.ok("C09-R2-no-concurrency", "scan", "", fmt.Sprintf("%d instructions of reachable library functions: no go statement, channel operation or sync call", nIns))
	r.ok("C09-R3-store-root", "classification", "", fmt.Sprintf("store roots: %v (package-variable roots are decided by C09-R1)", classes))
	r.set("store_root_classes", classes)
	r.need("instructions scanned", nIns, 2000)
}

func shortExpr(v ssa.Value) string {
	return v.Name() + ":" + v.Type().String()
}

// storeRoot classifies the root of an address: param | freevar | alloc | global | call | unknown
func storeRoot(v ssa.Value, depth int) string {
	if x := storeRootV(v, map[ssa.Value]bool{}); x != "" {
		return x
	}
	return "unknown"
}

func storeRootV(v ssa.Value, seen map[ssa.Value]bool) string {
	if seen[v] {
		return "" // cycle through a phi: contributes nothing
	}
	seen[v] = true
	switch n := v.(type) {
	case *ssa.Parameter:
		return "param"
	case *ssa.FreeVar:
		return "freevar"
	case *ssa.Alloc, *ssa.MakeSlice, *ssa.MakeMap, *ssa.MakeInterface, *ssa.MakeClosure:
		return "alloc"
	case *ssa.Global:
		return "global"
	case *ssa.Const:
		return "alloc"
	case *ssa.FieldAddr:
		return storeRootV(n.X, seen)
	case *ssa.IndexAddr:
		return storeRootV(n.X, seen)
	case *ssa.Slice:
		return storeRootV(n.X, seen)
	case *ssa.UnOp:
		return storeRootV(n.X, seen)
	case *ssa.ChangeType:
		return storeRootV(n.X, seen)
	case *ssa.Convert:
		return storeRootV(n.X, seen)
	case *ssa.ChangeInterface:
		return storeRootV(n.X, seen)
	case *ssa.TypeAssert:
		return storeRootV(n.X, seen)
	case *ssa.Extract:
		return storeRootV(n.Tuple, seen)
	case *ssa.Lookup:
		return storeRootV(n.X, seen)
	case *ssa.Field:
		return storeRootV(n.X, seen)
	case *ssa.Index:
		return storeRootV(n.X, seen)
	case *ssa.Call:
		return "call"
	case *ssa.Phi:
		res := ""
		for _, e := range n.Edges {
			x := storeRootV(e, seen)
			if x == "unknown" {
				return x
			}
			if x != "" && (res == "" || x == "global") {
				res = x
			}
		}
		return res
	case *ssa.Next:
		return storeRootV(n.Iter, seen)
	case *ssa.Range:
		return storeRootV(n.X, seen)
	}
	return "unknown"
}

// singletonFact: the ranged map is known to hold at most one entry at the range statement: the
// statement sits inside `if n == 1` / `if len(m) == 1` (n := len(m)), or is preceded in the function
// by `if len(m) > 1 { panic(...) }`.
func singletonFact(info *types.Info, fd *ast.FuncDecl, rg *ast.RangeStmt) string {
	m := exprStr(rg.X)
	lenVars := map[string]bool{"len(" + m + ")": true}
	ast.Inspect(fd.Body, func(n ast.Node) bool {
		if as, ok := n.(*ast.AssignStmt); ok && len(as.Lhs) == 1 && len(as.Rhs) == 1 && exprStr(as.Rhs[0]) == "len("+m+")" {
			lenVars[exprStr(as.Lhs[0])] = true
		}
		return true
	})
	fact := ""
	var path []ast.Node
	ast.Inspect(fd.Body, func(n ast.Node) bool {
		if n == nil {
			path = path[:len(path)-1]
			return true
		}
		path = append(path, n)
		if n == ast.Node(rg) {
			for i := len(path) - 2; i >= 0; i-- {
				ifs, ok := path[i].(*ast.IfStmt)
				if !ok {
					continue
				}
				// inside the then-branch?
				inThen := i+1 < len(path) && path[i+1] == ast.Node(ifs.Body)
				inElse := i+1 < len(path) && ifs.Else != nil && path[i+1] == ast.Node(ifs.Else)
				if be, ok := unparen(ifs.Cond).(*ast.BinaryExpr); ok && (inThen && be.Op == token.EQL || inElse && be.Op == token.NEQ) && lenVars[exprStr(be.X)] {
					if v, ok := exprInt(info, be.Y); ok && v == 1 {
						fact = "inside `if " + exprStr(ifs.Cond) + "`"
					}
				}
			}
		}
		return true
	})
	if fact != "" {
		return fact
	}
	// earlier guard: if len(m) > 1 { panic }
	for _, s := range fd.Body.List {
		if s.Pos() >= rg.Pos() {
			break
		}
		ifs, ok := s.(*ast.IfStmt)
		if !ok || len(ifs.Body.List) != 1 {
			continue
		}
		be, ok := unparen(ifs.Cond).(*ast.BinaryExpr)
		if !ok || be.Op != token.GTR || !lenVars[exprStr(be.X)] {
			continue
		}
		if v, ok := exprInt(info, be.Y); !ok || v != 1 {
			continue
		}
		if es, ok := ifs.Body.List[0].(*ast.ExprStmt); ok {
			if call, ok := es.X.(*ast.CallExpr); ok {
				if b, ok := info.Uses[identOf(call.Fun)].(*types.Builtin); ok && b.Name() == "panic" {
					return "after `if " + exprStr(ifs.Cond) + " { panic }`"
				}
			}
		}
	}
	return ""
}

// closureState: a closure that outlives the call that made it (it is returned) and captures a
// mutable object allocated by that call (map, slice, channel, heap cell) carries state from one
// use of the closure to the next: an option value built once and handed to several Decode calls
// would share it, sequentially (history) and concurrently (race). Captured parameters of the
// constructor (a caller-supplied logger) are the caller's own objects and are not flagged.
func closureState(c *Ctx, r *Report, rule string) {
	n := 0
	for _, fn := range c.moduleFuncs() {
		if fnPkgPath(fn) != modPath || !inLib(fn) {
			continue
		}
		for _, b := range fn.Blocks {
			for _, ins := range b.Instrs {
				mc, ok := ins.(*ssa.MakeClosure)
				if !ok {
					continue
				}
				escapes := false
				var follow func(v ssa.Value, depth int)
				follow = func(v ssa.Value, depth int) {
					if depth > 4 || v.Referrers() == nil {
						return
					}
					for _, ref := range *v.Referrers() {
						switch u := ref.(type) {
						case *ssa.Return:
							escapes = true
						case *ssa.Store:
							if u.Val == v {
								escapes = true
							}
						case *ssa.MakeInterface:
							escapes = true
						case *ssa.ChangeType:
							follow(u, depth+1)
						case *ssa.Phi:
							follow(u, depth+1)
						}
					}
				}
				follow(mc, 0)
				if !escapes {
					continue
				}
				n++
				bad := ""
				for i, bnd := range mc.Bindings {
					name := mc.Fn.(*ssa.Function).FreeVars[i].Name()
					switch v := bnd.(type) {
					case *ssa.MakeMap, *ssa.MakeSlice, *ssa.MakeChan:
						bad = name + " (" + v.Type().String() + ", allocated by " + fn.Name() + ")"
					case *ssa.Alloc:
						// a heap cell: shared when it holds something other than a copy of a parameter
						isParamSpill := false
						for _, ref := range *v.Referrers() {
							if st, ok := ref.(*ssa.Store); ok && st.Addr == ssa.Value(v) {
								if _, isP := st.Val.(*ssa.Parameter); isP {
									isParamSpill = true
								}
							}
						}
						writtenInClosure := false
						cl := mc.Fn.(*ssa.Function)
						for _, cb := range cl.Blocks {
							for _, ci := range cb.Instrs {
								if st, ok := ci.(*ssa.Store); ok && st.Addr == ssa.Value(cl.FreeVars[i]) {
									writtenInClosure = true
								}
							}
						}
						if !isParamSpill || writtenInClosure {
							bad = name + " (cell allocated by " + fn.Name() + ", written through the closure: " + fmt.Sprint(writtenInClosure) + ")"
						}
					}
				}
				key := fn.Name() + "/closure-" + mc.Fn.Name()
				r.check(bad == "", rule, key, c.pos(mc.Pos()), "the returned closure captures only the constructor's parameters", "the closure returned by "+fn.Name()+" captures "+bad+": every use of the same closure value shares that object, so a result depends on earlier calls and concurrent calls race on it")
			}
		}
	}
	r.set("escaping_closures", n)
}

// reflectGlobalSets: a reflect.Value read out of package-level storage (a table of prototype values, a
// cached Value) is an alias of shared memory that the store-based effect analysis does not see; setting
// through it (Set, SetInt, …, also after Field/Index/Elem) writes that shared memory. Every reflect
// setter in the functions reachable from the API roots must have a receiver that does not come from
// a package-level variable: followed backwards through Field/Index/Elem chains, merges, parameters (all
// call sites) and results of module functions.
func reflectGlobalSets(c *Ctx, r *Report, ri *reachInfo, rule, consequence string) {
	memoP := map[*ssa.Parameter]int{} // 1 in progress / no, 2 yes
	memoF := map[*ssa.Function]int{}
	var from func(v ssa.Value, depth int) string
	from = func(v ssa.Value, depth int) string {
		if depth > 12 {
			return ""
		}
		switch x := v.(type) {
		case *ssa.UnOp:
			if x.Op != token.MUL {
				return ""
			}
			root := x.X
			for i := 0; i < 6; i++ {
				switch a := root.(type) {
				case *ssa.IndexAddr:
					root = a.X
					continue
				case *ssa.FieldAddr:
					root = a.X
					continue
				case *ssa.UnOp:
					if a.Op == token.MUL {
						root = a.X
						continue
					}
				}
				break
			}
			if g, ok := root.(*ssa.Global); ok && strings.HasPrefix(g.Pkg.Pkg.Path(), modPath) {
				return g.Pkg.Pkg.Name() + "." + g.Name()
			}
		case *ssa.Index:
			return from(x.X, depth+1)
		case *ssa.Lookup:
			return from(x.X, depth+1)
		case *ssa.Phi:
			for _, e := range x.Edges {
				if e != ssa.Value(x) {
					if g := from(e, depth+1); g != "" {
						return g
					}
				}
			}
		case *ssa.Extract:
			return from(x.Tuple, depth+1)
		case *ssa.Parameter:
			if memoP[x] != 0 {
				return ""
			}
			memoP[x] = 1
			fn := x.Parent()
			pi := ssaParamIndex(fn, x)
			if node := c.callGraph().Nodes[fn]; node != nil && pi >= 0 {
				for _, e := range node.In {
					if e.Site == nil {
						continue
					}
					cc := e.Site.Common()
					ai := pi
					if cc.IsInvoke() {
						ai = pi - 1
					}
					if ai >= 0 && ai < len(cc.Args) {
						if g := from(cc.Args[ai], depth+1); g != "" {
							return g
						}
					}
				}
			}
		case *ssa.Call:
			f := x.Common().StaticCallee()
			if f == nil {
				return ""
			}
			switch f.String() {
			case "(reflect.Value).Field", "(reflect.Value).Index", "(reflect.Value).Elem", "(reflect.Value).Slice", "(reflect.Value).Addr", "reflect.Indirect", "(reflect.Value).FieldByIndex", "(reflect.Value).MapIndex":
				return from(x.Common().Args[0], depth+1)
			}
			if strings.HasPrefix(fnPkgPath(f), modPath) && len(f.Blocks) > 0 {
				if memoF[f] != 0 {
					return ""
				}
				memoF[f] = 1
				for _, b := range f.Blocks {
					if ret, ok := b.Instrs[len(b.Instrs)-1].(*ssa.Return); ok {
						for _, res := range ret.Results {
							if res.Type().String() == "reflect.Value" {
								if g := from(res, depth+1); g != "" {
									delete(memoF, f)
									return g
								}
							}
						}
					}
				}
				delete(memoF, f)
			}
		}
		return ""
	}
	n := 0
	for _, fn := range ri.module() {
		if !strings.HasPrefix(fnPkgPath(fn), modPath) {
			continue
		}
		idx := 0
		for _, ci := range allCalls(fn) {
			f := ci.Common().StaticCallee()
			if f == nil || f.Signature.Recv() == nil || f.Signature.Recv().Type().String() != "reflect.Value" || !strings.HasPrefix(f.Name(), "Set") {
				continue
			}
			n++
			idx++
			for k := range memoP {
				delete(memoP, k)
			}
			g := from(ci.Common().Args[0], 0)
			r.check(g == "", rule, fmt.Sprintf("%s/reflect-%s#%d", fn.Name(), f.Name(), idx), c.pos(ci.Pos()), "the Value set is not read out of package-level storage", "reflect "+f.Name()+" in "+fn.Name()+" can set through a reflect.Value that was read out of the package-level variable "+g+": "+consequence)
		}
	}
	r.need("reflect setters examined for package-level receivers ("+rule+")", n, 20)
}
