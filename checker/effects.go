package main

// Effect analysis: stores to, or through, package-level variables.
//
// For a root (a package-level variable, or a parameter when computing a callee
// summary) the analysis computes, per function, the set of SSA values that may
// point into memory owned by the root (address arithmetic, loads of pointer-like
// values out of that memory, phis, conversions, call results fed by such
// values), and reports every instruction that may write through one of them:
// Store, MapUpdate, delete/copy/clear/append, calls into module functions whose
// parameter summary writes, and escapes the analysis cannot follow.

import (
	"fmt"
	"go/token"
	"go/types"
	"sort"
	"strings"

	"golang.org/x/tools/go/packages"
	"golang.org/x/tools/go/ssa"
	"golang.org/x/tools/go/ssa/ssautil"
)

type writeSite struct {
	fn   *ssa.Function
	pos  token.Pos
	kind string // store | mapupdate | builtin | call | escape-call | escape-store
	what string
}

func (c *Ctx) moduleFuncs() []*ssa.Function {
	if c.modFns != nil {
		return c.modFns
	}
	defer func() {
		c.globalUsers = map[*ssa.Global][]*ssa.Function{}
		for _, fn := range c.modFns {
			seen := map[*ssa.Global]bool{}
			for _, b := range fn.Blocks {
				for _, ins := range b.Instrs {
					for _, op := range ins.Operands(nil) {
						if g, ok := (*op).(*ssa.Global); ok && !seen[g] {
							seen[g] = true
							c.globalUsers[g] = append(c.globalUsers[g], fn)
						}
					}
				}
			}
		}
	}()
	var out []*ssa.Function
	defer func() { c.modFns = out }()
	for f := range ssautil.AllFunctions(c.prog) {
		if f.Pkg == nil && f.Parent() == nil {
			continue
		}
		pk := f.Pkg
		for p := f; pk == nil && p != nil; p = p.Parent() {
			pk = p.Pkg
		}
		if pk == nil || !strings.HasPrefix(pk.Pkg.Path(), modPath) {
			continue
		}
		if len(f.Blocks) == 0 {
			continue
		}
		out = append(out, f)
	}
	sort.Slice(out, func(i, j int) bool {
		if out[i].String() != out[j].String() {
			return out[i].String() < out[j].String()
		}
		return out[i].Pos() < out[j].Pos()
	})
	return out
}

func fnPkgPath(f *ssa.Function) string {
	for p := f; p != nil; p = p.Parent() {
		if p.Pkg != nil {
			return p.Pkg.Pkg.Path()
		}
	}
	return ""
}

func pointerLike(t types.Type) bool {
	return pointerLikeDepth(t, 0)
}

func pointerLikeDepth(t types.Type, d int) bool {
	if d > 6 {
		return true
	}
	switch u := t.Underlying().(type) {
	case *types.Pointer, *types.Slice, *types.Map, *types.Chan, *types.Signature, *types.Interface:
		return true
	case *types.Struct:
		for i := 0; i < u.NumFields(); i++ {
			if pointerLikeDepth(u.Field(i).Type(), d+1) {
				return true
			}
		}
	case *types.Array:
		return pointerLikeDepth(u.Elem(), d+1)
	case *types.Tuple:
		for i := 0; i < u.Len(); i++ {
			if pointerLikeDepth(u.At(i).Type(), d+1) {
				return true
			}
		}
	}
	return false
}

// taint computes values derived from roots within fn.
func taint(fn *ssa.Function, roots map[ssa.Value]bool) map[ssa.Value]bool {
	der := map[ssa.Value]bool{}
	for v := range roots {
		der[v] = true
	}
	changed := true
	mark := func(v ssa.Value) {
		if !der[v] {
			der[v] = true
			changed = true
		}
	}
	for changed {
		changed = false
		for _, b := range fn.Blocks {
			for _, ins := range b.Instrs {
				switch n := ins.(type) {
				case *ssa.FieldAddr:
					if der[n.X] {
						mark(n)
					}
				case *ssa.IndexAddr:
					if der[n.X] {
						mark(n)
					}
				case *ssa.Field:
					if der[n.X] && pointerLike(n.Type()) {
						mark(n)
					}
				case *ssa.Index:
					if der[n.X] && pointerLike(n.Type()) {
						mark(n)
					}
				case *ssa.UnOp:
					if n.Op == token.MUL && der[n.X] && pointerLike(n.Type()) {
						mark(n)
					}
				case *ssa.Slice:
					if der[n.X] {
						mark(n)
					}
				case *ssa.Phi:
					for _, e := range n.Edges {
						if der[e] {
							mark(n)
						}
					}
				case *ssa.ChangeType:
					if der[n.X] {
						mark(n)
					}
				case *ssa.Convert:
					if der[n.X] && pointerLike(n.Type()) {
						mark(n)
					}
				case *ssa.ChangeInterface:
					if der[n.X] {
						mark(n)
					}
				case *ssa.MakeInterface:
					if der[n.X] && pointerLike(n.X.Type()) {
						mark(n)
					}
				case *ssa.TypeAssert:
					if der[n.X] && pointerLike(n.Type()) {
						mark(n)
					}
				case *ssa.Extract:
					if der[n.Tuple] && pointerLike(n.Type()) {
						mark(n)
					}
				case *ssa.Lookup:
					if der[n.X] && pointerLike(n.Type()) {
						mark(n)
					}
				case *ssa.Range:
					if der[n.X] {
						mark(n)
					}
				case *ssa.Next:
					if der[n.Iter] {
						mark(n)
					}
				case *ssa.Call:
					// result derived if any pointer-like arg is derived and the result is pointer-like
					if !pointerLike(n.Type()) {
						break
					}
					cc := n.Common()
					for _, a := range cc.Args {
						if der[a] {
							mark(n)
						}
					}
					if cc.IsInvoke() && der[cc.Value] {
						mark(n)
					}
				}
			}
		}
	}
	return der
}

type effKey struct {
	fn  *ssa.Function
	idx int
}

type effects struct {
	c       *Ctx
	memo    map[effKey][]writeSite
	active  map[effKey]bool
	fieldT  types.Type
	readers map[string]bool
}

func (c *Ctx) newEffects() *effects {
	e := &effects{c: c, memo: map[effKey][]writeSite{}, active: map[effKey]bool{}}
	return e
}

// Non-mutating external callees a derived value may be passed to. One line of reason each.
var readOnlyExternal = map[string]string{
	"fmt.Errorf":                            "formats its operands",
	"fmt.Sprintf":                           "formats its operands",
	"fmt.Sprint":                            "formats its operands",
	"fmt.Sprintln":                          "formats its operands",
	"fmt.Fprintf":                           "formats its operands",
	"fmt.Println":                           "formats its operands",
	"fmt.Printf":                            "formats its operands",
	"errors.Is":                             "compares",
	"errors.As":                             "writes only its target argument",
	"reflect.TypeOf":                        "reads the dynamic type",
	"reflect.ValueOf":                       "boxes the value; writes through it need Elem().Set* which are reported separately by the reflect-write rule",
	"(time.Time).Add":                       "value receiver",
	"(time.Time).Equal":                     "value receiver",
	"(time.Time).Sub":                       "value receiver",
	"(time.Time).In":                        "value receiver",
	"(*log.Logger).Println":                 "formats its operands",
	"(*log.Logger).Printf":                  "formats its operands",
	"(*log.Logger).Print":                   "formats its operands",
	"(encoding/binary.littleEndian).Uint16": "reads",
	"(encoding/binary.littleEndian).Uint32": "reads",
	"(encoding/binary.littleEndian).Uint64": "reads",
	"(encoding/binary.bigEndian).Uint16":    "reads",
	"(encoding/binary.bigEndian).Uint32":    "reads",
	"(encoding/binary.bigEndian).Uint64":    "reads",
	"encoding/binary.Write":                 "reads data argument",
	"encoding/binary.Read":                  "writes only its data argument; order argument is read",
	"(*sync.Pool).Get":                      "sync.Pool is concurrency-safe by contract",
	"(*sync.Pool).Put":                      "sync.Pool is concurrency-safe by contract",
	"strings.HasPrefix":                     "reads",
	"strings.TrimPrefix":                    "reads",
	"unicode/utf8.Valid":                    "reads",
}

// writesFrom reports writes through values derived from roots in fn (following module callees).
func (e *effects) writesFrom(fn *ssa.Function, roots map[ssa.Value]bool, what string, depth int) []writeSite {
	var out []writeSite
	der := taint(fn, roots)
	isFresh := func(v ssa.Value) bool { return false }
	_ = isFresh
	add := func(pos token.Pos, kind, w string) {
		out = append(out, writeSite{fn, pos, kind, w})
	}
	for _, b := range fn.Blocks {
		for _, ins := range b.Instrs {
			switch n := ins.(type) {
			case *ssa.Store:
				if der[n.Addr] {
					add(n.Pos(), "store", "store through "+what)
				}
				if der[n.Val] && pointerLike(n.Val.Type()) && !isLocalAlloc(n.Addr) && !der[n.Addr] {
					// pointer into root memory stored elsewhere: we lose track of it
					if !e.typeCovered(n.Val.Type()) {
						add(n.Pos(), "escape-store", "pointer into "+what+" stored to memory the analysis does not follow")
					}
				}
			case *ssa.MapUpdate:
				if der[n.Map] {
					add(n.Pos(), "mapupdate", "map assignment on "+what)
				}
			case *ssa.Send:
				if der[n.X] && pointerLike(n.X.Type()) {
					add(n.Pos(), "escape-store", "pointer into "+what+" sent on a channel")
				}
			case *ssa.Go:
				out = append(out, e.callWrites(fn, n.Common(), n.Pos(), der, what, depth)...)
			case *ssa.Defer:
				out = append(out, e.callWrites(fn, n.Common(), n.Pos(), der, what, depth)...)
			case *ssa.Call:
				out = append(out, e.callWrites(fn, n.Common(), n.Pos(), der, what, depth)...)
			}
		}
	}
	return out
}

func isLocalAlloc(v ssa.Value) bool {
	for {
		switch n := v.(type) {
		case *ssa.Alloc:
			return true
		case *ssa.FieldAddr:
			v = n.X
		case *ssa.IndexAddr:
			v = n.X
		default:
			return false
		}
	}
}

// typeCovered: escapes of these pointer types are covered by a type-based who-may-write rule.
func (e *effects) typeCovered(t types.Type) bool {
	if e.fieldT == nil {
		if o := e.c.fit.Types.Scope().Lookup("field"); o != nil {
			e.fieldT = o.Type()
		}
	}
	return typeMentionsOnly(t, e.fieldT)
}

// typeMentionsOnly: t is *field, []*field, [N]*field
func typeMentionsOnly(t, ft types.Type) bool {
	if ft == nil {
		return false
	}
	switch u := t.(type) {
	case *types.Pointer:
		return types.Identical(u.Elem(), ft)
	case *types.Slice:
		return typeMentionsOnly(u.Elem(), ft)
	case *types.Array:
		return typeMentionsOnly(u.Elem(), ft)
	}
	return false
}

func (e *effects) callWrites(fn *ssa.Function, cc *ssa.CallCommon, pos token.Pos, der map[ssa.Value]bool, what string, depth int) []writeSite {
	var out []writeSite
	add := func(kind, w string) { out = append(out, writeSite{fn, pos, kind, w}) }
	// builtins
	if b, ok := cc.Value.(*ssa.Builtin); ok {
		switch b.Name() {
		case "delete", "clear":
			if len(cc.Args) > 0 && der[cc.Args[0]] {
				add("builtin", b.Name()+" on "+what)
			}
		case "copy":
			if len(cc.Args) > 0 && der[cc.Args[0]] {
				add("builtin", "copy into "+what)
			}
		case "append":
			if len(cc.Args) > 0 && der[cc.Args[0]] {
				add("builtin", "append to slice backed by "+what)
			}
		}
		return out
	}
	var derArgs []int
	args := cc.Args
	for i, a := range args {
		if der[a] && pointerLike(a.Type()) {
			derArgs = append(derArgs, i)
		}
	}
	recvDer := cc.IsInvoke() && der[cc.Value]
	if len(derArgs) == 0 && !recvDer {
		return nil
	}
	var callees []*ssa.Function
	if !cc.IsInvoke() {
		if f := cc.StaticCallee(); f != nil {
			callees = []*ssa.Function{f}
		} else {
			// dynamic function value
			if e.typeCoveredAll(args, derArgs) {
				return nil
			}
			add("escape-call", "pointer into "+what+" passed to a dynamic call")
			return out
		}
	} else {
		// interface method: resolve through the call graph
		if node := e.c.callGraph().Nodes[fn]; node != nil {
			for _, ed := range node.Out {
				if ed.Site != nil && ed.Site.Common() == cc {
					callees = append(callees, ed.Callee.Func)
				}
			}
		}
		if len(callees) == 0 {
			if ro := e.invokeReadOnly(cc); ro {
				return nil
			}
			add("escape-call", fmt.Sprintf("pointer into %s passed to interface method %s with no resolved callee", what, cc.Method.Name()))
			return out
		}
	}
	for _, cal := range callees {
		inModule := strings.HasPrefix(fnPkgPath(cal), modPath) && len(cal.Blocks) > 0
		if !inModule {
			name := cal.String()
			if _, ok := readOnlyExternal[name]; ok {
				continue
			}
			if cal.Signature.Recv() != nil {
				// value-receiver method on a non-pointer-like copy cannot write back
				if _, isPtr := cal.Signature.Recv().Type().Underlying().(*types.Pointer); !isPtr && !recvDer {
					onlyRecv := len(derArgs) == 1 && derArgs[0] == 0
					if onlyRecv && !pointerLike(cal.Signature.Recv().Type()) {
						continue
					}
				}
			}
			if e.typeCoveredAll(args, derArgs) && !recvDer {
				continue
			}
			add("escape-call", fmt.Sprintf("pointer into %s passed to %s (no summary)", what, name))
			continue
		}
		if depth > 12 {
			add("escape-call", "call depth bound reached at "+cal.String())
			continue
		}
		// map argument positions to callee params
		for _, ai := range derArgs {
			pi := ai
			if cc.IsInvoke() {
				pi = ai + 1 // receiver is param 0
			}
			if pi >= len(cal.Params) {
				continue
			}
			for _, w := range e.paramWrites(cal, pi, depth+1) {
				out = append(out, writeSite{fn, pos, "call", fmt.Sprintf("call to %s which does: %s at %s", cal.String(), w.what, e.c.pos(w.pos))})
			}
		}
		if recvDer && len(cal.Params) > 0 {
			for _, w := range e.paramWrites(cal, 0, depth+1) {
				out = append(out, writeSite{fn, pos, "call", fmt.Sprintf("call to %s which does: %s at %s", cal.String(), w.what, e.c.pos(w.pos))})
			}
		}
	}
	return out
}

func (e *effects) typeCoveredAll(args []ssa.Value, idx []int) bool {
	for _, i := range idx {
		if !e.typeCovered(args[i].Type()) {
			return false
		}
	}
	return len(idx) > 0
}

func (e *effects) invokeReadOnly(cc *ssa.CallCommon) bool {
	return false
}

// paramWrites: writes through values derived from parameter i of fn.
func (e *effects) paramWrites(fn *ssa.Function, i int, depth int) []writeSite {
	k := effKey{fn, i}
	if w, ok := e.memo[k]; ok {
		return w
	}
	if e.active[k] {
		return nil
	}
	e.active[k] = true
	defer delete(e.active, k)
	roots := map[ssa.Value]bool{fn.Params[i]: true}
	w := e.writesFrom(fn, roots, fmt.Sprintf("parameter %s of %s", fn.Params[i].Name(), fn.Name()), depth)
	e.memo[k] = w
	return w
}

// globalWriteSites: all writes to/through global g in module functions, except the
// synthetic package initializer of g's own package.
func (e *effects) globalWriteSites(g *ssa.Global) []writeSite {
	var out []writeSite
	e.c.moduleFuncs()
	for _, fn := range e.c.globalUsers[g] {
		if fn.Synthetic != "" && fn.Name() == "init" && fn.Pkg == g.Pkg {
			continue
		}
		out = append(out, e.writesFrom(fn, map[ssa.Value]bool{g: true}, "package variable "+g.Name(), 0)...)
	}
	return out
}

func (c *Ctx) ssaGlobal(p *packages.Package, name string) *ssa.Global {
	sp := c.ssaPkgs[p.PkgPath]
	if sp == nil {
		return nil
	}
	g, _ := sp.Members[name].(*ssa.Global)
	return g
}

// globalWrites returns formatted write sites for a named package variable.
func (c *Ctx) globalWrites(p *packages.Package, name string) []string {
	g := c.ssaGlobal(p, name)
	if g == nil {
		return []string{"variable " + name + " not found (fail closed)"}
	}
	if c.eff == nil {
		c.eff = c.newEffects()
	}
	e := c.eff
	var out []string
	for _, w := range e.globalWriteSites(g) {
		out = append(out, fmt.Sprintf("%s in %s at %s", w.what, w.fn.String(), c.pos(w.pos)))
	}
	// type-based rule for the profile rows
	if name == "_fields" {
		out = append(out, c.fieldRowWrites()...)
	}
	sort.Strings(out)
	return out
}

// fieldRowWrites: type-based who-may-write rule for the profile row type `field`:
// no store through a pointer to `field` (or a field address of one) unless the
// memory is a fresh allocation of the same function. The rows are reachable only
// through *field pointers handed out by getField/getFieldBySindex.
func (c *Ctx) fieldRowWrites() []string {
	o := c.fit.Types.Scope().Lookup("field")
	if o == nil {
		return []string{"type field not found (fail closed)"}
	}
	ft := o.Type()
	var out []string
	for _, fn := range c.moduleFuncs() {
		if fn.Synthetic != "" && fn.Name() == "init" {
			continue
		}
		for _, b := range fn.Blocks {
			for _, ins := range b.Instrs {
				st, ok := ins.(*ssa.Store)
				if !ok {
					continue
				}
				addr := st.Addr
				hit := false
				if fa, ok := addr.(*ssa.FieldAddr); ok {
					if pt, ok := fa.X.Type().Underlying().(*types.Pointer); ok && types.Identical(pt.Elem(), ft) {
						hit = true
						addr = fa.X
					}
				} else if pt, ok := addr.Type().Underlying().(*types.Pointer); ok && types.Identical(pt.Elem(), ft) {
					hit = true
				}
				if !hit || isLocalAlloc(addr) {
					continue
				}
				out = append(out, fmt.Sprintf("store through a non-fresh *field (profile row) in %s at %s", fn.String(), c.pos(st.Pos())))
			}
		}
	}
	return out
}

// directGlobalStores: write sites for a package variable of package fit (cached engine).
func (c *Ctx) directGlobalStores(name string) []string {
	return c.globalWrites(c.fit, name)
}
