package main

import (
	_ "embed"
	"encoding/json"
	"fmt"
	"sort"
)

// The set of field definitions the validator accepts, per profile class, as it was on the pinned
// tree (acceptedset.json, generated with `fitcheck -dump-accepted`): class name -> base-type byte
// (decimal) -> list of [lo, hi] size runs. C01 holds the accepted set against what the consumers
// can store safely (accepted ⊆ safe); "Decode succeeds for every well-formed stream whose
// definitions are compatible with the profile" needs the other direction, and the repository's own
// notion of "compatible" is this set — any (class, base type, size) accepted on the pinned tree and
// rejected now is a device file that used to decode and no longer does. Loosening is not this rule's
// business (C01-R1 judges it). A regenerated profile changes the classes and needs a new table; that
// is a behaviour change, not a refactoring.
//
//go:embed acceptedset.json
var acceptedSetJSON []byte

type acceptedRuns map[string]map[string][][2]int

func acceptedRunsOf(m *matrix) acceptedRuns {
	out := acceptedRuns{}
	for name, tab := range m.accepted {
		per := map[string][][2]int{}
		for b := 0; b < 256; b++ {
			var runs [][2]int
			for s := 0; s < 256; s++ {
				if !tab[b][s] {
					continue
				}
				if n := len(runs); n > 0 && runs[n-1][1] == s-1 {
					runs[n-1][1] = s
				} else {
					runs = append(runs, [2]int{s, s})
				}
			}
			if len(runs) > 0 {
				per[fmt.Sprint(b)] = runs
			}
		}
		out[name] = per
	}
	return out
}

func acceptedDump(repo string) error {
	c, err := load(repo, "quick")
	if err != nil {
		return err
	}
	m := c.matrix()
	if len(m.armErrs) > 0 || len(m.evalErrs) > 0 {
		return fmt.Errorf("matrix not evaluable: %v %v", m.armErrs, m.evalErrs)
	}
	b, err := json.Marshal(acceptedRunsOf(m))
	if err != nil {
		return err
	}
	fmt.Println(string(b))
	return nil
}

// c02AcceptedSet: C02-R15-accepted-set.
func c02AcceptedSet(c *Ctx, r *Report) {
	const rule = "C02-R15-accepted-set"
	var pinned acceptedRuns
	if err := json.Unmarshal(acceptedSetJSON, &pinned); err != nil || len(pinned) == 0 {
		r.fail(rule, "table", "", "embedded accepted-set table unreadable")
		return
	}
	m := c.matrix()
	if len(m.armErrs) > 0 {
		r.undecided(rule, "matrix", "", "validator x consumer matrix not evaluable: "+m.armErrs[0])
		return
	}
	var names []string
	for n := range pinned {
		names = append(names, n)
	}
	sort.Strings(names)
	nPts, nCls := 0, 0
	for _, name := range names {
		tab := m.accepted[name]
		if tab == nil {
			r.fail(rule, name, "", "profile class "+name+" of the pinned tree no longer exists in the tables: its fields are decoded under other rules (a regenerated profile needs a regenerated accepted-set table)")
			continue
		}
		if why, bad := m.evalErrs[name]; bad {
			r.undecided(rule, name, "", "validator not evaluable for this class: "+why)
			continue
		}
		nCls++
		lost, first := 0, ""
		for bs, runs := range pinned[name] {
			var b int
			fmt.Sscan(bs, &b)
			for _, run := range runs {
				for s := run[0]; s <= run[1]; s++ {
					nPts++
					if !tab[b][s] {
						lost++
						if first == "" {
							first = fmt.Sprintf("base type %#02x, size %d", b, s)
						}
					}
				}
			}
		}
		r.check(lost == 0, rule, name, "", "every definition accepted on the pinned tree is still accepted", fmt.Sprintf("%d definitions of class %s that the validator accepted are now rejected (first: %s): a well-formed file whose definition was compatible with the profile no longer decodes", lost, name, first))
	}
	r.need("profile classes compared with the pinned accepted set", nCls, 20)
	r.need("accepted definitions of the pinned tree re-checked", nPts, 1000)
}
