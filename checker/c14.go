package main

import (
	"fmt"
	"go/ast"
	"go/token"
	"go/types"

	"golang.org/x/tools/go/ssa"
)

func init() {
	register(&propDef{
		id: "C14", level: "proof", run: runC14,
		explanation: "GF(2)-affine abstract interpretation of dyncrc16.updateByte from its SSA form: every bit of every intermediate value is an XOR of the 24 input bits (16 state, 8 data) and a constant; table loads are linear maps because crcTable is proven GF(2)-linear on its 4-bit index space and never written. The resulting 16x24 matrix is compared with the bit-serial reference step of CRC-16/ARC (reflected polynomial 0xA001, init 0), which settles all 65536x256 transitions; composing the matrix with itself on (c, lo(c)), (., hi(c)) gives the zero map (residue rule). Streaming interface: update is a left fold of updateByte in index order, the hash state is exactly one uint16, Write/Reset/Sum16/New/Checksum have the fold shapes, so any split of the data gives the same sum.",
		trusted:     []string{"transfer functions of the affine domain (checker/c14.go)", "Go semantics of range over a slice (index order)", "reference bit-serial CRC-16/ARC step in the checker"},
	})
}

// affine bit: bit k (k<24) set = depends on input bit k; bit 24 = constant 1
type abit uint32
type avec []abit // little-endian bits

const aconst abit = 1 << 24

func avConst(v uint64, w int) avec {
	out := make(avec, w)
	for i := 0; i < w; i++ {
		if v>>uint(i)&1 == 1 {
			out[i] = aconst
		}
	}
	return out
}

func avResize(a avec, w int) avec {
	out := make(avec, w)
	copy(out, a)
	return out
}

func runC14(c *Ctx, r *Report) {
	info := c.crc.TypesInfo
	// ---- obligation 5a: crc16 is exactly a uint16 --------------------------------
	crcT := c.crc.Types.Scope().Lookup("crc16")
	if crcT == nil {
		r.fail("C14-5-state", "crc16", "", "type crc16 not found")
		return
	}
	b := basicOf(crcT.Type())
	r.check(b != nil && b.Kind() == types.Uint16, "C14-5-state", "crc16", c.pos(crcT.Pos()), "hash state is exactly one uint16 (no hidden state)", "crc16 is not a uint16: the streaming state is more than the 16-bit register")

	// ---- obligation 1: table ---------------------------------------------------------
	tbl, terr := c14Table(c)
	if terr != "" {
		r.fail("C14-1-table", "crcTable", "", terr)
		return
	}
	ws := c.globalWrites(c.crc, "crcTable")
	r.check(len(ws) == 0, "C14-1-table", "crcTable/immutable", "", "crcTable is never written", fmt.Sprint("crcTable is written at run time: ", ws))
	r.check(len(tbl) == 16, "C14-1-table", "crcTable/len", "", "16 entries", fmt.Sprintf("crcTable has %d entries, the nibble algorithm indexes 0..15", len(tbl)))
	if len(tbl) != 16 {
		return
	}
	for i := 0; i < 16; i++ {
		ref := uint16(i)
		for k := 0; k < 4; k++ {
			if ref&1 == 1 {
				ref = ref>>1 ^ 0xA001
			} else {
				ref >>= 1
			}
		}
		r.check(tbl[i] == ref, "C14-1-table", fmt.Sprintf("crcTable[%d]", i), "", fmt.Sprintf("%#04x = nibble table of reflected polynomial 0xA001", tbl[i]), fmt.Sprintf("crcTable[%d] = %#04x, nibble table of polynomial 0xA001 has %#04x", i, tbl[i], ref))
	}
	linear := tbl[0] == 0
	for a := 0; a < 16 && linear; a++ {
		for bb := 0; bb < 16; bb++ {
			if tbl[a^bb] != tbl[a]^tbl[bb] {
				linear = false
			}
		}
	}
	r.check(linear, "C14-2-linear", "crcTable", "", "table is GF(2)-linear on its index space (256 pairs checked)", "crcTable is not GF(2)-linear: a table load is not a linear map and the affine interpretation does not apply")
	if !linear {
		return
	}

	// ---- obligation 2: affine interpretation of updateByte -------------------------------
	fn := c.ssaFn(c.fn(c.crc, "updateByte"))
	if fn == nil {
		r.fail("C14-2-matrix", "updateByte", "", "function updateByte not found")
		return
	}
	M, merr := c14Interpret(c, fn, tbl)
	if merr != "" {
		r.undecided("C14-2-matrix", "updateByte", c.pos(fn.Pos()), merr)
		return
	}
	// reference matrix from the bit-serial definition
	refStep := func(state uint16, data byte) uint16 {
		state ^= uint16(data)
		for k := 0; k < 8; k++ {
			if state&1 == 1 {
				state = state>>1 ^ 0xA001
			} else {
				state >>= 1
			}
		}
		return state
	}
	ref := make(avec, 16)
	for in := 0; in < 24; in++ {
		var s uint16
		var d byte
		if in < 16 {
			s = 1 << uint(in)
		} else {
			d = 1 << uint(in-16)
		}
		out := refStep(s, d)
		for j := 0; j < 16; j++ {
			if out>>uint(j)&1 == 1 {
				ref[j] |= 1 << uint(in)
			}
		}
	}
	for j := 0; j < 16; j++ {
		r.check(M[j] == ref[j], "C14-2-matrix", fmt.Sprintf("updateByte/out-bit-%d", j), c.pos(fn.Pos()),
			fmt.Sprintf("row %#07x (inputs: state bits 0-15, data bits 16-23) equals the CRC-16/ARC byte step; constant part 0", uint32(M[j])),
			fmt.Sprintf("output bit %d depends on inputs %#07x (const=%v); CRC-16/ARC byte step has %#07x", j, uint32(M[j]&^aconst), M[j]&aconst != 0, uint32(ref[j])))
	}
	r.set("transitions_settled", 65536*256)

	// ---- obligation 3: residue -------------------------------------------------------
	// state c, feed lo(c): inputs are the 16 bits of c
	apply := func(state avec, data avec) avec {
		out := make(avec, 16)
		for j := 0; j < 16; j++ {
			var acc abit
			for in := 0; in < 24; in++ {
				if M[j]>>uint(in)&1 == 1 {
					if in < 16 {
						acc ^= state[in]
					} else {
						acc ^= data[in-16]
					}
				}
			}
			if M[j]&aconst != 0 {
				acc ^= aconst
			}
			out[j] = acc
		}
		return out
	}
	cvec := make(avec, 16)
	for i := 0; i < 16; i++ {
		cvec[i] = 1 << uint(i)
	}
	s1 := apply(cvec, cvec[0:8])
	s2 := apply(s1, cvec[8:16])
	zero := true
	for j := 0; j < 16; j++ {
		if s2[j] != 0 {
			zero = false
		}
	}
	r.check(zero, "C14-3-residue", "updateByte∘updateByte", c.pos(fn.Pos()), "feeding the sum little-endian maps every state to 0 (zero map over all 65536 states)", "appending the sum little-endian does not give residue 0 for every state")

	// ---- obligation 4: update is a left fold --------------------------------------------
	c14Fold(c, r, info)
	// ---- obligation 5: Write/Reset/Sum16/New/Checksum ---------------------------------
	c14Methods(c, r, info)
}

func c14Table(c *Ctx) ([]uint16, string) {
	init, _ := c.varInit(c.crc, "crcTable")
	cl, ok := init.(*ast.CompositeLit)
	if !ok {
		return nil, "crcTable has no literal initializer"
	}
	v := c.global(c.crc, "crcTable")
	at, ok := v.Type().Underlying().(*types.Array)
	if !ok {
		return nil, "crcTable is not an array"
	}
	if eb := basicOf(at.Elem()); eb == nil || eb.Kind() != types.Uint16 {
		return nil, "crcTable elements are not uint16"
	}
	out := make([]uint16, at.Len())
	idx := int64(0)
	for _, el := range cl.Elts {
		val := el
		if kv, ok := el.(*ast.KeyValueExpr); ok {
			k, ok := exprInt(c.crc.TypesInfo, kv.Key)
			if !ok {
				return nil, "non-constant key"
			}
			idx, val = k, kv.Value
		}
		u, ok := exprUint(c.crc.TypesInfo, val)
		if !ok || idx >= int64(len(out)) {
			return nil, "non-constant table element"
		}
		out[idx] = uint16(u)
		idx++
	}
	return out, ""
}

func c14Interpret(c *Ctx, fn *ssa.Function, tbl []uint16) (avec, string) {
	if len(fn.Params) != 2 {
		return nil, "updateByte does not take (state, byte)"
	}
	w0 := int(width(basicOf(fn.Params[0].Type())))
	w1 := int(width(basicOf(fn.Params[1].Type())))
	if w0 != 16 || w1 != 8 {
		return nil, "parameter widths are not (16, 8)"
	}
	st := make(avec, 16)
	for i := range st {
		st[i] = 1 << uint(i)
	}
	dt := make(avec, 8)
	for i := range dt {
		dt[i] = 1 << uint(16+i)
	}
	a, e := c14InterpretFn(c, fn, []avec{st, dt}, tbl, 3)
	if e == "" && len(a) != 16 {
		return nil, "result is not 16 bits"
	}
	return a, e
}

// c14InterpretFn: GF(2)-affine abstract interpretation of a straight-line function over unsigned
// integers; static calls to straight-line helpers of the same package are interpreted in place
// (bounded depth), so the nibble step may be spelled inline or as a helper.
func c14InterpretFn(c *Ctx, fn *ssa.Function, args []avec, tbl []uint16, depth int) (avec, string) {
	if len(fn.Blocks) != 1 {
		return nil, fmt.Sprintf("%s has %d basic blocks; the affine interpretation needs straight-line code", fn.Name(), len(fn.Blocks))
	}
	if len(fn.Params) != len(args) {
		return nil, "arity of " + fn.Name()
	}
	env := map[ssa.Value]avec{}
	for i, p := range fn.Params {
		bb := basicOf(p.Type())
		if bb == nil || bb.Info()&types.IsInteger == 0 || isSigned(bb) || int(width(bb)) != len(args[i]) {
			return nil, fmt.Sprintf("parameter %s of %s is not an unsigned integer of the argument's width", p.Name(), fn.Name())
		}
		env[p] = args[i]
	}
	tblG := c.ssaGlobal(c.crc, "crcTable")
	get := func(v ssa.Value) (avec, string) {
		if k, ok := v.(*ssa.Const); ok {
			bb := basicOf(k.Type())
			if bb == nil || k.Value == nil {
				return nil, "non-integer constant"
			}
			u, ok := constBits(k.Value, 64)
			if !ok {
				return nil, "constant"
			}
			w := int(width(bb))
			return avConst(u, w), ""
		}
		if a, ok := env[v]; ok {
			return a, ""
		}
		return nil, "value " + v.Name() + " not interpreted"
	}
	isConst := func(a avec) (uint64, bool) {
		var u uint64
		for i, b := range a {
			if b&^aconst != 0 {
				return 0, false
			}
			if b&aconst != 0 {
				u |= 1 << uint(i)
			}
		}
		return u, true
	}
	tableAddr := map[ssa.Value]avec{} // IndexAddr -> index vector
	for _, ins := range fn.Blocks[0].Instrs {
		switch n := ins.(type) {
		case *ssa.DebugRef:
		case *ssa.ChangeType:
			a, e := get(n.X)
			if e != "" {
				return nil, e
			}
			env[n] = a
		case *ssa.Convert:
			a, e := get(n.X)
			if e != "" {
				return nil, e
			}
			fb, tb := basicOf(n.X.Type()), basicOf(n.Type())
			if fb == nil || tb == nil || isSigned(fb) || tb.Info()&types.IsInteger == 0 {
				return nil, "conversion from a signed or non-integer type at " + c.pos(n.Pos())
			}
			env[n] = avResize(a, int(width(tb)))
		case *ssa.BinOp:
			x, e := get(n.X)
			if e != "" {
				return nil, e
			}
			y, e := get(n.Y)
			if e != "" {
				return nil, e
			}
			w := int(width(basicOf(n.Type())))
			if isSigned(basicOf(n.X.Type())) {
				return nil, "signed arithmetic at " + c.pos(n.Pos())
			}
			out := make(avec, w)
			switch n.Op {
			case token.XOR:
				for i := 0; i < w; i++ {
					out[i] = x[i] ^ y[i]
				}
			case token.AND:
				var m uint64
				var v avec
				if u, ok := isConst(y); ok {
					m, v = u, x
				} else if u, ok := isConst(x); ok {
					m, v = u, y
				} else {
					return nil, "& of two non-constant values is not linear at " + c.pos(n.Pos())
				}
				for i := 0; i < w; i++ {
					if m>>uint(i)&1 == 1 {
						out[i] = v[i]
					}
				}
			case token.SHR, token.SHL:
				s, ok := isConst(y)
				if !ok {
					return nil, "shift by a non-constant at " + c.pos(n.Pos())
				}
				for i := 0; i < w; i++ {
					var src int
					if n.Op == token.SHR {
						src = i + int(s)
					} else {
						src = i - int(s)
					}
					if src >= 0 && src < len(x) {
						out[i] = x[src]
					}
				}
			case token.OR:
				// linear only when supports are disjoint bitwise (one side zero per bit)
				for i := 0; i < w; i++ {
					if x[i] != 0 && y[i] != 0 {
						return nil, "| of overlapping values is not linear at " + c.pos(n.Pos())
					}
					out[i] = x[i] | y[i]
				}
			default:
				return nil, fmt.Sprintf("operator %s is outside the GF(2)-affine domain at %s", n.Op, c.pos(n.Pos()))
			}
			env[n] = out
		case *ssa.IndexAddr:
			if n.X != ssa.Value(tblG) {
				return nil, "indexing something other than crcTable at " + c.pos(n.Pos())
			}
			idx, e := get(n.Index)
			if e != "" {
				return nil, e
			}
			for i := 4; i < len(idx); i++ {
				if idx[i] != 0 {
					return nil, "table index is not confined to 4 bits (possible out-of-range index) at " + c.pos(n.Pos())
				}
			}
			tableAddr[n] = idx
		case *ssa.UnOp:
			if n.Op != token.MUL {
				return nil, "unary operator outside the domain at " + c.pos(n.Pos())
			}
			idx, ok := tableAddr[n.X]
			if !ok {
				return nil, "load that is not a crcTable lookup at " + c.pos(n.Pos())
			}
			out := make(avec, 16)
			for i := 0; i < 4; i++ {
				t := tbl[1<<uint(i)]
				for j := 0; j < 16; j++ {
					if t>>uint(j)&1 == 1 {
						out[j] ^= idx[i]
					}
				}
			}
			env[n] = out
		case *ssa.Return:
			if len(n.Results) != 1 {
				return nil, "return arity"
			}
			a, e := get(n.Results[0])
			if e != "" {
				return nil, e
			}
			return a, ""
		case *ssa.Call:
			callee := n.Common().StaticCallee()
			if callee == nil || depth <= 0 || fnPkgPath(callee) != fnPkgPath(fn) || n.Common().IsInvoke() {
				return nil, "call that cannot be interpreted in place at " + c.pos(n.Pos())
			}
			var as []avec
			for _, a := range n.Common().Args {
				v, e := get(a)
				if e != "" {
					return nil, e
				}
				as = append(as, v)
			}
			out, e := c14InterpretFn(c, callee, as, tbl, depth-1)
			if e != "" {
				return nil, e
			}
			if bb := basicOf(n.Type()); bb == nil || int(width(bb)) != len(out) {
				return nil, "result width of " + callee.Name()
			}
			env[n] = out
		default:
			return nil, fmt.Sprintf("instruction %T is outside the GF(2)-affine domain at %s", ins, c.pos(ins.Pos()))
		}
	}
	return nil, "no return"
}

func c14Fold(c *Ctx, r *Report, info *types.Info) {
	fd := c.decl(c.fn(c.crc, "update"))
	key := "update"
	if fd == nil {
		r.fail("C14-4-fold", key, "", "function update not found")
		return
	}
	pos := c.pos(fd.Pos())
	bad := func(s string) { r.undecided("C14-4-fold", key, pos, s) }
	if len(fd.Type.Params.List) < 1 || len(fd.Body.List) != 2 {
		bad("update is not `for _, d := range data { c = updateByte(c, d) }; return c`")
		return
	}
	var params []types.Object
	for _, f := range fd.Type.Params.List {
		for _, n := range f.Names {
			params = append(params, info.Defs[n])
		}
	}
	if len(params) != 2 {
		bad("update does not take (state, data)")
		return
	}
	rg, ok1 := fd.Body.List[0].(*ast.RangeStmt)
	rs, ok2 := fd.Body.List[1].(*ast.ReturnStmt)
	if !ok1 || !ok2 || len(rs.Results) != 1 {
		bad("update is not a range loop followed by a return")
		return
	}
	if info.Uses[identOf(rg.X)] != params[1] {
		bad("loop does not range over the data parameter")
		return
	}
	if _, isSlice := params[1].Type().Underlying().(*types.Slice); !isSlice {
		bad("data is not a slice (range order would not be index order)")
		return
	}
	if rg.Key != nil && identOf(rg.Key) != nil && identOf(rg.Key).Name != "_" {
		bad("loop uses the index")
		return
	}
	elem := info.Defs[identOf(rg.Value)]
	if elem == nil || len(rg.Body.List) != 1 {
		bad("loop body is not a single assignment")
		return
	}
	as, ok := rg.Body.List[0].(*ast.AssignStmt)
	if !ok || as.Tok != token.ASSIGN || len(as.Lhs) != 1 || len(as.Rhs) != 1 || info.Uses[identOf(as.Lhs[0])] != params[0] {
		bad("loop body does not assign the accumulator")
		return
	}
	call, ok := as.Rhs[0].(*ast.CallExpr)
	if !ok || len(call.Args) != 2 || !isPkgFunc(callee(info, call), crcPath, "updateByte") ||
		info.Uses[identOf(call.Args[0])] != params[0] || info.Uses[identOf(call.Args[1])] != elem {
		bad("loop body is not c = updateByte(c, d)")
		return
	}
	if info.Uses[identOf(rs.Results[0])] != params[0] {
		bad("update does not return the accumulator")
		return
	}
	r.ok("C14-4-fold", key, pos, "update(c, data) = foldl updateByte c data, in index order")
}

func c14Methods(c *Ctx, r *Report, info *types.Info) {
	isUpdateCall := func(e ast.Expr) (*ast.CallExpr, bool) {
		call, ok := unparen(e).(*ast.CallExpr)
		if !ok || len(call.Args) != 2 || !isPkgFunc(callee(info, call), crcPath, "update") {
			return nil, false
		}
		return call, true
	}
	derefRecv := func(e ast.Expr, recv types.Object) bool {
		se, ok := unparen(e).(*ast.StarExpr)
		return ok && info.Uses[identOf(se.X)] == recv
	}
	// Write
	if fd := c.decl(c.fn(c.crc, "crc16.Write")); fd != nil && len(fd.Body.List) == 2 {
		recv := info.Defs[fd.Recv.List[0].Names[0]]
		data := info.Defs[fd.Type.Params.List[0].Names[0]]
		as, ok1 := fd.Body.List[0].(*ast.AssignStmt)
		rs, ok2 := fd.Body.List[1].(*ast.ReturnStmt)
		ok := ok1 && ok2 && len(as.Lhs) == 1 && len(as.Rhs) == 1 && as.Tok == token.ASSIGN && derefRecv(as.Lhs[0], recv)
		if ok {
			call, isU := isUpdateCall(as.Rhs[0])
			ok = isU && derefRecv(call.Args[0], recv) && info.Uses[identOf(call.Args[1])] == data
		}
		if ok {
			ok = len(rs.Results) == 2 && exprStr(rs.Results[1]) == "nil"
			if lc, isCall := unparen(rs.Results[0]).(*ast.CallExpr); ok && isCall && len(lc.Args) == 1 {
				bi, isB := info.Uses[identOf(lc.Fun)].(*types.Builtin)
				ok = isB && bi.Name() == "len" && info.Uses[identOf(lc.Args[0])] == data
			} else {
				ok = false
			}
		}
		r.check(ok, "C14-5-methods", "crc16.Write", c.pos(fd.Pos()), "*c = update(*c, data); return len(data), nil", "Write is not `*c = update(*c, data); return len(data), nil`")
	} else {
		r.undecided("C14-5-methods", "crc16.Write", "", "Write not found or not two statements")
	}
	// Reset
	if fd := c.decl(c.fn(c.crc, "crc16.Reset")); fd != nil && len(fd.Body.List) == 1 {
		recv := info.Defs[fd.Recv.List[0].Names[0]]
		as, ok := fd.Body.List[0].(*ast.AssignStmt)
		okR := ok && len(as.Lhs) == 1 && len(as.Rhs) == 1 && derefRecv(as.Lhs[0], recv)
		if okR {
			v, isC := exprInt(info, as.Rhs[0])
			okR = isC && v == 0
		}
		r.check(okR, "C14-5-methods", "crc16.Reset", c.pos(fd.Pos()), "*c = 0 (the initial state)", "Reset does not store the initial state 0")
	} else {
		r.undecided("C14-5-methods", "crc16.Reset", "", "Reset shape")
	}
	// Sum16
	if fd := c.decl(c.fn(c.crc, "crc16.Sum16")); fd != nil && len(fd.Body.List) == 1 {
		recv := info.Defs[fd.Recv.List[0].Names[0]]
		rs, ok := fd.Body.List[0].(*ast.ReturnStmt)
		okS := ok && len(rs.Results) == 1
		if okS {
			conv, isCall := unparen(rs.Results[0]).(*ast.CallExpr)
			okS = isCall && len(conv.Args) == 1 && derefRecv(conv.Args[0], recv)
			if okS {
				tv := info.Types[conv.Fun]
				okS = tv.IsType() && basicOf(tv.Type) != nil && basicOf(tv.Type).Kind() == types.Uint16
			}
		}
		r.check(okS, "C14-5-methods", "crc16.Sum16", c.pos(fd.Pos()), "returns uint16(*c)", "Sum16 is not `return uint16(*c)`")
	} else {
		r.undecided("C14-5-methods", "crc16.Sum16", "", "Sum16 shape")
	}
	// New: returns pointer to a zero crc16
	if fd := c.decl(c.fn(c.crc, "New")); fd != nil {
		okN := false
		if len(fd.Body.List) == 2 {
			as, ok1 := fd.Body.List[0].(*ast.AssignStmt)
			rs, ok2 := fd.Body.List[1].(*ast.ReturnStmt)
			if ok1 && ok2 && len(as.Rhs) == 1 && len(rs.Results) == 1 {
				if call, ok := as.Rhs[0].(*ast.CallExpr); ok && len(call.Args) == 1 {
					if bi, ok := info.Uses[identOf(call.Fun)].(*types.Builtin); ok && bi.Name() == "new" {
						if n, ok := info.TypeOf(call.Args[0]).(*types.Named); ok && n.Obj().Name() == "crc16" {
							okN = info.Uses[identOf(rs.Results[0])] == info.Defs[identOf(as.Lhs[0])]
						}
					}
				}
			}
		} else if len(fd.Body.List) == 1 {
			if rs, ok := fd.Body.List[0].(*ast.ReturnStmt); ok && len(rs.Results) == 1 {
				if call, ok := unparen(rs.Results[0]).(*ast.CallExpr); ok && len(call.Args) == 1 {
					if bi, ok := info.Uses[identOf(call.Fun)].(*types.Builtin); ok && bi.Name() == "new" {
						if n, ok := info.TypeOf(call.Args[0]).(*types.Named); ok && n.Obj().Name() == "crc16" {
							okN = true
						}
					}
				}
			}
		}
		r.check(okN, "C14-5-methods", "New", c.pos(fd.Pos()), "returns a fresh zero-valued crc16 (initial value 0)", "New does not return new(crc16)")
	} else {
		r.fail("C14-5-methods", "New", "", "New not found")
	}
	// Checksum: var c crc16; c = update(c, data); return c.Sum16()
	if fd := c.decl(c.fn(c.crc, "Checksum")); fd != nil && len(fd.Body.List) == 3 {
		data := info.Defs[fd.Type.Params.List[0].Names[0]]
		ds, ok1 := fd.Body.List[0].(*ast.DeclStmt)
		as, ok2 := fd.Body.List[1].(*ast.AssignStmt)
		rs, ok3 := fd.Body.List[2].(*ast.ReturnStmt)
		okC := ok1 && ok2 && ok3
		var cv types.Object
		if okC {
			gd, ok := ds.Decl.(*ast.GenDecl)
			okC = ok && len(gd.Specs) == 1
			if okC {
				vs := gd.Specs[0].(*ast.ValueSpec)
				okC = len(vs.Names) == 1 && len(vs.Values) == 0
				if okC {
					cv = info.Defs[vs.Names[0]]
					n, isN := cv.Type().(*types.Named)
					okC = isN && n.Obj().Name() == "crc16"
				}
			}
		}
		if okC {
			call, isU := isUpdateCall(as.Rhs[0])
			okC = isU && len(as.Lhs) == 1 && info.Uses[identOf(as.Lhs[0])] == cv && info.Uses[identOf(call.Args[0])] == cv && info.Uses[identOf(call.Args[1])] == data
		}
		if okC {
			call, isCall := unparen(rs.Results[0]).(*ast.CallExpr)
			okC = isCall && isMethod(callee(info, call), crcPath, "crc16", "Sum16")
			if okC {
				sel := call.Fun.(*ast.SelectorExpr)
				okC = info.Uses[identOf(sel.X)] == cv
			}
		}
		r.check(okC, "C14-5-methods", "Checksum", c.pos(fd.Pos()), "Checksum(data) = update(0, data)", "Checksum is not `var c crc16; c = update(c, data); return c.Sum16()`")
	} else {
		r.undecided("C14-5-methods", "Checksum", "", "Checksum shape")
	}
	// no other method of crc16 writes the state
	if named, ok := c.crc.Types.Scope().Lookup("crc16").Type().(*types.Named); ok {
		for i := 0; i < named.NumMethods(); i++ {
			m := named.Method(i)
			if m.Name() == "Write" || m.Name() == "Reset" {
				continue
			}
			fn := c.ssaFn(m)
			writes := false
			if fn != nil {
				for _, b := range fn.Blocks {
					for _, ins := range b.Instrs {
						if st, ok := ins.(*ssa.Store); ok && len(fn.Params) > 0 && st.Addr == ssa.Value(fn.Params[0]) {
							writes = true
						}
					}
				}
			}
			r.check(!writes, "C14-5-state-writers", "crc16."+m.Name(), c.pos(m.Pos()), "does not store to the state", "method other than Write/Reset stores to the hash state")
		}
	}
	r.ok("C14-6-split", "Write-split-independence", "", "follows from C14-4-fold and C14-5-methods: fold over a concatenation = composition of folds, state is the only carrier")
}
