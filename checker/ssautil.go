package main

import (
	"fmt"
	"go/token"
	"go/types"
	"strings"

	"golang.org/x/tools/go/ssa"
)

// pathOf renders an SSA value as a structural access-path expression. go/ssa does no CSE,
// so two syntactically equal source expressions give two values with equal paths.
func pathOf(v ssa.Value) string {
	return pathOfD(v, 0)
}

func pathOfD(v ssa.Value, d int) string {
	if d > 25 {
		return "…"
	}
	switch n := v.(type) {
	case nil:
		return "<nil>"
	case *ssa.Parameter:
		return n.Name()
	case *ssa.FreeVar:
		return "free:" + n.Name()
	case *ssa.Global:
		return n.Pkg.Pkg.Name() + "." + n.Name()
	case *ssa.Const:
		if n.Value == nil {
			return "nil"
		}
		return n.Value.ExactString()
	case *ssa.FieldAddr:
		st := n.X.Type().Underlying().(*types.Pointer).Elem().Underlying().(*types.Struct)
		return pathOfD(n.X, d+1) + "." + st.Field(n.Field).Name()
	case *ssa.Field:
		st := n.X.Type().Underlying().(*types.Struct)
		return pathOfD(n.X, d+1) + "." + st.Field(n.Field).Name()
	case *ssa.UnOp:
		if n.Op == token.MUL {
			return "*" + pathOfD(n.X, d+1)
		}
		return n.Op.String() + pathOfD(n.X, d+1)
	case *ssa.IndexAddr:
		return pathOfD(n.X, d+1) + "[" + pathOfD(n.Index, d+1) + "]"
	case *ssa.Index:
		return pathOfD(n.X, d+1) + "[" + pathOfD(n.Index, d+1) + "]"
	case *ssa.BinOp:
		return "(" + pathOfD(n.X, d+1) + n.Op.String() + pathOfD(n.Y, d+1) + ")"
	case *ssa.Convert:
		return "conv<" + n.Type().String() + ">(" + pathOfD(n.X, d+1) + ")"
	case *ssa.ChangeType:
		return pathOfD(n.X, d+1)
	case *ssa.Slice:
		lo, hi := "", ""
		if n.Low != nil {
			lo = pathOfD(n.Low, d+1)
		}
		if n.High != nil {
			hi = pathOfD(n.High, d+1)
		}
		return pathOfD(n.X, d+1) + "[" + lo + ":" + hi + "]"
	case *ssa.Extract:
		return fmt.Sprintf("extract#%d(%s)", n.Index, pathOfD(n.Tuple, d+1))
	case *ssa.Call:
		var as []string
		for _, a := range n.Common().Args {
			as = append(as, pathOfD(a, d+1))
		}
		name := calleeName(n.Common())
		if n.Common().IsInvoke() {
			name = pathOfD(n.Common().Value, d+1) + "." + n.Common().Method.Name()
		}
		return fmt.Sprintf("call[%s@%p](%s)", name, n, strings.Join(as, ","))
	case *ssa.Alloc:
		return fmt.Sprintf("alloc[%s@%p]", n.Comment, n)
	case *ssa.Phi:
		return fmt.Sprintf("phi[%s@%p]", n.Comment, n)
	case *ssa.MakeInterface:
		return "iface(" + pathOfD(n.X, d+1) + ")"
	case *ssa.ChangeInterface:
		return "iface(" + pathOfD(n.X, d+1) + ")"
	}
	return fmt.Sprintf("%T@%p", v, v)
}

// fieldPath: path without the leading receiver name normalisation
func isFieldOf(v ssa.Value, structName, field string) bool {
	fa, ok := v.(*ssa.FieldAddr)
	if !ok {
		return false
	}
	pt, ok := fa.X.Type().Underlying().(*types.Pointer)
	if !ok {
		return false
	}
	named, ok := pt.Elem().(*types.Named)
	if !ok || named.Obj().Name() != structName {
		return false
	}
	st := named.Underlying().(*types.Struct)
	return st.Field(fa.Field).Name() == field
}

// instrIndex: position of an instruction within its block.
func instrIndex(ins ssa.Instruction) int {
	for i, x := range ins.Block().Instrs {
		if x == ins {
			return i
		}
	}
	return -1
}

// instrDominates: a executes before b on every path to b.
func instrDominates(a, b ssa.Instruction) bool {
	if a.Block() == b.Block() {
		return instrIndex(a) < instrIndex(b)
	}
	return a.Block().Dominates(b.Block())
}

// reachableWithout: is `to` reachable from the successors of instruction `from` without
// executing any instruction in `barrier`?
func reachableWithout(from ssa.Instruction, to *ssa.BasicBlock, barrier map[ssa.Instruction]bool) bool {
	// check rest of from's block
	fb := from.Block()
	start := instrIndex(from) + 1
	blockedIn := func(b *ssa.BasicBlock, startIdx int) bool {
		for i := startIdx; i < len(b.Instrs); i++ {
			if barrier[b.Instrs[i]] {
				return true
			}
		}
		return false
	}
	if blockedIn(fb, start) {
		return false
	}
	if fb == to && start <= len(fb.Instrs) {
		// the return in the same block after from
		return true
	}
	seen := map[*ssa.BasicBlock]bool{}
	var q []*ssa.BasicBlock
	for _, s := range fb.Succs {
		q = append(q, s)
	}
	for len(q) > 0 {
		b := q[0]
		q = q[1:]
		if seen[b] {
			continue
		}
		seen[b] = true
		if blockedIn(b, 0) {
			continue
		}
		if b == to {
			return true
		}
		q = append(q, b.Succs...)
	}
	return false
}

// successReturns: returns of fn whose error operand may be nil.
func (c *Ctx) successReturns(fn *ssa.Function) []*ssa.Return {
	nf := c.newNilFacts(fn)
	var out []*ssa.Return
	for _, b := range fn.Blocks {
		if len(b.Instrs) == 0 || b == fn.Recover {
			continue
		}
		ret, ok := b.Instrs[len(b.Instrs)-1].(*ssa.Return)
		if !ok {
			continue
		}
		if len(ret.Results) == 0 {
			out = append(out, ret)
			continue
		}
		r := ret.Results[len(ret.Results)-1]
		if !isErrorType(r.Type()) {
			out = append(out, ret)
			continue
		}
		if nf.nonNil(resolveSpill(r), b, 0) {
			continue
		}
		out = append(out, ret)
	}
	return out
}

// allCalls returns every call instruction (Call/Defer/Go) in fn.
func allCalls(fn *ssa.Function) []ssa.CallInstruction {
	var out []ssa.CallInstruction
	for _, b := range fn.Blocks {
		for _, ins := range b.Instrs {
			if ci, ok := ins.(ssa.CallInstruction); ok {
				out = append(out, ci)
			}
		}
	}
	return out
}

// reachesTargetOnSuccess: every success return (nil error) of g is behind a call of the function
// named target — dominated by such a call, or returning the result of one directly — where the
// call may also be to a module function of which the same holds (bounded depth). Used so that a
// rule anchored at "f calls target" also accepts "f calls a helper that calls target".
func (c *Ctx) reachesTargetOnSuccess(g *ssa.Function, target string, depth int) bool {
	if g == nil || len(g.Blocks) == 0 || depth > 3 {
		return false
	}
	qualifies := func(ci ssa.CallInstruction) bool {
		f := ci.Common().StaticCallee()
		if f == nil || fnPkgPath(f) != modPath {
			return false
		}
		return f.Name() == target || c.reachesTargetOnSuccess(f, target, depth+1)
	}
	var calls []ssa.CallInstruction
	for _, ci := range allCalls(g) {
		if _, isDefer := ci.(*ssa.Defer); isDefer {
			continue
		}
		if qualifies(ci) {
			calls = append(calls, ci)
		}
	}
	if len(calls) == 0 {
		return false
	}
	n := 0
	for _, ret := range c.successReturns(g) {
		n++
		ok := false
		if len(ret.Results) > 0 {
			if call, isCall := resolveSpill(ret.Results[len(ret.Results)-1]).(*ssa.Call); isCall {
				for _, ci := range calls {
					if ci == ssa.CallInstruction(call) {
						ok = true
					}
				}
			}
		}
		for _, ci := range calls {
			if instrDominates(ci, ret) {
				ok = true
			}
		}
		if !ok {
			return false
		}
	}
	return n > 0
}

// callsVia: the call instructions in fn that call target or a module function that reaches target on success.
func (c *Ctx) callsVia(fn *ssa.Function, target string) []ssa.CallInstruction {
	var out []ssa.CallInstruction
	for _, ci := range allCalls(fn) {
		f := ci.Common().StaticCallee()
		if f == nil || fnPkgPath(f) != modPath {
			continue
		}
		if f.Name() == target || c.reachesTargetOnSuccess(f, target, 1) {
			out = append(out, ci)
		}
	}
	return out
}
