package main

// A small forward interval analysis for integer SSA values, with branch refinement by
// dominating comparisons (DESIGN.md 3.2 "intervals").

import (
	"go/token"
	"go/types"
	"math"
	"strings"

	"golang.org/x/tools/go/ssa"
)

type ival struct {
	lo, hi int64
	okLo   bool
	okHi   bool
}

func (a ival) String() string {
	l, h := "-inf", "+inf"
	if a.okLo {
		l = itoa(a.lo)
	}
	if a.okHi {
		h = itoa(a.hi)
	}
	return "[" + l + "," + h + "]"
}

func itoa(v int64) string {
	neg := v < 0
	if neg {
		v = -v
	}
	if v == 0 {
		return "0"
	}
	var b []byte
	for v > 0 {
		b = append([]byte{byte('0' + v%10)}, b...)
		v /= 10
	}
	if neg {
		return "-" + string(b)
	}
	return string(b)
}

func exact(k int64) ival    { return ival{k, k, true, true} }
func top() ival             { return ival{} }
func rng(lo, hi int64) ival { return ival{lo, hi, true, true} }

func typeRange(t types.Type) ival {
	b := basicOf(t)
	if b == nil || b.Info()&types.IsInteger == 0 {
		return top()
	}
	w := width(b)
	if isSigned(b) {
		if w >= 64 {
			return top()
		}
		return rng(-(1 << (w - 1)), (1<<(w-1))-1)
	}
	if w >= 63 {
		return ival{0, 0, true, false}
	}
	return rng(0, (1<<w)-1)
}

func (a ival) within(b ival) bool {
	return (!b.okLo || (a.okLo && a.lo >= b.lo)) && (!b.okHi || (a.okHi && a.hi <= b.hi))
}

func join(a, b ival) ival {
	r := ival{}
	if a.okLo && b.okLo {
		r.okLo, r.lo = true, minI(a.lo, b.lo)
	}
	if a.okHi && b.okHi {
		r.okHi, r.hi = true, maxI(a.hi, b.hi)
	}
	return r
}

func meet(a, b ival) ival {
	r := a
	if b.okLo && (!r.okLo || b.lo > r.lo) {
		r.okLo, r.lo = true, b.lo
	}
	if b.okHi && (!r.okHi || b.hi < r.hi) {
		r.okHi, r.hi = true, b.hi
	}
	return r
}

func minI(a, b int64) int64 {
	if a < b {
		return a
	}
	return b
}
func maxI(a, b int64) int64 {
	if a > b {
		return a
	}
	return b
}

type boundsCtx struct {
	c          *Ctx
	fn         *ssa.Function
	sizeHi     int64 // hull of (Base).Size over known bases
	sizeLo     int64
	depth      int
	at         *ssa.BasicBlock
	inGuard    bool
	paramDepth int
}

func (c *Ctx) newBounds(fn *ssa.Function) *boundsCtx {
	bc := &boundsCtx{c: c, fn: fn, sizeLo: 1, sizeHi: 8}
	if c.sizeHull == nil {
		ev := newEvaluator(c)
		lo, hi := int64(math.MaxInt64), int64(0)
		for b := 0; b < 256; b++ {
			bi := c.baseInfo(ev, byte(b))
			if bi.Err == "" && bi.Known {
				lo, hi = minI(lo, int64(bi.Size)), maxI(hi, int64(bi.Size))
			}
		}
		c.sizeHull = &[2]int64{lo, hi}
	}
	bc.sizeLo, bc.sizeHi = c.sizeHull[0], c.sizeHull[1]
	return bc
}

func stripConv(v ssa.Value) ssa.Value {
	for {
		switch n := v.(type) {
		case *ssa.Convert:
			// only value-preserving (widening or same-size) integer conversions
			fb, tb := basicOf(n.X.Type()), basicOf(n.Type())
			if fb == nil || tb == nil || fb.Info()&types.IsInteger == 0 || tb.Info()&types.IsInteger == 0 {
				return v
			}
			if width(tb) < width(fb) {
				return v
			}
			v = n.X
		case *ssa.ChangeType:
			v = n.X
		default:
			return v
		}
	}
}

// rangeAt: interval of v when evaluated in block at (refined by dominating guards).
func (bc *boundsCtx) rangeAt(v ssa.Value, at *ssa.BasicBlock) ival {
	old := bc.at
	bc.at = at
	defer func() { bc.at = old }()
	return bc.rangeOf(v, map[ssa.Value]bool{})
}

// rangeOf: structural interval of v, every sub-term refined by the guards that dominate bc.at.
func (bc *boundsCtx) rangeOf(v ssa.Value, seen map[ssa.Value]bool) ival {
	r := bc.rangeOf0(v, seen)
	if bc.at != nil && !bc.inGuard {
		if _, isC := v.(*ssa.Const); !isC {
			bc.inGuard = true
			r = meet(r, bc.guards(v, bc.at))
			bc.inGuard = false
		}
	}
	return r
}

func (bc *boundsCtx) rangeOf0(v ssa.Value, seen map[ssa.Value]bool) ival {
	if seen[v] {
		return top()
	}
	seen[v] = true
	defer delete(seen, v)
	tr := typeRange(v.Type())
	clip := func(r ival) ival {
		// arithmetic wraps: if the mathematical range leaves the type's range, fall back to the type's range
		if r.within(tr) {
			return r
		}
		return tr
	}
	switch n := v.(type) {
	case *ssa.Parameter:
		// an integer parameter of an unexported module function: the hull of what its call sites pass
		// (each argument's interval at its own call site); any call through a function value, or an
		// exported function, leaves the type's range
		if b := basicOf(n.Type()); b == nil || b.Info()&types.IsInteger == 0 || bc.paramDepth > 2 {
			return tr
		}
		fn := n.Parent()
		if fn == nil || fn.Object() == nil || fn.Object().Exported() || !strings.HasPrefix(fnPkgPath(fn), modPath) || bc.c.addressTaken(fn) {
			return tr
		}
		idx := -1
		for i, p := range fn.Params {
			if p == n {
				idx = i
			}
		}
		var out ival
		sites := 0
		for _, g := range bc.c.moduleFuncs() {
			for _, ci := range allCalls(g) {
				if ci.Common().StaticCallee() != fn || idx >= len(ci.Common().Args) {
					continue
				}
				sub := bc.c.newBounds(g)
				sub.paramDepth = bc.paramDepth + 1
				r := sub.rangeAt(ci.Common().Args[idx], ci.Block())
				if sites == 0 {
					out = r
				} else {
					out = join(out, r)
				}
				sites++
			}
		}
		if sites == 0 {
			return tr
		}
		return meet(out, tr)
	case *ssa.Const:
		if n.Value == nil {
			return top()
		}
		if u, ok := constBits(n.Value, 64); ok {
			if b := basicOf(n.Type()); b != nil && isSigned(b) {
				return exact(int64(u))
			}
			if u <= math.MaxInt64 {
				return exact(int64(u))
			}
		}
		return tr
	case *ssa.Convert:
		x := bc.rangeOf(n.X, seen)
		if x.okLo && x.okHi && x.within(tr) {
			return x
		}
		if x.okLo && x.lo >= 0 && !x.okHi && tr.okLo {
			return meet(tr, ival{0, 0, true, false})
		}
		return tr
	case *ssa.ChangeType:
		return bc.rangeOf(n.X, seen)
	case *ssa.BinOp:
		x, y := bc.rangeOf(n.X, seen), bc.rangeOf(n.Y, seen)
		switch n.Op {
		case token.ADD:
			if x.okLo && y.okLo && x.okHi && y.okHi {
				return clip(rng(x.lo+y.lo, x.hi+y.hi))
			}
			r := ival{}
			if x.okLo && y.okLo {
				r.okLo, r.lo = true, x.lo+y.lo
			}
			return meet(r, tr)
		case token.SUB:
			if x.okLo && y.okLo && x.okHi && y.okHi {
				return clip(rng(x.lo-y.hi, x.hi-y.lo))
			}
			return tr
		case token.MUL:
			if x.okLo && y.okLo && x.okHi && y.okHi && x.lo >= 0 && y.lo >= 0 {
				return clip(rng(x.lo*y.lo, x.hi*y.hi))
			}
			return tr
		case token.AND:
			if y.okLo && y.okHi && y.lo == y.hi && y.lo >= 0 {
				return rng(0, y.hi)
			}
			if x.okLo && x.okHi && x.lo == x.hi && x.lo >= 0 {
				return rng(0, x.hi)
			}
			return tr
		case token.SHR:
			if x.okLo && x.okHi && x.lo >= 0 && y.okLo && y.okHi && y.lo == y.hi && y.lo >= 0 && y.lo < 63 {
				return rng(x.lo>>uint(y.lo), x.hi>>uint(y.lo))
			}
			return tr
		case token.REM:
			if y.okLo && y.okHi && y.lo > 0 && x.okLo && x.lo >= 0 {
				return rng(0, y.hi-1)
			}
			return tr
		case token.QUO:
			if x.okLo && x.okHi && x.lo >= 0 && y.okLo && y.lo > 0 {
				return rng(0, x.hi/y.lo)
			}
			return tr
		}
		return tr
	case *ssa.Phi:
		// loop counter: phi[init, phi + step] with step >= 0
		var r ival
		first := true
		for _, e := range n.Edges {
			if bo, ok := e.(*ssa.BinOp); ok && bo.Op == token.ADD && (bo.X == ssa.Value(n) || stripConv(bo.X) == ssa.Value(n)) {
				st := bc.rangeOf(bo.Y, seen)
				if st.okLo && st.lo >= 0 {
					// monotone non-decreasing: lower bound from the other edges, no upper bound
					continue
				}
				return tr
			}
			er := bc.rangeOf(e, seen)
			if first {
				r, first = er, false
			} else {
				r = join(r, er)
			}
		}
		inc := false
		for _, e := range n.Edges {
			if bo, ok := e.(*ssa.BinOp); ok && bo.Op == token.ADD && (bo.X == ssa.Value(n) || stripConv(bo.X) == ssa.Value(n)) {
				inc = true
			}
		}
		if inc {
			initHi, initOK := r.hi, r.okHi
			r.okHi = false
			// counter advanced by exactly 1 and tested `phi < B` in its own (header) block: phi <= max(init, B) everywhere
			stepOne := true
			for _, e := range n.Edges {
				if bo, ok := e.(*ssa.BinOp); ok && bo.Op == token.ADD && (bo.X == ssa.Value(n) || stripConv(bo.X) == ssa.Value(n)) {
					if k, ok := bo.Y.(*ssa.Const); !ok || k.Value == nil || k.Int64() != 1 {
						stepOne = false
					}
				}
			}
			if blk := n.Block(); stepOne && initOK && len(blk.Instrs) > 0 {
				if ifi, ok := blk.Instrs[len(blk.Instrs)-1].(*ssa.If); ok {
					if bo, ok := ifi.Cond.(*ssa.BinOp); ok && bo.Op == token.LSS && (bo.X == ssa.Value(n) || stripConv(bo.X) == ssa.Value(n)) {
						br := bc.rangeOf(bo.Y, seen)
						if br.okHi {
							r.okHi, r.hi = true, maxI(initHi, br.hi)
						}
					}
				}
			}
		}
		if first {
			return tr
		}
		return meet(r, tr)
	case *ssa.UnOp:
		if n.Op == token.MUL {
			if fa, ok := n.X.(*ssa.FieldAddr); ok {
				if h, ok := bc.c.fieldHull(fa); ok {
					return meet(h, tr)
				}
			}
		}
		return tr
	case *ssa.Extract:
		// n of copy / Read is not modelled
		return tr
	case *ssa.Call:
		cc := n.Common()
		if b, ok := cc.Value.(*ssa.Builtin); ok {
			switch b.Name() {
			case "len", "cap":
				if at, ok := cc.Args[0].Type().Underlying().(*types.Array); ok {
					return exact(at.Len())
				}
				if ms, ok := cc.Args[0].(*ssa.MakeSlice); ok {
					return meet(bc.rangeOf(ms.Len, seen), ival{0, 0, true, false})
				}
				if ld, ok := cc.Args[0].(*ssa.UnOp); ok && ld.Op == token.MUL {
					if fa, ok := ld.X.(*ssa.FieldAddr); ok {
						if h, ok := bc.c.fieldSliceLenHull(fa); ok {
							return h
						}
					}
				}
				return ival{0, 0, true, false}
			case "copy":
				return ival{0, 0, true, false}
			case "min":
				r := bc.rangeOf(cc.Args[0], seen)
				for _, a := range cc.Args[1:] {
					ar := bc.rangeOf(a, seen)
					if ar.okHi && (!r.okHi || ar.hi < r.hi) {
						r.okHi, r.hi = true, ar.hi
					}
					if !(ar.okLo && r.okLo) {
						r.okLo = false
					} else {
						r.lo = minI(r.lo, ar.lo)
					}
				}
				return r
			}
		}
		if f := cc.StaticCallee(); f != nil && f.String() == "("+typesPath+".Base).Size" {
			// a constant base type: its table entry exactly
			if k, ok := cc.Args[0].(*ssa.Const); ok && k.Value != nil {
				if bi := bc.c.baseInfo(newEvaluator(bc.c), byte(k.Uint64())); bi.Err == "" && bi.Known {
					return exact(int64(bi.Size))
				}
			}
			return rng(bc.sizeLo, bc.sizeHi)
		}
		if f := cc.StaticCallee(); f != nil && (f.String() == "bytes.IndexByte" || f.String() == "bytes.Index" || f.String() == "bytes.IndexAny" || f.String() == "bytes.IndexRune") {
			// documented: -1 or an index into the first argument
			out := ival{-1, 0, true, false}
			if sl, ok := cc.Args[0].(*ssa.Slice); ok && sl.High != nil {
				if h := bc.rangeOf(sl.High, seen); h.okHi {
					out.okHi, out.hi = true, h.hi-1
				}
			}
			return out
		}
		return tr
	}
	return tr
}

// guards: refinement of v from comparisons on edges that dominate block at.
func (bc *boundsCtx) guards(v ssa.Value, at *ssa.BasicBlock) ival {
	r := top()
	sv := stripConv(v)
	for _, a := range bc.fn.Blocks {
		if len(a.Instrs) == 0 {
			continue
		}
		ifi, ok := a.Instrs[len(a.Instrs)-1].(*ssa.If)
		if !ok {
			continue
		}
		bo, ok := ifi.Cond.(*ssa.BinOp)
		if !ok {
			continue
		}
		for i, succ := range a.Succs {
			if len(succ.Preds) != 1 || !succ.Dominates(at) {
				continue
			}
			truth := i == 0
			op := bo.Op
			x, y := bo.X, bo.Y
			var other ssa.Value
			flipped := false
			switch {
			case stripConv(x) == sv || x == v:
				other = y
			case stripConv(y) == sv || y == v:
				other = x
				flipped = true
			default:
				// same access path loaded twice (no CSE): compare structurally for loads of fields
				if samePathLoad(x, v) {
					other = y
				} else if samePathLoad(y, v) {
					other, flipped = x, true
				} else {
					continue
				}
			}
			if flipped {
				switch op {
				case token.LSS:
					op = token.GTR
				case token.LEQ:
					op = token.GEQ
				case token.GTR:
					op = token.LSS
				case token.GEQ:
					op = token.LEQ
				}
			}
			if !truth {
				switch op {
				case token.LSS:
					op = token.GEQ
				case token.LEQ:
					op = token.GTR
				case token.GTR:
					op = token.LEQ
				case token.GEQ:
					op = token.LSS
				case token.EQL:
					op = token.NEQ
				case token.NEQ:
					op = token.EQL
				}
			}
			or := bc.rangeOf(other, map[ssa.Value]bool{})
			switch op {
			case token.LSS:
				if or.okHi {
					r = meet(r, ival{0, or.hi - 1, false, true})
				}
			case token.LEQ:
				if or.okHi {
					r = meet(r, ival{0, or.hi, false, true})
				}
			case token.GTR:
				if or.okLo {
					r = meet(r, ival{or.lo + 1, 0, true, false})
				}
			case token.GEQ:
				if or.okLo {
					r = meet(r, ival{or.lo, 0, true, false})
				}
			case token.EQL:
				r = meet(r, or)
			case token.NEQ:
				// x != c trims an end point of the range
				if or.okLo && or.okHi && or.lo == or.hi {
					base := meet(r, bc.rangeOf(v, map[ssa.Value]bool{}))
					if base.okLo && base.lo == or.lo {
						r = meet(r, ival{or.lo + 1, 0, true, false})
					}
					if base.okHi && base.hi == or.lo {
						r = meet(r, ival{0, or.lo - 1, false, true})
					}
				}
			}
		}
	}
	return r
}

func samePathLoad(a, b ssa.Value) bool {
	la, ok1 := stripConv(a).(*ssa.UnOp)
	lb, ok2 := stripConv(b).(*ssa.UnOp)
	if !ok1 || !ok2 || la.Op != token.MUL || lb.Op != token.MUL {
		return false
	}
	pa, pb := pathOf(la.X), pathOf(lb.X)
	if pa != pb {
		return false
	}
	if !strings.Contains(pa, "@0x") {
		return true
	}
	// rooted at a local cell: the same cell (the path carries its identity), provided the cell is
	// written exactly once, in the entry block (a spilled parameter or a once-initialised local)
	root := la.X
	for {
		switch n := root.(type) {
		case *ssa.FieldAddr:
			root = n.X
			continue
		case *ssa.IndexAddr:
			root = n.X
			continue
		}
		break
	}
	al, ok := root.(*ssa.Alloc)
	if !ok || al.Referrers() == nil || strings.Count(pa, "@0x") != 1 {
		return false
	}
	// every store to this very path must come before both loads on every path and must not be
	// repeatable after them (not in a loop with them); the cell's address may be returned but is not
	// handed to anything that could write through it
	var stores []*ssa.Store
	var walk func(v ssa.Value) bool
	walk = func(v ssa.Value) bool {
		for _, ref := range *v.Referrers() {
			switch u := ref.(type) {
			case *ssa.Store:
				if u.Addr == v {
					if pathOf(u.Addr) == pa || v == ssa.Value(al) {
						stores = append(stores, u)
					}
				} else {
					return false // the address escapes into memory
				}
			case *ssa.FieldAddr:
				if !walk(u) {
					return false
				}
			case *ssa.IndexAddr:
				if !walk(u) {
					return false
				}
			case *ssa.UnOp, *ssa.DebugRef, *ssa.Return:
			default:
				return false
			}
		}
		return true
	}
	if !walk(al) || len(stores) == 0 {
		return false
	}
	reach := func(from, to *ssa.BasicBlock) bool {
		seen := map[*ssa.BasicBlock]bool{}
		q := append([]*ssa.BasicBlock(nil), from.Succs...)
		for len(q) > 0 {
			b := q[0]
			q = q[1:]
			if seen[b] {
				continue
			}
			seen[b] = true
			if b == to {
				return true
			}
			q = append(q, b.Succs...)
		}
		return false
	}
	for _, st := range stores {
		for _, ld := range []*ssa.UnOp{la, lb} {
			if !instrDominates(st, ld) || reach(ld.Block(), st.Block()) {
				return false
			}
		}
	}
	return true
}

// fieldKey identifies a struct field of a named struct type.
func fieldKeyOf(fa *ssa.FieldAddr) (string, bool) {
	pt, ok := fa.X.Type().Underlying().(*types.Pointer)
	if !ok {
		return "", false
	}
	named, ok := pt.Elem().(*types.Named)
	if !ok {
		return "", false
	}
	st, ok := named.Underlying().(*types.Struct)
	if !ok {
		return "", false
	}
	return named.Obj().Pkg().Path() + "." + named.Obj().Name() + "." + st.Field(fa.Field).Name(), true
}

// fieldStores: every Store into the given struct field anywhere in the module (cached), or ok=false when
// the struct is also written as a whole with a non-zero value (then the hull is unknown).
func (c *Ctx) fieldStores(key string) ([]*ssa.Store, bool) {
	if c.fieldStoreIdx == nil {
		c.fieldStoreIdx = map[string][]*ssa.Store{}
		c.fieldWhole = map[string]bool{}
		for _, fn := range c.moduleFuncs() {
			for _, b := range fn.Blocks {
				for _, ins := range b.Instrs {
					st, ok := ins.(*ssa.Store)
					if !ok {
						continue
					}
					if fa, ok := st.Addr.(*ssa.FieldAddr); ok {
						if k, ok := fieldKeyOf(fa); ok {
							c.fieldStoreIdx[k] = append(c.fieldStoreIdx[k], st)
						}
						continue
					}
					// whole-struct store with a non-zero value
					if pt, ok := st.Addr.Type().Underlying().(*types.Pointer); ok {
						if named, ok := pt.Elem().(*types.Named); ok {
							if _, isSt := named.Underlying().(*types.Struct); isSt {
								if k, isC := st.Val.(*ssa.Const); !isC || k.Value != nil {
									if _, isAlloc := st.Addr.(*ssa.Alloc); !isAlloc {
										c.fieldWhole[named.Obj().Pkg().Path()+"."+named.Obj().Name()] = true
									} else if _, isParam := st.Val.(*ssa.Parameter); !isParam {
										// local copy initialised from another value of the same type: fields come from that value
										c.fieldWhole[named.Obj().Pkg().Path()+"."+named.Obj().Name()] = c.fieldWhole[named.Obj().Pkg().Path()+"."+named.Obj().Name()] || false
									}
								}
							}
						}
					}
				}
			}
		}
	}
	owner := key[:strings.LastIndex(key, ".")]
	if c.fieldWhole[owner] {
		return nil, false
	}
	return c.fieldStoreIdx[key], true
}

// fieldHull: hull of all values stored into an integer struct field (plus the zero value).
func (c *Ctx) fieldHull(fa *ssa.FieldAddr) (ival, bool) {
	key, ok := fieldKeyOf(fa)
	if !ok || !strings.HasPrefix(key, modPath) {
		return ival{}, false
	}
	if c.hullMemo == nil {
		c.hullMemo = map[string]*ival{}
	}
	if h, ok := c.hullMemo[key]; ok {
		if h == nil {
			return ival{}, false
		}
		return *h, true
	}
	c.hullMemo[key] = nil // recursion guard
	stores, ok := c.fieldStores(key)
	if !ok {
		return ival{}, false
	}
	h := exact(0)
	for _, st := range stores {
		bc := c.newBounds(st.Parent())
		r := bc.rangeAt(st.Val, st.Block())
		if !r.okLo || !r.okHi {
			return ival{}, false
		}
		h = join(h, r)
	}
	c.hullMemo[key] = &h
	return h, true
}

// fieldSliceLenHull: hull of len() of a slice-typed struct field from the make() calls stored into it.
func (c *Ctx) fieldSliceLenHull(fa *ssa.FieldAddr) (ival, bool) {
	key, ok := fieldKeyOf(fa)
	if !ok || !strings.HasPrefix(key, modPath) {
		return ival{}, false
	}
	stores, ok := c.fieldStores(key)
	if !ok {
		return ival{}, false
	}
	h := exact(0)
	for _, st := range stores {
		switch v := st.Val.(type) {
		case *ssa.MakeSlice:
			bc := c.newBounds(st.Parent())
			r := bc.rangeAt(v.Len, st.Block())
			if !r.okHi {
				return ival{}, false
			}
			h = join(h, meet(r, ival{0, 0, true, false}))
		case *ssa.Const:
			if v.Value != nil {
				return ival{}, false
			}
		default:
			return ival{}, false
		}
	}
	return h, true
}
