package main

import (
	"fmt"
	"go/token"
	"go/types"
	"strings"

	"golang.org/x/tools/go/ssa"
)

// c02StringArrayArm: a string-array field carries several NUL-terminated strings. The array
// parser's string arm can only return more than one of them if a string is cut out of the scratch
// buffer *inside a loop* (or by a splitting function). An arm that converts once yields at most one
// element whatever the field holds.
func c02StringArrayArm(c *Ctx, r *Report) {
	const rule = "C02-R9-string-array-arm"
	fn := c.ssaFn(c.fn(c.fit, "decoder.parseFitFieldArray"))
	if fn == nil {
		r.fail(rule, "parseFitFieldArray", "", "not found")
		return
	}
	// conversions []byte -> string of a slice of the scratch buffer, in this function and the module functions it calls
	scope := []*ssa.Function{fn}
	for _, ci := range allCalls(fn) {
		if f := ci.Common().StaticCallee(); f != nil && fnPkgPath(f) == modPath && len(f.Blocks) > 0 {
			scope = append(scope, f)
		}
	}
	n, inLoopN := 0, 0
	split := false
	pos := c.pos(fn.Pos())
	for _, g := range scope {
		for _, b := range g.Blocks {
			for _, ins := range b.Instrs {
				switch x := ins.(type) {
				case *ssa.Convert:
					bt, ok := x.Type().Underlying().(*types.Basic)
					if !ok || bt.Kind() != types.String {
						continue
					}
					if _, isSlice := x.X.Type().Underlying().(*types.Slice); !isSlice {
						continue
					}
					n++
					pos = c.pos(x.Pos())
					if inLoop(b) {
						inLoopN++
					}
				case *ssa.Call:
					if f := x.Common().StaticCallee(); f != nil {
						switch f.String() {
						case "bytes.Split", "strings.Split", "bytes.FieldsFunc", "strings.FieldsFunc", "bytes.SplitN", "strings.SplitN":
							split = true
						}
					}
				}
			}
		}
	}
	switch {
	case n == 0 && !split:
		r.fail(rule, "parseFitFieldArray/string-arm", pos, "no string is cut out of the field's bytes in the array parser: string arrays do not decode")
	case inLoopN == 0 && !split:
		r.fail(rule, "parseFitFieldArray/string-arm", pos, fmt.Sprintf("the string arm of the array parser converts bytes to a string %d time(s), never inside a loop: it yields at most one element, so every string after the first NUL in a string-array field is dropped", n))
	default:
		r.ok(rule, "parseFitFieldArray/string-arm", pos, fmt.Sprintf("%d string conversion(s) inside the element loop", inLoopN))
	}
}

// c02TimeAlwaysSet: a time field whose wire value is not the invalid value is always written to
// the message: every return of parseTimeStamp is preceded by a Set on the field value, except the
// return directly under the 0xFFFFFFFF test. (An early return for "implausible" values leaves the
// field at its all-invalid fill although the wire carried a value.)
func c02TimeAlwaysSet(c *Ctx, r *Report) {
	const rule = "C02-R11-time-always-set"
	fn := c.ssaFn(c.fn(c.fit, "decoder.parseTimeStamp"))
	if fn == nil {
		r.fail(rule, "parseTimeStamp", "", "not found")
		return
	}
	var fieldv *ssa.Parameter
	for _, p := range fn.Params {
		if p.Type().String() == "reflect.Value" {
			fieldv = p
		}
	}
	if fieldv == nil {
		r.undecided(rule, "parseTimeStamp", c.pos(fn.Pos()), "no reflect.Value parameter (the field to set) found")
		return
	}
	barrier := map[ssa.Instruction]bool{}
	for _, ci := range allCalls(fn) {
		f := ci.Common().StaticCallee()
		if f == nil {
			continue
		}
		if strings.HasPrefix(f.String(), "(reflect.Value).Set") && len(ci.Common().Args) > 0 && ci.Common().Args[0] == ssa.Value(fieldv) {
			barrier[ci] = true
		}
		// a helper that is handed the field and sets it on every path to each of its returns
		if fnPkgPath(f) == modPath {
			for i, a := range ci.Common().Args {
				if a == ssa.Value(fieldv) && i < len(f.Params) && alwaysSets(f, f.Params[i], 0) {
					barrier[ci] = true
				}
			}
		}
	}
	// the invalid exit: successor of `x == 0xFFFFFFFF` (true edge) / `x != 0xFFFFFFFF` (false edge)
	invalidExit := map[*ssa.BasicBlock]bool{}
	for _, b := range fn.Blocks {
		ifi, ok := b.Instrs[len(b.Instrs)-1].(*ssa.If)
		if !ok {
			continue
		}
		bo, ok := ifi.Cond.(*ssa.BinOp)
		if !ok {
			continue
		}
		k, ok := bo.Y.(*ssa.Const)
		if !ok || k.Value == nil || k.Uint64() != 0xFFFFFFFF {
			continue
		}
		switch bo.Op {
		case token.EQL:
			invalidExit[b.Succs[0]] = true
		case token.NEQ:
			invalidExit[b.Succs[1]] = true
		}
	}
	nRet := 0
	bad := ""
	entry := fn.Blocks[0].Instrs[0]
	for _, b := range fn.Blocks {
		ret, ok := b.Instrs[len(b.Instrs)-1].(*ssa.Return)
		if !ok {
			continue
		}
		nRet++
		if invalidExit[b] && len(b.Preds) == 1 {
			continue
		}
		if barrier[entry] {
			continue
		}
		if reachableWithoutBarrierAvoiding(entry, b, barrier, invalidExit) {
			bad = c.pos(ret.Pos())
		}
	}
	r.check(bad == "" && nRet > 0 && len(barrier) > 0, rule, "parseTimeStamp", c.pos(fn.Pos()), fmt.Sprintf("%d return(s): each is preceded by a Set of the field, or is the exit under the 0xFFFFFFFF test", nRet), "the return at "+bad+" can be reached without the field having been set although the wire value is not the invalid value: such a time field decodes as if it were absent")
}

func reachableWithoutBarrierAvoiding(from ssa.Instruction, to *ssa.BasicBlock, barrier map[ssa.Instruction]bool, avoid map[*ssa.BasicBlock]bool) bool {
	fb := from.Block()
	blocked := func(b *ssa.BasicBlock, s int) bool {
		for i := s; i < len(b.Instrs); i++ {
			if barrier[b.Instrs[i]] {
				return true
			}
		}
		return false
	}
	if blocked(fb, instrIndex(from)) {
		return false
	}
	if fb == to {
		return true
	}
	seen := map[*ssa.BasicBlock]bool{}
	q := append([]*ssa.BasicBlock(nil), fb.Succs...)
	for len(q) > 0 {
		b := q[0]
		q = q[1:]
		if seen[b] || avoid[b] {
			continue
		}
		seen[b] = true
		if blocked(b, 0) {
			continue
		}
		if b == to {
			return true
		}
		q = append(q, b.Succs...)
	}
	return false
}

// alwaysSets: every return of g is preceded, on every path from its entry, by a Set on the
// reflect.Value parameter p (directly or through a further helper).
func alwaysSets(g *ssa.Function, p *ssa.Parameter, depth int) bool {
	if depth > 3 || len(g.Blocks) == 0 {
		return false
	}
	barrier := map[ssa.Instruction]bool{}
	for _, ci := range allCalls(g) {
		f := ci.Common().StaticCallee()
		if f == nil {
			continue
		}
		if strings.HasPrefix(f.String(), "(reflect.Value).Set") && len(ci.Common().Args) > 0 && ci.Common().Args[0] == ssa.Value(p) {
			barrier[ci] = true
		}
		if fnPkgPath(f) == modPath {
			for i, a := range ci.Common().Args {
				if a == ssa.Value(p) && i < len(f.Params) && alwaysSets(f, f.Params[i], depth+1) {
					barrier[ci] = true
				}
			}
		}
	}
	if len(barrier) == 0 {
		return false
	}
	entry := g.Blocks[0].Instrs[0]
	if barrier[entry] {
		return true
	}
	for _, b := range g.Blocks {
		if _, ok := b.Instrs[len(b.Instrs)-1].(*ssa.Return); ok {
			if reachableWithoutBarrierAvoiding(entry, b, barrier, nil) {
				return false
			}
		}
	}
	return true
}

// c02AbsentInvalid: "every field that was not present holds its type's invalid value": a record
// starts from the message's all-invalid constructor (C03-6-message-flows), so the clause is that
// each constructor initialises each field with the invalid value of the base type its profile row
// declares, at the Go width of the struct member (the C15-4 comparison, run here per row).
func c02AbsentInvalid(c *Ctx, r *Report) {
	const rule = "C02-R12-absent-invalid"
	p, errs := c.profile()
	if p == nil || len(errs) > 0 {
		r.fail(rule, "profile", "", "profile tables not readable")
		return
	}
	n := 0
	for _, mn := range p.sortedMsgs() {
		rows := p.Fields[mn]
		ctor := p.NewFuncs[mn]
		if len(rows) == 0 || ctor == nil {
			continue
		}
		ci := c.parseCtor(ctor)
		if ci == nil || ci.errStr != "" || ci.named == nil {
			continue // C15-1-ctor reports it
		}
		st, ok := ci.named.Underlying().(*types.Struct)
		if !ok {
			continue
		}
		for _, num := range p.sortedNums(mn) {
			pf := rows[num]
			if pf.Sindex < 0 || pf.Sindex >= st.NumFields() {
				continue
			}
			fb := fitBaseByWire(pf.Base)
			if fb == nil {
				continue
			}
			n++
			sf := st.Field(pf.Sindex)
			okV, why := c15CtorValue(c, ci, sf, pf, fb)
			if okV == 1 {
				continue // one summary obligation below; failures are listed individually
			}
			key := fmt.Sprintf("%s.%d", p.name(mn), num)
			if okV == 2 {
				r.undecided(rule, key, c.pos(pf.Pos), why)
			} else {
				r.fail(rule, key, c.pos(pf.Pos), fmt.Sprintf("constructor %s initialises %s with something other than the invalid value of the field's base type (%s): a record that does not carry the field decodes with a value that reads as present", ci.fn.Name(), sf.Name(), why))
			}
		}
	}
	r.ok(rule, "scan", "", fmt.Sprintf("%d table rows: the all-invalid constructor gives each member the invalid value of its row's base type at the member's width", n))
	r.need("rows compared with their constructor value", n, 500)
}

// c02ArrayElementsKept (C02-R16-array-elements-kept, after wave-13 seed C06-O; also under C06): the
// array stored into a message is the slice the element loop filled — reflect.MakeSlice(type, n, n) with
// n = size / element size, handed to Set as it is (strings: reflect.ValueOf of the string slice).
// A value derived from it (re-sliced, trimmed, filtered by a helper) drops or reorders elements the
// record carried; which elements are "padding" is for the comparison to decide, not for the decoder.
func c02ArrayElementsKept(c *Ctx, r *Report) {
	const rule = "C02-R16-array-elements-kept"
	fn := c.ssaFn(c.fn(c.fit, "decoder.parseFitFieldArray"))
	if fn == nil {
		r.fail(rule, "parseFitFieldArray", "", "not found")
		return
	}
	n := 0
	for _, ci := range allCalls(fn) {
		f := ci.Common().StaticCallee()
		if f == nil || f.String() != "(reflect.Value).Set" {
			continue
		}
		n++
		arg := ci.Common().Args[1]
		ok, why := false, "the value stored is "+stripAddrs(pathOf(arg))
		if call, isCall := arg.(*ssa.Call); isCall && call.Common().StaticCallee() != nil {
			switch call.Common().StaticCallee().String() {
			case "reflect.MakeSlice":
				a := call.Common().Args
				if len(a) == 3 && stripAddrs(pathOf(a[1])) == stripAddrs(pathOf(a[2])) {
					ok, why = true, "Set(MakeSlice(type, n, n)) with n = "+stripAddrs(pathOf(a[1]))
				} else {
					why = "MakeSlice with different length and capacity"
				}
			case "reflect.ValueOf":
				if mi, isMI := call.Common().Args[0].(*ssa.MakeInterface); isMI {
					if sl, isSl := mi.X.Type().Underlying().(*types.Slice); isSl {
						if b, isB := sl.Elem().Underlying().(*types.Basic); isB && b.Info()&types.IsString != 0 {
							ok, why = true, "Set(ValueOf(strings))"
						}
					}
				}
			}
		}
		r.check(ok, rule, fmt.Sprintf("parseFitFieldArray/Set#%d", n), c.pos(ci.Pos()), why, "the array stored into the message is not the slice the element loop filled ("+why+"): elements the record carried are dropped, reordered or cut short")
	}
	r.need("array Set calls in parseFitFieldArray", n, 2)
}
