package main

import (
	"fmt"
	"go/ast"
	"go/constant"
	"go/parser"
	"go/token"
	"go/types"
	"os"
	"path/filepath"
	"sort"
	"strings"

	"golang.org/x/tools/go/ssa"
)

// c19PickOne: a "pick any" loop — a range over a map whose body copies the key/value into
// variables declared outside and breaks — leaves those variables at their zero value when the map
// is empty. In the emitters the picked names go straight into the generated source
// (`switch x.<refField> {`), so an empty map means a file that does not parse and a command that
// fails for that product profile. Every pick-any loop in the generator therefore needs the map to
// hold exactly one entry: at most one for determinism (C19-R1), at least one for validity (here).
//
// Evidence accepted for "exactly one": the loop sits under `len(m) == 1` (directly or through a
// variable assigned from len(m)); or under both an at-most-one fact (`len(m) > 1 { panic }` before
// it, or the else branch of `> 1`) and an at-least-one fact (`> 0`, `!= 0`, `>= 1`); or m is a
// parameter and every call site in the package passes a map for which the same holds there.
// Where only at-most-one is visible, non-emptiness may follow from a chain of facts about how the
// map is filled; the one such chain in the generator is frozen in c19PickChains and its links are
// checked structurally on every run.
func c19PickOne(c *Ctx, r *Report) {
	const rule = "C19-R2-pick-one"
	p := c.pkgs[genPath]
	if p == nil {
		r.fail(rule, genPath, "", "generator package not loaded")
		return
	}
	info := p.TypesInfo
	var decls []*ast.FuncDecl
	for _, f := range p.Syntax {
		if strings.HasSuffix(c.fset.Position(f.Pos()).Filename, "_test.go") {
			continue
		}
		for _, d := range f.Decls {
			if fd, ok := d.(*ast.FuncDecl); ok && fd.Body != nil {
				decls = append(decls, fd)
			}
		}
	}
	n := 0
	for _, fd := range decls {
		idx := 0
		ast.Inspect(fd.Body, func(nd ast.Node) bool {
			rg, ok := nd.(*ast.RangeStmt)
			if !ok {
				return true
			}
			if _, isMap := info.TypeOf(rg.X).Underlying().(*types.Map); !isMap || !isPickAny(info, rg) {
				return true
			}
			n++
			key := fmt.Sprintf("%s/pick-%s#%d", declName(fd), exprStr(rg.X), idx)
			idx++
			ok2, detail := c19ExactlyOne(c, info, decls, fd, rg, rg.X, 0)
			if ok2 {
				r.ok(rule, key, c.pos(rg.Pos()), detail)
				return true
			}
			if chain, has := c19PickChains[declName(fd)+"/"+exprStr(rg.X)]; has {
				f := lenFacts(info, fd, rg, rg.X)
				if !f.le1 {
					r.fail(rule, key, c.pos(rg.Pos()), "frozen non-emptiness chain applies only together with an at-most-one guard, which is gone")
					return true
				}
				if bad := chain(c, info, decls, fd, rg); bad != "" {
					r.fail(rule, key, c.pos(rg.Pos()), "non-emptiness chain broken: "+bad+": the map may be empty, the picked names stay \"\" and reach the generated source")
				} else {
					r.ok(rule, key, c.pos(rg.Pos()), "at most one entry (guard before the loop) and at least one: every link of the frozen fill chain re-checked (index lists stored only when non-empty; reference names come from strings.Split, which never returns an empty slice; the set is filled unconditionally from them; every set member gets an entry or the generator panics)")
				}
				return true
			}
			r.fail(rule, key, c.pos(rg.Pos()), detail+": with an empty map the picked variables keep their zero value and reach the generated source, which then does not parse (the command fails for that product profile)")
			return true
		})
	}
	r.set("pick_any_loops", n)
	r.need("pick-any loops over maps in the emitters", n, 2)
}

// atMostOneFact: the ranged map holds at most one entry at the range statement: by the length
// tests in the function (singletonFact, lenFacts), or, when the map is a parameter the function
// does not write, at every call site in the package.
func atMostOneFact(c *Ctx, info *types.Info, fd *ast.FuncDecl, rg *ast.RangeStmt) string {
	if f := singletonFact(info, fd, rg); f != "" {
		return f
	}
	var decls []*ast.FuncDecl
	for _, p := range c.pkgs {
		if p.TypesInfo != info {
			continue
		}
		for _, f := range p.Syntax {
			for _, d := range f.Decls {
				if x, ok := d.(*ast.FuncDecl); ok && x.Body != nil {
					decls = append(decls, x)
				}
			}
		}
	}
	var rec func(fd *ast.FuncDecl, at ast.Node, m ast.Expr, depth int) string
	rec = func(fd *ast.FuncDecl, at ast.Node, m ast.Expr, depth int) string {
		if lenFacts(info, fd, at, m).le1 {
			return "length tests in " + declName(fd)
		}
		id, ok := unparen(m).(*ast.Ident)
		if !ok || depth >= 3 {
			return ""
		}
		pi := paramIndex(info, fd, id)
		if pi < 0 || writtenIn(info, fd, id) {
			return ""
		}
		fobj := info.Defs[fd.Name]
		sites, good := 0, 0
		for _, caller := range decls {
			ast.Inspect(caller.Body, func(nd ast.Node) bool {
				call, ok := nd.(*ast.CallExpr)
				if !ok {
					return true
				}
				var callee types.Object
				switch fx := call.Fun.(type) {
				case *ast.Ident:
					callee = info.Uses[fx]
				case *ast.SelectorExpr:
					callee = info.Uses[fx.Sel]
				}
				if callee == nil || callee != fobj || pi >= len(call.Args) {
					return true
				}
				sites++
				if rec(caller, call, call.Args[pi], depth+1) != "" {
					good++
				}
				return true
			})
		}
		if sites > 0 && good == sites {
			return fmt.Sprintf("parameter of %s; at most one entry at each of its %d call sites", declName(fd), sites)
		}
		return ""
	}
	return rec(fd, rg, rg.X, 0)
}

func declName(fd *ast.FuncDecl) string {
	if fd.Recv != nil && len(fd.Recv.List) == 1 {
		return exprStr(fd.Recv.List[0].Type) + "." + fd.Name.Name
	}
	return fd.Name.Name
}

// isPickAny: body = assignments (=) to variables declared before the loop, then an unconditional
// unlabelled break.
func isPickAny(info *types.Info, rg *ast.RangeStmt) bool {
	l := rg.Body.List
	if len(l) < 2 {
		return false
	}
	br, ok := l[len(l)-1].(*ast.BranchStmt)
	if !ok || br.Tok != token.BREAK || br.Label != nil {
		return false
	}
	for _, s := range l[:len(l)-1] {
		as, ok := s.(*ast.AssignStmt)
		if !ok || as.Tok != token.ASSIGN {
			return false
		}
		for _, lh := range as.Lhs {
			id := identOf(lh)
			if id == nil {
				return false
			}
			o := info.Uses[id]
			if o == nil || o.Pos() >= rg.Pos() {
				return false
			}
		}
	}
	return true
}

type lenFact struct{ eq1, le1, ge1 bool }

// lenFacts: what the conditions enclosing `at` (and panicking guards before it) say about len(m).
func lenFacts(info *types.Info, fd *ast.FuncDecl, at ast.Node, m ast.Expr) lenFact {
	ms := exprStr(m)
	lenVars := map[string]bool{"len(" + ms + ")": true}
	ast.Inspect(fd.Body, func(n ast.Node) bool {
		if as, ok := n.(*ast.AssignStmt); ok && len(as.Lhs) == 1 && len(as.Rhs) == 1 && exprStr(as.Rhs[0]) == "len("+ms+")" {
			if id := identOf(as.Lhs[0]); id != nil && assignedOnce(fd, id.Name) {
				lenVars[id.Name] = true
			}
		}
		return true
	})
	var f lenFact
	// cmp: the fact that `X op k` (X a length of m) being true/false gives
	apply := func(cond ast.Expr, truth bool) {
		be, ok := unparen(cond).(*ast.BinaryExpr)
		if !ok {
			return
		}
		op := be.Op
		x, y := be.X, be.Y
		if !lenVars[exprStr(x)] && lenVars[exprStr(y)] {
			x, y = y, x
			switch op {
			case token.LSS:
				op = token.GTR
			case token.GTR:
				op = token.LSS
			case token.LEQ:
				op = token.GEQ
			case token.GEQ:
				op = token.LEQ
			}
		}
		if !lenVars[exprStr(x)] {
			return
		}
		k, ok := exprInt(info, y)
		if !ok {
			return
		}
		if !truth {
			switch op {
			case token.EQL:
				op = token.NEQ
			case token.NEQ:
				op = token.EQL
			case token.LSS:
				op = token.GEQ
			case token.GEQ:
				op = token.LSS
			case token.GTR:
				op = token.LEQ
			case token.LEQ:
				op = token.GTR
			}
		}
		switch {
		case op == token.EQL && k == 1:
			f.eq1 = true
		case op == token.LEQ && k == 1, op == token.LSS && k == 2:
			f.le1 = true
		case op == token.GEQ && k == 1, op == token.GTR && k == 0, op == token.NEQ && k == 0:
			f.ge1 = true
		case op == token.EQL && k == 0:
			// known empty: no fact that helps
		}
	}
	var path []ast.Node
	ast.Inspect(fd.Body, func(n ast.Node) bool {
		if n == nil {
			path = path[:len(path)-1]
			return true
		}
		path = append(path, n)
		if n == at {
			for i := len(path) - 2; i >= 0; i-- {
				ifs, ok := path[i].(*ast.IfStmt)
				if !ok || i+1 >= len(path) {
					continue
				}
				if path[i+1] == ast.Node(ifs.Body) {
					for _, cj := range conjuncts(ifs.Cond) {
						apply(cj, true)
					}
				} else if ifs.Else != nil && path[i+1] == ast.Node(ifs.Else) {
					if len(conjuncts(ifs.Cond)) == 1 {
						apply(ifs.Cond, false)
					}
				}
			}
		}
		return true
	})
	// earlier top-level guards that do not fall through: if cond { panic/return }
	for _, s := range fd.Body.List {
		if s.Pos() >= at.Pos() {
			break
		}
		ifs, ok := s.(*ast.IfStmt)
		if !ok || ifs.Else != nil || ifs.Init != nil || len(ifs.Body.List) == 0 {
			continue
		}
		if !neverFallsThrough(info, ifs.Body.List[len(ifs.Body.List)-1]) {
			continue
		}
		if len(disjuncts(ifs.Cond)) == 1 {
			apply(ifs.Cond, false)
		}
	}
	if f.eq1 {
		f.le1, f.ge1 = true, true
	}
	return f
}

func conjuncts(e ast.Expr) []ast.Expr {
	if be, ok := unparen(e).(*ast.BinaryExpr); ok && be.Op == token.LAND {
		return append(conjuncts(be.X), conjuncts(be.Y)...)
	}
	return []ast.Expr{e}
}

func disjuncts(e ast.Expr) []ast.Expr {
	if be, ok := unparen(e).(*ast.BinaryExpr); ok && be.Op == token.LOR {
		return append(disjuncts(be.X), disjuncts(be.Y)...)
	}
	return []ast.Expr{e}
}

func neverFallsThrough(info *types.Info, s ast.Stmt) bool {
	switch x := s.(type) {
	case *ast.ReturnStmt:
		return true
	case *ast.ExprStmt:
		if call, ok := x.X.(*ast.CallExpr); ok {
			if b, ok := info.Uses[identOf(call.Fun)].(*types.Builtin); ok && b.Name() == "panic" {
				return true
			}
		}
	}
	return false
}

func assignedOnce(fd *ast.FuncDecl, name string) bool {
	n := 0
	ast.Inspect(fd.Body, func(nd ast.Node) bool {
		switch x := nd.(type) {
		case *ast.AssignStmt:
			for _, l := range x.Lhs {
				if id, ok := l.(*ast.Ident); ok && id.Name == name {
					n++
				}
			}
		case *ast.IncDecStmt:
			if id, ok := x.X.(*ast.Ident); ok && id.Name == name {
				n += 2
			}
		case *ast.UnaryExpr:
			if id, ok := x.X.(*ast.Ident); ok && x.Op == token.AND && id.Name == name {
				n += 2
			}
		}
		return true
	})
	return n == 1
}

// c19ExactlyOne: len(m) == 1 at `at` in fd, locally or at every call site when m is a parameter.
func c19ExactlyOne(c *Ctx, info *types.Info, decls []*ast.FuncDecl, fd *ast.FuncDecl, at ast.Node, m ast.Expr, depth int) (bool, string) {
	f := lenFacts(info, fd, at, m)
	if f.le1 && f.ge1 {
		return true, "the map holds exactly one entry here (length tests around the loop in " + declName(fd) + ")"
	}
	id, isIdent := unparen(m).(*ast.Ident)
	if isIdent && depth < 3 {
		if pi := paramIndex(info, fd, id); pi >= 0 && !writtenIn(info, fd, id) {
			fobj := info.Defs[fd.Name]
			sites := 0
			for _, caller := range decls {
				var bad string
				ast.Inspect(caller.Body, func(nd ast.Node) bool {
					call, ok := nd.(*ast.CallExpr)
					if !ok || bad != "" {
						return bad == ""
					}
					var callee types.Object
					switch fx := call.Fun.(type) {
					case *ast.Ident:
						callee = info.Uses[fx]
					case *ast.SelectorExpr:
						callee = info.Uses[fx.Sel]
					}
					if callee == nil || callee != fobj || pi >= len(call.Args) {
						return true
					}
					sites++
					ok2, d := c19ExactlyOne(c, info, decls, caller, call, call.Args[pi], depth+1)
					if !ok2 {
						bad = "call at " + c.pos(call.Pos()) + ": " + d
					}
					return true
				})
				if bad != "" {
					return false, bad
				}
			}
			if sites > 0 {
				return true, fmt.Sprintf("the map is a parameter of %s and holds exactly one entry at each of its %d call sites", declName(fd), sites)
			}
			return false, "the map is a parameter of " + declName(fd) + " and no call site was found to establish its size"
		}
	}
	switch {
	case f.le1:
		return false, "the map holds at most one entry here but nothing shows it is non-empty"
	case f.ge1:
		return false, "nothing shows the map holds at most one entry"
	}
	return false, "no length test on " + exprStr(m) + " governs the pick-any loop"
}

func paramIndex(info *types.Info, fd *ast.FuncDecl, id *ast.Ident) int {
	o := info.Uses[id]
	i := 0
	for _, fl := range fd.Type.Params.List {
		for _, nm := range fl.Names {
			if info.Defs[nm] == o && o != nil {
				return i
			}
			i++
		}
		if len(fl.Names) == 0 {
			i++
		}
	}
	return -1
}

// writtenIn: the parameter map is stored into, deleted from or reassigned inside fd.
func writtenIn(info *types.Info, fd *ast.FuncDecl, id *ast.Ident) bool {
	o := info.Uses[id]
	w := false
	ast.Inspect(fd.Body, func(nd ast.Node) bool {
		switch x := nd.(type) {
		case *ast.AssignStmt:
			for _, l := range x.Lhs {
				if ix, ok := unparen(l).(*ast.IndexExpr); ok {
					if b := identOf(ix.X); b != nil && info.Uses[b] == o {
						w = true
					}
				}
				if b, ok := l.(*ast.Ident); ok && info.Uses[b] == o {
					w = true
				}
			}
		case *ast.CallExpr:
			if b, ok := info.Uses[identOf(x.Fun)].(*types.Builtin); ok && (b.Name() == "delete" || b.Name() == "clear") && len(x.Args) > 0 {
				if a := identOf(x.Args[0]); a != nil && info.Uses[a] == o {
					w = true
				}
			}
		}
		return true
	})
	return w
}

// c19PickChains: pick-any loops whose non-emptiness does not follow from a length test but from
// how the map is filled. key = function/map expression. The function returns "" if every link
// holds on the current tree, or the broken link.
var c19PickChains = map[string]func(c *Ctx, info *types.Info, decls []*ast.FuncDecl, fd *ast.FuncDecl, rg *ast.RangeStmt) string{
	// refFieldNameToType in the dynamic-component expander: filled from a set of reference field
	// names collected from the sub-fields listed in the index-list parameter.
	"*codeGenerator.genExpandComponentsDyn/refFieldNameToType": c19ChainDynComp,
}

func c19ChainDynComp(c *Ctx, info *types.Info, decls []*ast.FuncDecl, fd *ast.FuncDecl, rg *ast.RangeStmt) string {
	m := exprStr(rg.X)
	// link 1: `for k := range S { ... if m[k] == "" { panic } }` before the pick: S non-empty => m non-empty
	var set ast.Expr
	for _, s := range fd.Body.List {
		if s.Pos() >= rg.Pos() {
			break
		}
		fr, ok := s.(*ast.RangeStmt)
		if !ok || fr.Key == nil {
			continue
		}
		if _, isMap := info.TypeOf(fr.X).Underlying().(*types.Map); !isMap {
			continue
		}
		k := exprStr(fr.Key)
		for _, bs := range fr.Body.List {
			ifs, ok := bs.(*ast.IfStmt)
			if !ok || len(ifs.Body.List) == 0 || !neverFallsThrough(info, ifs.Body.List[len(ifs.Body.List)-1]) {
				continue
			}
			cs := strings.ReplaceAll(exprStr(ifs.Cond), " ", "")
			if cs == m+"["+k+"]==\"\"" {
				set = fr.X
			}
		}
	}
	if set == nil {
		return "no loop over the reference-name set that gives every member an entry in " + m + " or panics"
	}
	// link 2: the set is filled unconditionally: for _, i := range <slice param> { sf := X.Subfields[i]; for _, n := range sf.RefFieldName { S[n] = ... } }
	filled := false
	var listParam *ast.Ident
	for _, s := range fd.Body.List {
		outer, ok := s.(*ast.RangeStmt)
		if !ok || outer.Value == nil {
			continue
		}
		lp := identOf(outer.X)
		if lp == nil || paramIndex(info, fd, lp) < 0 {
			continue
		}
		sub := "" // local bound to X.Subfields[i]
		for _, bs := range outer.Body.List {
			switch x := bs.(type) {
			case *ast.AssignStmt:
				if len(x.Lhs) == 1 && len(x.Rhs) == 1 {
					if ix, ok := unparen(x.Rhs[0]).(*ast.IndexExpr); ok && strings.HasSuffix(exprStr(ix.X), ".Subfields") && exprStr(ix.Index) == exprStr(outer.Value) {
						sub = exprStr(x.Lhs[0])
					}
				}
			case *ast.RangeStmt:
				if sub == "" || x.Value == nil || exprStr(x.X) != sub+".RefFieldName" {
					continue
				}
				for _, is := range x.Body.List {
					if as, ok := is.(*ast.AssignStmt); ok && len(as.Lhs) == 1 {
						if ix, ok := unparen(as.Lhs[0]).(*ast.IndexExpr); ok && exprStr(ix.X) == exprStr(set) && exprStr(ix.Index) == exprStr(x.Value) {
							filled = true
							listParam = lp
						}
					}
				}
			}
		}
	}
	if !filled {
		return "the reference-name set " + exprStr(set) + " is not filled unconditionally from the RefFieldName of every listed sub-field"
	}
	// link 3: every store to Field.RefFieldName in the generator is the result of strings.Split (never empty)
	nRef := 0
	for _, fn := range c.moduleFuncs() {
		if fnPkgPath(fn) != genPath {
			continue
		}
		for _, b := range fn.Blocks {
			for _, ins := range b.Instrs {
				st, ok := ins.(*ssa.Store)
				if !ok {
					continue
				}
				fa, ok := st.Addr.(*ssa.FieldAddr)
				if !ok || fieldName(fa) != "RefFieldName" {
					continue
				}
				nRef++
				call, ok := st.Val.(*ssa.Call)
				if !ok || call.Common().StaticCallee() == nil || call.Common().StaticCallee().String() != "strings.Split" {
					return "RefFieldName is assigned at " + c.pos(st.Pos()) + " from something other than strings.Split: it may be empty"
				}
			}
		}
	}
	if nRef == 0 {
		return "no assignment to Field.RefFieldName found"
	}
	// link 4: the index list comes from a map[int][]int whose entries are stored only when non-empty
	pi := paramIndex(info, fd, listParam)
	fobj := info.Defs[fd.Name]
	sites := 0
	for _, caller := range decls {
		var bad string
		ast.Inspect(caller.Body, func(nd ast.Node) bool {
			call, ok := nd.(*ast.CallExpr)
			if !ok {
				return true
			}
			sel, ok := call.Fun.(*ast.SelectorExpr)
			if !ok || info.Uses[sel.Sel] != fobj || pi >= len(call.Args) {
				return true
			}
			sites++
			// the argument is the value variable of a range over a map[int][]int
			arg := identOf(call.Args[pi])
			found := false
			if arg != nil {
				ast.Inspect(caller.Body, func(n2 ast.Node) bool {
					if r2, ok := n2.(*ast.RangeStmt); ok && r2.Value != nil && exprStr(r2.Value) == arg.Name && r2.Pos() < call.Pos() && call.End() <= r2.End() {
						if mt, ok := info.TypeOf(r2.X).Underlying().(*types.Map); ok && mt.Elem().String() == "[]int" {
							found = true
						}
					}
					return true
				})
			}
			if !found {
				bad = "the index list passed at " + c.pos(call.Pos()) + " is not an entry of the per-message index map"
			}
			return true
		})
		if bad != "" {
			return bad
		}
	}
	if sites == 0 {
		return "no call site of " + declName(fd)
	}
	nStores := 0
	for _, d := range decls {
		var bad string
		ast.Inspect(d.Body, func(nd ast.Node) bool {
			as, ok := nd.(*ast.AssignStmt)
			if !ok {
				return true
			}
			for i, l := range as.Lhs {
				ix, ok := unparen(l).(*ast.IndexExpr)
				if !ok {
					continue
				}
				mt, ok := info.TypeOf(ix.X).Underlying().(*types.Map)
				if !ok || mt.Elem().String() != "[]int" || i >= len(as.Rhs) {
					continue
				}
				nStores++
				if !lenFacts(info, d, as, as.Rhs[i]).ge1 {
					bad = "an index list is stored at " + c.pos(as.Pos()) + " without a test that it is non-empty"
				}
			}
			return true
		})
		if bad != "" {
			return bad
		}
	}
	if nStores == 0 {
		return "no store into the per-message index map found"
	}
	return ""
}

func fieldName(fa *ssa.FieldAddr) string {
	t := fa.X.Type().Underlying()
	if p, ok := t.(*types.Pointer); ok {
		t = p.Elem().Underlying()
	}
	if st, ok := t.(*types.Struct); ok && fa.Field < st.NumFields() {
		return st.Field(fa.Field).Name()
	}
	return ""
}

// c19OutputWrites: the command replaces its output files. A file opened for writing without
// truncation keeps the tail of whatever the directory held before: the result then depends on
// the directory's history (not byte-identical between a fresh and a reused directory) and need
// not parse. Accepted: os.WriteFile and os.Create (both truncate), os.OpenFile whose constant
// flags are read-only or contain O_TRUNC (and not O_APPEND).
func c19OutputWrites(c *Ctx, r *Report) {
	const rule = "C19-R4-output-writes"
	n := 0
	for _, fn := range c.moduleFuncs() {
		pp := fnPkgPath(fn)
		if pp != mainPath && pp != genPath && pp != strPath {
			continue
		}
		if strings.HasSuffix(c.fset.Position(fn.Pos()).Filename, "_test.go") {
			continue
		}
		k := 0
		for _, ci := range allCalls(fn) {
			f := ci.Common().StaticCallee()
			if f == nil {
				continue
			}
			switch f.String() {
			case "os.WriteFile", "io/ioutil.WriteFile", "os.Create":
				n++
				k++
				r.ok(rule, fmt.Sprintf("%s/%s#%d", fn.Name(), f.Name(), k), c.pos(ci.Pos()), f.String()+" truncates an existing file")
			case "os.OpenFile":
				n++
				k++
				key := fmt.Sprintf("%s/OpenFile#%d", fn.Name(), k)
				fl, ok := ci.Common().Args[1].(*ssa.Const)
				if !ok || fl.Value == nil {
					r.undecided(rule, key, c.pos(ci.Pos()), "os.OpenFile with flags that are not a constant: cannot tell whether an existing output file is truncated")
					continue
				}
				v := fl.Int64()
				osp := f.Pkg.Pkg.Scope()
				cv := func(name string) int64 {
					if k, ok := osp.Lookup(name).(*types.Const); ok {
						if x, ok := constant.Int64Val(k.Val()); ok {
							return x
						}
					}
					return 0
				}
				wr := v&(cv("O_WRONLY")|cv("O_RDWR")) != 0
				switch {
				case !wr:
					r.ok(rule, key, c.pos(ci.Pos()), "opened read-only")
				case v&cv("O_APPEND") != 0:
					r.fail(rule, key, c.pos(ci.Pos()), "an output file is opened with O_APPEND: a second run appends to the first run's output")
				case v&cv("O_TRUNC") == 0 && v&cv("O_EXCL") == 0:
					r.fail(rule, key, c.pos(ci.Pos()), "an output file is opened for writing without O_TRUNC: when the directory already holds a longer file of that name its tail survives, so the output depends on the directory's history and need not parse")
				default:
					r.ok(rule, key, c.pos(ci.Pos()), "opened with O_TRUNC (or O_EXCL)")
				}
			}
		}
	}
	r.set("output_write_sites", n)
	r.need("file-writing calls in the command", n, 4)
}

// c19DynCompPremise: the one frozen exception of the determinism rule (genExpandComponents ranges
// over the map of dynamic-component fields) is harmless as long as no message has two such
// fields. Re-checked on every run against what the generator produced for the five bundled
// workbooks (the golden outputs) and against the checked-in messages.go: in every
// expandComponents body at most one top-level block switches on a reference field. Disabling
// rows can only remove such blocks.
func c19DynCompPremise(c *Ctx, r *Report) {
	const rule = "C19-R1-determinism"
	count := func(f *ast.File) (int, string) {
		worst, where := 0, ""
		for _, d := range f.Decls {
			fd, ok := d.(*ast.FuncDecl)
			if !ok || fd.Body == nil || fd.Name.Name != "expandComponents" {
				continue
			}
			n := 0
			for _, s := range fd.Body.List {
				ifs, ok := s.(*ast.IfStmt)
				if !ok {
					continue
				}
				for _, bs := range ifs.Body.List {
					if _, isSw := bs.(*ast.SwitchStmt); isSw {
						n++
						break
					}
				}
			}
			if n > worst {
				worst = n
				if fd.Recv != nil && len(fd.Recv.List) == 1 {
					where = exprStr(fd.Recv.List[0].Type)
				}
			}
		}
		return worst, where
	}
	nFiles := 0
	goldens, _ := filepath.Glob(filepath.Join(c.repo, "cmd/fitgen/internal/profile/testdata", "*.golden"))
	sort.Strings(goldens)
	for _, g := range goldens {
		data, err := os.ReadFile(g)
		if err != nil {
			continue
		}
		s := string(data)
		i := strings.Index(s, "\n// MESSAGES\n")
		j := strings.Index(s, "\n// PROFILE\n")
		if i < 0 || j < i {
			r.undecided(rule, "exception-premise/"+filepath.Base(g), "", "MESSAGES section not found in the golden output")
			continue
		}
		f, err := parser.ParseFile(token.NewFileSet(), "messages.go", s[i+1:j], parser.SkipObjectResolution)
		if err != nil {
			r.undecided(rule, "exception-premise/"+filepath.Base(g), "", "golden MESSAGES section does not parse: "+err.Error())
			continue
		}
		nFiles++
		w, where := count(f)
		r.check(w <= 1, rule, "exception-premise/"+strings.TrimSuffix(filepath.Base(g), ".xlsx.golden"), "", fmt.Sprintf("at most %d dynamic-component field per message in the output for this workbook", w), fmt.Sprintf("%s has %d dynamic-component fields in the generator's output for this workbook: genExpandComponents emits their blocks in map order, so two runs can differ", where, w))
	}
	for _, f := range c.fit.Syntax {
		if strings.HasSuffix(c.fset.Position(f.Pos()).Filename, "/messages.go") {
			nFiles++
			w, where := count(f)
			r.check(w <= 1, rule, "exception-premise/checked-in", "", fmt.Sprintf("at most %d dynamic-component field per message in messages.go", w), fmt.Sprintf("%s has %d dynamic-component fields: genExpandComponents emits their blocks in map order", where, w))
		}
	}
	r.need("generator outputs inspected for the determinism exception's premise", nFiles, 4)
}

// c19FlagPrecedence: "declare the requested SDK version": the string handed to the version parser
// is the -sdk flag whenever the flag is given, and the version in the zip file name only when it is
// not. Decided on the value's structure in main: a phi whose flag edge is under `flag != ""`, or a
// helper whose path terms return something other than the flag parameter only on paths that have
// tested the flag parameter to be empty.
func c19FlagPrecedence(c *Ctx, r *Report) {
	const rule = "C19-R2-version"
	mp := c.pkgs[mainPath]
	if mp == nil {
		return
	}
	var site *ssa.Call
	var host *ssa.Function
	for _, fn := range c.moduleFuncs() {
		if fnPkgPath(fn) != mainPath {
			continue
		}
		for _, ci := range allCalls(fn) {
			if f := ci.Common().StaticCallee(); f != nil && f.Name() == "parseMajorAndMinorSDKVersion" {
				if call, ok := ci.(*ssa.Call); ok {
					site, host = call, fn
				}
			}
		}
	}
	key := "main/sdk-flag-precedence"
	if site == nil {
		r.undecided(rule, key, "", "no call of parseMajorAndMinorSDKVersion found in the command")
		return
	}
	isFlag := func(v ssa.Value) bool {
		ld, ok := v.(*ssa.UnOp)
		if !ok || ld.Op != token.MUL {
			return false
		}
		call, ok := ld.X.(*ssa.Call)
		if !ok || call.Common().StaticCallee() == nil || call.Common().StaticCallee().String() != "flag.String" {
			return false
		}
		k, ok := call.Common().Args[0].(*ssa.Const)
		return ok && k.Value != nil && strings.Trim(k.Value.ExactString(), "\"") == "sdk"
	}
	flagNonEmpty := func(v ssa.Value) bool {
		bo, ok := v.(*ssa.BinOp)
		if !ok || bo.Op != token.NEQ || !isFlag(bo.X) {
			return false
		}
		k, ok := bo.Y.(*ssa.Const)
		return ok && k.Value != nil && k.Value.ExactString() == `""`
	}
	flagEmpty := func(v ssa.Value) bool {
		bo, ok := v.(*ssa.BinOp)
		if !ok || bo.Op != token.EQL || !isFlag(bo.X) {
			return false
		}
		k, ok := bo.Y.(*ssa.Const)
		return ok && k.Value != nil && k.Value.ExactString() == `""`
	}
	x := site.Common().Args[0]
	pos := c.pos(site.Pos())
	switch v := x.(type) {
	case *ssa.Phi:
		okAll := len(v.Edges) >= 2
		sawFlag := false
		for i, e := range v.Edges {
			p := v.Block().Preds[i]
			underNonEmpty := domByBoolEdge(host, p, true, flagNonEmpty) || domByBoolEdge(host, p, false, flagEmpty) || edgeOf(p, v.Block(), flagNonEmpty, true) || edgeOf(p, v.Block(), flagEmpty, false)
			underEmpty := domByBoolEdge(host, p, false, flagNonEmpty) || domByBoolEdge(host, p, true, flagEmpty) || edgeOf(p, v.Block(), flagNonEmpty, false) || edgeOf(p, v.Block(), flagEmpty, true)
			if isFlag(e) {
				sawFlag = true
				if !underNonEmpty {
					okAll = false
				}
			} else if !underEmpty {
				okAll = false
			}
		}
		r.check(okAll && sawFlag, rule, key, pos, "the -sdk flag is used whenever it is given; the zip file name only when it is not", "the version string is not `flag if given, else the zip name`: a run with -sdk and a zip input declares a version other than the one requested")
	case *ssa.Call:
		f := v.Common().StaticCallee()
		if f == nil || fnPkgPath(f) != mainPath || len(f.Blocks) == 0 {
			r.undecided(rule, key, pos, "the version string comes from "+calleeName(v.Common())+", which is not a helper of the command")
			return
		}
		pflag := ""
		for i, a := range v.Common().Args {
			if isFlag(a) {
				pflag = fmt.Sprintf("p%d", i)
			}
		}
		if pflag == "" {
			r.fail(rule, key, pos, "the helper that chooses the version string is not given the -sdk flag: the flag cannot override the zip file name")
			return
		}
		o := symPathsOpaque(f, 2, "parseSDKVersionStringFromZipFilePath")
		if o.why != "" {
			r.undecided(rule, key, pos, "the helper that chooses the version string is not readable as path terms: "+o.why)
			return
		}
		bad := ""
		for _, p := range o.paths {
			if len(p.rets) != 1 || p.rets[0] == pflag {
				continue
			}
			emptyKnown := false
			for _, cnd := range p.conds {
				if cnd == "T:(== "+pflag+" \"\")" || cnd == "T:(== \"\" "+pflag+")" {
					emptyKnown = true
				}
			}
			if !emptyKnown {
				bad = fmt.Sprintf("returns %s on a path with conditions %v", p.rets[0], p.conds)
			}
		}
		r.check(bad == "", rule, key, pos, "the helper returns something other than the -sdk flag only on paths where the flag is empty", "the helper that chooses the version string "+bad+", without having found the -sdk flag empty: a run with -sdk and a zip input declares the zip's version, not the one requested")
	default:
		if isFlag(x) {
			r.fail(rule, key, pos, "the version string is always the -sdk flag: a zip input without the flag has no version")
			return
		}
		r.undecided(rule, key, pos, "the version string is "+stripAddrs(pathOf(x))+", not a choice between the -sdk flag and the zip file name")
	}
}

// edgeOf: the edge p -> s is the true (want) / false edge of a test matching pred.
func edgeOf(p, s *ssa.BasicBlock, pred func(ssa.Value) bool, want bool) bool {
	if len(p.Instrs) == 0 {
		return false
	}
	ifi, ok := p.Instrs[len(p.Instrs)-1].(*ssa.If)
	if !ok || !pred(ifi.Cond) || p.Succs[0] == p.Succs[1] {
		return false
	}
	if want {
		return p.Succs[0] == s
	}
	return p.Succs[1] == s
}

// c19InputLimits: "for each supported SDK workbook ... the command exits successfully": a size limit
// the command puts on its input (a comparison of an archive entry's or a file's size with a
// constant, an io.LimitReader) must admit every workbook the repository bundles; the largest of
// them is measured on every run.
func c19InputLimits(c *Ctx, r *Report) {
	const rule = "C19-R4-input-limits"
	books, _ := filepath.Glob(filepath.Join(c.repo, "cmd/fitgen/internal/profile/testdata", "*.xlsx"))
	var maxSize int64
	maxName := ""
	for _, b := range books {
		if st, err := os.Stat(b); err == nil && st.Size() > maxSize {
			maxSize, maxName = st.Size(), filepath.Base(b)
		}
	}
	if maxSize == 0 {
		r.fail(rule, "workbooks", "", "no bundled workbook found under cmd/fitgen/internal/profile/testdata")
		return
	}
	sizeLike := func(v ssa.Value) bool {
		p := pathOf(v)
		return strings.Contains(p, "UncompressedSize") || strings.Contains(p, "CompressedSize") || strings.Contains(p, ".Size]") || strings.Contains(p, "FileInfo).Size") || strings.Contains(p, "call[dynamic:len]")
	}
	n := 0
	for _, fn := range c.moduleFuncs() {
		if fnPkgPath(fn) != mainPath && fnPkgPath(fn) != genPath {
			continue
		}
		if strings.HasSuffix(c.fset.Position(fn.Pos()).Filename, "_test.go") {
			continue
		}
		for _, b := range fn.Blocks {
			for _, ins := range b.Instrs {
				switch x := ins.(type) {
				case *ssa.BinOp:
					switch x.Op {
					case token.GTR, token.GEQ, token.LSS, token.LEQ:
					default:
						continue
					}
					var k *ssa.Const
					var other ssa.Value
					if kc, ok := x.Y.(*ssa.Const); ok {
						k, other = kc, x.X
					} else if kc, ok := x.X.(*ssa.Const); ok {
						k, other = kc, x.Y
					}
					if k == nil || k.Value == nil || !sizeLike(stripConv(other)) {
						continue
					}
					lim, ok := constBits(k.Value, 64)
					if !ok || lim < 4096 {
						continue // not an input-size limit (small structural constants)
					}
					n++
					r.check(int64(lim) >= maxSize, rule, fmt.Sprintf("%s/size-test#%d", fn.Name(), n), c.pos(x.Pos()), fmt.Sprintf("limit %d admits the largest bundled workbook (%s, %d bytes)", lim, maxName, maxSize), fmt.Sprintf("the command compares an input size with %d, but the bundled workbook %s has %d bytes: generating from it fails", lim, maxName, maxSize))
				case *ssa.Call:
					if f := x.Common().StaticCallee(); f != nil && f.String() == "io.LimitReader" && len(x.Common().Args) == 2 {
						n++
						key := fmt.Sprintf("%s/LimitReader#%d", fn.Name(), n)
						if k, ok := x.Common().Args[1].(*ssa.Const); ok && k.Value != nil {
							r.check(k.Int64() >= maxSize, rule, key, c.pos(x.Pos()), fmt.Sprintf("limit %d admits the largest bundled workbook (%d bytes)", k.Int64(), maxSize), fmt.Sprintf("input is read through io.LimitReader(%d), but the bundled workbook %s has %d bytes: it is cut short", k.Int64(), maxName, maxSize))
						} else {
							r.undecided(rule, key, c.pos(x.Pos()), "input is read through an io.LimitReader whose limit is not a constant")
						}
					}
				}
			}
		}
	}
	r.ok(rule, "scan", "", fmt.Sprintf("%d size limits on the command's input; largest bundled workbook %s = %d bytes", n, maxName, maxSize))
}

// c19Imports: "sources that compile": which packages a generated file imports must not depend on
// the profile unless every emitter that refers to the package is counted. At HEAD the import
// blocks are emitted unconditionally (and the templates use each package in code that is always
// emitted). An import line emitted under a condition is reported: for the profiles on which the
// condition and the emitters disagree the output has an unused or a missing import.
func c19Imports(c *Ctx, r *Report) {
	const rule = "C19-R2-imports"
	p := c.pkgs[genPath]
	if p == nil {
		return
	}
	n := 0
	for _, f := range p.Syntax {
		if strings.HasSuffix(c.fset.Position(f.Pos()).Filename, "_test.go") {
			continue
		}
		for _, d := range f.Decls {
			fd, ok := d.(*ast.FuncDecl)
			if !ok || fd.Body == nil {
				continue
			}
			top := map[ast.Stmt]bool{}
			for _, s := range fd.Body.List {
				top[s] = true
			}
			var stack []ast.Node
			ast.Inspect(fd.Body, func(nd ast.Node) bool {
				if nd == nil {
					stack = stack[:len(stack)-1]
					return true
				}
				stack = append(stack, nd)
				es, ok := nd.(*ast.ExprStmt)
				if !ok || !isGP(es.X) {
					return true
				}
				call := es.X.(*ast.CallExpr)
				isImport := false
				for _, a := range call.Args {
					if bl, ok := a.(*ast.BasicLit); ok && bl.Kind == token.STRING {
						v := bl.Value
						if len(v) > 6 && strings.HasPrefix(v, `"\"`) && strings.HasSuffix(v, `\""`) && !strings.ContainsAny(v[3:len(v)-3], " ({") {
							isImport = true
						}
					}
				}
				if !isImport {
					return true
				}
				n++
				key := fmt.Sprintf("%s/import-line#%d", declName(fd), n)
				cond := ""
				for _, anc := range stack[:len(stack)-1] {
					switch x := anc.(type) {
					case *ast.IfStmt:
						cond = "if " + exprStr(x.Cond)
					case *ast.ForStmt, *ast.RangeStmt, *ast.SwitchStmt, *ast.CaseClause:
						cond = fmt.Sprintf("a %T", x)
					}
				}
				r.check(cond == "" && top[es], rule, key, c.pos(es.Pos()), "import line emitted unconditionally", "an import line of a generated file is emitted under "+cond+": for a product profile on which that condition and the code that refers to the package disagree, the generated source has an unused or a missing import and does not compile")
				return true
			})
		}
	}
	r.need("import lines emitted by the generator", n, 4)
}

// c19OptionsFromFlags (C19-R2-options-from-flags, after wave-11 seed C19-L): which generator options
// the command passes is decided by the command-line flags alone — every conditional
// `append(options, profile.WithX())` in the command is controlled only by loads of flag variables
// (and by error exits). An option switched on by the SDK version, the file name or the input makes
// the output for a given (workbook, flags) pair differ from what the flags say: with the
// heart-rate-source-type quirk on, a row the profile disables is emitted.
func c19OptionsFromFlags(c *Ctx, r *Report) {
	const rule = "C19-R2-options-from-flags"
	n := 0
	var isFlagLoad func(v ssa.Value) bool
	isFlagLoad = func(v ssa.Value) bool {
		for i := 0; i < 3; i++ {
			switch x := v.(type) {
			case *ssa.Parameter:
				// a flag value handed down: every call site passes one
				g := x.Parent()
				pi := ssaParamIndex(g, x)
				node := c.callGraph().Nodes[g]
				if node == nil || len(node.In) == 0 || pi < 0 {
					return false
				}
				for _, e := range node.In {
					if e.Site == nil || pi >= len(e.Site.Common().Args) || e.Site.Common().IsInvoke() || !isFlagLoad(e.Site.Common().Args[pi]) {
						return false
					}
				}
				return true
			case *ssa.BinOp:
				if _, isK := x.Y.(*ssa.Const); isK {
					v = x.X
					continue
				}
				if _, isK := x.X.(*ssa.Const); isK {
					v = x.Y
					continue
				}
				return false
			case *ssa.UnOp:
				if x.Op == token.NOT {
					v = x.X
					continue
				}
				if x.Op == token.MUL {
					if call, ok := x.X.(*ssa.Call); ok && call.Common().StaticCallee() != nil && call.Common().StaticCallee().Pkg != nil && call.Common().StaticCallee().Pkg.Pkg.Path() == "flag" {
						return true
					}
				}
				return false
			case *ssa.Const:
				return true
			default:
				return false
			}
		}
		return false
	}
	for _, fn := range c.moduleFuncs() {
		if fnPkgPath(fn) != mainPath {
			continue
		}
		for _, b := range fn.Blocks {
			for _, ins := range b.Instrs {
				call, ok := ins.(*ssa.Call)
				if !ok {
					continue
				}
				f := call.Common().StaticCallee()
				if f == nil || fnPkgPath(f) != genPath || !strings.HasPrefix(f.Name(), "With") || f.Signature.Results().Len() != 1 || !strings.HasSuffix(f.Signature.Results().At(0).Type().String(), ".GeneratorOption") {
					continue
				}
				n++
				extra := extraControllersBy(c, fn, b, true, isFlagLoad)
				r.check(extra == "", rule, fmt.Sprintf("%s/%s", fn.Name(), f.Name()), c.pos(call.Pos()), "passed unconditionally or under command-line flags only", "generator option "+f.Name()+" is passed depending on "+extra+", which is not a command-line flag: the output for a given workbook and flag set is no longer what the flags say")
			}
		}
	}
	r.need("generator options constructed in the command", n, 3)
}

// c19FullScans (C19-R5-full-scan, after wave-11 seed C19-K): a loop in the generator that walks a slice
// downwards from its last index and looks only at element i must reach index 0 — `for i := len(x)-1;
// i > 0; i--` skips the first element, which in a lookup ("find the field named N") means the first
// row of a message is never found (the generator then stops with "target field not found" for a
// profile whose component target happens to be the first enabled row). Loops that also look at
// element i-1 (pairwise walks) end at 1 by design and are not reported.
func c19FullScans(c *Ctx, r *Report) {
	const rule = "C19-R5-full-scan"
	nLoops := 0
	for _, fn := range c.moduleFuncs() {
		if pp := fnPkgPath(fn); pp != mainPath && pp != genPath && pp != strPath {
			continue
		}
		for _, b := range fn.Blocks {
			for _, ins := range b.Instrs {
				phi, ok := ins.(*ssa.Phi)
				if !ok {
					break
				}
				if len(phi.Edges) != 2 {
					continue
				}
				var init, step ssa.Value
				for i, e := range phi.Edges {
					if b.Dominates(b.Preds[i]) {
						step = e
					} else {
						init = e
					}
				}
				dec, isDec := step.(*ssa.BinOp)
				if !isDec || dec.X != ssa.Value(phi) {
					continue
				}
				k, isK := dec.Y.(*ssa.Const)
				if !isK || k.Value == nil || !((dec.Op == token.SUB && k.Int64() == 1) || (dec.Op == token.ADD && k.Int64() == -1)) {
					continue
				}
				// init = len(x) - 1
				ib, isB := init.(*ssa.BinOp)
				if !isB || ib.Op != token.SUB {
					continue
				}
				if one, ok := ib.Y.(*ssa.Const); !ok || one.Value == nil || one.Int64() != 1 {
					continue
				}
				lc, isCall := ib.X.(*ssa.Call)
				if !isCall {
					continue
				}
				if bi, isBi := lc.Common().Value.(*ssa.Builtin); !isBi || bi.Name() != "len" {
					continue
				}
				nLoops++
				ifi, isIf := b.Instrs[len(b.Instrs)-1].(*ssa.If)
				if !isIf {
					continue
				}
				cond, isC := ifi.Cond.(*ssa.BinOp)
				if !isC || cond.X != ssa.Value(phi) {
					continue
				}
				z, isZ := cond.Y.(*ssa.Const)
				skipsZero := isZ && z.Value != nil && ((cond.Op == token.GTR && z.Int64() == 0) || (cond.Op == token.GEQ && z.Int64() == 1))
				if !skipsZero {
					r.ok(rule, fmt.Sprintf("%s/down-loop@%s", fn.Name(), c.pos(phi.Pos())), c.pos(phi.Pos()), "downward scan reaches index 0")
					continue
				}
				// pairwise walk: some use of i-1 as an index
				pair := false
				for _, ref := range *phi.Referrers() {
					if bo, ok := ref.(*ssa.BinOp); ok && bo != dec && bo.Op == token.SUB && bo.X == ssa.Value(phi) {
						for _, r2 := range *bo.Referrers() {
							if _, isIA := r2.(*ssa.IndexAddr); isIA {
								pair = true
							}
							if _, isIx := r2.(*ssa.Index); isIx {
								pair = true
							}
						}
					}
				}
				if dec.Referrers() != nil {
					for _, r2 := range *dec.Referrers() {
						if _, isIA := r2.(*ssa.IndexAddr); isIA {
							pair = true
						}
					}
				}
				r.check(pair, rule, fmt.Sprintf("%s/down-loop@%s", fn.Name(), c.pos(phi.Pos())), c.pos(phi.Pos()), "pairwise walk (elements i and i-1): ends at 1 by design", "a downward scan over "+stripAddrs(pathOf(lc.Common().Args[0]))+" stops before index 0 (`i > 0`) and looks at element i only: the first element is never examined")
			}
		}
	}
	r.ok(rule, "scan", "", fmt.Sprintf("%d downward index loops in the generator packages examined", nLoops))
}

// c19ConstIndex (C19-R5-const-index, after wave-13 seed C19-N): in the generator packages an element
// x[k] with a constant k of a slice read from a struct field needs a dominating length test of the same
// slice (len(x) > k in one of its spellings). "The first sub-field", "the first component" exist for
// every row of the shipped workbooks and for none of the rows a product profile switches off: an
// unguarded x[0] is where the generator stops with an index-out-of-range panic for such a profile.
// Examined: slices, read from a struct field, of the generator's own structure types (fields,
// sub-fields, components, messages). Rows of cells (fixed width given by the parser), results of
// calls (strings.Split always yields one element) and local literals are not.
func c19ConstIndex(c *Ctx, r *Report) {
	const rule = "C19-R5-const-index"
	n := 0
	for _, fn := range c.moduleFuncs() {
		if pp := fnPkgPath(fn); pp != genPath && pp != mainPath {
			continue
		}
		idx := 0
		for _, b := range fn.Blocks {
			for _, ins := range b.Instrs {
				ia, ok := ins.(*ssa.IndexAddr)
				if !ok {
					continue
				}
				k, isK := ia.Index.(*ssa.Const)
				if !isK || k.Value == nil {
					continue
				}
				slt, isSl := ia.X.Type().Underlying().(*types.Slice)
				if !isSl {
					continue
				}
				// lists of the generator's own structures (fields, sub-fields, components, messages): these are
				// what a product profile makes empty. Rows of cells have a fixed width given by the parser.
				el := slt.Elem()
				if pt, isP := el.Underlying().(*types.Pointer); isP {
					el = pt.Elem()
				}
				nm, isNamed := el.(*types.Named)
				if !isNamed || nm.Obj().Pkg() == nil || nm.Obj().Pkg().Path() != genPath {
					continue
				}
				if _, isSt := nm.Underlying().(*types.Struct); !isSt {
					continue
				}
				// a slice loaded from a struct field
				ld, isLd := ia.X.(*ssa.UnOp)
				if !isLd || ld.Op != token.MUL {
					continue
				}
				if _, isFA := ld.X.(*ssa.FieldAddr); !isFA {
					continue
				}
				n++
				idx++
				why, ok2 := lenGuarded(fn, b, ia.X, k.Int64())
				if !ok2 {
					// inside a range over the same slice's parent? not recognised: report
					why = ""
				}
				key := fmt.Sprintf("%s/%s[%d]#%d", fn.Name(), strings.TrimPrefix(stripAddrs(pathOf(ia.X)), "*"), k.Int64(), idx)
				if os.Getenv("C19_DUMP") != "" {
					fmt.Println("C19IDX", c.pos(ia.Pos()), key, ok2)
				}
				r.check(ok2, rule, key, c.pos(ia.Pos()), why, "element "+fmt.Sprint(k.Int64())+" of "+strings.TrimPrefix(stripAddrs(pathOf(ia.X)), "*")+" is read without a length test of that slice: for a profile in which the list is empty (rows switched off) the generator stops with an index-out-of-range panic")
			}
		}
	}
	r.set("constant_index_sites_on_field_slices", n)
}
