package main

import (
	"fmt"
	"go/ast"
	"go/token"
	"go/types"
	"sort"
	"strings"

	"golang.org/x/tools/go/ssa"
)

func init() {
	register(&propDef{
		id: "C02", level: "other", run: runC02,
		explanation: "The statement is value-level and is NOT decided as a whole. Decided necessary conditions, each of which breaks decoded values when broken: (R1) byte-order discipline: every multi-byte read in the record-parsing functions uses the definition's own byte order; (R2) arm/table agreement: each arm of parseFitField/parseFitFieldArray reads Size(base) bytes and uses the setter family of its base type, and every base type that occurs in the profile table has an arm; (R3) sign extension: where the exactly computed accepted set of the validator admits a signed definition type narrower than the struct field, the conversion to int64 passes through the signed type of the read's width; (R4) all-invalid start and field targeting: the message comes from getMesgAllInvalid and every reflect write goes to Field(sindex) of the profile row looked up for the current (message, field number); (R5) skip by size: every field iteration consumes exactly the definition's size before any continue, and each developer descriptor consumes its own size; (R6) developer section: every success return of parseDefinitionMessage is reached through the developer-flag test; (R7) the scratch buffers do not escape into results; (R8) widening of narrow fields: little-endian zero fill of [size, profile size), big-endian right-alignment only for the kinds that read the profile-sized slot, never by an ascending overlapping self-copy. NOT decided: that the bytes placed in a struct field equal the wire value for every bit pattern; zero- versus sign-padding of narrow coordinates; string termination rules; developer-field content. Added: the string-array arm cuts strings inside a loop (more than one element can be produced); every return of parseTimeStamp other than the invalid-value exit is preceded by a Set of the field. (R12) every constructor gives every member the invalid value of its row's base type, so absent fields read as invalid. Every decode starts from fresh decoder state (C02-R13-per-file-state, C10-R4-shared-decode): a value is computed from this file's bytes only. (R14-time-conversion) parseTimeStamp's three conversion shapes are the recognised ones: a time field reads as its wire value. (R15-accepted-set) every field definition the validator accepted on the pinned tree is still accepted. (R16-array-elements-kept) the array stored is the slice the element loop filled. C12's rules for the rolling time reference run here too.",
		trusted:     []string{"exact folding of validateFieldDef (checker/eval.go, checker/matrix.go)", "reflect setter semantics (SetInt/SetUint truncate to the field width)", "builtin copy handles overlap"},
	})
}

func runC02(c *Ctx, r *Report) {
	// R1
	byteOrderDiscipline(c, r, "C02-R1-byte-order")
	m := c.matrix()
	ev := newEvaluator(c)
	decoderArms(c, r)
	// coverage: every base in the table has an arm
	for _, fc := range m.classes {
		if !fc.Found || fc.Kind != kindNative {
			continue
		}
		arms, kind := m.scalar, "scalar"
		if fc.Array {
			arms, kind = m.array, "array"
		}
		r.check(armFor(arms, fc.Base) != nil, "C02-R2-arm-coverage", fmt.Sprintf("%s/%s", kind, fc.Name), "", fmt.Sprintf("base %#02x of %d table rows has a %s arm", fc.Base, fc.Rows, kind), fmt.Sprintf("base type %#02x occurs in %d profile rows (%s) but has no %s arm: those fields always fail to decode", fc.Base, fc.Rows, fc.Name, kind))
	}
	r.need("scalar arms", len(m.scalar), 8)
	r.need("array arms", len(m.array), 8)

	// ---- R3 sign extension -------------------------------------------------------------------------
	// which signed definition bases are admitted for a wider signed field?
	needExt := map[byte]string{}
	for _, fc := range m.classes {
		if !fc.Found || fc.Kind != kindNative || fc.Array {
			continue
		}
		pb := c.baseInfo(ev, fc.Base)
		if !pb.Signed || pb.Float {
			continue
		}
		tbl := m.accepted[fc.Name]
		if tbl == nil {
			continue
		}
		for db := 0; db < 256; db++ {
			di := c.baseInfo(ev, byte(db))
			if !di.Known || !di.Signed || di.Float || di.Size >= pb.Size {
				continue
			}
			for ds := 0; ds < 256; ds++ {
				if tbl[db][ds] {
					needExt[byte(db)] = fmt.Sprintf("validator admits base %#02x (size %d) for %s (base %#02x, %d bytes), e.g. message %d field %d", db, ds, fc.Name, fc.Base, pb.Size, fc.Msg, fc.Num)
					break
				}
			}
		}
	}
	var exts []int
	for k := range needExt {
		exts = append(exts, int(k))
	}
	sort.Ints(exts)
	for _, k := range exts {
		a := armFor(m.scalar, byte(k))
		key := fmt.Sprintf("scalar/base-%#02x", k)
		if a == nil {
			r.ok("C02-R3-sign-extension", key, "", "no arm (rejected)")
			continue
		}
		want := fmt.Sprintf("int%d", 8*a.Width)
		has := false
		for _, t := range a.ConvChain {
			if t == want {
				has = true
			}
		}
		r.check(has, "C02-R3-sign-extension", key, c.pos(a.Pos), "conversion chain "+strings.Join(a.ConvChain, "<-")+" sign-extends from the read width",
			fmt.Sprintf("the arm converts the unsigned %d-byte read to int64 (%s) without passing through %s: negative values of a field narrower than its profile type decode as large positive numbers. %s", a.Width, strings.Join(a.ConvChain, "<-"), want, needExt[byte(k)]))
	}
	r.set("signed_narrowings_admitted", len(exts))

	// ---- R4 ---------------------------------------------------------------------------------------------
	c02FieldTargets(c, r)
	c03MessageFlows(c, r) // every record starts from a fresh all-invalid message of its own number
	// ---- R5 ---------------------------------------------------------------------------------------------
	c02SkipBySize(c, r)
	// ---- R6 ---------------------------------------------------------------------------------------------
	if fn := c.ssaFn(c.fn(c.fit, "decoder.parseDefinitionMessage")); fn != nil {
		var test *ssa.BasicBlock
		for _, b := range fn.Blocks {
			if len(b.Instrs) == 0 {
				continue
			}
			if ifi, ok := b.Instrs[len(b.Instrs)-1].(*ssa.If); ok {
				p := pathOf(ifi.Cond)
				if strings.Contains(p, "(recordHeader&32)") {
					test = b
				}
			}
		}
		ok := test != nil
		n := 0
		where := ""
		if ok {
			for _, ret := range c.successReturns(fn) {
				n++
				if !test.Dominates(ret.Block()) {
					ok = false
					where = c.pos(ret.Pos())
				}
			}
		}
		r.check(ok && n > 0, "C02-R6-developer-section", "parseDefinitionMessage", c.pos(fn.Pos()), "every success return passes the developer-flag test", "a success return of parseDefinitionMessage ("+where+") is reached without testing the developer-data flag: a definition with that flag set keeps its developer field section in the stream, which is then parsed as record headers")
	}
	// ---- R7 ---------------------------------------------------------------------------------------------
	c02ScratchEscape(c, r)
	readFullExact(c, r, "C02-R10-readfull-exact")
	if ok, why, pos := stringArm(c); true {
		r.check(ok, "C02-R9-string-arm", "parseFitField/string-arm", pos, why, "a string field does not decode to the wire bytes before the first 0x00 inside the field: "+why)
	}
	c02StringArrayArm(c, r)
	c02AbsentInvalid(c, r)
	c02TimeAlwaysSet(c, r)
	// a decoded value depends on this file's bytes only: every decode starts from fresh decoder state
	// (reference time of compressed timestamps, definition slots, buffer cursors)
	perFileRule(c, r, "C02-R13-per-file-state", nil, "a value of this file (compressed timestamps, fields decoded through a stale definition or buffer) is computed from what an earlier decode left behind")
	sharedDecode(c, r)
	c02AcceptedSet(c, r)
	c02ArrayElementsKept(c, r)
	// the rolling reference of compressed timestamps advances with every compressed record and only
	// there, whatever message carries it (C12's rules): an unknown message in between does not disturb
	// the time of its neighbours
	r.only = map[string]bool{"C12-R3-guards": true, "C12-R2-who-rebases": true, "C12-R1-paired-update": true, "C12-R3-formula": true}
	runC12(c, r)
	r.only = nil
	// time values equal what the wire denotes: UTC = epoch + seconds; a local time reads, on the wall
	// clock, as epoch + its own seconds (the reference instant in a zone of offset local - UTC exactly)
	if fn := c.ssaFn(c.fn(c.fit, "decoder.parseTimeStamp")); fn != nil {
		okUTC, okNoRef, okRef := c12Branches(c, fn)
		r.check(okUTC && okNoRef && okRef, "C02-R14-time-conversion", "parseTimeStamp/shapes", c.pos(fn.Pos()), "UTC = epoch + seconds; local = the reference instant in a zone of offset exactly local - UTC (0 without reference)", fmt.Sprintf("parseTimeStamp's conversions are not the recognised ones (UTC %v, local without reference %v, local with reference %v): a time field no longer reads as its wire value", okUTC, okNoRef, okRef))
	} else {
		r.fail("C02-R14-time-conversion", "parseTimeStamp", "", "not found")
	}
	// ---- R8 ---------------------------------------------------------------------------------------------
	c02Widening(c, r)
}

// c02FieldTargets: R4.

// decoderArms: each arm of the scalar and the array field parser reads the width of its base type
// and stores through the reflect setter of that type's family (SetInt for signed, SetUint for
// unsigned, SetFloat, SetString, SetBytes): what the decoder does with the bytes of every base type,
// and so with the bytes Encode writes for it.
func decoderArms(c *Ctx, r *Report) {
	m := c.matrix()
	for i, e := range m.armErrs {
		r.undecided("C02-R2-arm-table", fmt.Sprintf("arm-extraction-%d", i), "", e)
	}
	r.set("validator_evaluations", m.nEval)
	r.set("validator_accepted_points", m.nAccept)
	ev := newEvaluator(c)
	// ---- R2 ----------------------------------------------------------------------------------------
	family := func(fb *fitBase) string {
		switch {
		case fb.invalidIs == "empty-string":
			return "SetString"
		case fb.float:
			return "SetFloat"
		case fb.signed:
			return "SetInt"
		}
		return "SetUint"
	}
	checkArms := func(kind string, arms []fieldArm) {
		for _, a := range arms {
			for _, k := range a.Consts {
				fb := fitBaseByWire(k)
				key := fmt.Sprintf("%s/base-%#02x", kind, k)
				if fb == nil {
					r.fail("C02-R2-arm-table", key, c.pos(a.Pos), "arm for a byte that is not a FIT base type")
					continue
				}
				bi := c.baseInfo(ev, k)
				wantW := bi.Size
				wantS := family(fb)
				if fb.name == "byte" && kind == "array" {
					wantS = "SetBytes"
				}
				if fb.invalidIs == "empty-string" {
					wantW = 1
					if kind == "array" {
						wantS = "Set"
					}
				}
				ok := a.Width == wantW && a.Setter == wantS
				r.check(ok, "C02-R2-arm-table", key, c.pos(a.Pos), fmt.Sprintf("%s arm for %s reads %d byte(s) and uses %s", kind, fb.name, a.Width, a.Setter),
					fmt.Sprintf("%s arm for %s reads %d byte(s) with %s; the base type is %d byte(s) wide and needs %s: decoded values are wrong for every such field", kind, fb.name, a.Width, a.Setter, wantW, wantS))
			}
		}
	}
	checkArms("scalar", m.scalar)
	checkArms("array", m.array)
}

func c02FieldTargets(c *Ctx, r *Report) {
	n := 0
	for _, fname := range []string{"decoder.parseDataFields", "decoder.parseDataMessage"} {
		fn := c.ssaFn(c.fn(c.fit, fname))
		if fn == nil {
			r.fail("C02-R4-field-targets", fname, "", "not found")
			continue
		}
		idx := 0
		for _, ci := range allCalls(fn) {
			f := ci.Common().StaticCallee()
			if f == nil || f.String() != "(reflect.Value).Field" {
				continue
			}
			n++
			key := fmt.Sprintf("%s/Field-%d", fn.Name(), idx)
			idx++
			recv := pathOf(ci.Common().Args[0])
			ix := ci.Common().Args[1]
			ld, ok := ix.(*ssa.UnOp)
			okIdx := false
			why := "index is not the sindex of a profile row"
			if ok {
				if fa, ok := ld.X.(*ssa.FieldAddr); ok && strings.HasSuffix(pathOf(fa), ".sindex") {
					if lk, ok := rowOf(fa.X); ok {
						a0, a1 := pathOf(lk.msgArg), pathOf(lk.numArg)
						okMsg := strings.HasSuffix(a0, ".globalMsgNum")
						okNum := strings.HasSuffix(a1, ".num") || a1 == "253"
						if okMsg && okNum {
							okIdx = true
						} else {
							why = "profile row is looked up for (" + a0 + ", " + a1 + "), not for the current definition's message and field number"
						}
					}
				}
			}
			okRecv := strings.Contains(recv, "msgv")
			r.check(okIdx && okRecv, "C02-R4-field-targets", key, c.pos(ci.Pos()), "writes go to msgv.Field(row.sindex) of the row looked up for the current (message, field number)", "a decoded value is written to "+recv+".Field(...) where "+why)
		}
	}
	r.need("reflect Field() targets in the data-record parser", n, 2)
	// exactness: a field present in the record and listed in the profile of a known message *is* decoded —
	// the calls that decode a field value (the scalar / array / time parsers, the coordinate Sets) are
	// control dependent, on the error-free part of the flow graph, only on "message known", "row found",
	// the row's own kind / array flag, loops and error exits. A further test (on the field's number or
	// size, on another field, on an option) leaves present fields at their invalid value.
	if fn := c.ssaFn(c.fn(c.fit, "decoder.parseDataFields")); fn != nil {
		var rowDerived func(v ssa.Value, depth int) bool
		rowDerived = func(v ssa.Value, depth int) bool {
			if depth > 6 {
				return false
			}
			switch x := v.(type) {
			case *ssa.Const:
				return true
			case *ssa.BinOp:
				return rowDerived(x.X, depth+1) && rowDerived(x.Y, depth+1)
			case *ssa.UnOp:
				if x.Op == token.NOT {
					return rowDerived(x.X, depth+1)
				}
				if x.Op == token.MUL {
					if fa, ok := x.X.(*ssa.FieldAddr); ok && isFieldOf(fa, "field", "t") {
						_, isRow := rowOf(fa.X)
						return isRow
					}
				}
				return false
			case *ssa.Call:
				f := x.Common().StaticCallee()
				if f == nil || f.Signature.Recv() == nil || fnPkgPath(f) != typesPath {
					return false
				}
				return rowDerived(x.Common().Args[0], depth+1)
			case *ssa.Convert:
				return rowDerived(x.X, depth+1)
			}
			return false
		}
		leaf := func(v ssa.Value) bool {
			if p, ok := v.(*ssa.Parameter); ok && p.Name() == "knownMsg" {
				return true
			}
			if _, _, ok := foundCond(v); ok {
				return true
			}
			if _, _, isNil := nilTest(v); isNil {
				return true
			}
			if _, ok := knownTableIndex(v); ok {
				return true
			}
			return rowDerived(v, 0)
		}
		nDec := 0
		for _, ci := range allCalls(fn) {
			f := ci.Common().StaticCallee()
			if f == nil {
				continue
			}
			isDec := false
			switch f.Name() {
			case "parseFitField", "parseFitFieldArray", "parseTimeStamp":
				isDec = fnPkgPath(f) == modPath
			case "Set":
				isDec = f.String() == "(reflect.Value).Set"
			}
			if !isDec {
				continue
			}
			nDec++
			extra := extraControllersBy(c, fn, ci.Block(), true, leaf)
			r.check(extra == "", "C02-R4-field-targets", fmt.Sprintf("parseDataFields/decoded-iff-listed#%d", nDec), c.pos(ci.Pos()), "decoded for every listed field of a known message (controlled by known / found / the row's kind only)", "whether a present, listed field is decoded also depends on "+extra+": fields for which that fails keep their invalid value although the record carries them")
		}
		r.need("field-decoding calls in parseDataFields", nDec, 3) // the three parsers; the coordinate Sets may sit in a helper
	}
}

// c02SkipBySize: R5.
func c02SkipBySize(c *Ctx, r *Report) {
	fn := c.ssaFn(c.fn(c.fit, "decoder.parseDataFields"))
	if fn == nil {
		r.fail("C02-R5-skip-by-size", "parseDataFields", "", "not found")
		return
	}
	n := 0
	sections := map[string]*ssa.BasicBlock{}
	defer func() {
		// both sections are entered before every success return: no path reports success for a record
		// without having walked its field definitions and its developer field descriptions
		for _, what := range []string{"field", "developer field"} {
			h := sections[what]
			if h == nil {
				r.fail("C02-R5-skip-by-size", "parseDataFields/"+what+"-section", c.pos(fn.Pos()), "no loop consuming the "+what+" section was recognised")
				continue
			}
			bad := ""
			nret := 0
			for _, ret := range c.successReturns(fn) {
				nret++
				if !h.Dominates(ret.Block()) {
					bad = c.pos(ret.Pos())
				}
			}
			r.check(bad == "" && nret > 0, "C02-R5-skip-by-size", "parseDataFields/"+what+"-section-on-every-success-path", c.pos(fn.Pos()), "every success return is behind the loop over the "+what+" section", "parseDataFields reports success at "+bad+" on a path that never enters the loop consuming the "+what+" section: those bytes stay in the stream and are parsed as the next record")
		}
	}()
	for _, ci := range allCalls(fn) {
		f := ci.Common().StaticCallee()
		if f == nil || f.Name() != "readFull" {
			continue
		}
		n++
		arg := pathOf(ci.Common().Args[1])
		key := fmt.Sprintf("parseDataFields/readFull-%d", n)
		// the size comes from the loop's own element (range value copied into a local)
		src := arg
		if sl, ok := ci.Common().Args[1].(*ssa.Slice); ok && sl.High != nil {
			if cv, ok := sl.High.(*ssa.Convert); ok {
				if ld, ok := cv.X.(*ssa.UnOp); ok {
					if fa, ok := ld.X.(*ssa.FieldAddr); ok {
						if al, ok := fa.X.(*ssa.Alloc); ok {
							for _, ref := range *al.Referrers() {
								if st, ok := ref.(*ssa.Store); ok && st.Addr == ssa.Value(al) {
									src = pathOf(st.Val)
								}
							}
						} else {
							src = pathOf(fa.X)
						}
					}
				}
			}
		}
		isField := strings.Contains(src, "dm.fieldDefs[")
		isDev := strings.Contains(src, "dm.devDataFieldDescs[")
		okArg := strings.HasPrefix(arg, "d.tmp[0:conv<int>(") && strings.HasSuffix(arg, ".size)]") && (isField || isDev) && strings.Contains(src, "rangeindex")
		// the read must execute in every iteration: its block dominates every back edge source of its loop
		okDom := true
		blk := ci.Block()
		// loop header: nearest dominator with a predecessor it dominates
		var hdr *ssa.BasicBlock
		for x := blk; x != nil && hdr == nil; x = x.Idom() {
			for _, p := range x.Preds {
				if x.Dominates(p) {
					hdr = x
				}
			}
		}
		if hdr == nil {
			okDom = false
		} else {
			for _, p := range hdr.Preds {
				if hdr.Dominates(p) && !blk.Dominates(p) {
					okDom = false
				}
			}
		}
		what := "field"
		if isDev {
			what = "developer field"
		}
		if hdr != nil && (isField || isDev) {
			sections[what] = hdr
		}
		r.check(okArg && okDom, "C02-R5-skip-by-size", key, c.pos(ci.Pos()), "every "+what+" iteration consumes exactly the definition's size before continuing", fmt.Sprintf("%s data is not consumed by exactly its definition size in every iteration (argument %s, executed on every iteration: %v): unknown or skipped fields shift all following fields", what, arg, okDom))
	}
	r.need("readFull sites in parseDataFields", n, 2)
}

// c02ScratchEscape: R7.
func c02ScratchEscape(c *Ctx, r *Report) {
	roots, _ := c.rootFuncs(decodeRoots)
	ri := c.reach(roots)
	n := 0
	for _, fn := range ri.module() {
		if fnPkgPath(fn) != modPath {
			continue
		}
		idx := 0
		for _, b := range fn.Blocks {
			for _, ins := range b.Instrs {
				sl, ok := ins.(*ssa.Slice)
				if !ok {
					continue
				}
				base := pathOf(sl.X)
				if !(strings.HasSuffix(base, ".tmp") || strings.HasSuffix(base, ".bytes.buf")) {
					continue
				}
				n++
				for _, ref := range *sl.Referrers() {
					bad := ""
					switch u := ref.(type) {
					case *ssa.DebugRef, *ssa.Slice, *ssa.IndexAddr:
					case *ssa.Convert:
						if bb := basicOf(u.Type()); bb == nil || bb.Info()&types.IsString == 0 {
							bad = "converted to " + u.Type().String()
						}
					case *ssa.Call:
						cc := u.Common()
						name := ""
						if cc.IsInvoke() {
							name = cc.Method.Name()
							okI := strings.HasPrefix(name, "Uint") || name == "Write" && isHash16(cc.Value.Type()) || name == "Read" && cc.Value.Type().String() == "io.Reader"
							if !okI {
								bad = "passed to dynamic call " + name
							}
						} else if bi, ok := cc.Value.(*ssa.Builtin); ok {
							if bi.Name() == "copy" {
								if cc.Args[0] == ssa.Value(sl) && !strings.HasSuffix(base, ".tmp") {
									bad = "copy destination"
								}
							} else if bi.Name() != "len" {
								bad = "builtin " + bi.Name()
							}
						} else if f := cc.StaticCallee(); f != nil {
							switch f.String() {
							case "io.ReadFull", "(*" + modPath + ".decoder).readFull", "(encoding/binary.littleEndian).Uint16", "(encoding/binary.littleEndian).Uint32", "(encoding/binary.littleEndian).Uint64", "(encoding/binary.bigEndian).Uint16", "(encoding/binary.bigEndian).Uint32", "(encoding/binary.bigEndian).Uint64":
							default:
								if !scalarReader(f) {
									bad = "passed to " + f.String()
								}
							}
						} else {
							bad = "passed to an indirect call"
						}
					case *ssa.Store:
						if u.Val == ssa.Value(sl) {
							bad = "stored into " + pathOf(u.Addr)
						}
					case *ssa.MakeInterface:
						bad = "boxed into an interface (e.g. reflect.ValueOf)"
					case *ssa.Return:
						bad = "returned"
					case *ssa.Phi:
						bad = "merged into " + u.Comment
					default:
						bad = fmt.Sprintf("used by %T", ref)
					}
					if bad != "" {
						r.fail("C02-R7-scratch-escape", fmt.Sprintf("%s/%s#%d", fn.Name(), pathOf(sl), idx), c.pos(ref.Pos()), "a slice of the decoder's scratch buffer "+pathOf(sl)+" is "+bad+": the decoded value aliases memory that the next field overwrites")
						idx++
					}
				}
			}
		}
	}
	r.ok("C02-R7-scratch-escape", "scan", "", fmt.Sprintf("%d slices of decoder.tmp / decoder.bytes.buf: all uses are reads (UintN, copy source, string conversion, readFull/Read destination, CRC feed)", n))
	r.need("scratch-buffer slices examined", n, 20)
}

// c02Widening: R8.
func c02Widening(c *Ctx, r *Report) {
	info := c.fit.TypesInfo
	fd := c.decl(c.fn(c.fit, "decoder.parseDataFields"))
	if fd == nil {
		r.fail("C02-R8-widening", "parseDataFields", "", "not found")
		return
	}
	c.inlineTypeAccessorLocals(fd)
	// (a) no ascending overlapping self-copy anywhere in the decoder
	for _, fname := range []string{"decoder.parseDataFields", "decoder.parseFitField", "decoder.parseFitFieldArray", "decoder.parseTimeStamp", "decoder.parseDefinitionMessage"} {
		f2 := c.decl(c.fn(c.fit, fname))
		if f2 == nil {
			continue
		}
		ast.Inspect(f2.Body, func(nd ast.Node) bool {
			fs, ok := nd.(*ast.ForStmt)
			if !ok || fs.Post == nil {
				return true
			}
			inc, ok := fs.Post.(*ast.IncDecStmt)
			if !ok || inc.Tok != token.INC {
				return true
			}
			iv := exprStr(inc.X)
			ast.Inspect(fs.Body, func(n2 ast.Node) bool {
				as, ok := n2.(*ast.AssignStmt)
				if !ok {
					return true
				}
				for li, l := range as.Lhs {
					lx, ok := unparen(l).(*ast.IndexExpr)
					if !ok {
						continue
					}
					be, ok := unparen(lx.Index).(*ast.BinaryExpr)
					if !ok || be.Op != token.ADD || exprStr(be.X) != iv {
						continue
					}
					// some rhs reads X[iv]
					for ri2, rr := range as.Rhs {
						rx, ok := unparen(rr).(*ast.IndexExpr)
						if ok && exprStr(rx.X) == exprStr(lx.X) && exprStr(rx.Index) == iv {
							_ = li
							_ = ri2
							r.fail("C02-R8-widening", fmt.Sprintf("%s/self-copy-%s", fname, exprStr(lx.X)), c.pos(as.Pos()), fmt.Sprintf("ascending loop copies %s[%s] to %s[%s+%s]: for an offset smaller than the trip count the copy overwrites its own source, so every narrow big-endian field decodes as 0", exprStr(lx.X), iv, exprStr(lx.X), iv, exprStr(be.Y)))
						}
					}
				}
				return true
			})
			return true
		})
	}
	r.ok("C02-R8-widening", "no-overlapping-self-copy/scan", "", "loops of the record parser scanned for A[j+k] = A[j] with ascending j")
	// (b) the widening block: if padding != 0 { if dm.arch == le { zero fill [dsize, psize) } else { right-align only for non-native kinds } }
	var padIf *ast.IfStmt
	ast.Inspect(fd.Body, func(nd ast.Node) bool {
		if ifs, ok := nd.(*ast.IfStmt); ok && strings.ReplaceAll(exprStr(ifs.Cond), " ", "") == "padding!=0" {
			padIf = ifs
		}
		return true
	})
	if padIf == nil {
		r.undecided("C02-R8-widening", "parseDataFields/padding-block", c.pos(fd.Pos()), "no `if padding != 0` block: narrow fields of time/coordinate kinds are read with the profile width")
		return
	}
	var leBranch, beBranch []ast.Stmt
	var beCond string
	for _, s := range padIf.Body.List {
		ifs, ok := s.(*ast.IfStmt)
		if !ok {
			continue
		}
		if strings.ReplaceAll(exprStr(ifs.Cond), " ", "") == "dm.arch==le" {
			leBranch = ifs.Body.List
			switch e := ifs.Else.(type) {
			case *ast.BlockStmt:
				beBranch = e.List
			case *ast.IfStmt:
				beBranch = e.Body.List
				beCond = strings.ReplaceAll(exprStr(e.Cond), " ", "")
			}
		}
	}
	// LE: for j := dsize; j < psize; j++ { d.tmp[j] = 0 }
	okLE := false
	for _, s := range leBranch {
		if fs, ok := s.(*ast.ForStmt); ok && fs.Init != nil && fs.Cond != nil {
			init := strings.ReplaceAll(stmtStr(c, fs.Init), " ", "")
			cond := strings.ReplaceAll(exprStr(fs.Cond), " ", "")
			body := ""
			if len(fs.Body.List) == 1 {
				body = strings.ReplaceAll(stmtStr(c, fs.Body.List[0]), " ", "")
			}
			if init == "j:=dsize" && (strings.HasPrefix(cond, "j<pfield.t.BaseType().Size()") || cond == "j<psize") && (body == "d.tmp[j]=0x00" || body == "d.tmp[j]=0") {
				okLE = true
			}
		}
	}
	r.check(okLE, "C02-R8-widening", "parseDataFields/little-endian-zero-fill", c.pos(padIf.Pos()), "little-endian: bytes [size, profile size) are zeroed", "little-endian widening is not `for j := dsize; j < profile size; j++ { d.tmp[j] = 0 }`")
	// BE: only for kinds that read the widened slot; right-align with copy + zero the head
	okKind := beCond == "pfield.t.Kind()!=types.NativeFit"
	okCopy, okZero := false, false
	for _, s := range beBranch {
		src := strings.ReplaceAll(stmtStr(c, s), " ", "")
		if strings.HasPrefix(src, "copy(d.tmp[padding:") && strings.Contains(src, ",d.tmp[:dsize])") {
			okCopy = true
		}
		if fs, ok := s.(*ast.ForStmt); ok && fs.Init != nil && fs.Cond != nil && len(fs.Body.List) == 1 {
			init := strings.ReplaceAll(stmtStr(c, fs.Init), " ", "")
			cond := strings.ReplaceAll(exprStr(fs.Cond), " ", "")
			body := strings.ReplaceAll(stmtStr(c, fs.Body.List[0]), " ", "")
			if init == "j:=0" && cond == "j<padding" && (body == "d.tmp[j]=0x00" || body == "d.tmp[j]=0") {
				okZero = true
			}
		}
	}
	_ = info
	if okKind && okCopy && okZero {
		r.ok("C02-R8-widening", "parseDataFields/big-endian-right-align", c.pos(padIf.Pos()), "big-endian: time/coordinate kinds are right-aligned with copy (overlap-safe) and the head is zeroed; native kinds are read at offset 0 with their own width")
	} else {
		r.undecided("C02-R8-widening", "parseDataFields/big-endian-right-align", c.pos(padIf.Pos()), fmt.Sprintf("big-endian widening is not the recognised form (only for non-native kinds: %v, overlap-safe copy to the tail: %v, zeroed head: %v); parseFitField reads native fields at offset 0 with the definition's width, so shifting them breaks every narrow big-endian native field", okKind, okCopy, okZero))
	}
}

// scalarReader: a function of package bytes or unicode/utf8 all of whose results are scalars
// (int, bool, rune): it can neither retain nor hand back an alias of a byte slice argument.
func scalarReader(f *ssa.Function) bool {
	if f.Pkg == nil {
		return false
	}
	switch f.Pkg.Pkg.Path() {
	case "bytes", "unicode/utf8":
	default:
		return false
	}
	res := f.Signature.Results()
	if res.Len() == 0 {
		return false
	}
	for i := 0; i < res.Len(); i++ {
		b, ok := res.At(i).Type().Underlying().(*types.Basic)
		if !ok || b.Info()&(types.IsInteger|types.IsBoolean) == 0 {
			return false
		}
	}
	return true
}

// readFullExact: decoder.readFull(p) returns nil only when p has been filled completely: every
// success return is dominated by the true edge of `len(rest) == 0`, rest being the parameter
// re-sliced by what was copied so far (a phi of p and rest[n:]). A version that refills once and
// takes what it gets leaves stale scratch bytes in the tail of a field when the reader returns
// short reads, and shifts every following field.
func readFullExact(c *Ctx, r *Report, rule string) {
	fn := c.ssaFn(c.fn(c.fit, "decoder.readFull"))
	if fn == nil || len(fn.Params) < 2 {
		r.fail(rule, "readFull/exact-fill", "", "decoder.readFull not found")
		return
	}
	p := fn.Params[1]
	visiting := map[ssa.Value]bool{}
	var derives func(v ssa.Value, depth int) bool
	derives = func(v ssa.Value, depth int) bool {
		if depth > 12 {
			return false
		}
		if visiting[v] {
			return true // a cycle through the loop's own phi
		}
		visiting[v] = true
		defer delete(visiting, v)
		switch n := v.(type) {
		case *ssa.Parameter:
			return n == p
		case *ssa.Slice:
			return n.High == nil && derives(n.X, depth+1)
		case *ssa.Phi:
			for _, e := range n.Edges {
				if e == ssa.Value(n) {
					continue
				}
				if !derives(e, depth+1) {
					return false
				}
			}
			return true
		}
		return false
	}
	emptyTest := func(v ssa.Value) bool {
		bo, ok := v.(*ssa.BinOp)
		if !ok || bo.Op != token.EQL {
			return false
		}
		call, ok := bo.X.(*ssa.Call)
		if !ok {
			return false
		}
		bi, ok := call.Common().Value.(*ssa.Builtin)
		k, okK := bo.Y.(*ssa.Const)
		return ok && bi.Name() == "len" && okK && k.Value != nil && k.Int64() == 0 && derives(call.Common().Args[0], 0)
	}
	n, bad := 0, ""
	for _, ret := range c.successReturns(fn) {
		n++
		if !domByBoolEdge(fn, ret.Block(), true, emptyTest) {
			bad = c.pos(ret.Pos())
		}
	}
	r.check(bad == "" && n > 0, rule, "readFull/exact-fill", c.pos(fn.Pos()), "readFull succeeds only when the whole destination has been filled (len(rest) == 0)", "decoder.readFull can return nil at "+bad+" without having established that the whole destination was filled: with a reader that returns short reads the tail of a field keeps stale bytes and the stream is mis-framed")
}
