package main

import (
	"go/ast"
	"go/token"
	"go/types"
	"strings"
)

// AST view normalisation for the shape matchers: a local that only gives a name to a pure table
// accessor of internal/types applied to a selector chain (`bt := f.t.BaseType()`) is replaced,
// in the checker's private copy of the syntax, by that expression at every use, and its
// definition is removed. The SSA-based rules never see such a local (it is just a value); this
// makes the syntax-based ones equally indifferent to hoisting a repeated accessor call.
//
// Conditions (all checked): defined exactly once with := or var from a chain of zero-argument
// methods of internal/types on identifiers/selectors; the local's type is declared in
// internal/types; neither the local nor any identifier in the chain is assigned again or has its
// address taken anywhere in the function. The accessors are pure (C15 folds them exactly), so
// evaluating them again at the use gives the same value.
func (c *Ctx) inlineTypeAccessorLocals(fd *ast.FuncDecl) int {
	if fd == nil || fd.Body == nil || c.inlined[fd] {
		return 0
	}
	if c.inlined == nil {
		c.inlined = map[*ast.FuncDecl]bool{}
	}
	c.inlined[fd] = true
	var info *types.Info
	for _, p := range c.pkgs {
		for _, f := range p.Syntax {
			if f.Pos() <= fd.Pos() && fd.End() <= f.End() {
				info = p.TypesInfo
			}
		}
	}
	if info == nil {
		return 0
	}
	// assignment census
	assigned := map[types.Object]int{}
	addrTaken := map[types.Object]bool{}
	ast.Inspect(fd, func(n ast.Node) bool {
		switch x := n.(type) {
		case *ast.AssignStmt:
			for _, l := range x.Lhs {
				if id, ok := l.(*ast.Ident); ok {
					if o := info.ObjectOf(id); o != nil {
						assigned[o]++
					}
				}
			}
		case *ast.IncDecStmt:
			if id, ok := x.X.(*ast.Ident); ok {
				if o := info.ObjectOf(id); o != nil {
					assigned[o] += 2
				}
			}
		case *ast.RangeStmt:
			for _, e := range []ast.Expr{x.Key, x.Value} {
				if id, ok := e.(*ast.Ident); ok {
					if o := info.ObjectOf(id); o != nil {
						assigned[o]++
					}
				}
			}
		case *ast.UnaryExpr:
			if x.Op == token.AND {
				if id, ok := unparen(x.X).(*ast.Ident); ok {
					if o := info.ObjectOf(id); o != nil {
						addrTaken[o] = true
					}
				}
			}
		}
		return true
	})
	var pureChain func(e ast.Expr, calls *int) bool
	pureChain = func(e ast.Expr, calls *int) bool {
		switch x := unparen(e).(type) {
		case *ast.Ident:
			o := info.ObjectOf(x)
			if v, ok := o.(*types.Var); ok && !v.IsField() && v.Parent() != nil && v.Pkg() != nil && v.Parent() != v.Pkg().Scope() {
				return assigned[o] <= 1 && !addrTaken[o] // parameters: 0, := locals and range variables: 1
			}
			return false
		case *ast.SelectorExpr:
			return pureChain(x.X, calls)
		case *ast.CallExpr:
			if len(x.Args) != 0 {
				return false
			}
			f, ok := callee(info, x).(*types.Func)
			if !ok || f.Pkg() == nil || f.Pkg().Path() != typesPath {
				return false
			}
			*calls++
			sel, ok := x.Fun.(*ast.SelectorExpr)
			return ok && pureChain(sel.X, calls)
		}
		return false
	}
	subst := map[types.Object]ast.Expr{}
	defStmt := map[ast.Stmt]bool{}
	ast.Inspect(fd.Body, func(n ast.Node) bool {
		as, ok := n.(*ast.AssignStmt)
		if !ok || as.Tok != token.DEFINE || len(as.Lhs) != 1 || len(as.Rhs) != 1 {
			return true
		}
		id, ok := as.Lhs[0].(*ast.Ident)
		if !ok {
			return true
		}
		o := info.ObjectOf(id)
		if o == nil || assigned[o] != 1 || addrTaken[o] {
			return true
		}
		calls := 0
		if !pureChain(as.Rhs[0], &calls) {
			return true
		}
		if calls == 0 {
			// a copy of a member of a stored definition (`arch := dm.arch`): definitions are immutable once
			// parsed (C13-R3-definition-immutable), so the copy equals the member at every use
			sel, ok := unparen(as.Rhs[0]).(*ast.SelectorExpr)
			if !ok {
				return true
			}
			bt := info.TypeOf(sel.X)
			if pt, isPtr := bt.Underlying().(*types.Pointer); isPtr {
				bt = pt.Elem()
			}
			n, isNamed := bt.(*types.Named)
			if !isNamed || n.Obj().Name() != "defmsg" {
				return true
			}
		} else {
			nt, ok := o.Type().(*types.Named)
			if !ok || nt.Obj().Pkg() == nil || nt.Obj().Pkg().Path() != typesPath {
				return true
			}
		}
		subst[o] = as.Rhs[0]
		defStmt[as] = true
		return true
	})
	if len(subst) == 0 {
		return 0
	}
	// resolve chains of substitutions (a hoisted local used in another hoisted local's definition)
	var rewrite func(e ast.Expr) ast.Expr
	rewrite = func(e ast.Expr) ast.Expr {
		switch x := e.(type) {
		case *ast.Ident:
			if r, ok := subst[info.ObjectOf(x)]; ok && info.Defs[x] == nil {
				return rewrite(r)
			}
		}
		return e
	}
	// replace uses, in place
	var visit func(n ast.Node)
	visitExpr := func(p *ast.Expr) {
		if *p == nil {
			return
		}
		*p = rewrite(*p)
		visit(*p)
	}
	visit = func(n ast.Node) {
		switch x := n.(type) {
		case nil:
		case *ast.BlockStmt:
			var keep []ast.Stmt
			for _, s := range x.List {
				if defStmt[s] {
					continue
				}
				visit(s)
				keep = append(keep, s)
			}
			x.List = keep
		case *ast.CaseClause:
			for i := range x.List {
				visitExpr(&x.List[i])
			}
			var keep []ast.Stmt
			for _, s := range x.Body {
				if defStmt[s] {
					continue
				}
				visit(s)
				keep = append(keep, s)
			}
			x.Body = keep
		case *ast.ExprStmt:
			visitExpr(&x.X)
		case *ast.AssignStmt:
			for i := range x.Rhs {
				visitExpr(&x.Rhs[i])
			}
			for i := range x.Lhs {
				visit(x.Lhs[i])
			}
		case *ast.IfStmt:
			visit(x.Init)
			visitExpr(&x.Cond)
			visit(x.Body)
			visit(x.Else)
		case *ast.ForStmt:
			visit(x.Init)
			visitExpr(&x.Cond)
			visit(x.Post)
			visit(x.Body)
		case *ast.RangeStmt:
			visitExpr(&x.X)
			visit(x.Body)
		case *ast.SwitchStmt:
			visit(x.Init)
			visitExpr(&x.Tag)
			visit(x.Body)
		case *ast.TypeSwitchStmt:
			visit(x.Init)
			visit(x.Assign)
			visit(x.Body)
		case *ast.ReturnStmt:
			for i := range x.Results {
				visitExpr(&x.Results[i])
			}
		case *ast.DeclStmt, *ast.BranchStmt, *ast.IncDecStmt, *ast.EmptyStmt, *ast.LabeledStmt, *ast.GoStmt, *ast.DeferStmt, *ast.SendStmt:
			ast.Inspect(x, func(m ast.Node) bool {
				if ce, ok := m.(*ast.CallExpr); ok {
					visit(ce)
					return false
				}
				return true
			})
		case *ast.CallExpr:
			visitExpr(&x.Fun)
			for i := range x.Args {
				visitExpr(&x.Args[i])
			}
		case *ast.SelectorExpr:
			visitExpr(&x.X)
		case *ast.BinaryExpr:
			visitExpr(&x.X)
			visitExpr(&x.Y)
		case *ast.UnaryExpr:
			visitExpr(&x.X)
		case *ast.ParenExpr:
			visitExpr(&x.X)
		case *ast.IndexExpr:
			visitExpr(&x.X)
			visitExpr(&x.Index)
		case *ast.SliceExpr:
			visitExpr(&x.X)
			visitExpr(&x.Low)
			visitExpr(&x.High)
		case *ast.StarExpr:
			visitExpr(&x.X)
		case *ast.TypeAssertExpr:
			visitExpr(&x.X)
		case *ast.CompositeLit:
			for i := range x.Elts {
				visitExpr(&x.Elts[i])
			}
		case *ast.KeyValueExpr:
			visitExpr(&x.Value)
		case *ast.FuncLit:
			visit(x.Body)
		}
	}
	visit(fd.Body)
	_ = strings.TrimSpace
	return len(subst)
}
