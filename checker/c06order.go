package main

import (
	"fmt"
	"go/token"
	"strings"

	"golang.org/x/tools/go/ssa"
)

// encodeListOrder: the records of a list are written from the file's own list, in index order.
// In every function on Encode's call tree that calls writeMesg inside a loop, the message written
// is element idx of a list value that is the file's own member — reached from the file value
// through Field / Indirect / Elem only, possibly handed down as a parameter — and idx is the
// loop's counter running 0, 1, 2, .... A list that is the result of any other function (a
// sorted or filtered copy) is reported: order and membership of what is written must be those
// of what was given.
func encodeListOrder(c *Ctx, r *Report, rule string) {
	fns := c.listWriterFns()
	n := 0
	for _, fn := range fns {
		for _, ci := range allCalls(fn) {
			f := ci.Common().StaticCallee()
			if f == nil || f.Name() != "writeMesg" || len(ci.Common().Args) != 3 || !inLoop(ci.Block()) {
				continue
			}
			n++
			key := fmt.Sprintf("%s/list-order#%d", fn.Name(), n)
			x := ci.Common().Args[1]
			if ind := staticCallTo(x, "reflect.Indirect"); ind != nil {
				x = ind.Common().Args[0]
			}
			ix := staticCallTo(x, "(reflect.Value).Index")
			if ix == nil {
				r.undecided(rule, key, c.pos(ci.Pos()), "the message written in the loop is not an element list.Index(i) of a list value")
				continue
			}
			list, idx := ix.Common().Args[0], ix.Common().Args[1]
			if why, ok := ownList(c, list, 0); !ok {
				r.fail(rule, key, c.pos(ci.Pos()), "the list whose elements are written is "+why+", not the file's own list: the messages written may differ in order or number from the ones given")
				continue
			}
			if !countsUp(idx) {
				r.undecided(rule, key, c.pos(ci.Pos()), "the index of the element written is not a counter running 0, 1, 2, ... ("+pathOf(idx)+"): stream order is not visibly the list's order")
				continue
			}
			r.ok(rule, key, c.pos(ci.Pos()), "elements 0, 1, 2, ... of the file's own list")
		}
	}
	if n == 0 {
		r.fail(rule, "list-writer", "", "no loop writing the records of a list was found on Encode's call tree")
	}
}

func staticCallTo(v ssa.Value, name string) *ssa.Call {
	call, ok := v.(*ssa.Call)
	if !ok || call.Common().StaticCallee() == nil {
		return nil
	}
	f := call.Common().StaticCallee()
	if f.Name() == name || f.String() == name {
		return call
	}
	return nil
}

// ownList: v is reached from a parameter / Field selection through Field, Indirect, Elem only.
func ownList(c *Ctx, v ssa.Value, depth int) (string, bool) {
	if depth > 8 {
		return "derived too deeply to follow", false
	}
	switch x := v.(type) {
	case *ssa.Call:
		f := x.Common().StaticCallee()
		if f == nil {
			return "the result of a dynamic call", false
		}
		switch f.String() {
		case "(reflect.Value).Field", "reflect.Indirect", "(reflect.Value).Elem", "reflect.ValueOf":
			return ownList(c, x.Common().Args[0], depth+1)
		}
		if fnPkgPath(f) == modPath && len(f.Blocks) > 0 && f.Signature.Results().Len() == 1 {
			return ownListReturns(c, f, 0, depth)
		}
		return "the result of " + strings.TrimPrefix(f.String(), modPath+"."), false
	case *ssa.Phi:
		for _, e := range x.Edges {
			if why, ok := ownList(c, e, depth+1); !ok {
				return why, false
			}
		}
		return "", true
	case *ssa.Parameter:
		fn := x.Parent()
		idx := -1
		for i, p := range fn.Params {
			if p == x {
				idx = i
			}
		}
		if fn.Name() == "Encode" {
			return "", true
		}
		sites := 0
		for _, g := range c.moduleFuncs() {
			for _, ci := range allCalls(g) {
				if ci.Common().StaticCallee() == fn && idx < len(ci.Common().Args) {
					sites++
					if why, ok := ownList(c, ci.Common().Args[idx], depth+1); !ok {
						return why, false
					}
				}
			}
		}
		if sites == 0 {
			return "a parameter without a call site", false
		}
		return "", true
	case *ssa.MakeInterface:
		return ownList(c, x.X, depth+1)
	case *ssa.UnOp:
		if x.Op == token.MUL {
			return "", true // a load from the file structure
		}
	case *ssa.Alloc, *ssa.FieldAddr:
		return "", true
	case *ssa.Extract:
		if call, ok := x.Tuple.(*ssa.Call); ok {
			if f := call.Common().StaticCallee(); f != nil && fnPkgPath(f) == modPath && len(f.Blocks) > 0 {
				return ownListReturns(c, f, x.Index, depth)
			}
		}
		return "a component of a call result", false
	case *ssa.Const:
		return "", true // the zero value on an error path
	}
	return fmt.Sprintf("a %T", v), false
}

// ownListReturns: every return of the selector helper f yields, at result idx, a value reached from
// the file through Field / Indirect / Elem only (a helper that picks the file's typed container).
func ownListReturns(c *Ctx, f *ssa.Function, idx int, depth int) (string, bool) {
	n := 0
	for _, b := range f.Blocks {
		ret, ok := b.Instrs[len(b.Instrs)-1].(*ssa.Return)
		if !ok || idx >= len(ret.Results) {
			continue
		}
		n++
		if why, ok := ownList(c, resolveSpill(ret.Results[idx]), depth+1); !ok {
			return "the result of " + f.Name() + ", which returns " + why, false
		}
	}
	if n == 0 {
		return "the result of " + f.Name() + " (no return found)", false
	}
	return "", true
}

// countsUp: phi(0, phi+1).
func countsUp(v ssa.Value) bool {
	phi, ok := v.(*ssa.Phi)
	if !ok || len(phi.Edges) != 2 {
		return false
	}
	zero, step := false, false
	for _, e := range phi.Edges {
		if k, ok := e.(*ssa.Const); ok && k.Value != nil && k.Int64() == 0 {
			zero = true
		}
		if bo, ok := e.(*ssa.BinOp); ok && bo.Op == token.ADD && bo.X == ssa.Value(phi) {
			if k, ok := bo.Y.(*ssa.Const); ok && k.Value != nil && k.Int64() == 1 {
				step = true
			}
		}
	}
	return zero && step
}

// encoderByteOrder: every multi-byte value the record writers put out goes through the byte order
// the caller asked for (encoder.arch): binary.Write with that order, or a ByteOrder method on it.
// A helper may receive the order as a parameter when every call site passes encoder.arch. (The
// file header and the two checksums are little-endian by specification and are written outside
// the record writers.)
func encoderByteOrder(c *Ctx, r *Report, rule string) {
	var roots []*ssa.Function
	for _, fn := range c.moduleFuncs() {
		if fnPkgPath(fn) != modPath || fn.Signature.Recv() == nil {
			continue
		}
		if strings.HasSuffix(fn.Signature.Recv().Type().String(), ".encoder") {
			roots = append(roots, fn)
		}
	}
	if len(roots) == 0 {
		r.fail(rule, "encoder", "", "no method of the encoder found")
		return
	}
	var isArch func(v ssa.Value, depth int) (bool, string)
	isArch = func(v ssa.Value, depth int) (bool, string) {
		if depth > 4 {
			return false, "derived too deeply"
		}
		switch x := v.(type) {
		case *ssa.UnOp:
			if x.Op == token.MUL {
				if fa, ok := x.X.(*ssa.FieldAddr); ok && fieldName(fa) == "arch" {
					if o, _ := ownerOf(fa); o != nil && o.Obj().Name() == "encoder" {
						return true, ""
					}
				}
				return false, stripAddrs(pathOf(x.X))
			}
		case *ssa.Parameter:
			fn := x.Parent()
			idx := -1
			for i, p := range fn.Params {
				if p == x {
					idx = i
				}
			}
			sites := 0
			for _, g := range c.moduleFuncs() {
				for _, ci := range allCalls(g) {
					if ci.Common().StaticCallee() == fn && idx < len(ci.Common().Args) {
						sites++
						if ok, why := isArch(ci.Common().Args[idx], depth+1); !ok {
							return false, why
						}
					}
				}
			}
			return sites > 0, "a parameter without call sites"
		case *ssa.MakeInterface:
			return false, "the fixed order " + x.X.Type().String()
		case *ssa.ChangeInterface:
			return isArch(x.X, depth+1)
		}
		return false, stripAddrs(pathOf(v))
	}
	n := 0
	for _, fn := range c.reach(roots).module() {
		if fnPkgPath(fn) != modPath {
			continue
		}
		if fn.Signature.Recv() != nil && strings.HasSuffix(fn.Signature.Recv().Type().String(), ".Header") {
			continue
		}
		k := 0
		for _, ci := range allCalls(fn) {
			cc := ci.Common()
			var order ssa.Value
			what := ""
			if cc.IsInvoke() && (cc.Value.Type().String() == "encoding/binary.ByteOrder" || cc.Value.Type().String() == "encoding/binary.AppendByteOrder") {
				if strings.HasPrefix(cc.Method.Name(), "Put") || strings.HasPrefix(cc.Method.Name(), "Append") {
					order, what = cc.Value, cc.Method.Name()
				}
			} else if f := cc.StaticCallee(); f != nil && f.Pkg != nil && f.Pkg.Pkg.Path() == "encoding/binary" {
				switch {
				case f.Name() == "Write" && f.Signature.Recv() == nil && len(cc.Args) == 3:
					order, what = cc.Args[1], "binary.Write"
				case f.Signature.Recv() != nil && (strings.HasPrefix(f.Name(), "Put") || strings.HasPrefix(f.Name(), "Append")) && len(cc.Args) > 0:
					order, what = cc.Args[0], f.Name()
				}
			}
			if order == nil {
				// a wrapper that forwards to binary.Write: the order handed to it
				if f := cc.StaticCallee(); f != nil && fnPkgPath(f) == modPath {
					if _, o, _, ok := binaryWriteArgs(ci); ok {
						order, what = o, f.Name()
					}
				}
			}
			if order == nil {
				continue
			}
			n++
			k++
			key := fmt.Sprintf("%s/%s#%d", fn.Name(), what, k)
			ok, why := isArch(order, 0)
			r.check(ok, rule, key, c.pos(ci.Pos()), "written in the byte order the caller asked for (encoder.arch)", "a multi-byte value is written by "+fn.Name()+" in byte order "+why+" instead of the encoder's: with the other byte order requested the definition still announces that order, and the decoder reads the value byte-swapped")
		}
	}
	r.need("multi-byte writes in the record writers", n, 5)
}
