package main

import (
	"fmt"
	"go/token"
	"go/types"
	"strings"

	"golang.org/x/tools/go/ssa"
)

// c05OmissionBaseType (C05-R6-omission-base-type, after wave-10 seed C05-M): whether a field is left
// out of the definition is decided in getEncodeMesgDef (and what it calls) by comparing the value
// with the invalid value of *its own* base type — the same-index field of the all-invalid message,
// or `BaseType().Invalid()`. The invalid value differs between base types that share a Go type
// (uint8 0xFF, uint8z 0x00, enum 0xFF; uint16 / uint16z; uint32 / uint32z), so a comparison of an
// element of the field's value with a fixed constant is wrong for one of them: a set field is
// omitted from the stream, or an unset one is written. Every ==/!= in that code whose one operand
// is a non-zero-information constant and whose other operand is an element of a slice or an
// integer/float read out of a reflect.Value is reported.
func c05OmissionBaseType(c *Ctx, r *Report) {
	const rule = "C05-R6-omission-base-type"
	root := c.ssaFn(c.fn(c.fit, "getEncodeMesgDef"))
	if root == nil {
		r.fail(rule, "getEncodeMesgDef", "", "not found")
		return
	}
	nCmp, nFn := 0, 0
	for _, fn := range c.reach([]*ssa.Function{root}).module() {
		if fnPkgPath(fn) != modPath {
			continue
		}
		nFn++
		idx := 0
		for _, b := range fn.Blocks {
			for _, ins := range b.Instrs {
				bo, ok := ins.(*ssa.BinOp)
				if !ok || (bo.Op != token.EQL && bo.Op != token.NEQ) {
					continue
				}
				nCmp++
				var k *ssa.Const
				var other ssa.Value
				if kc, isK := bo.Y.(*ssa.Const); isK {
					k, other = kc, bo.X
				} else if kc, isK := bo.X.(*ssa.Const); isK {
					k, other = kc, bo.Y
				}
				if k == nil || k.Value == nil {
					continue
				}
				if bt, isB := k.Type().Underlying().(*types.Basic); !isB || bt.Info()&(types.IsInteger|types.IsFloat) == 0 {
					continue
				}
				if !isFieldElement(other, 0) {
					continue
				}
				idx++
				r.fail(rule, fmt.Sprintf("%s/const-compare#%d", fn.Name(), idx), c.pos(bo.Pos()), "the decision whether a field is written compares an element of its value with the fixed constant "+k.Value.String()+" instead of the invalid value of the field's own base type: base types that share a Go type differ in their invalid value (uint8 0xFF, uint8z 0x00), so a set field of the other type is dropped from the stream")
			}
		}
	}
	r.check(true, rule, "scan", c.pos(root.Pos()), fmt.Sprintf("%d functions decide which fields a definition has; none of their %d equality tests holds an element of a field value against a fixed constant", nFn, nCmp), "")
	r.need("equality tests in the omission decision", nCmp, 1)
}

// isFieldElement: v is an element read out of a slice, or a number read out of a reflect.Value.
func isFieldElement(v ssa.Value, depth int) bool {
	if depth > 4 {
		return false
	}
	switch x := v.(type) {
	case *ssa.UnOp:
		if x.Op == token.MUL {
			if ia, ok := x.X.(*ssa.IndexAddr); ok {
				_, isSl := ia.X.Type().Underlying().(*types.Slice)
				return isSl
			}
		}
	case *ssa.Index:
		return true
	case *ssa.Extract:
		// value of a range over a slice/string is an Extract of Next: only for strings/maps; slices use IndexAddr
		return false
	case *ssa.Convert:
		return isFieldElement(x.X, depth+1)
	case *ssa.ChangeType:
		return isFieldElement(x.X, depth+1)
	case *ssa.Call:
		if f := x.Common().StaticCallee(); f != nil {
			switch f.String() {
			case "(reflect.Value).Uint", "(reflect.Value).Int", "(reflect.Value).Float":
				return true
			}
		}
	}
	return false
}

// c05DeclaredSizeSSA: the size a definition declares for a field, read from the SSA of writeDefMesg
// (independent of how the three cases are spelled): the fieldDef written with binary.Write has
//
//	size  = byte(Size(BaseType(f.t)))                       on every path,
//	size  = f.length                                        where the base type equals BaseString,
//	size  = size * f.length  (either operand order)         where it does not and f.t.Array(),
//
// and no other store; num = f.num, btype = BaseType(f.t).
func c05DeclaredSizeSSA(c *Ctx) (bool, string) {
	fn := c.ssaFn(c.fn(c.fit, "encoder.writeDefMesg"))
	if fn == nil {
		return false, "writeDefMesg not found"
	}
	var fdef *ssa.Alloc
	for _, b := range fn.Blocks {
		for _, ins := range b.Instrs {
			if al, ok := ins.(*ssa.Alloc); ok {
				if n, ok := al.Type().(*types.Pointer).Elem().(*types.Named); ok && n.Obj().Name() == "fieldDef" {
					if fdef != nil {
						return false, "more than one fieldDef value in writeDefMesg"
					}
					fdef = al
				}
			}
		}
	}
	if fdef == nil {
		return false, "no fieldDef value in writeDefMesg"
	}
	st := fdef.Type().(*types.Pointer).Elem().Underlying().(*types.Struct)
	stores := map[string][]*ssa.Store{}
	var write ssa.CallInstruction
	for _, ref := range *fdef.Referrers() {
		switch u := ref.(type) {
		case *ssa.FieldAddr:
			name := st.Field(u.Field).Name()
			for _, r2 := range *u.Referrers() {
				if s, ok := r2.(*ssa.Store); ok && s.Addr == ssa.Value(u) {
					stores[name] = append(stores[name], s)
				}
			}
		case *ssa.UnOp:
			for _, r2 := range *u.Referrers() {
				if mi, ok := r2.(*ssa.MakeInterface); ok {
					for _, r3 := range *mi.Referrers() {
						if ci, ok := r3.(ssa.CallInstruction); ok {
							if _, _, _, isW := binaryWriteArgs(ci); isW {
								write = ci
							}
						}
					}
				}
			}
		}
	}
	if write == nil {
		return false, "the fieldDef value is not handed to binary.Write"
	}
	norm := func(v ssa.Value) string {
		return strings.ReplaceAll(stripAddrs(pathOf(v)), modPath+"/internal/types.", "types.")
	}
	isBaseOfRow := func(v ssa.Value) (string, bool) {
		p := norm(v)
		const pre = "call[(types.Fit).BaseType](*"
		if strings.HasPrefix(p, pre) && strings.HasSuffix(p, ".t)") {
			return strings.TrimSuffix(strings.TrimPrefix(p, pre), ".t)"), true
		}
		return "", false
	}
	if len(stores["num"]) != 1 || len(stores["btype"]) != 1 {
		return false, "num / btype of the written fieldDef are not stored exactly once"
	}
	row, okB := isBaseOfRow(stores["btype"][0].Val)
	if !okB || norm(stores["num"][0].Val) != "*"+row+".num" {
		return false, "the written fieldDef's num / btype are not the row's number and BaseType(): " + norm(stores["num"][0].Val) + " / " + norm(stores["btype"][0].Val)
	}
	baseSize := "conv<byte>(call[(types.Base).Size](call[(types.Fit).BaseType](*" + row + ".t)))"
	length := "*" + row + ".length"
	isStrCond := func(v ssa.Value) bool {
		bo, ok := v.(*ssa.BinOp)
		if !ok || bo.Op != token.EQL {
			return false
		}
		x, k := bo.X, bo.Y
		if _, isK := x.(*ssa.Const); isK {
			x, k = k, x
		}
		kc, isK := k.(*ssa.Const)
		if !isK || kc.Value == nil || kc.Int64() != 7 {
			return false
		}
		if r2, ok := isBaseOfRow(x); ok && r2 == row {
			return true
		}
		if ld, ok := x.(*ssa.UnOp); ok && ld.Op == token.MUL {
			if fa, ok := ld.X.(*ssa.FieldAddr); ok && fa.X == ssa.Value(fdef) && st.Field(fa.Field).Name() == "btype" {
				return true
			}
		}
		return false
	}
	isArrCond := func(v ssa.Value) bool {
		return norm(v) == "call[(types.Fit).Array](*"+row+".t)"
	}
	var s0, s1, s2 *ssa.Store
	for _, s := range stores["size"] {
		v := norm(s.Val)
		switch {
		case v == baseSize && s0 == nil:
			s0 = s
		case v == length && s1 == nil:
			s1 = s
		default:
			bo, ok := s.Val.(*ssa.BinOp)
			okMul := false
			if ok && bo.Op == token.MUL {
				a, b := norm(bo.X), norm(bo.Y)
				isCur := func(p string, v ssa.Value) bool {
					if p == baseSize {
						return true
					}
					if ld, ok := v.(*ssa.UnOp); ok && ld.Op == token.MUL {
						if fa, ok := ld.X.(*ssa.FieldAddr); ok && fa.X == ssa.Value(fdef) && st.Field(fa.Field).Name() == "size" {
							return true
						}
					}
					return false
				}
				okMul = (isCur(a, bo.X) && b == length) || (isCur(b, bo.Y) && a == length)
			}
			if !okMul || s2 != nil {
				return false, "the declared size is also set to " + v
			}
			s2 = s
		}
	}
	if s0 == nil || s1 == nil || s2 == nil {
		return false, "the declared size is not set in the three recognised ways (base size / profile length for strings / base size x length for arrays)"
	}
	if !instrDominates(s0, write.(ssa.Instruction)) || !s0.Block().Dominates(s1.Block()) || !s0.Block().Dominates(s2.Block()) {
		return false, "the base size is not stored first on every path to the write"
	}
	if !domByBoolEdge(fn, s1.Block(), true, isStrCond) {
		return false, "the profile length is declared under something other than `base type == string`"
	}
	if !domByBoolEdge(fn, s2.Block(), false, isStrCond) || !domByBoolEdge(fn, s2.Block(), true, isArrCond) {
		return false, "base size x length is declared under something other than `not a string and an array`"
	}
	for _, s := range []*ssa.Store{s1, s2} {
		if write.Block().Dominates(s.Block()) && write.Block() != s.Block() {
			return false, "the declared size is changed after the definition was written"
		}
		if extra := extraControllersBy(c, fn, s.Block(), true, func(v ssa.Value) bool {
			_, _, isNil := nilTest(v)
			return isNil || isStrCond(v) || isArrCond(v)
		}); extra != "" {
			return false, "the declared size also depends on " + extra
		}
	}
	return true, "declared size = base size; strings: profile length; arrays: base size x profile length (read from the stores into the written fieldDef)"
}
