package main

import (
	"fmt"
	"go/token"
	"go/types"

	"golang.org/x/tools/go/ssa"
)

// c05OmissionBaseType (C05-R6-omission-base-type, after wave-10 seed C05-M): whether a field is left
// out of the definition is decided in getEncodeMesgDef (and what it calls) by comparing the value
// with the invalid value of *its own* base type — the same-index field of the all-invalid message,
// or `BaseType().Invalid()`. The invalid value differs between base types that share a Go type
// (uint8 0xFF, uint8z 0x00, enum 0xFF; uint16 / uint16z; uint32 / uint32z), so a comparison of an
// element of the field's value with a fixed constant is wrong for one of them: a set field is
// omitted from the stream, or an unset one is written. Every ==/!= in that code whose one operand
// is a non-zero-information constant and whose other operand is an element of a slice or an
// integer/float read out of a reflect.Value is reported.
func c05OmissionBaseType(c *Ctx, r *Report) {
	const rule = "C05-R6-omission-base-type"
	root := c.ssaFn(c.fn(c.fit, "getEncodeMesgDef"))
	if root == nil {
		r.fail(rule, "getEncodeMesgDef", "", "not found")
		return
	}
	nCmp, nFn := 0, 0
	for _, fn := range c.reach([]*ssa.Function{root}).module() {
		if fnPkgPath(fn) != modPath {
			continue
		}
		nFn++
		idx := 0
		for _, b := range fn.Blocks {
			for _, ins := range b.Instrs {
				bo, ok := ins.(*ssa.BinOp)
				if !ok || (bo.Op != token.EQL && bo.Op != token.NEQ) {
					continue
				}
				nCmp++
				var k *ssa.Const
				var other ssa.Value
				if kc, isK := bo.Y.(*ssa.Const); isK {
					k, other = kc, bo.X
				} else if kc, isK := bo.X.(*ssa.Const); isK {
					k, other = kc, bo.Y
				}
				if k == nil || k.Value == nil {
					continue
				}
				if bt, isB := k.Type().Underlying().(*types.Basic); !isB || bt.Info()&(types.IsInteger|types.IsFloat) == 0 {
					continue
				}
				if !isFieldElement(other, 0) {
					continue
				}
				idx++
				r.fail(rule, fmt.Sprintf("%s/const-compare#%d", fn.Name(), idx), c.pos(bo.Pos()), "the decision whether a field is written compares an element of its value with the fixed constant "+k.Value.String()+" instead of the invalid value of the field's own base type: base types that share a Go type differ in their invalid value (uint8 0xFF, uint8z 0x00), so a set field of the other type is dropped from the stream")
			}
		}
	}
	r.check(true, rule, "scan", c.pos(root.Pos()), fmt.Sprintf("%d functions decide which fields a definition has; none of their %d equality tests holds an element of a field value against a fixed constant", nFn, nCmp), "")
	r.need("equality tests in the omission decision", nCmp, 1)
}

// isFieldElement: v is an element read out of a slice, or a number read out of a reflect.Value.
func isFieldElement(v ssa.Value, depth int) bool {
	if depth > 4 {
		return false
	}
	switch x := v.(type) {
	case *ssa.UnOp:
		if x.Op == token.MUL {
			if ia, ok := x.X.(*ssa.IndexAddr); ok {
				_, isSl := ia.X.Type().Underlying().(*types.Slice)
				return isSl
			}
		}
	case *ssa.Index:
		return true
	case *ssa.Extract:
		// value of a range over a slice/string is an Extract of Next: only for strings/maps; slices use IndexAddr
		return false
	case *ssa.Convert:
		return isFieldElement(x.X, depth+1)
	case *ssa.ChangeType:
		return isFieldElement(x.X, depth+1)
	case *ssa.Call:
		if f := x.Common().StaticCallee(); f != nil {
			switch f.String() {
			case "(reflect.Value).Uint", "(reflect.Value).Int", "(reflect.Value).Float":
				return true
			}
		}
	}
	return false
}
