package main

import (
	"fmt"
	"go/ast"
	"go/token"
	"go/types"
	"sort"

	"golang.org/x/tools/go/ssa"
)

// PField is one row of the generated lookup table `_fields`.
type PField struct {
	Msg    int64
	Num    int
	Sindex int
	T      uint16
	Length int
	Pos    token.Pos
	// derived through the evaluator from internal/types
	Kind  int
	Array bool
	Base  byte
}

type Profile struct {
	Known      map[int64]bool
	KnownPos   map[int64]token.Pos
	Fields     map[int64]map[int]*PField
	FieldsLen  int64 // length of the outer array
	InnerLen   int64
	MsgTypes   map[int64]*types.Named
	MsgTypeLen int64
	NewFuncs   map[int64]*types.Func // constructor named in newMesgFuncs[mn]
	NewFuncLen int64
	MsgName    map[int64]string // constant names of MesgNum values (first wins)
	Rows       int
}

// BaseInfo is what internal/types says about a base-type byte, via the evaluator.
type BaseInfo struct {
	Known, Signed, Integer, Float bool
	Size                          int
	Err                           string
}

func (c *Ctx) profile() (*Profile, []string) {
	if c.prof != nil || c.profErr != nil {
		return c.prof, c.profErr
	}
	p := &Profile{Known: map[int64]bool{}, KnownPos: map[int64]token.Pos{}, Fields: map[int64]map[int]*PField{}, MsgTypes: map[int64]*types.Named{}, NewFuncs: map[int64]*types.Func{}, MsgName: map[int64]string{}}
	var errs []string
	bad := func(f string, a ...interface{}) { errs = append(errs, fmt.Sprintf(f, a...)) }
	info := c.fit.TypesInfo

	// MesgNum constant names
	if mn, ok := c.fit.Types.Scope().Lookup("MesgNum").(*types.TypeName); ok {
		for _, name := range c.fit.Types.Scope().Names() {
			if k, ok := c.fit.Types.Scope().Lookup(name).(*types.Const); ok && types.Identical(k.Type(), mn.Type()) {
				if v, ok := constInt64(k); ok {
					if _, dup := p.MsgName[v]; !dup {
						p.MsgName[v] = name
					}
				}
			}
		}
	} else {
		bad("type MesgNum not found")
	}

	// knownMsgNums
	if init, _ := c.varInit(c.fit, "knownMsgNums"); init != nil {
		cl, ok := unparen(init).(*ast.CompositeLit)
		if !ok {
			bad("knownMsgNums initializer is not a composite literal")
		} else {
			for _, el := range cl.Elts {
				kv, ok := el.(*ast.KeyValueExpr)
				if !ok {
					bad("knownMsgNums: non key-value element")
					continue
				}
				k, ok1 := exprInt(info, kv.Key)
				v, ok2 := exprConst(info, kv.Value)
				if !ok1 || !ok2 {
					bad("knownMsgNums: non-constant entry at %s", c.pos(kv.Pos()))
					continue
				}
				if v.String() == "true" {
					p.Known[k] = true
					p.KnownPos[k] = kv.Pos()
				}
			}
		}
	} else {
		bad("knownMsgNums not found")
	}

	// _fields
	if init, _ := c.varInit(c.fit, "_fields"); init != nil {
		cl, ok := unparen(init).(*ast.CompositeLit)
		if !ok {
			bad("_fields initializer is not a composite literal")
		} else {
			if at, ok := info.TypeOf(cl).Underlying().(*types.Array); ok {
				p.FieldsLen = at.Len()
				if in, ok := at.Elem().Underlying().(*types.Array); ok {
					p.InnerLen = in.Len()
				}
			}
			idx := int64(0)
			for _, el := range cl.Elts {
				val := el
				if kv, ok := el.(*ast.KeyValueExpr); ok {
					k, ok := exprInt(info, kv.Key)
					if !ok {
						bad("_fields: non-constant message key at %s", c.pos(kv.Pos()))
						continue
					}
					idx = k
					val = kv.Value
				}
				inner, ok := val.(*ast.CompositeLit)
				if !ok {
					bad("_fields[%d]: not a composite literal", idx)
					idx++
					continue
				}
				if _, dup := p.Fields[idx]; dup {
					bad("_fields[%d]: duplicate", idx)
				}
				rows := map[int]*PField{}
				p.Fields[idx] = rows
				fi := int64(0)
				for _, fe := range inner.Elts {
					fval := fe
					if kv, ok := fe.(*ast.KeyValueExpr); ok {
						k, ok := exprInt(info, kv.Key)
						if !ok {
							bad("_fields[%d]: non-constant field key at %s", idx, c.pos(kv.Pos()))
							continue
						}
						fi = k
						fval = kv.Value
					}
					if id, ok := fval.(*ast.Ident); ok && id.Name == "nil" {
						fi++
						continue
					}
					if ue, ok := fval.(*ast.UnaryExpr); ok && ue.Op == token.AND {
						fval = ue.X
					}
					fcl, ok := fval.(*ast.CompositeLit)
					if !ok {
						bad("_fields[%d][%d]: entry is not a composite literal at %s", idx, fi, c.pos(fval.Pos()))
						fi++
						continue
					}
					pf := &PField{Msg: idx, Num: -1, Sindex: -1, Length: -1, Pos: fcl.Pos()}
					vals := map[string]ast.Expr{}
					order := []string{"sindex", "num", "t", "length"}
					if st, ok := c.fit.Types.Scope().Lookup("field").Type().Underlying().(*types.Struct); ok {
						order = nil
						for i := 0; i < st.NumFields(); i++ {
							order = append(order, st.Field(i).Name())
						}
					}
					for i, e := range fcl.Elts {
						if kv, ok := e.(*ast.KeyValueExpr); ok {
							vals[kv.Key.(*ast.Ident).Name] = kv.Value
						} else if i < len(order) {
							vals[order[i]] = e
						}
					}
					get := func(n string) (int64, bool) {
						e, ok := vals[n]
						if !ok {
							return 0, true // zero value
						}
						return exprInt(info, e)
					}
					si, ok1 := get("sindex")
					nu, ok2 := get("num")
					tt, ok3 := get("t")
					ln, ok4 := get("length")
					if !(ok1 && ok2 && ok3 && ok4) {
						bad("_fields[%d][%d]: non-constant member at %s", idx, fi, c.pos(fcl.Pos()))
					} else {
						pf.Sindex, pf.Num, pf.T, pf.Length = int(si), int(nu), uint16(tt), int(ln)
					}
					if _, dup := rows[int(fi)]; dup {
						bad("_fields[%d][%d]: duplicate key", idx, fi)
					}
					rows[int(fi)] = pf
					p.Rows++
					fi++
				}
				idx++
			}
		}
	} else {
		bad("_fields not found")
	}

	// msgsTypes
	if init, _ := c.varInit(c.fit, "msgsTypes"); init != nil {
		if cl, ok := unparen(init).(*ast.CompositeLit); ok {
			if at, ok := info.TypeOf(cl).Underlying().(*types.Array); ok {
				p.MsgTypeLen = at.Len()
			}
			idx := int64(0)
			for _, el := range cl.Elts {
				val := el
				if kv, ok := el.(*ast.KeyValueExpr); ok {
					k, ok := exprInt(info, kv.Key)
					if !ok {
						bad("msgsTypes: non-constant key")
						continue
					}
					idx, val = k, kv.Value
				}
				// reflect.TypeOf(XMsg{})
				call, ok := unparen(val).(*ast.CallExpr)
				if !ok || !isPkgFunc(callee(info, call), "reflect", "TypeOf") || len(call.Args) != 1 {
					bad("msgsTypes[%d]: not reflect.TypeOf(T{}) at %s", idx, c.pos(val.Pos()))
					idx++
					continue
				}
				t := info.TypeOf(call.Args[0])
				named, ok := t.(*types.Named)
				if !ok {
					bad("msgsTypes[%d]: argument type %v is not a named struct", idx, t)
				} else {
					if _, dup := p.MsgTypes[idx]; dup {
						bad("msgsTypes[%d]: duplicate", idx)
					}
					p.MsgTypes[idx] = named
				}
				idx++
			}
		}
	} else {
		bad("msgsTypes not found")
	}

	// newMesgFuncs
	if init, _ := c.varInit(c.fit, "newMesgFuncs"); init != nil {
		if cl, ok := unparen(init).(*ast.CompositeLit); ok {
			if at, ok := info.TypeOf(cl).Underlying().(*types.Array); ok {
				p.NewFuncLen = at.Len()
			}
			idx := int64(0)
			for _, el := range cl.Elts {
				val := el
				if kv, ok := el.(*ast.KeyValueExpr); ok {
					k, ok := exprInt(info, kv.Key)
					if !ok {
						bad("newMesgFuncs: non-constant key")
						continue
					}
					idx, val = k, kv.Value
				}
				fl, ok := unparen(val).(*ast.FuncLit)
				var ctor *types.Func
				if ok && len(fl.Body.List) == 1 {
					if rs, ok := fl.Body.List[0].(*ast.ReturnStmt); ok && len(rs.Results) == 1 {
						if call, ok := unparen(rs.Results[0]).(*ast.CallExpr); ok && isPkgFunc(callee(info, call), "reflect", "ValueOf") && len(call.Args) == 1 {
							if inner, ok := unparen(call.Args[0]).(*ast.CallExpr); ok && len(inner.Args) == 0 {
								ctor, _ = callee(info, inner).(*types.Func)
							}
						}
					}
				}
				if ctor == nil {
					bad("newMesgFuncs[%d]: not func() reflect.Value { return reflect.ValueOf(NewXMsg()) } at %s", idx, c.pos(val.Pos()))
				} else {
					p.NewFuncs[idx] = ctor
				}
				idx++
			}
		}
	} else {
		bad("newMesgFuncs not found")
	}

	// derive kind/array/base through the evaluator
	ev := newEvaluator(c)
	for _, rows := range p.Fields {
		for _, pf := range rows {
			k, a, b, err := c.fitBits(ev, pf.T)
			if err != "" {
				bad("evaluating types.Fit(%d): %s", pf.T, err)
				continue
			}
			pf.Kind, pf.Array, pf.Base = k, a, b
		}
	}
	c.prof, c.profErr = p, errs
	return p, errs
}

func constInt64(k *types.Const) (int64, bool) {
	return exprConstInt(k)
}

func exprConstInt(k *types.Const) (int64, bool) {
	v := k.Val()
	if v == nil {
		return 0, false
	}
	s := v.ExactString()
	var x int64
	if _, err := fmt.Sscan(s, &x); err != nil {
		return 0, false
	}
	return x, true
}

// fitBits evaluates (types.Fit).Kind, Array, BaseType from their SSA bodies.
func (c *Ctx) fitBits(ev *Evaluator, t uint16) (kind int, array bool, base byte, errs string) {
	fitT := c.typ.Types.Scope().Lookup("Fit")
	if fitT == nil {
		return 0, false, 0, "types.Fit not found"
	}
	arg := mkInt(uint64(t), fitT.Type())
	call := func(name string) (Val, string) {
		f := c.ssaFn(c.fn(c.typ, "Fit."+name))
		if f == nil {
			return nil, "types.Fit." + name + " not found"
		}
		v, err := ev.Call(f, []Val{arg})
		if err != nil {
			return nil, name + ": " + err.Error()
		}
		return v, ""
	}
	kv, e1 := call("Kind")
	av, e2 := call("Array")
	bv, e3 := call("BaseType")
	if e1+e2+e3 != "" {
		return 0, false, 0, e1 + e2 + e3
	}
	ki, ok1 := kv.(IntV)
	ab, ok2 := av.(BoolV)
	bi, ok3 := bv.(IntV)
	if !ok1 || !ok2 || !ok3 {
		return 0, false, 0, "non-constant result"
	}
	return int(ki.Bits), bool(ab), byte(bi.Bits), ""
}

// baseInfo evaluates the internal/types predicates on a raw base-type byte.
func (c *Ctx) baseInfo(ev *Evaluator, b byte) BaseInfo {
	baseT := c.typ.Types.Scope().Lookup("Base")
	var bi BaseInfo
	if baseT == nil {
		bi.Err = "types.Base not found"
		return bi
	}
	arg := mkInt(uint64(b), baseT.Type())
	call := func(name string) Val {
		f := c.ssaFn(c.fn(c.typ, "Base."+name))
		if f == nil {
			bi.Err += "types.Base." + name + " not found; "
			return nil
		}
		v, err := ev.Call(f, []Val{arg})
		if err != nil {
			bi.Err += name + ": " + err.Error() + "; "
			return nil
		}
		return v
	}
	if v, ok := call("Known").(BoolV); ok {
		bi.Known = bool(v)
	} else if bi.Err == "" {
		bi.Err = "Known not boolean"
	}
	if !bi.Known || bi.Err != "" {
		return bi
	}
	if v, ok := call("Signed").(BoolV); ok {
		bi.Signed = bool(v)
	}
	if v, ok := call("Integer").(BoolV); ok {
		bi.Integer = bool(v)
	}
	if v, ok := call("Float").(BoolV); ok {
		bi.Float = bool(v)
	}
	if v, ok := call("Size").(IntV); ok {
		bi.Size = int(v.S())
	} else if bi.Err == "" {
		bi.Err = "Size not integer"
	}
	return bi
}

func (p *Profile) sortedMsgs() []int64 {
	var ks []int64
	for k := range p.Fields {
		ks = append(ks, k)
	}
	sort.Slice(ks, func(i, j int) bool { return ks[i] < ks[j] })
	return ks
}

func (p *Profile) sortedNums(m int64) []int {
	var ks []int
	for k := range p.Fields[m] {
		ks = append(ks, k)
	}
	sort.Ints(ks)
	return ks
}

func (p *Profile) name(m int64) string {
	if n, ok := p.MsgName[m]; ok {
		return n
	}
	return fmt.Sprintf("MesgNum(%d)", m)
}

// ssa helper: find a function value
func (c *Ctx) ssaFunc(pkgPath, name string) *ssa.Function {
	p := c.pkgs[pkgPath]
	if p == nil {
		return nil
	}
	return c.ssaFn(c.fn(p, name))
}
