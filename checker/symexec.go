package main

import (
	"fmt"
	"go/token"
	"go/types"
	"sort"
	"strings"

	"golang.org/x/tools/go/ssa"
)

// Path-enumerating symbolic reading of small loop-free SSA functions into canonical term
// strings. Used by rules that must recognise what a small helper computes independently of the
// names of its locals, parameters and fields and of how the source spells it (compound
// assignment, temporaries, operand order of commutative operators, a sentinel test written
// inline or through the type's own predicate method, `if a || b` versus two ifs, negated
// conditions). This is a syntactic normal form of the SSA, not an execution: nothing is
// evaluated, terms are only rewritten and compared.
//
// Terms: parameters p0,p1,...; an initial memory cell "*<addr>"; field addresses "<base>.f<i>";
// allocations new0,new1,...; constants by exact value; package variables "g:<name>" (a load of
// one is "*g:<name>"); calls to functions outside the module "(call pkg.Name args)"; static
// calls to loop-free, store-free module functions are inlined (bounded depth). Each path carries
// its branch conditions "T:<term>" / "F:<term>" with != and ! normalised away; a path whose
// conditions contradict is dropped. Loops, stores inside inlined callees, dynamic calls and
// unknown instructions make the result "not recognised" (why != "").

type symPath struct {
	conds []string
	rets  []string
	mem   map[string]string
	calls []string // uninterpreted calls made on the path, in order (functions outside the module and opaque ones)
}

type symOut struct {
	paths []symPath
	why   string
}

const symMaxPaths = 64

func symBin(op token.Token, x, y string) string {
	switch op {
	case token.ADD, token.MUL, token.AND, token.OR, token.XOR, token.EQL, token.NEQ:
		if y < x {
			x, y = y, x
		}
	}
	return fmt.Sprintf("(%s %s %s)", op, x, y)
}

func symIsConst(s string) bool {
	if s == "" {
		return false
	}
	c := s[0]
	return c == '-' || (c >= '0' && c <= '9') || c == '"'
}

type symState struct {
	val   map[ssa.Value]string
	mem   map[string]string
	conds []string
	calls []string
}

func (s *symState) clone() *symState {
	n := &symState{val: make(map[ssa.Value]string, len(s.val)), mem: make(map[string]string, len(s.mem))}
	for k, v := range s.val {
		n.val[k] = v
	}
	for k, v := range s.mem {
		n.mem[k] = v
	}
	n.conds = append([]string(nil), s.conds...)
	n.calls = append([]string(nil), s.calls...)
	return n
}

// addCond returns false when the new condition contradicts one already on the path.
func (s *symState) addCond(term string, pol bool) bool {
	for {
		if strings.HasPrefix(term, "(! ") {
			term = term[3 : len(term)-1]
			pol = !pol
			continue
		}
		if strings.HasPrefix(term, "(!= ") {
			term = "(== " + term[4:]
			pol = !pol
			continue
		}
		break
	}
	if term == "true" || term == "false" {
		return (term == "true") == pol
	}
	p, q := "T:", "F:"
	if !pol {
		p, q = q, p
	}
	for _, c := range s.conds {
		if c == q+term {
			return false
		}
		if c == p+term {
			return true
		}
	}
	s.conds = append(s.conds, p+term)
	return true
}

func symLoad(mem map[string]string, a string) string {
	if v, ok := mem[a]; ok {
		return v
	}
	if i := strings.LastIndex(a, ".f"); i > 0 { // field of a cell stored whole
		if base, ok := mem[a[:i]]; ok {
			return fmt.Sprintf("(fld%s %s)", a[i+2:], base)
		}
	}
	var fs []string // whole cell whose fields were stored one by one
	for k, v := range mem {
		if strings.HasPrefix(k, a+".f") && !strings.Contains(k[len(a)+2:], ".") {
			fs = append(fs, k[len(a)+1:]+"="+v)
		}
	}
	if len(fs) > 0 {
		sort.Strings(fs)
		return "(struct " + strings.Join(fs, " ") + ")"
	}
	if strings.Contains(a, "new") && !strings.HasPrefix(a, "*") {
		return "(zero)"
	}
	return "*" + a
}

// symOpaque: module functions that are kept as uninterpreted calls instead of being inlined
// (set by the caller of symPathsOpaque for the duration of one query).
var symOpaque map[string]bool

type symRun struct {
	fn        *ssa.Function
	depth     int
	inlined   bool
	out       *symOut
	allocName map[*ssa.Alloc]string
	prefix    string
}

func symPaths(fn *ssa.Function, args []string, depth int) symOut {
	return symPathsMem(fn, args, depth, nil, false)
}

func symPathsMem(fn *ssa.Function, args []string, depth int, mem map[string]string, inlined bool) symOut {
	var out symOut
	if fn == nil || len(fn.Blocks) == 0 {
		out.why = "no body"
		return out
	}
	if args == nil {
		for i := range fn.Params {
			args = append(args, fmt.Sprintf("p%d", i))
		}
	}
	st := &symState{val: map[ssa.Value]string{}, mem: map[string]string{}}
	for k, v := range mem {
		st.mem[k] = v
	}
	for i, p := range fn.Params {
		st.val[p] = args[i]
	}
	r := &symRun{fn: fn, depth: depth, inlined: inlined, out: &out, allocName: map[*ssa.Alloc]string{}}
	if inlined {
		r.prefix = fn.Name() + "_"
	}
	r.step(fn.Blocks[0], nil, 0, st, map[*ssa.BasicBlock]bool{})
	return out
}

func (r *symRun) term(st *symState, v ssa.Value) string {
	if s, ok := st.val[v]; ok {
		return s
	}
	switch n := v.(type) {
	case *ssa.Const:
		if n.Value == nil {
			return "nil"
		}
		return n.Value.ExactString()
	case *ssa.Global:
		return "g:" + n.Name()
	case *ssa.Function:
		return "fn:" + n.Name()
	}
	return "?" + v.Name()
}

func (r *symRun) step(b, prev *ssa.BasicBlock, from int, st *symState, visited map[*ssa.BasicBlock]bool) {
	out := r.out
	if out.why != "" {
		return
	}
	if from == 0 {
		if visited[b] {
			out.why = "loop"
			return
		}
		nv := make(map[*ssa.BasicBlock]bool, len(visited)+1)
		for k := range visited {
			nv[k] = true
		}
		nv[b] = true
		visited = nv
	}
	for idx := from; idx < len(b.Instrs); idx++ {
		switch n := b.Instrs[idx].(type) {
		case *ssa.DebugRef:
		case *ssa.Phi:
			for i, p := range b.Preds {
				if p == prev {
					st.val[n] = r.term(st, n.Edges[i])
				}
			}
		case *ssa.Alloc:
			nm, ok := r.allocName[n]
			if !ok {
				nm = fmt.Sprintf("%snew%d", r.prefix, len(r.allocName))
				r.allocName[n] = nm
			}
			st.val[n] = nm
		case *ssa.FieldAddr:
			st.val[n] = fmt.Sprintf("%s.f%d", r.term(st, n.X), n.Field)
		case *ssa.Field:
			x := r.term(st, n.X)
			if strings.HasPrefix(x, "(struct ") && !strings.Contains(x[8:], "(") {
				got := ""
				for _, kv := range strings.Fields(x[8 : len(x)-1]) {
					if strings.HasPrefix(kv, fmt.Sprintf("f%d=", n.Field)) {
						got = kv[strings.Index(kv, "=")+1:]
					}
				}
				if got != "" {
					st.val[n] = got
					break
				}
			}
			st.val[n] = fmt.Sprintf("(fld%d %s)", n.Field, x)
		case *ssa.IndexAddr:
			st.val[n] = fmt.Sprintf("%s[%s]", r.term(st, n.X), r.term(st, n.Index))
		case *ssa.UnOp:
			if n.Op == token.MUL {
				st.val[n] = symLoad(st.mem, r.term(st, n.X))
			} else {
				st.val[n] = fmt.Sprintf("(%s %s)", n.Op, r.term(st, n.X))
			}
		case *ssa.BinOp:
			x, y := r.term(st, n.X), r.term(st, n.Y)
			op := n.Op
			if bt, ok := n.X.Type().Underlying().(*types.Basic); ok && bt.Info()&types.IsString != 0 && op == token.ADD {
				st.val[n] = fmt.Sprintf("(concat %s %s)", x, y)
				break
			}
			if symIsConst(x) && !symIsConst(y) { // constant on the right for ordered comparisons
				switch op {
				case token.LSS:
					op, x, y = token.GTR, y, x
				case token.GTR:
					op, x, y = token.LSS, y, x
				case token.LEQ:
					op, x, y = token.GEQ, y, x
				case token.GEQ:
					op, x, y = token.LEQ, y, x
				}
			}
			st.val[n] = symBin(op, x, y)
		case *ssa.Convert:
			st.val[n] = fmt.Sprintf("(conv:%s %s)", types.TypeString(n.Type(), func(*types.Package) string { return "" }), r.term(st, n.X))
		case *ssa.ChangeType:
			st.val[n] = r.term(st, n.X)
		case *ssa.MakeInterface:
			st.val[n] = fmt.Sprintf("(iface %s)", r.term(st, n.X))
		case *ssa.ChangeInterface:
			st.val[n] = r.term(st, n.X)
		case *ssa.MakeSlice:
			st.val[n] = fmt.Sprintf("(make %s %s)", r.term(st, n.Len), r.term(st, n.Cap))
		case *ssa.Slice:
			lo, hi := "", ""
			if n.Low != nil {
				lo = r.term(st, n.Low)
			}
			if n.High != nil {
				hi = r.term(st, n.High)
			}
			st.val[n] = fmt.Sprintf("(slice %s %s %s)", r.term(st, n.X), lo, hi)
		case *ssa.Extract:
			t := r.term(st, n.Tuple)
			if strings.HasPrefix(t, "(tuple ") {
				// result of an inlined call with several results: pick the component (top-level split)
				parts := symSplit(t[7 : len(t)-1])
				if n.Index < len(parts) {
					st.val[n] = parts[n.Index]
					break
				}
			}
			st.val[n] = fmt.Sprintf("(ext%d %s)", n.Index, t)
		case *ssa.TypeAssert:
			if n.CommaOk {
				ty := types.TypeString(n.AssertedType, func(*types.Package) string { return "" })
				x := r.term(st, n.X)
				st.val[n] = fmt.Sprintf("(tuple (assert:%s %s) (is:%s %s))", ty, x, ty, x)
				break
			}
			st.val[n] = fmt.Sprintf("(assert:%s %s)", types.TypeString(n.AssertedType, func(*types.Package) string { return "" }), r.term(st, n.X))
		case *ssa.Store:
			if r.inlined {
				if _, local := n.Addr.(*ssa.Alloc); !local {
					local := false
					if fa, ok := n.Addr.(*ssa.FieldAddr); ok && isAlloc(fa.X) {
						local = true
					}
					if ia, ok := n.Addr.(*ssa.IndexAddr); ok && isAlloc(ia.X) {
						local = true
					}
					if !local {
						out.why = "store to non-local memory in inlined callee " + r.fn.Name()
						return
					}
				}
			}
			a := r.term(st, n.Addr)
			for k := range st.mem {
				if strings.HasPrefix(k, a+".f") {
					delete(st.mem, k)
				}
			}
			st.mem[a] = r.term(st, n.Val)
		case *ssa.Call:
			callee := n.Common().StaticCallee()
			if callee == nil {
				if bi, ok := n.Common().Value.(*ssa.Builtin); ok {
					var as []string
					for _, a := range n.Common().Args {
						as = append(as, r.term(st, a))
					}
					switch bi.Name() {
					case "len", "cap", "min", "max":
						st.val[n] = "(" + bi.Name() + " " + strings.Join(as, " ") + ")"
						continue
					case "copy":
						t := "(copy " + strings.Join(as, " ") + ")"
						st.val[n] = t
						st.calls = append(st.calls, t)
						continue
					}
				}
				out.why = "dynamic call " + n.String()
				return
			}
			var as []string
			for _, a := range n.Common().Args {
				as = append(as, r.term(st, a))
			}
			if !strings.HasPrefix(fnPkgPath(callee), modPath) || symOpaque[callee.Name()] {
				nm := callee.Name()
				if callee.Pkg != nil {
					nm = callee.Pkg.Pkg.Name() + "." + nm
				}
				t := "(call " + strings.TrimSpace(nm+" "+strings.Join(as, " ")) + ")"
				st.val[n] = t
				st.calls = append(st.calls, t)
				break
			}
			if r.depth <= 0 {
				out.why = "inlining depth at " + callee.Name()
				return
			}
			sub := symPathsMem(callee, as, r.depth-1, st.mem, true)
			if sub.why != "" {
				out.why = callee.Name() + ": " + sub.why
				return
			}
			for _, sp := range sub.paths {
				ns := st.clone()
				feasible := true
				for _, cnd := range sp.conds {
					if !ns.addCond(cnd[2:], cnd[0] == 'T') {
						feasible = false
						break
					}
				}
				if !feasible {
					continue
				}
				if len(sp.rets) == 1 {
					ns.val[n] = sp.rets[0]
				} else {
					ns.val[n] = "(tuple " + strings.Join(sp.rets, " ") + ")"
				}
				ns.calls = append(ns.calls, sp.calls...)
				r.step(b, prev, idx+1, ns, visited)
			}
			return
		case *ssa.Jump:
			r.step(b.Succs[0], b, 0, st, visited)
			return
		case *ssa.If:
			cond := r.term(st, n.Cond)
			for i, pol := range []bool{true, false} {
				ns := st.clone()
				if ns.addCond(cond, pol) {
					r.step(b.Succs[i], b, 0, ns, visited)
				}
			}
			return
		case *ssa.Return:
			p := symPath{conds: append([]string(nil), st.conds...), mem: map[string]string{}, calls: append([]string(nil), st.calls...)}
			sort.Strings(p.conds)
			for _, x := range n.Results {
				p.rets = append(p.rets, r.term(st, x))
			}
			for k, v := range st.mem {
				if r.inlined && strings.HasPrefix(k, r.prefix+"new") {
					continue
				}
				p.mem[k] = v
			}
			out.paths = append(out.paths, p)
			if len(out.paths) > symMaxPaths {
				out.why = "too many paths"
			}
			return
		default:
			out.why = fmt.Sprintf("instruction %T in %s", n, r.fn.Name())
			return
		}
	}
}

func isAlloc(v ssa.Value) bool {
	_, ok := v.(*ssa.Alloc)
	return ok
}

// symExec: single-path convenience form (straight-line functions).
type symRes struct {
	rets []string
	mem  map[string]string
	why  string
}

func symExec(fn *ssa.Function, args []string, depth int) symRes {
	o := symPaths(fn, args, depth)
	if o.why != "" {
		return symRes{why: o.why, mem: map[string]string{}}
	}
	if len(o.paths) != 1 {
		return symRes{why: fmt.Sprintf("%d paths", len(o.paths)), mem: map[string]string{}}
	}
	return symRes{rets: o.paths[0].rets, mem: o.paths[0].mem}
}

func (p symPath) String() string {
	return "[" + strings.Join(p.conds, " ") + "] -> " + strings.Join(p.rets, ",")
}

// symSplit splits a space separated list of terms at the top level of parentheses.
func symSplit(s string) []string {
	var out []string
	depth, start := 0, 0
	for i := 0; i < len(s); i++ {
		switch s[i] {
		case '(':
			depth++
		case ')':
			depth--
		case ' ':
			if depth == 0 {
				out = append(out, s[start:i])
				start = i + 1
			}
		case '"':
			for i++; i < len(s) && s[i] != '"'; i++ {
				if s[i] == '\\' {
					i++
				}
			}
		}
	}
	return append(out, s[start:])
}

// symPathsOpaque: symPaths with the named module functions kept as uninterpreted calls.
func symPathsOpaque(fn *ssa.Function, depth int, opaque ...string) symOut {
	saved := symOpaque
	symOpaque = map[string]bool{}
	for _, o := range opaque {
		symOpaque[o] = true
	}
	defer func() { symOpaque = saved }()
	return symPaths(fn, nil, depth)
}
