package main

import (
	_ "embed"
	"encoding/json"
	"fmt"
	"go/ast"
	"go/parser"
	"go/token"
	"go/types"
	"os"
	"path/filepath"
	"sort"
	"strings"

	"golang.org/x/tools/go/packages"
)

// View normalisation for "extract function" refactorings. A function that did not exist on the
// pinned tree (pinnedfuncs.json, generated with -dump-funcs), is called exactly once in the
// module, and is called in tail position with its own parameter names as arguments, is spliced
// back into its caller in the checker's in-memory copy of the source before anything else is
// loaded: the rules then see the function the properties anchor as one body again. The splice
// is a textual substitution of the call statement by `{ <callee body> }`, which preserves
// behaviour under the conditions checked here:
//
//   * the call is an expression statement that is the last statement of the caller or is directly
//     followed by a bare `return` (callee without results, its own `return`s bare), or it is the
//     single operand of a `return` statement (callee's results are the caller's);
//   * receiver and arguments are plain identifiers spelled like the callee's receiver and
//     parameters, so the body's references bind to the caller's variables of the same value;
//   * the callee has no defer, go, goto, label or named results, and does not call itself;
//   * every package-level or universe identifier the body uses resolves to the same object at the
//     call site (nothing in the caller shadows it).
//
// Nothing is written to disk; on the pinned tree there is no new function and the pass is a no-op.

//go:embed pinnedfuncs.json
var pinnedFuncsJSON []byte

type inlineInfo struct {
	Inlined  []string `json:"inlined,omitempty"`
	Rounds   int      `json:"rounds"`
	Disabled string   `json:"disabled,omitempty"`
}

func pinnedFuncs() map[string]bool {
	var l []string
	if json.Unmarshal(pinnedFuncsJSON, &l) != nil || len(l) == 0 {
		return nil
	}
	m := map[string]bool{}
	for _, k := range l {
		m[k] = true
	}
	return m
}

func funcsDump(repo string) error {
	env := append(os.Environ(), "GOFLAGS=-mod=mod", "GOPROXY=off", "GOSUMDB=off", "GOTOOLCHAIN=local", "GOWORK=off")
	pkgs, err := alphaLoad(repo, env, nil, nil)
	if err != nil {
		return err
	}
	var out []string
	for _, p := range pkgs {
		for _, f := range p.Syntax {
			for _, d := range f.Decls {
				if fd, ok := d.(*ast.FuncDecl); ok {
					out = append(out, p.PkgPath+"|"+funcKey(fd))
				}
			}
		}
	}
	sort.Strings(out)
	b, _ := json.MarshalIndent(out, "", " ")
	fmt.Println(string(b))
	return nil
}

type inlineEdit struct {
	file     string
	off, end int
	text     string
}

// inlineOverlay returns overlay plus the files in which new single-use tail helpers were spliced
// into their callers.
func inlineOverlay(repo string, env []string, tags []string, overlay map[string][]byte) (map[string][]byte, *inlineInfo) {
	ii := &inlineInfo{}
	pinned := pinnedFuncs()
	if pinned == nil {
		ii.Disabled = "no pinned function list"
		return overlay, ii
	}
	if !anyNewFunc(repo, overlay, pinned) {
		return overlay, ii
	}
	cur := overlay
	for round := 0; round < 3; round++ {
		pkgs, err := alphaLoad(repo, env, tags, cur)
		if err != nil {
			if round == 0 {
				ii.Disabled = "pre-load failed: " + err.Error()
				return overlay, ii
			}
			// a splice that does not type-check is dropped wholesale
			ii.Disabled = "splice rejected by the type checker: " + err.Error()
			ii.Inlined = nil
			return overlay, ii
		}
		edits, names := inlineRound(pkgs, pinned, cur)
		if len(edits) == 0 {
			break
		}
		ii.Rounds++
		ii.Inlined = append(ii.Inlined, names...)
		next := map[string][]byte{}
		for k, v := range cur {
			next[k] = v
		}
		byFile := map[string][]inlineEdit{}
		for _, e := range edits {
			byFile[e.file] = append(byFile[e.file], e)
		}
		for file, es := range byFile {
			src, ok := next[file]
			if !ok {
				b, err := os.ReadFile(file)
				if err != nil {
					ii.Disabled = "cannot read " + file
					return overlay, ii
				}
				src = b
			}
			sort.Slice(es, func(i, j int) bool { return es[i].off > es[j].off })
			out := append([]byte(nil), src...)
			lastOff := len(out) + 1
			for _, e := range es {
				if e.end > lastOff {
					continue // overlapping edits: keep the later one only
				}
				out = append(out[:e.off], append([]byte(e.text), out[e.end:]...)...)
				lastOff = e.off
			}
			next[file] = out
		}
		cur = next
	}
	if len(ii.Inlined) > 0 {
		// the result must load
		if _, err := alphaLoad(repo, env, tags, cur); err != nil {
			ii.Disabled = "splice rejected by the type checker: " + err.Error()
			ii.Inlined = nil
			return overlay, ii
		}
	}
	return cur, ii
}

func inlineRound(pkgs []*packages.Package, pinned map[string]bool, overlay map[string][]byte) ([]inlineEdit, []string) {
	type cand struct {
		p  *packages.Package
		fd *ast.FuncDecl
	}
	cands := map[types.Object]*cand{}
	for _, p := range pkgs {
		if !strings.HasPrefix(p.PkgPath, modPath) {
			continue
		}
		for _, f := range p.Syntax {
			if strings.HasSuffix(p.Fset.Position(f.Pos()).Filename, "_test.go") {
				continue
			}
			for _, d := range f.Decls {
				fd, ok := d.(*ast.FuncDecl)
				if !ok || fd.Body == nil || pinned[p.PkgPath+"|"+funcKey(fd)] {
					continue
				}
				if o := p.TypesInfo.Defs[fd.Name]; o != nil && inlinableBody(p, fd) {
					cands[o] = &cand{p, fd}
				}
			}
		}
	}
	if len(cands) == 0 {
		return nil, nil
	}
	// call sites
	type site struct {
		p      *packages.Package
		caller *ast.FuncDecl
		call   *ast.CallExpr
		stmt   ast.Stmt
		list   []ast.Stmt
		idx    int
	}
	sites := map[types.Object][]*site{}
	uses := map[types.Object]int{}
	for _, p := range pkgs {
		if !strings.HasPrefix(p.PkgPath, modPath) {
			continue
		}
		for id, o := range p.TypesInfo.Uses {
			if _, ok := cands[o]; ok {
				_ = id
				uses[o]++
			}
		}
		for _, f := range p.Syntax {
			for _, d := range f.Decls {
				caller, ok := d.(*ast.FuncDecl)
				if !ok || caller.Body == nil {
					continue
				}
				var walk func(list []ast.Stmt)
				visitStmt := func(s ast.Stmt, list []ast.Stmt, i int) {
					var call *ast.CallExpr
					switch x := s.(type) {
					case *ast.ExprStmt:
						call, _ = x.X.(*ast.CallExpr)
					case *ast.ReturnStmt:
						if len(x.Results) == 1 {
							call, _ = x.Results[0].(*ast.CallExpr)
						}
					case *ast.IfStmt:
						call = guardedCall(x)
					case *ast.AssignStmt:
						if len(x.Lhs) == 1 && len(x.Rhs) == 1 && (x.Tok == token.ASSIGN || x.Tok == token.DEFINE) {
							if _, isId := x.Lhs[0].(*ast.Ident); isId {
								call, _ = x.Rhs[0].(*ast.CallExpr)
							}
						}
					}
					if call == nil {
						return
					}
					var o types.Object
					switch fx := call.Fun.(type) {
					case *ast.Ident:
						o = p.TypesInfo.Uses[fx]
					case *ast.SelectorExpr:
						o = p.TypesInfo.Uses[fx.Sel]
					}
					if _, ok := cands[o]; ok {
						sites[o] = append(sites[o], &site{p, caller, call, s, list, i})
					}
				}
				walk = func(list []ast.Stmt) {
					for i, s := range list {
						visitStmt(s, list, i)
						switch x := s.(type) {
						case *ast.BlockStmt:
							walk(x.List)
						case *ast.IfStmt:
							walk(x.Body.List)
							for e := x.Else; e != nil; {
								switch y := e.(type) {
								case *ast.BlockStmt:
									walk(y.List)
									e = nil
								case *ast.IfStmt:
									walk(y.Body.List)
									e = y.Else
								default:
									e = nil
								}
							}
						case *ast.ForStmt:
							walk(x.Body.List)
						case *ast.RangeStmt:
							walk(x.Body.List)
						case *ast.SwitchStmt:
							for _, cl := range x.Body.List {
								walk(cl.(*ast.CaseClause).Body)
							}
						case *ast.TypeSwitchStmt:
							for _, cl := range x.Body.List {
								walk(cl.(*ast.CaseClause).Body)
							}
						}
					}
				}
				walk(caller.Body.List)
			}
		}
	}
	var edits []inlineEdit
	var names []string
	for o, cd := range cands {
		ss := sites[o]
		if len(ss) == 0 || uses[o] != len(ss) {
			continue
		}
		// several call sites: only for a helper without results called as a statement (each site
		// becomes a copy of the body; nothing else refers to the helper)
		if len(ss) > 1 {
			void := cd.fd.Type.Results == nil || len(cd.fd.Type.Results.List) == 0
			for _, s := range ss {
				if _, isExpr := s.stmt.(*ast.ExprStmt); !isExpr {
					void = false
				}
			}
			if !void || len(ss) > 4 {
				continue
			}
		}
		var es []inlineEdit
		var ns []string
		okAll := true
		for _, s := range ss {
			if s.caller == cd.fd || s.p != cd.p {
				okAll = false
				break
			}
			e, ok := spliceEdit(cd.p, cd.fd, s.caller, s.call, s.stmt, s.list, s.idx, overlay)
			if !ok {
				okAll = false
				break
			}
			es = append(es, e)
			ns = append(ns, funcKey(cd.fd)+" -> "+funcKey(s.caller))
		}
		if !okAll {
			continue
		}
		// the helper itself leaves the view (every use was spliced): its lines become blank lines, so
		// positions after it stay where they are
		fset := cd.p.Fset
		start := cd.fd.Pos()
		if cd.fd.Doc != nil {
			start = cd.fd.Doc.Pos()
		}
		ps, pe := fset.Position(start), fset.Position(cd.fd.End())
		es = append(es, inlineEdit{file: ps.Filename, off: ps.Offset, end: pe.Offset, text: strings.Repeat("\n", pe.Line-ps.Line)})
		edits = append(edits, es...)
		names = append(names, ns...)
	}
	sort.Strings(names)
	return edits, names
}

// inlinableBody: no defer/go/goto/labels/closures that return, no named results, no recursion.
func inlinableBody(p *packages.Package, fd *ast.FuncDecl) bool {
	if fd.Type.Results != nil {
		for _, f := range fd.Type.Results.List {
			if len(f.Names) > 0 {
				return false
			}
		}
	}
	if fd.Type.TypeParams != nil {
		return false
	}
	ok := true
	self := p.TypesInfo.Defs[fd.Name]
	ast.Inspect(fd.Body, func(n ast.Node) bool {
		switch x := n.(type) {
		case *ast.DeferStmt:
			// accepted in tail forms only (spliceEdit): the helper's deferred calls then run when the
			// caller returns, which is when the helper returned, ahead of the caller's own earlier defers
		case *ast.GoStmt, *ast.LabeledStmt:
			ok = false
		case *ast.BranchStmt:
			if x.Tok == token.GOTO || x.Label != nil {
				ok = false
			}
		case *ast.FuncLit:
			return false // returns inside a literal are its own
		case *ast.Ident:
			if p.TypesInfo.Uses[x] == self && self != nil {
				ok = false
			}
		case *ast.CallExpr:
			if id, isId := x.Fun.(*ast.Ident); isId && id.Name == "recover" {
				ok = false
			}
		}
		return ok
	})
	return ok
}

func spliceEdit(p *packages.Package, callee, caller *ast.FuncDecl, call *ast.CallExpr, stmt ast.Stmt, list []ast.Stmt, idx int, overlay map[string][]byte) (inlineEdit, bool) {
	info := p.TypesInfo
	fset := p.Fset
	hasResults := callee.Type.Results != nil && len(callee.Type.Results.List) > 0
	_, isRet := stmt.(*ast.ReturnStmt)
	_, isGuard := stmt.(*ast.IfStmt)
	endStmt := stmt
	dropLast := false
	anywhere := false
	hasDefer := false
	ast.Inspect(callee.Body, func(n ast.Node) bool {
		if _, isLit := n.(*ast.FuncLit); isLit {
			return false
		}
		if _, isD := n.(*ast.DeferStmt); isD {
			hasDefer = true
		}
		return true
	})
	if hasDefer {
		// `return f(args)` as a direct statement of the caller's body (not in a loop): one activation
		if !isRet {
			return inlineEdit{}, false
		}
		direct := false
		for _, s := range caller.Body.List {
			if s == stmt {
				direct = true
			}
		}
		if !direct {
			return inlineEdit{}, false
		}
	}
	asg, isAssign := stmt.(*ast.AssignStmt)
	// `err := f(args)` (or `err = f(args)`) directly followed by `if err != nil { return err }`: the guarded
	// form in two statements
	var pairIf *ast.IfStmt
	if isAssign && idx+1 < len(list) {
		if ifs, ok := list[idx+1].(*ast.IfStmt); ok && ifs.Init == nil && ifs.Else == nil && len(ifs.Body.List) == 1 {
			if id, isId := asg.Lhs[0].(*ast.Ident); isId {
				be, okB := ifs.Cond.(*ast.BinaryExpr)
				ret, okR := ifs.Body.List[0].(*ast.ReturnStmt)
				if okB && okR && be.Op == token.NEQ && len(ret.Results) == 1 {
					l, lok := be.X.(*ast.Ident)
					rr, rok := be.Y.(*ast.Ident)
					rid, ridok := ret.Results[0].(*ast.Ident)
					if lok && rok && ridok && l.Name == id.Name && rr.Name == "nil" && rid.Name == id.Name {
						if callee.Type.Results != nil && len(callee.Type.Results.List) == 1 {
							if rt := info.TypeOf(callee.Type.Results.List[0].Type); rt != nil && isErrorType(rt) {
								pairIf = ifs
							}
						}
					}
				}
			}
		}
	}
	if pairIf != nil {
		isAssign, isGuard = false, true
		endStmt = pairIf
	}
	if isAssign {
		// `x = f(args)`: one result, stored into a temporary by every `return E` of the body
		if hasDefer || callee.Type.Results == nil || len(callee.Type.Results.List) != 1 || len(callee.Type.Results.List[0].Names) > 0 {
			return inlineEdit{}, false
		}
		// not for an error result: `err = f(); if err != nil { return err }` is read by the error-flow rules
		// as it stands (the helper's returns classified in the helper); routing the error through a
		// temporary only hides its origins
		if rt := info.TypeOf(callee.Type.Results.List[0].Type); rt == nil || isErrorType(rt) {
			return inlineEdit{}, false
		}
	}
	switch {
	case isAssign:
	case isGuard:
		// `if err := f(args); err != nil { return err }` in a caller whose only result is the error: the
		// callee's error returns become the caller's, its final `return nil` falls through
		if caller.Type.Results == nil || len(caller.Type.Results.List) != 1 || len(caller.Type.Results.List[0].Names) > 1 {
			return inlineEdit{}, false
		}
		if !guardedCallee(info, callee) {
			return inlineEdit{}, false
		}
		dropLast = true
	case isRet:
		if !hasResults {
			return inlineEdit{}, false
		}
	default:
		if hasResults {
			return inlineEdit{}, false
		}
		// tail position: last statement of the caller's body, or followed by a bare return
		tail := false
		if idx+1 < len(list) {
			if r, ok := list[idx+1].(*ast.ReturnStmt); ok && len(r.Results) == 0 {
				tail = true
			}
		} else if len(caller.Body.List) > 0 && caller.Body.List[len(caller.Body.List)-1] == stmt && (caller.Type.Results == nil || len(caller.Type.Results.List) == 0) {
			tail = true
		}
		if !tail {
			// anywhere else: the callee's (bare) returns become jumps to the end of the splice
			anywhere = true
		}
		// the callee's returns must be bare (they become the caller's)
		bare := true
		ast.Inspect(callee.Body, func(n ast.Node) bool {
			if _, isLit := n.(*ast.FuncLit); isLit {
				return false
			}
			if r, ok := n.(*ast.ReturnStmt); ok && len(r.Results) != 0 {
				bare = false
			}
			return true
		})
		if !bare || (!anywhere && caller.Type.Results != nil && len(caller.Type.Results.List) > 0 && idx+1 >= len(list)) {
			return inlineEdit{}, false
		}
	}
	// receiver and arguments spelled like the callee's receiver and parameters
	var pnames []string
	for _, f := range callee.Type.Params.List {
		if len(f.Names) == 0 {
			return inlineEdit{}, false
		}
		for _, n := range f.Names {
			pnames = append(pnames, n.Name)
		}
	}
	if len(pnames) != len(call.Args) || call.Ellipsis.IsValid() {
		return inlineEdit{}, false
	}
	for i, a := range call.Args {
		id, ok := a.(*ast.Ident)
		if !ok || id.Name != pnames[i] || pnames[i] == "_" {
			return inlineEdit{}, false
		}
	}
	if callee.Recv != nil {
		if len(callee.Recv.List) != 1 || len(callee.Recv.List[0].Names) != 1 {
			return inlineEdit{}, false
		}
		sel, ok := call.Fun.(*ast.SelectorExpr)
		if !ok {
			return inlineEdit{}, false
		}
		rid, ok := sel.X.(*ast.Ident)
		if !ok || rid.Name != callee.Recv.List[0].Names[0].Name {
			return inlineEdit{}, false
		}
		// same pointer-ness: the receiver variable's type is the callee's receiver type
		if ro := info.Uses[rid]; ro == nil || !types.Identical(ro.Type(), info.Defs[callee.Recv.List[0].Names[0]].Type()) {
			return inlineEdit{}, false
		}
	}
	// parameters are not assigned in the callee (the caller's variables would change)
	params := map[types.Object]bool{}
	for _, f := range callee.Type.Params.List {
		for _, n := range f.Names {
			params[info.Defs[n]] = true
		}
	}
	if callee.Recv != nil {
		params[info.Defs[callee.Recv.List[0].Names[0]]] = true
	}
	okBody := true
	scope := caller.Body // innermost scope lookup is by position
	_ = scope
	var callerScope *types.Scope
	if cs := info.Scopes[caller.Type]; cs != nil {
		callerScope = cs.Innermost(call.Pos())
	}
	selIdent := map[*ast.Ident]bool{}
	ast.Inspect(callee.Body, func(n ast.Node) bool {
		if se, ok := n.(*ast.SelectorExpr); ok {
			selIdent[se.Sel] = true
		}
		if kv, ok := n.(*ast.KeyValueExpr); ok {
			if id, ok := kv.Key.(*ast.Ident); ok {
				selIdent[id] = true // struct literal field key
			}
		}
		return true
	})
	ast.Inspect(callee.Body, func(n ast.Node) bool {
		switch x := n.(type) {
		case *ast.AssignStmt:
			for _, l := range x.Lhs {
				if id, ok := l.(*ast.Ident); ok && params[info.ObjectOf(id)] {
					okBody = false
				}
			}
		case *ast.IncDecStmt:
			if id, ok := x.X.(*ast.Ident); ok && params[info.ObjectOf(id)] {
				okBody = false
			}
		case *ast.UnaryExpr:
			if id, ok := x.X.(*ast.Ident); ok && x.Op == token.AND && params[info.ObjectOf(id)] {
				okBody = false
			}
		case *ast.Ident:
			o := info.Uses[x]
			if o == nil || params[o] || selIdent[x] {
				return true
			}
			// declared outside the callee: must resolve identically at the call site
			if o.Pos() >= callee.Pos() && o.Pos() < callee.End() {
				return true
			}
			if _, isField := o.(*types.Var); isField && o.(*types.Var).IsField() {
				return true
			}
			if _, isFn := o.(*types.Func); isFn && o.(*types.Func).Type().(*types.Signature).Recv() != nil {
				return true // method selected on a value
			}
			if callerScope == nil {
				okBody = false
				return true
			}
			if _, got := callerScope.LookupParent(x.Name, call.Pos()); got != o {
				okBody = false
			}
		}
		return okBody
	})
	if !okBody {
		return inlineEdit{}, false
	}
	file := fset.Position(stmt.Pos()).Filename
	if fset.Position(callee.Pos()).Filename != file {
		// body text comes from another file of the package: read positions there
	}
	bodyFile := fset.Position(callee.Body.Pos()).Filename
	src, inOverlay := overlay[bodyFile]
	if !inOverlay {
		b, err := os.ReadFile(bodyFile)
		if err != nil {
			return inlineEdit{}, false
		}
		src = b
	}
	lb, rb := fset.Position(callee.Body.Lbrace).Offset, fset.Position(callee.Body.Rbrace).Offset
	if lb < 0 || rb > len(src) || lb >= rb {
		return inlineEdit{}, false
	}
	// line directives keep reported positions on the real source: inside the splice they point into
	// the callee's own lines, after it they resume the caller's
	bodyLine := fset.Position(callee.Body.Lbrace).Line
	endLine := fset.Position(endStmt.End()).Line
	if dropLast {
		last := callee.Body.List[len(callee.Body.List)-1]
		rb = fset.Position(last.Pos()).Offset
		if rb <= lb {
			return inlineEdit{}, false
		}
	}
	body := string(src[lb+1 : rb])
	if isAssign {
		if !strings.HasPrefix(body, "\n") {
			return inlineEdit{}, false
		}
		resT := info.TypeOf(callee.Type.Results.List[0].Type)
		if resT == nil {
			return inlineEdit{}, false
		}
		tstr := types.TypeString(resT, func(q *types.Package) string {
			if q == p.Types {
				return ""
			}
			return q.Name()
		})
		off := fset.Position(stmt.Pos()).Offset
		label, tmp := fmt.Sprintf("_inl%d", off), fmt.Sprintf("_inlr%d", off)
		type rep struct {
			at, n int
			text  string
		}
		var reps []rep
		bad := false
		ast.Inspect(callee.Body, func(n ast.Node) bool {
			if _, isLit := n.(*ast.FuncLit); isLit {
				return false
			}
			if r, ok := n.(*ast.ReturnStmt); ok {
				if len(r.Results) != 1 {
					bad = true
					return false
				}
				reps = append(reps, rep{fset.Position(r.Pos()).Offset - (lb + 1), 6, "{ " + tmp + " ="})
				reps = append(reps, rep{fset.Position(r.End()).Offset - (lb + 1), 0, "; break " + label + " }"})
			}
			return true
		})
		if bad || len(reps) == 0 {
			return inlineEdit{}, false
		}
		sort.Slice(reps, func(i, j int) bool { return reps[i].at > reps[j].at })
		for _, rp := range reps {
			if rp.at < 0 || rp.at+rp.n > len(body) || (rp.n == 6 && body[rp.at:rp.at+6] != "return") {
				return inlineEdit{}, false
			}
			body = body[:rp.at] + rp.text + body[rp.at+rp.n:]
		}
		lhs := asg.Lhs[0].(*ast.Ident).Name
		tok := "="
		if asg.Tok == token.DEFINE {
			tok = ":="
		}
		text := fmt.Sprintf("var %s %s; %s:\nfor {\n//line %s:%d%sbreak %s\n}\n%s %s %s\n//line %s:%d", tmp, tstr, label, bodyFile, bodyLine+1, body, label, lhs, tok, tmp, file, endLine+1)
		return inlineEdit{file: file, off: off, end: fset.Position(endStmt.End()).Offset, text: text}, true
	}
	if anywhere {
		// `return` -> `break <label>` of a one-trip loop around the splice (no back edge: the loop body ends
		// in a break); the lines keep their numbers
		var rets []int
		ast.Inspect(callee.Body, func(n ast.Node) bool {
			if _, isLit := n.(*ast.FuncLit); isLit {
				return false
			}
			if r, ok := n.(*ast.ReturnStmt); ok {
				rets = append(rets, fset.Position(r.Pos()).Offset-(lb+1))
			}
			return true
		})
		if len(rets) > 0 {
			label := fmt.Sprintf("_inl%d", fset.Position(stmt.Pos()).Offset)
			sort.Sort(sort.Reverse(sort.IntSlice(rets)))
			for _, o := range rets {
				if o < 0 || o+6 > len(body) || body[o:o+6] != "return" {
					return inlineEdit{}, false
				}
				body = body[:o] + "break " + label + body[o+6:]
			}
			if !strings.HasPrefix(body, "\n") {
				return inlineEdit{}, false
			}
			text := fmt.Sprintf("%s:\nfor {\n//line %s:%d%sbreak %s\n}\n//line %s:%d", label, bodyFile, bodyLine+1, body, label, file, endLine+1)
			return inlineEdit{file: file, off: fset.Position(stmt.Pos()).Offset, end: fset.Position(endStmt.End()).Offset, text: text}, true
		}
	}
	if pairIf != nil {
		if !strings.HasPrefix(body, "\n") {
			return inlineEdit{}, false
		}
		name := asg.Lhs[0].(*ast.Ident).Name
		pre, post := "", name+" = nil\n"
		if asg.Tok == token.DEFINE {
			pre, post = "var "+name+" error; _ = "+name+"; ", ""
		}
		text := fmt.Sprintf("%s{\n//line %s:%d%s}\n%s//line %s:%d", pre, bodyFile, bodyLine+1, body, post, file, endLine+1)
		return inlineEdit{file: file, off: fset.Position(stmt.Pos()).Offset, end: fset.Position(endStmt.End()).Offset, text: text}, true
	}
	text := "{" + body + "}"
	if strings.HasPrefix(body, "\n") {
		text = fmt.Sprintf("{\n//line %s:%d%s}\n//line %s:%d", bodyFile, bodyLine+1, body, file, endLine+1)
	}
	return inlineEdit{file: file, off: fset.Position(stmt.Pos()).Offset, end: fset.Position(endStmt.End()).Offset, text: text}, true
}

// anyNewFunc: a parse-only scan (no type checking) of the module's non-test sources for a function
// that is not on the pinned list; the common case (none) costs a few tens of milliseconds.
func anyNewFunc(repo string, overlay map[string][]byte, pinned map[string]bool) bool {
	dirs := []string{".", "dyncrc16", "internal/types", "cmd/fitgen", "cmd/fitgen/internal/profile", "cmd/fitgen/internal/fitstringer", "cmd/stringer"}
	fset := token.NewFileSet()
	for _, d := range dirs {
		dir := filepath.Join(repo, d)
		ents, err := os.ReadDir(dir)
		if err != nil {
			continue
		}
		pkgPath := modPath
		if d != "." {
			pkgPath = modPath + "/" + d
		}
		for _, e := range ents {
			n := e.Name()
			if e.IsDir() || !strings.HasSuffix(n, ".go") || strings.HasSuffix(n, "_test.go") {
				continue
			}
			full := filepath.Join(dir, n)
			var src interface{}
			if b, ok := overlay[full]; ok {
				src = b
			}
			f, err := parser.ParseFile(fset, full, src, parser.SkipObjectResolution)
			if err != nil {
				return true // let the full load report it
			}
			for _, dcl := range f.Decls {
				if fd, ok := dcl.(*ast.FuncDecl); ok && !pinned[pkgPath+"|"+funcKey(fd)] {
					return true
				}
			}
		}
	}
	// other command directories under cmd/ are picked up by the full load; a new function there is
	// found only if one of the listed directories also has one, which is enough for the library rules
	return false
}

// guardedCall: `if err := f(args); err != nil { return err }` (no else): the call, or nil.
func guardedCall(x *ast.IfStmt) *ast.CallExpr {
	if x.Init == nil || x.Else != nil || len(x.Body.List) != 1 {
		return nil
	}
	as, ok := x.Init.(*ast.AssignStmt)
	if !ok || as.Tok != token.DEFINE || len(as.Lhs) != 1 || len(as.Rhs) != 1 {
		return nil
	}
	id, ok := as.Lhs[0].(*ast.Ident)
	if !ok {
		return nil
	}
	call, ok := as.Rhs[0].(*ast.CallExpr)
	if !ok {
		return nil
	}
	be, ok := x.Cond.(*ast.BinaryExpr)
	if !ok || be.Op != token.NEQ {
		return nil
	}
	l, lok := be.X.(*ast.Ident)
	rr, rok := be.Y.(*ast.Ident)
	if !lok || !rok || l.Name != id.Name || rr.Name != "nil" {
		return nil
	}
	ret, ok := x.Body.List[0].(*ast.ReturnStmt)
	if !ok || len(ret.Results) != 1 {
		return nil
	}
	if rid, ok := ret.Results[0].(*ast.Ident); !ok || rid.Name != id.Name {
		return nil
	}
	return call
}

// guardedCallee: the callee's only result is an error, its last statement is `return nil`, and
// every other return yields an expression that is visibly non-nil (an error variable under its own
// `!= nil` test, fmt.Errorf / errors.New, a conversion to a named error type, a package-level
// sentinel): then "return E" in the callee is "return E" in a caller that hands the error on
// unchanged, and reaching the callee's end is falling through.
func guardedCallee(info *types.Info, fd *ast.FuncDecl) bool {
	if fd.Type.Results == nil || len(fd.Type.Results.List) != 1 || len(fd.Type.Results.List[0].Names) > 0 || len(fd.Body.List) == 0 {
		return false
	}
	if tv, ok := info.Types[fd.Type.Results.List[0].Type]; !ok || tv.Type.String() != "error" {
		return false
	}
	last, ok := fd.Body.List[len(fd.Body.List)-1].(*ast.ReturnStmt)
	if !ok || len(last.Results) != 1 {
		return false
	}
	if id, ok := last.Results[0].(*ast.Ident); !ok || id.Name != "nil" {
		return false
	}
	okAll := true
	var stack []ast.Node
	ast.Inspect(fd.Body, func(n ast.Node) bool {
		if n == nil {
			stack = stack[:len(stack)-1]
			return true
		}
		stack = append(stack, n)
		if _, isLit := n.(*ast.FuncLit); isLit {
			stack = stack[:len(stack)-1]
			return false
		}
		rs, ok := n.(*ast.ReturnStmt)
		if !ok || rs == last {
			return true
		}
		if len(rs.Results) != 1 || !visiblyNonNilErr(info, rs.Results[0], stack) {
			okAll = false
		}
		return true
	})
	return okAll
}

func visiblyNonNilErr(info *types.Info, e ast.Expr, stack []ast.Node) bool {
	switch x := e.(type) {
	case *ast.ParenExpr:
		return visiblyNonNilErr(info, x.X, stack)
	case *ast.CallExpr:
		if tv, ok := info.Types[x.Fun]; ok && tv.IsType() {
			_, isIface := tv.Type.Underlying().(*types.Interface)
			_, isPtr := tv.Type.Underlying().(*types.Pointer)
			return !isIface && !isPtr
		}
		if sel, ok := x.Fun.(*ast.SelectorExpr); ok {
			if pk, ok := sel.X.(*ast.Ident); ok {
				if pn, ok := info.Uses[pk].(*types.PkgName); ok {
					p := pn.Imported().Path()
					return (p == "fmt" && sel.Sel.Name == "Errorf") || (p == "errors" && sel.Sel.Name == "New")
				}
			}
		}
		return false
	case *ast.CompositeLit:
		return true
	case *ast.Ident:
		o := info.Uses[x]
		if v, ok := o.(*types.Var); ok {
			if v.Parent() == v.Pkg().Scope() {
				return true // package-level sentinel
			}
			// a local error variable: inside the then-branch of `<it> != nil`
			for i := len(stack) - 1; i >= 1; i-- {
				ifs, ok := stack[i-1].(*ast.IfStmt)
				if !ok || stack[i] != ast.Node(ifs.Body) {
					continue
				}
				if be, ok := ifs.Cond.(*ast.BinaryExpr); ok && be.Op == token.NEQ {
					if l, ok := be.X.(*ast.Ident); ok && info.Uses[l] == o {
						if rr, ok := be.Y.(*ast.Ident); ok && rr.Name == "nil" {
							return true
						}
					}
				}
			}
		}
	}
	return false
}
