package main

import (
	"fmt"
	"go/ast"
	"go/parser"
	"go/token"
	"go/types"
	"os"
	"path/filepath"
	"sort"
	"strconv"
	"strings"
)

// c15History: a FIT field number never changes its meaning between SDK versions. The repository
// carries the generator's output for five earlier SDK versions (the golden files the generator test
// pins against the bundled workbooks). For every (message, field number) row of those outputs, the
// struct member it is assigned to there must not, in the checked-in tables, sit under a *different*
// field number of the same message: a name that two SDK generations share keeps its number. (A
// member that no longer exists under that name — a rename — says nothing and is skipped.) This is
// the one place in the repository where the number-to-name assignment of the checked-in tables can
// be compared with an independent derivation from an SDK workbook; the workbook of the checked-in
// version itself is not in the repository.
func c15History(c *Ctx, r *Report) {
	const rule = "C15-7-number-history"
	p, perr := c.profile()
	if p == nil || len(perr) > 0 {
		r.fail(rule, "profile", "", "profile tables not readable")
		return
	}
	goldens, _ := filepath.Glob(filepath.Join(c.repo, "cmd/fitgen/internal/profile/testdata", "*.golden"))
	sort.Strings(goldens)
	if len(goldens) == 0 {
		r.fail(rule, "goldens", "", "no generator golden files found under cmd/fitgen/internal/profile/testdata")
		return
	}
	// current: message constant name -> number; number -> struct; (number, field num) -> member name
	nameToNum := map[string]int64{}
	for k, n := range p.MsgName {
		nameToNum[n] = k
	}
	mn, _ := c.fit.Types.Scope().Lookup("MesgNum").(*types.TypeName)
	if mn != nil {
		for _, name := range c.fit.Types.Scope().Names() {
			if k, ok := c.fit.Types.Scope().Lookup(name).(*types.Const); ok && types.Identical(k.Type(), mn.Type()) {
				if v, ok := constInt64(k); ok {
					nameToNum[name] = v
				}
			}
		}
	}
	curName := func(m int64, num int) (string, bool) {
		row := p.Fields[m][num]
		t := p.MsgTypes[m]
		if row == nil || t == nil {
			return "", false
		}
		st, ok := t.Underlying().(*types.Struct)
		if !ok || row.Sindex >= st.NumFields() {
			return "", false
		}
		return st.Field(row.Sindex).Name(), true
	}
	curNumOf := func(m int64, member string) (int, bool) {
		t := p.MsgTypes[m]
		if t == nil {
			return 0, false
		}
		st, ok := t.Underlying().(*types.Struct)
		if !ok {
			return 0, false
		}
		for num, row := range p.Fields[m] {
			if row.Sindex < st.NumFields() && st.Field(row.Sindex).Name() == member {
				return num, true
			}
		}
		return 0, false
	}
	nCompared, nFiles := 0, 0
	for _, g := range goldens {
		data, err := os.ReadFile(g)
		if err != nil {
			r.fail(rule, filepath.Base(g), "", "cannot read: "+err.Error())
			continue
		}
		msgs, rows, types_, perr := parseGolden(string(data))
		if perr != "" {
			r.undecided(rule, filepath.Base(g), "", "golden file not understood: "+perr)
			continue
		}
		nFiles++
		var bad []string
		nThis := 0
		var mnames []string
		for m := range rows {
			mnames = append(mnames, m)
		}
		sort.Strings(mnames)
		for _, mname := range mnames {
			m, ok := nameToNum[mname]
			if !ok {
				continue
			}
			stName := types_[mname]
			members := msgs[stName]
			var nums []int
			for num := range rows[mname] {
				nums = append(nums, num)
			}
			sort.Ints(nums)
			for _, num := range nums {
				si := rows[mname][num]
				if si < 0 || si >= len(members) {
					continue
				}
				old := members[si]
				now, has := curName(m, num)
				if has {
					nThis++
				}
				if has && now == old {
					continue
				}
				// the old name, if still a member of the message, must not sit under another number
				if other, ok := curNumOf(m, old); ok && other != num {
					nowTxt := "nothing"
					if has {
						nowTxt = now
					}
					bad = append(bad, fmt.Sprintf("%s field %d is %s in SDK %s but %s in the checked-in table, where %s is field %d", strings.TrimPrefix(mname, "MesgNum"), num, old, strings.TrimSuffix(filepath.Base(g), ".xlsx.golden"), nowTxt, old, other))
				}
			}
		}
		nCompared += nThis
		key := strings.TrimSuffix(filepath.Base(g), ".xlsx.golden")
		if len(bad) > 0 {
			if len(bad) > 4 {
				bad = append(bad[:4], fmt.Sprintf("... and %d more", len(bad)-4))
			}
			r.fail(rule, "sdk-"+key, "profile.go", "field numbers do not keep their meaning: "+strings.Join(bad, "; ")+": a file written by any device decodes that field into the wrong member (and Encode announces the wrong number)")
		} else {
			r.ok(rule, "sdk-"+key, "", fmt.Sprintf("%d rows shared with the output generated from the SDK %s workbook: every member both versions know has the same field number", nThis, key))
		}
	}
	r.set("history_rows_compared", nCompared)
	r.need("golden generator outputs compared", nFiles, 3)
	r.need("table rows compared with earlier SDK generations", nCompared, 2000)
}

// goldenCodes: message constant -> field num -> types.Fit code, of the golden parsed last.
var goldenCodes = map[string]map[int]int{}

// kindHistory: the *kind* of a field (plain FIT value, UTC time, local time, latitude, longitude)
// is part of the meaning of its number and does not change between SDK versions either. For every
// row the checked-in table shares with a golden generator output (same message, same number, same
// member name), the kind stored in the checked-in row equals the one generated from that SDK's
// workbook. Restricted to the kinds in `kinds` (the caller's property); nil = all.
func kindHistory(c *Ctx, r *Report, rule string, kinds map[int]bool, consequence string) {
	p, perr := c.profile()
	if p == nil || len(perr) > 0 {
		r.fail(rule, "profile", "", "profile tables not readable")
		return
	}
	goldens, _ := filepath.Glob(filepath.Join(c.repo, "cmd/fitgen/internal/profile/testdata", "*.golden"))
	sort.Strings(goldens)
	nameToNum := map[string]int64{}
	for k, n := range p.MsgName {
		nameToNum[n] = k
	}
	if mn, _ := c.fit.Types.Scope().Lookup("MesgNum").(*types.TypeName); mn != nil {
		for _, name := range c.fit.Types.Scope().Names() {
			if k, ok := c.fit.Types.Scope().Lookup(name).(*types.Const); ok && types.Identical(k.Type(), mn.Type()) {
				if v, ok := constInt64(k); ok {
					nameToNum[name] = v
				}
			}
		}
	}
	kname := []string{"plain FIT value", "UTC time", "local time", "latitude", "longitude"}
	kn := func(k int) string {
		if k >= 0 && k < len(kname) {
			return kname[k]
		}
		return fmt.Sprintf("kind %d", k)
	}
	nCompared, nFiles := 0, 0
	for _, g := range goldens {
		data, err := os.ReadFile(g)
		if err != nil {
			continue
		}
		goldenCodes = map[string]map[int]int{}
		msgs, rows, types_, perr := parseGolden(string(data))
		if perr != "" {
			r.undecided(rule, filepath.Base(g), "", "golden file not understood: "+perr)
			continue
		}
		nFiles++
		key := strings.TrimSuffix(filepath.Base(g), ".xlsx.golden")
		var bad []string
		var mnames []string
		for m := range rows {
			mnames = append(mnames, m)
		}
		sort.Strings(mnames)
		nThis := 0
		for _, mname := range mnames {
			m, ok := nameToNum[mname]
			if !ok {
				continue
			}
			members := msgs[types_[mname]]
			t := p.MsgTypes[m]
			if t == nil {
				continue
			}
			st, ok := t.Underlying().(*types.Struct)
			if !ok {
				continue
			}
			var nums []int
			for num := range rows[mname] {
				nums = append(nums, num)
			}
			sort.Ints(nums)
			for _, num := range nums {
				si := rows[mname][num]
				row := p.Fields[m][num]
				code, hasCode := goldenCodes[mname][num]
				if row == nil || !hasCode || si < 0 || si >= len(members) || row.Sindex >= st.NumFields() || st.Field(row.Sindex).Name() != members[si] {
					continue
				}
				oldKind := (code >> 6) & 7
				if kinds != nil && !kinds[oldKind] && !kinds[row.Kind] {
					continue
				}
				nThis++
				if oldKind != row.Kind {
					bad = append(bad, fmt.Sprintf("%s.%s (field %d) is a %s in the output generated from SDK %s but a %s in the checked-in table", strings.TrimPrefix(mname, "MesgNum"), members[si], num, kn(oldKind), key, kn(row.Kind)))
				}
			}
		}
		nCompared += nThis
		if len(bad) > 0 {
			if len(bad) > 4 {
				bad = append(bad[:4], fmt.Sprintf("... and %d more", len(bad)-4))
			}
			r.fail(rule, "sdk-"+key, "profile.go", strings.Join(bad, "; ")+": "+consequence)
		} else {
			r.ok(rule, "sdk-"+key, "", fmt.Sprintf("%d rows of these kinds shared with the output generated from the SDK %s workbook carry the same kind", nThis, key))
		}
	}
	r.need("golden generator outputs compared ("+rule+")", nFiles, 3)
	r.need("rows compared by kind ("+rule+")", nCompared, 20)
}

// parseGolden: struct name -> member names; message constant -> field num -> struct index; message constant -> struct name.
func parseGolden(s string) (map[string][]string, map[string]map[int]int, map[string]string, string) {
	section := func(from, to string) string {
		i := strings.Index(s, "\n"+from+"\n")
		if strings.HasPrefix(s, from+"\n") {
			i = 0
		}
		if i < 0 {
			return ""
		}
		rest := s[i+1:]
		if to != "" {
			if j := strings.Index(rest, "\n"+to); j >= 0 {
				rest = rest[:j]
			}
		}
		return rest
	}
	msgSrc := section("// MESSAGES", "// PROFILE")
	profSrc := section("// PROFILE", "// FITSTRINGER TYPE INPUT")
	if msgSrc == "" || profSrc == "" {
		return nil, nil, nil, "sections // MESSAGES and // PROFILE not found"
	}
	fset := token.NewFileSet()
	mf, err := parser.ParseFile(fset, "messages.go", msgSrc, parser.SkipObjectResolution)
	if err != nil {
		return nil, nil, nil, "messages section does not parse: " + err.Error()
	}
	pf, err := parser.ParseFile(fset, "profile.go", profSrc, parser.SkipObjectResolution)
	if err != nil {
		return nil, nil, nil, "profile section does not parse: " + err.Error()
	}
	msgs := map[string][]string{}
	for _, d := range mf.Decls {
		gd, ok := d.(*ast.GenDecl)
		if !ok || gd.Tok != token.TYPE {
			continue
		}
		for _, sp := range gd.Specs {
			ts := sp.(*ast.TypeSpec)
			st, ok := ts.Type.(*ast.StructType)
			if !ok {
				continue
			}
			var names []string
			for _, f := range st.Fields.List {
				for _, n := range f.Names {
					names = append(names, n.Name)
				}
			}
			msgs[ts.Name.Name] = names
		}
	}
	rows := map[string]map[int]int{}
	types_ := map[string]string{}
	for _, d := range pf.Decls {
		gd, ok := d.(*ast.GenDecl)
		if !ok || gd.Tok != token.VAR {
			continue
		}
		for _, sp := range gd.Specs {
			vs := sp.(*ast.ValueSpec)
			if len(vs.Names) != 1 || len(vs.Values) != 1 {
				continue
			}
			cl, ok := vs.Values[0].(*ast.CompositeLit)
			if !ok {
				continue
			}
			switch vs.Names[0].Name {
			case "_fields":
				for _, e := range cl.Elts {
					kv, ok := e.(*ast.KeyValueExpr)
					if !ok {
						continue
					}
					mname := exprStr(kv.Key)
					inner, ok := kv.Value.(*ast.CompositeLit)
					if !ok {
						continue
					}
					rows[mname] = map[int]int{}
					for _, e2 := range inner.Elts {
						kv2, ok := e2.(*ast.KeyValueExpr)
						if !ok {
							continue
						}
						num, err := strconv.Atoi(exprStr(kv2.Key))
						row, ok := kv2.Value.(*ast.CompositeLit)
						if err != nil || !ok || len(row.Elts) < 2 {
							continue
						}
						si, err := strconv.Atoi(exprStr(row.Elts[0]))
						if err != nil {
							continue
						}
						rows[mname][num] = si
						if len(row.Elts) >= 3 {
							// types.Fit(N)
							if call, ok := row.Elts[2].(*ast.CallExpr); ok && len(call.Args) == 1 {
								if code, err := strconv.Atoi(exprStr(call.Args[0])); err == nil {
									if goldenCodes[mname] == nil {
										goldenCodes[mname] = map[int]int{}
									}
									goldenCodes[mname][num] = code
								}
							}
						}
					}
				}
			case "msgsTypes":
				for _, e := range cl.Elts {
					kv, ok := e.(*ast.KeyValueExpr)
					if !ok {
						continue
					}
					// reflect.TypeOf(XMsg{})
					if call, ok := kv.Value.(*ast.CallExpr); ok && len(call.Args) == 1 {
						if lit, ok := call.Args[0].(*ast.CompositeLit); ok {
							types_[exprStr(kv.Key)] = exprStr(lit.Type)
						}
					}
				}
			}
		}
	}
	if len(rows) == 0 || len(types_) == 0 || len(msgs) == 0 {
		return nil, nil, nil, fmt.Sprintf("tables not found (%d messages with rows, %d message types, %d structs)", len(rows), len(types_), len(msgs))
	}
	return msgs, rows, types_, ""
}
