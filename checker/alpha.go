package main

import (
	_ "embed"
	"encoding/json"
	"fmt"
	"go/ast"
	"go/token"
	"go/types"
	"os"
	"sort"
	"strings"

	"golang.org/x/tools/go/packages"
)

// Alpha-normalisation of local names.
//
// Several rules recognise a construct by the way the code spells it (pathOf strings over SSA
// values, printed expressions). Those spellings mention local variables, parameters and
// receivers, whose names carry no behaviour: renaming one is the most common edit that leaves
// every property untouched. So that no rule depends on such a name, the working tree is read
// through a consistent renaming of its locals to the names the same slots had when the rules
// were written (localnames.json, generated from the pinned tree by `fitcheck -dump-locals`).
//
// A slot is (package, enclosing top-level function, kind, type, ordinal among the locals of
// that kind and type in source order); the name found in the source is not part of the slot.
// The renaming is applied in memory as byte-exact edits of the identifiers (lines are
// preserved, nothing is written to disk), the edited files are handed to go/packages as an
// overlay, and the result is accepted only when it is alpha-equivalent to the source: both
// trees are walked in parallel and every identifier must resolve to the corresponding object.
// Otherwise (capture, type error, unknown slot layout) the tree is analysed under its own
// names, which can only make a rule fail to recognise something, never accept more.
//
// On the pinned tree every slot already has its recorded name: no edit, no overlay.

type alphaInfo struct {
	Slots    int      `json:"slots"`
	Renamed  int      `json:"renamed_objects"`
	Swapped  int      `json:"operand_swaps"`
	Files    int      `json:"files_rewritten"`
	Disabled string   `json:"disabled,omitempty"`
	Examples []string `json:"examples,omitempty"`
	swapped  map[string]bool
}

type alphaEdit struct {
	off, n int
	name   string
	// operand swap: [off, off+n) is X, [yoff, yoff+yn) is Y of a commutative binary expression
	swap     bool
	yoff, yn int
}

//go:embed localnames.json
var alphaTableJSON []byte

func alphaTable() map[string]string {
	m := map[string]string{}
	if json.Unmarshal(alphaTableJSON, &m) != nil || len(m) == 0 {
		return nil
	}
	return m
}

// alphaObj is one renameable thing: a local object, or the group of implicit objects of a
// `switch v := x.(type)`.
type alphaObj struct {
	slot   string
	name   string
	idents []*ast.Ident
}

func funcKey(fd *ast.FuncDecl) string {
	if fd.Recv != nil && len(fd.Recv.List) == 1 {
		t := fd.Recv.List[0].Type
		if s, ok := t.(*ast.StarExpr); ok {
			t = s.X
		}
		if ix, ok := t.(*ast.IndexExpr); ok {
			t = ix.X
		}
		if id, ok := t.(*ast.Ident); ok {
			return id.Name + "." + fd.Name.Name
		}
	}
	return fd.Name.Name
}

// alphaCollect enumerates the renameable objects of one function declaration in source order.
func alphaCollect(p *packages.Package, fd *ast.FuncDecl) []*alphaObj {
	info := p.TypesInfo
	qual := func(o *types.Package) string {
		if o == p.Types {
			return ""
		}
		return o.Path()
	}
	byObj := map[types.Object]*alphaObj{}
	var order []*alphaObj
	counts := map[string]int{}
	kindOf := map[types.Object]string{}
	markList := func(fl *ast.FieldList, kind string) {
		if fl == nil {
			return
		}
		for _, f := range fl.List {
			for _, id := range f.Names {
				if o := info.Defs[id]; o != nil {
					kindOf[o] = kind
				}
			}
		}
	}
	markList(fd.Recv, "recv")
	markList(fd.Type.Params, "param")
	markList(fd.Type.Results, "result")
	add := func(o types.Object, kind, typ string, id *ast.Ident) *alphaObj {
		k := kind + "|" + typ
		a := &alphaObj{slot: fmt.Sprintf("%s|%s|%s|%d", p.PkgPath, funcKey(fd), k, counts[k]), name: id.Name}
		counts[k]++
		if o != nil {
			byObj[o] = a
		}
		order = append(order, a)
		return a
	}
	local := func(o types.Object) bool {
		if o == nil || o.Pkg() != p.Types || o.Parent() == nil || o.Parent() == p.Types.Scope() {
			return false
		}
		switch v := o.(type) {
		case *types.Var:
			return !v.IsField()
		case *types.Const:
			return true
		}
		return false
	}
	tsIdent := map[*ast.Ident]*alphaObj{}
	ast.Inspect(fd, func(n ast.Node) bool {
		switch x := n.(type) {
		case *ast.TypeSwitchStmt:
			if as, ok := x.Assign.(*ast.AssignStmt); ok && len(as.Lhs) == 1 {
				if id, ok := as.Lhs[0].(*ast.Ident); ok && id.Name != "_" {
					a := add(nil, "local", "typeswitch", id)
					a.idents = append(a.idents, id)
					tsIdent[id] = a
					for _, cl := range x.Body.List {
						if o := info.Implicits[cl]; o != nil {
							byObj[o] = a
						}
					}
				}
			}
		case *ast.Ident:
			if x.Name == "_" || tsIdent[x] != nil {
				return true
			}
			if o := info.Defs[x]; local(o) {
				if byObj[o] == nil {
					kind := kindOf[o]
					if kind == "" {
						kind = "local"
						if _, isC := o.(*types.Const); isC {
							kind = "const"
						}
					}
					add(o, kind, types.TypeString(o.Type(), qual), x)
				}
				byObj[o].idents = append(byObj[o].idents, x)
			} else if o := info.Uses[x]; o != nil {
				if a := byObj[o]; a != nil {
					a.idents = append(a.idents, x)
				}
			}
		}
		return true
	})
	return order
}

func alphaLoad(repo string, env []string, tags []string, overlay map[string][]byte) ([]*packages.Package, error) {
	cfg := &packages.Config{Mode: packages.LoadSyntax, Dir: repo, Env: env, Overlay: overlay}
	if len(tags) > 0 {
		cfg.BuildFlags = []string{"-tags=" + strings.Join(tags, ",")}
	}
	pkgs, err := packages.Load(cfg, ".", "./dyncrc16", "./internal/types", "./cmd/...")
	if err != nil {
		return nil, err
	}
	for _, p := range pkgs {
		if len(p.Errors) > 0 {
			return nil, fmt.Errorf("%v", p.Errors[0])
		}
	}
	return pkgs, nil
}

// alphaDump prints the slot table of the tree (used once, on the pinned tree).
func alphaDump(repo string) error {
	env := append(os.Environ(), "GOFLAGS=-mod=mod", "GOPROXY=off", "GOSUMDB=off", "GOTOOLCHAIN=local", "GOWORK=off")
	pkgs, err := alphaLoad(repo, env, nil, nil)
	if err != nil {
		return err
	}
	out := map[string]string{}
	for _, p := range pkgs {
		for _, f := range p.Syntax {
			for _, d := range f.Decls {
				if fd, ok := d.(*ast.FuncDecl); ok {
					for _, a := range alphaCollect(p, fd) {
						out[a.slot] = a.name
					}
				}
			}
		}
	}
	b, _ := json.MarshalIndent(out, "", " ")
	fmt.Println(string(b))
	return nil
}

// alphaOverlay computes the overlay that renames every local to its recorded slot name.
// It returns the merged overlay (input overlay plus rewritten files) and the source snapshot
// needed to verify alpha-equivalence afterwards.
func alphaOverlay(repo string, env []string, tags []string, overlay map[string][]byte) (map[string][]byte, *alphaInfo, []*packages.Package) {
	ai := &alphaInfo{}
	tbl := alphaTable()
	if tbl == nil {
		ai.Disabled = "no slot table"
		return overlay, ai, nil
	}
	pkgs, err := alphaLoad(repo, env, tags, overlay)
	if err != nil {
		ai.Disabled = "pre-load failed: " + err.Error()
		return overlay, ai, nil
	}
	merged := map[string][]byte{}
	for k, v := range overlay {
		merged[k] = v
	}
	swappedNodes := map[string]bool{}
	ai.swapped = swappedNodes
	for _, p := range pkgs {
		for i, f := range p.Syntax {
			var edits []alphaEdit
			for _, d := range f.Decls {
				fd, ok := d.(*ast.FuncDecl)
				if !ok {
					continue
				}
				objs := alphaCollect(p, fd)
				ai.Slots += len(objs)
				// final names of every object of this function; renaming is all-or-nothing per function:
				// two objects of one function must not end up with the same name unless they had the same
				// name before (then their scopes are already disjoint or shadowing the same way).
				final := map[*alphaObj]string{}
				for _, a := range objs {
					final[a] = a.name
					if want, ok := tbl[a.slot]; ok && want != "" {
						final[a] = want
					}
				}
				for _, a := range objs {
					if final[a] == a.name {
						continue
					}
					ai.Renamed++
					if len(ai.Examples) < 6 {
						ai.Examples = append(ai.Examples, fmt.Sprintf("%s: %s -> %s", funcKey(fd), a.name, final[a]))
					}
					for _, id := range a.idents {
						edits = append(edits, alphaEdit{off: p.Fset.Position(id.Pos()).Offset, n: len(id.Name), name: final[a]})
					}
				}
			}
			// operand order of commutative integer operations (see alphaSwaps)
			finalName := map[*ast.Ident]string{}
			for _, e := range edits {
				_ = e
			}
			for _, d := range f.Decls {
				if fd, ok := d.(*ast.FuncDecl); ok {
					for _, a := range alphaCollect(p, fd) {
						if want, ok := tbl[a.slot]; ok && want != "" && want != a.name {
							for _, id := range a.idents {
								finalName[id] = want
							}
						}
					}
				}
			}
			swaps := alphaSwaps(p, f, finalName)
			for be := range swaps {
				xo, xe := p.Fset.Position(be.X.Pos()).Offset, p.Fset.Position(be.X.End()).Offset
				yo, ye := p.Fset.Position(be.Y.Pos()).Offset, p.Fset.Position(be.Y.End()).Offset
				edits = append(edits, alphaEdit{off: xo, n: xe - xo, swap: true, yoff: yo, yn: ye - yo})
				ai.Swapped++
				swappedNodes[fmt.Sprintf("%s-%d", p.Fset.Position(be.Pos()), p.Fset.Position(be.End()).Offset)] = true
			}
			if len(edits) == 0 {
				continue
			}
			name := p.CompiledGoFiles[i]
			src, ok := merged[name]
			if !ok {
				src, err = os.ReadFile(name)
				if err != nil {
					ai.Disabled = err.Error()
					return overlay, ai, nil
				}
			}
			out := alphaRender(src, edits)
			merged[name] = out
			ai.Files++
		}
	}
	if ai.Files == 0 {
		return overlay, ai, nil
	}
	return merged, ai, pkgs
}

// alphaEquivalent walks the source trees and the renamed trees in parallel: same shape, and the
// identifier-to-object relation is a bijection on module objects and the identity elsewhere.
func alphaEquivalent(src []*packages.Package, dst map[string]*packages.Package, swapped map[string]bool) error {
	fwd := map[types.Object]types.Object{}
	bwd := map[types.Object]types.Object{}
	for _, p := range src {
		q := dst[p.PkgPath]
		if q == nil || len(q.Syntax) != len(p.Syntax) {
			return fmt.Errorf("package %s differs after renaming", p.PkgPath)
		}
		for i := range p.Syntax {
			var a, b []*ast.Ident
			var walk func(n ast.Node) bool
			walk = func(n ast.Node) bool {
				if id, ok := n.(*ast.Ident); ok {
					a = append(a, id)
				}
				if be, ok := n.(*ast.BinaryExpr); ok && swapped[fmt.Sprintf("%s-%d", p.Fset.Position(be.Pos()), p.Fset.Position(be.End()).Offset)] {
					ast.Inspect(be.Y, walk) // the renamed tree has the operands in the other order
					ast.Inspect(be.X, walk)
					return false
				}
				return true
			}
			ast.Inspect(p.Syntax[i], walk)
			ast.Inspect(q.Syntax[i], func(n ast.Node) bool {
				if id, ok := n.(*ast.Ident); ok {
					b = append(b, id)
				}
				return true
			})
			if len(a) != len(b) {
				return fmt.Errorf("%s: identifier count differs after renaming", p.CompiledGoFiles[i])
			}
			for k := range a {
				o1, o2 := p.TypesInfo.ObjectOf(a[k]), q.TypesInfo.ObjectOf(b[k])
				if (o1 == nil) != (o2 == nil) {
					return fmt.Errorf("%s: %s resolves differently after renaming", p.Fset.Position(a[k].Pos()), a[k].Name)
				}
				if o1 == nil {
					continue
				}
				inMod1 := o1.Pkg() != nil && strings.HasPrefix(o1.Pkg().Path(), modPath)
				inMod2 := o2.Pkg() != nil && strings.HasPrefix(o2.Pkg().Path(), modPath)
				if inMod1 != inMod2 {
					return fmt.Errorf("%s: %s is captured after renaming", p.Fset.Position(a[k].Pos()), a[k].Name)
				}
				if !inMod1 {
					if o1.Name() != o2.Name() || fmt.Sprintf("%T", o1) != fmt.Sprintf("%T", o2) {
						return fmt.Errorf("%s: %s is captured after renaming", p.Fset.Position(a[k].Pos()), a[k].Name)
					}
					continue
				}
				if x, ok := fwd[o1]; ok && x != o2 {
					return fmt.Errorf("%s: %s is captured after renaming", p.Fset.Position(a[k].Pos()), a[k].Name)
				}
				if x, ok := bwd[o2]; ok && x != o1 {
					return fmt.Errorf("%s: %s merges two objects after renaming", p.Fset.Position(a[k].Pos()), a[k].Name)
				}
				fwd[o1], bwd[o2] = o2, o1
			}
		}
	}
	return nil
}

var _ = token.NoPos

// alphaSwaps: operand order of commutative integer operations is not behaviour either (pure
// operands only: no call, index, dereference or assertion on either side). The canonical order
// is: a constant operand on the right; two plain names (identifiers, selector chains) in
// lexical order of their final spelling. Everything else is left as written.
func alphaSwaps(p *packages.Package, f *ast.File, finalName map[*ast.Ident]string) map[*ast.BinaryExpr]bool {
	out := map[*ast.BinaryExpr]bool{}
	comm := map[token.Token]bool{token.EQL: true, token.NEQ: true, token.ADD: true, token.MUL: true, token.AND: true, token.OR: true, token.XOR: true}
	pure := func(e ast.Expr) bool {
		ok := true
		ast.Inspect(e, func(x ast.Node) bool {
			switch x.(type) {
			case *ast.CallExpr, *ast.IndexExpr, *ast.SliceExpr, *ast.StarExpr, *ast.TypeAssertExpr, *ast.UnaryExpr, *ast.FuncLit, *ast.CompositeLit:
				ok = false
			}
			return ok
		})
		return ok
	}
	isInt := func(e ast.Expr) bool {
		t := p.TypesInfo.TypeOf(e)
		if t == nil {
			return false
		}
		b, ok := t.Underlying().(*types.Basic)
		return ok && b.Info()&types.IsInteger != 0
	}
	var plain func(e ast.Expr) (string, bool)
	plain = func(e ast.Expr) (string, bool) {
		switch x := e.(type) {
		case *ast.Ident:
			if n, ok := finalName[x]; ok {
				return n, true
			}
			return x.Name, true
		case *ast.SelectorExpr:
			if b, ok := plain(x.X); ok {
				return b + "." + x.Sel.Name, true
			}
		case *ast.ParenExpr:
			return plain(x.X)
		}
		return "", false
	}
	ast.Inspect(f, func(n ast.Node) bool {
		be, ok := n.(*ast.BinaryExpr)
		if !ok || !comm[be.Op] || !isInt(be.X) || !isInt(be.Y) || !pure(be.X) || !pure(be.Y) {
			return true
		}
		if tv, ok := p.TypesInfo.Types[be]; ok && tv.Value != nil {
			return true
		}
		cx := p.TypesInfo.Types[be.X].Value != nil
		cy := p.TypesInfo.Types[be.Y].Value != nil
		switch {
		case cx && !cy:
			out[be] = true
		case !cx && !cy:
			a, ok1 := plain(be.X)
			b, ok2 := plain(be.Y)
			if ok1 && ok2 && b < a {
				out[be] = true
			}
		}
		return true
	})
	return out
}

// alphaRender applies identifier renames and (possibly nested) operand swaps to src.
func alphaRender(src []byte, edits []alphaEdit) []byte {
	end := func(e alphaEdit) int {
		if e.swap {
			return e.yoff + e.yn
		}
		return e.off + e.n
	}
	sort.Slice(edits, func(a, b int) bool {
		if edits[a].off != edits[b].off {
			return edits[a].off < edits[b].off
		}
		return end(edits[a]) > end(edits[b]) // outer before inner
	})
	// drop duplicate identifier edits
	var es []alphaEdit
	for i, e := range edits {
		if i > 0 && !e.swap && !edits[i-1].swap && e.off == edits[i-1].off {
			continue
		}
		es = append(es, e)
	}
	var render func(lo, hi int, from int) ([]byte, int)
	render = func(lo, hi int, from int) ([]byte, int) {
		var out []byte
		pos := lo
		i := from
		for i < len(es) && es[i].off < hi {
			e := es[i]
			if e.off < pos {
				i++
				continue
			}
			out = append(out, src[pos:e.off]...)
			if !e.swap {
				out = append(out, e.name...)
				pos = e.off + e.n
				i++
				continue
			}
			x, _ := render(e.off, e.off+e.n, i+1)
			y, _ := render(e.yoff, e.yoff+e.yn, i+1)
			out = append(out, y...)
			out = append(out, src[e.off+e.n:e.yoff]...)
			out = append(out, x...)
			pos = e.yoff + e.yn
			i++
			for i < len(es) && es[i].off < pos {
				i++
			}
		}
		out = append(out, src[pos:hi]...)
		return out, i
	}
	out, _ := render(0, len(src), 0)
	return out
}
