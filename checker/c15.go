package main

import (
	"fmt"
	"go/ast"
	"go/constant"
	"go/token"
	"go/types"
	"sort"
	"strings"

	"golang.org/x/tools/go/ssa"
)

// Independent copy of the FIT base-type table (FIT SDK "Base Types", protocol 2.0).
// index = base type number (low 5 bits of the base-type byte).
type fitBase struct {
	name      string
	wire      byte // full base-type byte on the wire
	size      int
	signed    bool // two's complement or float
	integer   bool
	float     bool
	invalid   uint64 // bit pattern of the invalid value
	invalidIs string // "bits" | "empty-string"
}

var fitBases = []fitBase{
	{"enum", 0x00, 1, false, false, false, 0xFF, "bits"},
	{"sint8", 0x01, 1, true, true, false, 0x7F, "bits"},
	{"uint8", 0x02, 1, false, true, false, 0xFF, "bits"},
	{"sint16", 0x83, 2, true, true, false, 0x7FFF, "bits"},
	{"uint16", 0x84, 2, false, true, false, 0xFFFF, "bits"},
	{"sint32", 0x85, 4, true, true, false, 0x7FFFFFFF, "bits"},
	{"uint32", 0x86, 4, false, true, false, 0xFFFFFFFF, "bits"},
	{"string", 0x07, 1, false, false, false, 0, "empty-string"},
	{"float32", 0x88, 4, true, false, true, 0xFFFFFFFF, "bits"},
	{"float64", 0x89, 8, true, false, true, 0xFFFFFFFFFFFFFFFF, "bits"},
	{"uint8z", 0x0A, 1, false, true, false, 0, "bits"},
	{"uint16z", 0x8B, 2, false, true, false, 0, "bits"},
	{"uint32z", 0x8C, 4, false, true, false, 0, "bits"},
	{"byte", 0x0D, 1, false, false, false, 0xFF, "bits"},
	{"sint64", 0x8E, 8, true, true, false, 0x7FFFFFFFFFFFFFFF, "bits"},
	{"uint64", 0x8F, 8, false, true, false, 0xFFFFFFFFFFFFFFFF, "bits"},
	{"uint64z", 0x90, 8, false, true, false, 0, "bits"},
}

func fitBaseByWire(b byte) *fitBase {
	for i := range fitBases {
		if fitBases[i].wire == b {
			return &fitBases[i]
		}
	}
	return nil
}

const (
	kindNative = 0
	kindUTC    = 1
	kindLocal  = 2
	kindLat    = 3
	kindLng    = 4
)

func init() {
	register(&propDef{
		id: "C15", level: "proof", run: runC15,
		explanation: "Exhaustive constant-table x Go-type check: every key of knownMsgNums, every row of _fields, every entry of msgsTypes/newMesgFuncs, every constructor literal and every container member is read from the type-checked source and held against the Go struct types and an independent FIT base-type table. Not decided: that field numbers are the ones SDK 21.115 assigns (the 21.115 workbook is not in the repository). (7-number-history) the number-to-member assignment agrees with the generator outputs for the five bundled earlier SDK versions wherever both know the member. (7-kind-history) the kind of every row shared with those outputs equals the kind generated there.",
		trusted: []string{
			"go/types type information for /repo",
			"independent FIT base-type table in checker/c15.go",
			"exact evaluation of internal/types pure functions (checker/eval.go transfer functions)",
			"reflect.Value.Field/Set* panic conditions as documented",
		},
		assumptions: []string{"tables are not mutated at run time (proved separately by C08 R2, re-checked here as C15-immut)"},
	})
}

// goKindOK: does Go type t match base fb (scalar)?
func goScalarMatches(t types.Type, fb *fitBase) (bool, string) {
	b := basicOf(t)
	if b == nil {
		return false, fmt.Sprintf("Go type %s is not a basic type", t)
	}
	if fb.invalidIs == "empty-string" {
		return b.Info()&types.IsString != 0, "string"
	}
	if fb.float {
		want := types.Float32
		if fb.size == 8 {
			want = types.Float64
		}
		return b.Kind() == want, "float"
	}
	if b.Info()&types.IsInteger == 0 {
		return false, "not an integer type"
	}
	w := int(width(b)) / 8
	if b.Kind() == types.Int || b.Kind() == types.Uint || b.Kind() == types.Uintptr {
		return false, "platform-sized integer"
	}
	if w != fb.size {
		return false, fmt.Sprintf("width %d != base size %d", w, fb.size)
	}
	if isSigned(b) != fb.signed {
		return false, "signedness differs"
	}
	return true, ""
}

type ctorInfo struct {
	fn     *types.Func
	named  *types.Named
	vals   map[string]ast.Expr
	pos    token.Pos
	errStr string
}

func (c *Ctx) parseCtor(fn *types.Func) *ctorInfo {
	ci := &ctorInfo{fn: fn, vals: map[string]ast.Expr{}}
	fd := c.decl(fn)
	if fd == nil || fd.Body == nil {
		ci.errStr = "constructor has no declaration in the module"
		return ci
	}
	ci.pos = fd.Pos()
	if len(fd.Body.List) != 1 {
		ci.errStr = "constructor body is not a single return statement"
		return ci
	}
	rs, ok := fd.Body.List[0].(*ast.ReturnStmt)
	if !ok || len(rs.Results) != 1 {
		ci.errStr = "constructor body is not a single return statement"
		return ci
	}
	ue, ok := unparen(rs.Results[0]).(*ast.UnaryExpr)
	if !ok || ue.Op != token.AND {
		ci.errStr = "constructor does not return &T{...}"
		return ci
	}
	cl, ok := unparen(ue.X).(*ast.CompositeLit)
	if !ok {
		ci.errStr = "constructor does not return &T{...}"
		return ci
	}
	info := c.fit.TypesInfo
	named, ok := info.TypeOf(cl).(*types.Named)
	if !ok {
		ci.errStr = "constructor literal type is not a named struct"
		return ci
	}
	ci.named = named
	st, ok := named.Underlying().(*types.Struct)
	if !ok {
		ci.errStr = "constructor literal type is not a struct"
		return ci
	}
	for i, el := range cl.Elts {
		if kv, ok := el.(*ast.KeyValueExpr); ok {
			ci.vals[kv.Key.(*ast.Ident).Name] = kv.Value
		} else if i < st.NumFields() {
			ci.vals[st.Field(i).Name()] = el
		}
	}
	return ci
}

func runC15(c *Ctx, r *Report) {
	p, errs := c.profile()
	for i, e := range errs {
		r.fail("C15-parse", fmt.Sprintf("table-shape-%d", i), "", e)
	}
	if p == nil {
		return
	}
	c15History(c, r)
	// "a message the decoder treats as known has a type and a constructor": the decoder decides "known"
	// with the known table itself, under the message number itself (decode scope; the encoder takes the number from the type table, C07)
	{
		roots, _ := c.rootFuncs(decodeRoots)
		scope := c.reach(roots).module()
		seenFn := map[*ssa.Function]bool{}
		var uniq []*ssa.Function
		for _, f := range scope {
			if !seenFn[f] && fnPkgPath(f) == modPath {
				seenFn[f] = true
				uniq = append(uniq, f)
			}
		}
		nC := c01KnownBeforeCtor(c, r, uniq)
		r.need("constructor-table calls examined under C15", nC, 1)
	}
	kindHistory(c, r, "C15-7-kind-history", nil, "the field is decoded into, and encoded from, a Go value of the wrong kind")
	info := c.fit.TypesInfo
	_ = info
	ev := newEvaluator(c)
	r.set("known_messages", len(p.Known))
	r.set("field_rows", p.Rows)
	r.set("msgsTypes_entries", len(p.MsgTypes))
	r.set("newMesgFuncs_entries", len(p.NewFuncs))

	// ---- obligation 7: internal/types tables --------------------------------
	c15Types(c, r, ev)

	// ---- obligation 1: known => constructor, type; rows => known -----------
	var known []int64
	for k := range p.Known {
		known = append(known, k)
	}
	sort.Slice(known, func(i, j int) bool { return known[i] < known[j] })
	ctors := map[int64]*ctorInfo{}
	for _, mn := range known {
		key := p.name(mn)
		pos := c.pos(p.KnownPos[mn])
		if mn < 0 || mn >= p.NewFuncLen {
			r.fail("C15-1-ctor", key, pos, fmt.Sprintf("known message %d is outside newMesgFuncs (len %d): getMesgAllInvalid would index out of range", mn, p.NewFuncLen))
			continue
		}
		ctor := p.NewFuncs[mn]
		if ctor == nil {
			r.fail("C15-1-ctor", key, pos, "known message has a nil newMesgFuncs entry: getMesgAllInvalid would call a nil func")
			continue
		}
		ci := c.parseCtor(ctor)
		ctors[mn] = ci
		if ci.errStr != "" {
			r.undecided("C15-1-ctor", key, c.pos(ci.pos), ci.errStr)
			continue
		}
		// result type must be *XMsg so that .Elem() works
		res := ctor.Type().(*types.Signature).Results()
		okRes := res.Len() == 1
		if okRes {
			pt, isPtr := res.At(0).Type().(*types.Pointer)
			okRes = isPtr && types.Identical(pt.Elem(), ci.named)
		}
		if !okRes {
			r.fail("C15-1-ctor", key, c.pos(ci.pos), "constructor does not return a pointer to its message struct (getMesgAllInvalid calls Elem())")
			continue
		}
		mt := p.MsgTypes[mn]
		if mt == nil {
			r.fail("C15-1-type", key, pos, "known message has no msgsTypes entry (encoder's getGlobalMesgNum cannot find it)")
		} else if !types.Identical(mt, ci.named) {
			r.fail("C15-1-type", key, pos, fmt.Sprintf("msgsTypes says %s but constructor builds %s", mt.Obj().Name(), ci.named.Obj().Name()))
		} else {
			r.ok("C15-1-type", key, pos, "msgsTypes entry = constructor type "+mt.Obj().Name())
		}
		r.ok("C15-1-ctor", key, c.pos(ci.pos), fmt.Sprintf("newMesgFuncs[%d] = reflect.ValueOf(%s()) returning *%s", mn, ctor.Name(), ci.named.Obj().Name()))
	}
	// msgsTypes entries must be pairwise distinct types (getGlobalMesgNum returns first match)
	seenT := map[string]int64{}
	var mtKeys []int64
	for k := range p.MsgTypes {
		mtKeys = append(mtKeys, k)
	}
	sort.Slice(mtKeys, func(i, j int) bool { return mtKeys[i] < mtKeys[j] })
	for _, k := range mtKeys {
		n := p.MsgTypes[k].Obj().Name()
		if prev, dup := seenT[n]; dup {
			r.fail("C15-1-type-unique", n, "", fmt.Sprintf("type %s is listed for message numbers %d and %d in msgsTypes", n, prev, k))
		} else {
			seenT[n] = k
			r.ok("C15-1-type-unique", n, "", fmt.Sprintf("only at msgsTypes[%d]", k))
		}
	}
	for _, mn := range p.sortedMsgs() {
		if len(p.Fields[mn]) == 0 {
			continue
		}
		key := p.name(mn)
		if !p.Known[mn] {
			r.fail("C15-1-rows-known", key, "", fmt.Sprintf("message %d has %d lookup rows but is not in knownMsgNums: parseDataFields would find profile fields for a message with no struct (validator consults the profile only for known messages)", mn, len(p.Fields[mn])))
		} else {
			r.ok("C15-1-rows-known", key, "", "message with rows is known")
		}
		if mn >= p.FieldsLen {
			r.fail("C15-1-rows-known", key+"/len", "", "row key beyond array length")
		}
	}
	if p.InnerLen != 256 {
		r.fail("C15-2-width", "_fields-inner-len", "", fmt.Sprintf("inner lookup array has length %d, must be 256 so that any field-number byte indexes safely", p.InnerLen))
	} else {
		r.ok("C15-2-width", "_fields-inner-len", "", "inner array is [256]*field")
	}

	// ---- obligations 2..5 per row --------------------------------------------
	classes := map[uint16]int{}
	for _, mn := range p.sortedMsgs() {
		rows := p.Fields[mn]
		if len(rows) == 0 {
			continue
		}
		var st *types.Struct
		var named *types.Named
		if ci := ctors[mn]; ci != nil && ci.named != nil {
			named = ci.named
		} else if mt := p.MsgTypes[mn]; mt != nil {
			named = mt
		}
		if named != nil {
			st, _ = named.Underlying().(*types.Struct)
		}
		if st == nil {
			for _, num := range p.sortedNums(mn) {
				r.fail("C15-2-row", fmt.Sprintf("%s.%d", p.name(mn), num), c.pos(rows[num].Pos), "row belongs to a message without a resolvable struct type")
			}
			continue
		}
		used := map[int]int{}
		for _, num := range p.sortedNums(mn) {
			pf := rows[num]
			key := fmt.Sprintf("%s.%d", p.name(mn), num)
			pos := c.pos(pf.Pos)
			classes[pf.T]++
			if pf.Num != num {
				r.fail("C15-2-row", key, pos, fmt.Sprintf("entry at key %d carries num %d", num, pf.Num))
				continue
			}
			if pf.Sindex < 0 || pf.Sindex >= st.NumFields() {
				r.fail("C15-2-row", key, pos, fmt.Sprintf("sindex %d outside struct %s (%d fields): reflect Field(sindex) would panic", pf.Sindex, named.Obj().Name(), st.NumFields()))
				continue
			}
			if prev, dup := used[pf.Sindex]; dup {
				r.fail("C15-2-row", key, pos, fmt.Sprintf("sindex %d already used by field number %d: two wire fields land in one struct field", pf.Sindex, prev))
				continue
			}
			used[pf.Sindex] = num
			if !st.Field(pf.Sindex).Exported() {
				r.fail("C15-2-row", key, pos, fmt.Sprintf("the row designates %s.%s, which is not exported: reflect cannot set it when decoding (SetBytes / Set panic \"using value obtained using unexported field\") nor read it with Interface() when encoding", named.Obj().Name(), st.Field(pf.Sindex).Name()))
				continue
			}
			if pf.Kind > 4 {
				r.fail("C15-2-row", key, pos, fmt.Sprintf("kind %d > 4: parseDataFields default arm panics", pf.Kind))
				continue
			}
			fb := fitBaseByWire(pf.Base)
			if fb == nil {
				r.fail("C15-2-row", key, pos, fmt.Sprintf("base type byte %#x is not a FIT base type", pf.Base))
				continue
			}
			bi := c.baseInfo(ev, pf.Base)
			if bi.Err != "" || !bi.Known {
				r.fail("C15-2-row", key, pos, fmt.Sprintf("internal/types does not know base %#x (%s)", pf.Base, bi.Err))
				continue
			}
			r.ok("C15-2-row", key, pos, fmt.Sprintf("num=key, sindex %d -> %s.%s, kind %d, base %s", pf.Sindex, named.Obj().Name(), st.Field(pf.Sindex).Name(), pf.Kind, fb.name))

			// 3: type agreement
			sf := st.Field(pf.Sindex)
			ft := sf.Type()
			okT, why := c15TypeAgree(c, pf, fb, ft)
			r.check(okT, "C15-3-type", key, pos, fmt.Sprintf("%s %s matches kind %d base %s array %v", sf.Name(), ft, pf.Kind, fb.name, pf.Array),
				fmt.Sprintf("struct field %s.%s has Go type %s, table says kind %d base %s array %v: %s", named.Obj().Name(), sf.Name(), ft, pf.Kind, fb.name, pf.Array, why))
			if num == 253 {
				r.check(pf.Kind == kindUTC && !pf.Array, "C15-3-ts253", key, pos, "field 253 is a UTC timestamp scalar",
					"field number 253 is not a TimeUTC scalar: the compressed-timestamp path does Set(time.Time) on it")
			}

			// 5: sizes
			switch {
			case pf.Kind == kindNative && fb.invalidIs == "empty-string" && !pf.Array:
				r.check(pf.Length >= 1 && pf.Length <= 255, "C15-5-size", key, pos, fmt.Sprintf("string length %d", pf.Length), fmt.Sprintf("string length %d not in 1..255 (encodeString slices str[:size-1])", pf.Length))
			case pf.Array:
				r.check(pf.Length >= 1 && pf.Length*fb.size <= 255, "C15-5-size", key, pos, fmt.Sprintf("array %d x %d bytes", pf.Length, fb.size), fmt.Sprintf("array length %d x size %d does not fit one size byte", pf.Length, fb.size))
			default:
				r.check(pf.Length == 1, "C15-5-size", key, pos, "scalar length 1", fmt.Sprintf("scalar field with length %d", pf.Length))
			}

			// 4: constructor value
			if ci := ctors[mn]; ci != nil && ci.errStr == "" {
				okV, why := c15CtorValue(c, ci, sf, pf, fb)
				if okV == 2 {
					r.undecided("C15-4-ctor-value", key, pos, why)
				} else {
					r.check(okV == 1, "C15-4-ctor-value", key, pos, why, fmt.Sprintf("constructor %s initialises %s wrongly: %s", ci.fn.Name(), sf.Name(), why))
				}
			}
		}
		// bijection: every struct field has a row
		for i := 0; i < st.NumFields(); i++ {
			key := fmt.Sprintf("%s/%s", named.Obj().Name(), st.Field(i).Name())
			if _, ok := used[i]; ok {
				r.ok("C15-2-bijection", key, "", "struct field has exactly one row")
			} else {
				r.fail("C15-2-bijection", key, c.pos(st.Field(i).Pos()), fmt.Sprintf("struct field index %d has no lookup row: encoder's getFieldBySindex returns nil for it", i))
			}
		}
	}
	// known messages without rows: struct must have no fields
	for _, mn := range known {
		if len(p.Fields[mn]) > 0 {
			continue
		}
		if ci := ctors[mn]; ci != nil && ci.named != nil {
			st, _ := ci.named.Underlying().(*types.Struct)
			key := ci.named.Obj().Name()
			if st != nil && st.NumFields() == 0 {
				r.ok("C15-2-bijection", key+"/(empty)", "", "known message without rows has an empty struct")
			} else if st != nil {
				r.fail("C15-2-bijection", key+"/(empty)", "", fmt.Sprintf("known message without rows has %d struct fields", st.NumFields()))
			}
		}
	}
	r.set("distinct_fit_type_codes", len(classes))
	var cl []string
	for t, n := range classes {
		k, a, b, _ := c.fitBits(ev, t)
		name := "?"
		if fb := fitBaseByWire(b); fb != nil {
			name = fb.name
		}
		cl = append(cl, fmt.Sprintf("Fit(%d)=kind%d/%s/array=%v x%d", t, k, name, a, n))
	}
	sort.Strings(cl)
	r.set("classes", cl)

	// Lat/Lng invalid helpers
	for _, h := range []string{"NewLatitudeInvalid", "NewLongitudeInvalid"} {
		ok, why := c15InvalidHelper(c, h)
		r.check(ok, "C15-4-helper", h, c.pos(c.fn(c.fit, h).Pos()), why, why)
	}

	// ---- obligation 6: containers ---------------------------------------------
	nmem := 0
	typeToNum := map[string]int64{}
	for k, t := range p.MsgTypes {
		typeToNum[t.Obj().Name()] = k
	}
	for _, ct := range c.containers() {
		st := ct.Underlying().(*types.Struct)
		for i := 0; i < st.NumFields(); i++ {
			f := st.Field(i)
			key := ct.Obj().Name() + "." + f.Name()
			elem := containerElem(f.Type())
			nmem++
			if elem == nil {
				r.fail("C15-6-container", key, c.pos(f.Pos()), "container member is not *XMsg or []*XMsg")
				continue
			}
			mn, ok := typeToNum[elem.Obj().Name()]
			if !ok {
				r.fail("C15-6-container", key, c.pos(f.Pos()), "element type "+elem.Obj().Name()+" is not in msgsTypes (encoder cannot find its message number)")
				continue
			}
			if !p.Known[mn] {
				r.fail("C15-6-container", key, c.pos(f.Pos()), fmt.Sprintf("element type %s has message number %d which is not known", elem.Obj().Name(), mn))
				continue
			}
			r.ok("C15-6-container", key, c.pos(f.Pos()), fmt.Sprintf("%s = known message %s", elem.Obj().Name(), p.name(mn)))
		}
	}
	// File's own common members
	for _, fname := range []string{"FileId", "FileCreator", "TimestampCorrelation", "fieldDescriptionMsgs", "developerDataIdMsgs"} {
		ft := c.fit.Types.Scope().Lookup("File")
		if ft == nil {
			break
		}
		st := ft.Type().Underlying().(*types.Struct)
		for i := 0; i < st.NumFields(); i++ {
			if st.Field(i).Name() != fname {
				continue
			}
			t := st.Field(i).Type()
			var elem *types.Named
			if n, ok := t.(*types.Named); ok {
				elem = n
			} else {
				elem = containerElem(t)
			}
			key := "File." + fname
			nmem++
			if elem == nil {
				r.fail("C15-6-container", key, "", "unexpected member type")
				continue
			}
			mn, ok := typeToNum[elem.Obj().Name()]
			r.check(ok && p.Known[mn], "C15-6-container", key, c.pos(st.Field(i).Pos()), elem.Obj().Name()+" is known", elem.Obj().Name()+" is not a known message")
		}
	}
	r.set("container_members", nmem)

	// immutability of the tables (load-bearing for everything above)
	for _, g := range []string{"_fields", "knownMsgNums", "msgsTypes", "newMesgFuncs"} {
		ws := c.globalWrites(c.fit, g)
		r.check(len(ws) == 0, "C15-immut", g, "", "no store to or through the table outside its initializer", "table is written at run time: "+strings.Join(ws, "; "))
	}

	r.need("known messages", len(p.Known), 50)
	r.need("field rows", p.Rows, 300)
	r.need("container members", nmem, 40)
}

func c15TypeAgree(c *Ctx, pf *PField, fb *fitBase, ft types.Type) (bool, string) {
	switch pf.Kind {
	case kindUTC, kindLocal:
		if pf.Array {
			return false, "time kind with array flag"
		}
		if fb.name != "uint32" {
			return false, "time kind must have base uint32"
		}
		if n, ok := ft.(*types.Named); ok && n.Obj().Pkg() != nil && n.Obj().Pkg().Path() == "time" && n.Obj().Name() == "Time" {
			return true, ""
		}
		return false, "time kind needs time.Time"
	case kindLat, kindLng:
		if pf.Array {
			return false, "coordinate kind with array flag"
		}
		if fb.name != "sint32" {
			return false, "coordinate kind must have base sint32"
		}
		want := "Latitude"
		if pf.Kind == kindLng {
			want = "Longitude"
		}
		if n, ok := ft.(*types.Named); ok && n.Obj().Pkg() == c.fit.Types && n.Obj().Name() == want {
			return true, ""
		}
		return false, "coordinate kind needs fit." + want
	case kindNative:
		if pf.Array {
			sl, ok := ft.Underlying().(*types.Slice)
			if !ok {
				return false, "array flag needs a slice"
			}
			if fb.invalidIs == "empty-string" {
				b := basicOf(sl.Elem())
				if _, named := sl.Elem().(*types.Named); named || b == nil || b.Kind() != types.String {
					return false, "string array needs []string exactly (decoder does Set(reflect.ValueOf([]string)))"
				}
				return true, ""
			}
			if fb.name == "byte" {
				// SetBytes requires elem kind uint8
				b := basicOf(sl.Elem())
				if b == nil || b.Kind() != types.Uint8 {
					return false, "byte array needs []uint8 (SetBytes)"
				}
				return true, ""
			}
			return goScalarMatches(sl.Elem(), fb)
		}
		if _, isSlice := ft.Underlying().(*types.Slice); isSlice {
			return false, "slice without array flag"
		}
		return goScalarMatches(ft, fb)
	}
	return false, "unknown kind"
}

// returns 1 ok, 0 wrong, 2 undecided
func c15CtorValue(c *Ctx, ci *ctorInfo, sf *types.Var, pf *PField, fb *fitBase) (int, string) {
	info := c.fit.TypesInfo
	e, present := ci.vals[sf.Name()]
	if pf.Array {
		if !present {
			return 1, "array field absent from literal (nil)"
		}
		if id, ok := unparen(e).(*ast.Ident); ok && id.Name == "nil" {
			return 1, "array field nil"
		}
		return 0, "array field must start nil, got " + exprStr(e)
	}
	switch pf.Kind {
	case kindUTC, kindLocal:
		if present {
			if id, ok := unparen(e).(*ast.Ident); ok {
				if v, ok := info.Uses[id].(*types.Var); ok && v == c.global(c.fit, "timeBase") {
					return 1, "time field = timeBase"
				}
			}
		}
		return 0, "time field must be initialised to timeBase"
	case kindLat, kindLng:
		want := "NewLatitudeInvalid"
		if pf.Kind == kindLng {
			want = "NewLongitudeInvalid"
		}
		if present {
			if call, ok := unparen(e).(*ast.CallExpr); ok && len(call.Args) == 0 && isPkgFunc(callee(info, call), modPath, want) {
				return 1, "coordinate field = " + want + "()"
			}
		}
		return 0, "coordinate field must be initialised with " + want + "()"
	}
	// native scalar
	if fb.invalidIs == "empty-string" {
		if !present {
			return 1, "string absent (\"\")"
		}
		if v, ok := exprConst(info, e); ok && v.Kind() == constant.String && constant.StringVal(v) == "" {
			return 1, "string \"\""
		}
		return 0, "string field must start empty"
	}
	if fb.float {
		if !present {
			return 0, "float field must start as all-ones NaN"
		}
		// math.Float32frombits(0xFFFFFFFF) / math.Float64frombits(...)
		if call, ok := unparen(e).(*ast.CallExpr); ok && len(call.Args) == 1 {
			name := "Float32frombits"
			if fb.size == 8 {
				name = "Float64frombits"
			}
			if isPkgFunc(callee(info, call), "math", name) {
				if u, ok := exprUint(info, call.Args[0]); ok && u == fb.invalid {
					return 1, "float invalid bits"
				}
			}
		}
		return 2, "float initialiser not recognised: " + exprStr(e)
	}
	var got uint64
	if present {
		u, ok := exprConst(info, e)
		if !ok {
			return 2, "non-constant initialiser " + exprStr(e)
		}
		u = constant.ToInt(u)
		if i, ok := constant.Int64Val(u); ok {
			got = uint64(i)
		} else if x, ok := constant.Uint64Val(u); ok {
			got = x
		} else {
			return 2, "initialiser not an integer"
		}
		if fb.size < 8 {
			got &= (1 << (8 * uint(fb.size))) - 1
		}
	}
	if got == fb.invalid {
		return 1, fmt.Sprintf("%s invalid %#x", fb.name, fb.invalid)
	}
	return 0, fmt.Sprintf("got %#x, %s invalid is %#x", got, fb.name, fb.invalid)
}

func c15InvalidHelper(c *Ctx, name string) (bool, string) {
	fn := c.fn(c.fit, name)
	fd := c.decl(fn)
	if fd == nil || len(fd.Body.List) != 1 {
		return false, name + ": not a single-return function"
	}
	rs, ok := fd.Body.List[0].(*ast.ReturnStmt)
	if !ok || len(rs.Results) != 1 {
		return false, name + ": not a single-return function"
	}
	cl, ok := unparen(rs.Results[0]).(*ast.CompositeLit)
	if !ok || len(cl.Elts) != 1 {
		return false, name + ": does not return a one-field literal"
	}
	v := cl.Elts[0]
	if kv, ok := v.(*ast.KeyValueExpr); ok {
		v = kv.Value
	}
	u, ok := exprUint(c.fit.TypesInfo, v)
	if !ok || u != 0x7FFFFFFF {
		return false, name + ": sentinel is not 0x7FFFFFFF (sint32 invalid)"
	}
	return true, name + " returns the sint32 invalid 0x7FFFFFFF"
}

// containers returns the named struct types whose pointer implements msgAdder (the 17 file containers).
func (c *Ctx) containers() []*types.Named {
	var out []*types.Named
	ma := c.fit.Types.Scope().Lookup("msgAdder")
	if ma == nil {
		return nil
	}
	iface, ok := ma.Type().Underlying().(*types.Interface)
	if !ok {
		return nil
	}
	fo := c.fit.Types.Scope().Lookup("File")
	if fo == nil {
		return nil
	}
	fst, ok := fo.Type().Underlying().(*types.Struct)
	if !ok {
		return nil
	}
	// the containers are the pointee types of File's members that implement msgAdder
	for i := 0; i < fst.NumFields(); i++ {
		pt, ok := fst.Field(i).Type().(*types.Pointer)
		if !ok {
			continue
		}
		named, ok := pt.Elem().(*types.Named)
		if !ok {
			continue
		}
		if _, ok := named.Underlying().(*types.Struct); !ok {
			continue
		}
		if types.Implements(pt, iface) {
			out = append(out, named)
		}
	}
	return out
}

// containerElem: *XMsg or []*XMsg -> XMsg
func containerElem(t types.Type) *types.Named {
	if s, ok := t.(*types.Slice); ok {
		t = s.Elem()
	}
	p, ok := t.(*types.Pointer)
	if !ok {
		return nil
	}
	n, _ := p.Elem().(*types.Named)
	return n
}

// c15Types: obligation 7 — the repo's base tables against the independent table.
func c15Types(c *Ctx, r *Report, ev *Evaluator) {
	lens := map[string]int64{}
	for _, g := range []string{"bsize", "bname", "binteger", "bsigned", "bgotype", "binvalid", "goinvalid"} {
		v := c.global(c.typ, g)
		if v == nil {
			r.fail("C15-7-tables", g, "", "table not found in internal/types")
			continue
		}
		at, ok := v.Type().Underlying().(*types.Array)
		if !ok {
			r.fail("C15-7-tables", g, "", "not an array")
			continue
		}
		lens[g] = at.Len()
		r.check(at.Len() == int64(len(fitBases)), "C15-7-tables", g, c.pos(v.Pos()), fmt.Sprintf("length %d", at.Len()), fmt.Sprintf("length %d, FIT defines %d base types; Known() bounds by len(bname) but indexes the others", at.Len(), len(fitBases)))
		ws := c.globalWrites(c.typ, g)
		r.check(len(ws) == 0, "C15-immut", "types."+g, "", "never written", "written at run time: "+strings.Join(ws, "; "))
	}
	// all 256 bytes: Known exactly the 17 wire bytes, and Size/Signed/Integer/Float agree
	nKnown := 0
	for b := 0; b < 256; b++ {
		bi := c.baseInfo(ev, byte(b))
		key := fmt.Sprintf("base-byte-%#02x", b)
		if bi.Err != "" {
			r.fail("C15-7-base", key, "", "evaluation failed: "+bi.Err)
			continue
		}
		fb := fitBaseByWire(byte(b))
		if fb == nil && bi.Known {
			// bits 5-6 of the base-type byte are reserved by the protocol; a decoder may ignore them.
			// Then the byte must denote the base type of its number and endian-ability bits.
			fb = fitBaseByWire(byte(b) & 0x9F)
			if fb == nil {
				r.fail("C15-7-base", key, "", "Known() accepts a byte whose type number / multi-byte flag is not a FIT base type")
				continue
			}
		}
		if fb == nil {
			r.ok("C15-7-base", key, "", "rejected by Known()")
			continue
		}
		nKnown++
		ok := bi.Known && bi.Size == fb.size && bi.Signed == fb.signed && bi.Integer == fb.integer && bi.Float == fb.float
		r.check(ok, "C15-7-base", key, "", fmt.Sprintf("%s size %d signed %v integer %v float %v", fb.name, bi.Size, bi.Signed, bi.Integer, bi.Float),
			fmt.Sprintf("internal/types says known=%v size=%d signed=%v integer=%v float=%v; FIT %s is size=%d signed=%v integer=%v float=%v", bi.Known, bi.Size, bi.Signed, bi.Integer, bi.Float, fb.name, fb.size, fb.signed, fb.integer, fb.float))
	}
	r.set("base_bytes_evaluated", 256)
	// Fit bit packing: for every (kind 0..4, array, base index 0..16) Make*/accessors roundtrip
	nfit := 0
	for t := 0; t < 512; t++ {
		k, a, b, err := c.fitBits(ev, uint16(t))
		if err != "" {
			if (t & 0x1F) <= 0x10 {
				r.fail("C15-7-fitbits", fmt.Sprintf("Fit(%d)", t), "", err)
			}
			continue
		}
		nfit++
		wantK, wantA := (t>>6)&7, (t>>5)&1 == 1
		wb := byte(t & 0x1F)
		var wantB byte = wb
		if int(wb) < len(fitBases) {
			wantB = fitBases[wb].wire
		}
		r.check(k == wantK && a == wantA && b == wantB, "C15-7-fitbits", fmt.Sprintf("Fit(%d)", t), "", fmt.Sprintf("kind %d array %v base %#x", k, a, b),
			fmt.Sprintf("accessors give kind %d array %v base %#x, layout says kind %d array %v base %#x", k, a, b, wantK, wantA, wantB))
	}
	r.set("fit_codes_evaluated", nfit)
	// goinvalid / binvalid constants
	if init, _ := c.varInit(c.typ, "goinvalid"); init != nil {
		if cl, ok := init.(*ast.CompositeLit); ok {
			for i, el := range cl.Elts {
				if i >= len(fitBases) {
					break
				}
				fb := fitBases[i]
				key := "goinvalid/" + fb.name
				okv, why := goInvalidOK(c, el, &fb)
				r.check(okv, "C15-7-goinvalid", key, c.pos(el.Pos()), why, "encoder pads arrays with this value: "+why)
			}
		}
	}
	_ = token.NoPos
}

func goInvalidOK(c *Ctx, e ast.Expr, fb *fitBase) (bool, string) {
	info := c.typ.TypesInfo
	call, ok := unparen(e).(*ast.CallExpr)
	if !ok || len(call.Args) != 1 {
		return false, "not a conversion/call: " + exprStr(e)
	}
	t := info.TypeOf(e)
	if fb.float {
		name := "Float32frombits"
		if fb.size == 8 {
			name = "Float64frombits"
		}
		if !isPkgFunc(callee(info, call), "math", name) {
			return false, "float invalid must be math." + name
		}
		u, ok := exprUint(info, call.Args[0])
		return ok && u == fb.invalid, fmt.Sprintf("bits %#x", u)
	}
	if ok, why := goScalarMatches(t, fb); !ok {
		return false, fmt.Sprintf("Go type %s does not match %s: %s", t, fb.name, why)
	}
	if fb.invalidIs == "empty-string" {
		v, ok := exprConst(info, e)
		return ok && v.Kind() == constant.String && constant.StringVal(v) == "", "empty string"
	}
	v, ok := exprConst(info, e)
	if !ok {
		return false, "not constant"
	}
	v = constant.ToInt(v)
	var got uint64
	if i, ok := constant.Int64Val(v); ok {
		got = uint64(i)
	} else {
		got, _ = constant.Uint64Val(v)
	}
	if fb.size < 8 {
		got &= (1 << (8 * uint(fb.size))) - 1
	}
	return got == fb.invalid, fmt.Sprintf("%s(%#x)", t, got)
}
