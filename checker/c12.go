package main

import (
	"fmt"
	"go/ast"
	"go/token"
	"go/types"
	"strings"

	"golang.org/x/tools/go/ssa"
)

func init() {
	register(&propDef{
		id: "C12", level: "other", run: runC12,
		explanation: "Decided: the state discipline of the reference time and the constants, not the arithmetic over sequences. (R1) paired update: every store to decoder.timestamp is followed in the same block by a store to decoder.lastTimeOffset of (the stored timestamp, or the header byte) & 0x1F. (R2) who may re-base: timestamp is stored only in the compressed branch of parseDataMessage and in parseTimeStamp under kind == TimeUTC and field number == 253. (R3) constants/guards: compressedTimeMask == 0x1F, fieldNumTimeStamp == 253; the compressed update has the recognised form ts += (off - last) & mask with off = hdr & mask (other equivalent forms are reported as undecided); the compressed branch is guarded by timestamp != 0 and writes decodeDateTime(timestamp) into field 253; stores into the message in parseTimeStamp are dominated by u32 != 0xFFFFFFFF. (R4) epoch: timeBase is time.Date(1989, December, 31, 0,0,0,0, UTC), never reassigned; decodeDateTime adds dt seconds, encodeTime subtracts and divides by a second; IsBaseTime is Equal(timeBase); the local branch builds FixedZone(_, local - utc in seconds) and returns utc.In(zone), the no-reference branch uses offset 0. NOT decided: rollover arithmetic over long runs as computed values; both byte orders are covered by C02-R1. (R3 rebases-every-explicit) the explicit re-base is control-dependent, transitively, only on the invalid-value, kind and field-number tests. (R6-time-kind-history) the time kind (UTC / local) of every table row shared with the generator's golden outputs for the five bundled earlier SDK versions equals the kind generated there.",
		trusted:     []string{"time.Time.Add/Sub/In/Equal and time.FixedZone semantics", "go/ssa dominator tree"},
	})
}

func runC12(c *Ctx, r *Report) {
	// an invalid time field leaves the message's field untouched: that is the base time only because every
	// record is decoded into a fresh all-invalid message (obligation 6 of C03, run here too)
	c03MessageFlows(c, r)
	// the reference time of a file starts empty: per-file decoder state (perfile.go)
	// which fields are local times is a fact of the profile table: held against the generator outputs of
	// the bundled earlier SDK versions
	kindHistory(c, r, "C12-R6-time-kind-history", map[int]bool{1: true, 2: true}, "a local_date_time field is decoded as UTC seconds (or a UTC timestamp is shifted by the local offset), and Encode writes it the same wrong way")
	perFileRule(c, r, "C12-R5-per-file-state", []string{"timestamp", "lastTimeOffset"}, "the reference time of the previous file is used for compressed timestamps and local-time offsets of the next file before its own first timestamp")
	mask, _ := c.constInt(c.fit, "compressedTimeMask")
	tsNum, _ := c.constInt(c.fit, "fieldNumTimeStamp")
	r.check(mask == 0x1F, "C12-R3-constants", "compressedTimeMask", "", "0x1F (5-bit offset, 32 s rollover)", fmt.Sprintf("compressedTimeMask is %#x, the FIT compressed time offset has 5 bits", mask))
	r.check(tsNum == 253, "C12-R3-constants", "fieldNumTimeStamp", "", "253", fmt.Sprintf("fieldNumTimeStamp is %d, FIT's timestamp field number is 253", tsNum))

	nStores := 0
	for _, fn := range c.moduleFuncs() {
		if fnPkgPath(fn) != modPath {
			continue
		}
		idx := 0
		for _, b := range fn.Blocks {
			for i, ins := range b.Instrs {
				st, ok := ins.(*ssa.Store)
				if !ok || !isFieldOf(st.Addr, "decoder", "timestamp") {
					continue
				}
				if c.isResetStore(st) {
					r.ok("C12-R2-who-rebases", fmt.Sprintf("%s/timestamp-reset", fn.Name()), c.pos(st.Pos()), "zeroed between files by a function decoding cannot reach")
					continue
				}
				nStores++
				key := fmt.Sprintf("%s/timestamp-store-%d", fn.Name(), idx)
				idx++
				pos := c.pos(st.Pos())
				// ---- R2 who may re-base
				switch fn.Name() {
				case "parseDataMessage":
					okComp := domByBoolEdge(fn, b, true, func(v ssa.Value) bool { p, ok := v.(*ssa.Parameter); return ok && p.Name() == "compressed" })
					okRef := domByCmpConst(fn, b, "*d.timestamp", token.EQL, 0, false) || domByCmpConst(fn, b, "*d.timestamp", token.NEQ, 0, true)
					r.check(okComp, "C12-R2-who-rebases", key, pos, "in the compressed-header branch", "decoder.timestamp is stored in parseDataMessage outside the compressed-header branch")
					r.check(okRef, "C12-R3-guards", key+"/has-reference", pos, "only when a reference time exists (timestamp != 0)", "the compressed update runs without a reference time (not guarded by timestamp != 0)")
					// the fields of a compressed record are parsed with the advanced reference: every call that parses
					// the record's fields is behind the update, or on a path where no update happens
					lateField := ""
					nParse := 0
					parseAt := map[*ssa.BasicBlock]ssa.CallInstruction{}
					for _, ci := range allCalls(fn) {
						if f := ci.Common().StaticCallee(); f != nil && f.Name() == "parseDataFields" {
							nParse++
							parseAt[ci.Block()] = ci
						}
					}
					// walk from the entry along the paths on which an update is due (compressed, reference present),
					// stopping at the update: no parseDataFields call may be met
					isCompressed := func(v ssa.Value) bool { p, ok := v.(*ssa.Parameter); return ok && p.Name() == "compressed" }
					isNoRef := func(v ssa.Value) (bool, bool) { // (is a test of timestamp against 0, true edge means "no reference")
						bo, ok := v.(*ssa.BinOp)
						if !ok || (bo.Op != token.EQL && bo.Op != token.NEQ) || pathOf(bo.X) != "*d.timestamp" {
							return false, false
						}
						k, ok := bo.Y.(*ssa.Const)
						if !ok || k.Value == nil || k.Int64() != 0 {
							return false, false
						}
						return true, bo.Op == token.EQL
					}
					seen := map[*ssa.BasicBlock]bool{}
					var walk func(x *ssa.BasicBlock)
					walk = func(x *ssa.BasicBlock) {
						if seen[x] || lateField != "" {
							return
						}
						seen[x] = true
						for _, ins := range x.Instrs {
							if ins == ssa.Instruction(st) {
								return // the update: everything behind it is fine
							}
							if ci, ok := ins.(ssa.CallInstruction); ok && parseAt[x] == ci {
								lateField = c.pos(ci.Pos())
								return
							}
						}
						if ifi, ok := x.Instrs[len(x.Instrs)-1].(*ssa.If); ok {
							cond := ifi.Cond
							neg := false
							if u, isNot := cond.(*ssa.UnOp); isNot && u.Op == token.NOT {
								cond, neg = u.X, true
							}
							if isCompressed(cond) {
								if neg {
									walk(x.Succs[1])
								} else {
									walk(x.Succs[0])
								}
								return
							}
							if is, trueIsNoRef := isNoRef(cond); is {
								if trueIsNoRef != neg {
									walk(x.Succs[1])
								} else {
									walk(x.Succs[0])
								}
								return
							}
						}
						for _, s := range x.Succs {
							walk(s)
						}
					}
					walk(fn.Blocks[0])
					r.check(lateField == "" && nParse > 0, "C12-R3-guards", key+"/fields-after-update", pos, "on every path on which a compressed update is due (compressed header, reference present) no parseDataFields call comes before the update", "the record's fields are parsed at "+lateField+" before the compressed header has advanced the reference: an explicit timestamp field of that record is then overwritten by the header's value, and a local timestamp in it is resolved against the stale reference")
					// formula
					got := pathOf(st.Val)
					want := []string{
						fmt.Sprintf("(*d.timestamp+conv<uint32>(((conv<int32>((recordHeader&%d))-*d.lastTimeOffset)&%d)))", mask, mask),
						fmt.Sprintf("(*d.timestamp+conv<uint32>(((conv<int32>((recordHeader&%d))-*d.lastTimeOffset)&conv<int32>(%d))))", mask, mask),
					}
					okF := false
					for _, w := range want {
						if got == w {
							okF = true
						}
					}
					if okF {
						r.ok("C12-R3-formula", key, pos, "ts += (int32(hdr&0x1F) - lastTimeOffset) & 0x1F")
					} else {
						r.undecided("C12-R3-formula", key, pos, "compressed update is not of the recognised form ts += ((hdr & mask) - last) & mask; found "+got)
					}
					// paired: lastTimeOffset = int32(hdr & mask)
					okP := false
					for _, n2 := range b.Instrs[i+1:] {
						if s2, ok := n2.(*ssa.Store); ok && isFieldOf(s2.Addr, "decoder", "lastTimeOffset") {
							if pathOf(s2.Val) == fmt.Sprintf("conv<int32>((recordHeader&%d))", mask) {
								okP = true
							}
						}
					}
					r.check(okP, "C12-R1-paired-update", key, pos, "followed by lastTimeOffset = hdr & 0x1F", "the compressed update of timestamp is not followed by lastTimeOffset = hdr & mask: the next compressed record advances from a stale offset")
					// every compressed record with a reference advances the reference: the store may be
					// control-dependent only on `compressed`, `timestamp == 0` and the missing-definition test
					ci := computePostDom(fn)
					badCtl := ""
					for _, a := range fn.Blocks {
						if len(a.Instrs) == 0 {
							continue
						}
						ifi, ok := a.Instrs[len(a.Instrs)-1].(*ssa.If)
						if !ok || !ci.controlled(a)[b] {
							continue
						}
						cp := pathOf(ifi.Cond)
						okCond := cp == "compressed" || cp == "(*d.timestamp==0)" || cp == "(*d.timestamp!=0)" || strings.Contains(cp, ".defmsgs[") && strings.HasSuffix(cp, "==nil)")
						if !okCond {
							badCtl = cp
						}
					}
					r.check(badCtl == "", "C12-R3-guards", key+"/advances-every-record", pos, "every compressed-timestamp record with a reference advances the reference (update depends only on `compressed` and `timestamp != 0`)", "the compressed update of the reference time additionally depends on "+badCtl+": compressed records for which that condition fails do not advance the reference, so offsets are not accumulated over consecutive compressed records (a 5-bit rollover across such a record is lost)")
					// message field 253 gets decodeDateTime(d.timestamp)
					okSet := false
					for _, ci := range allCalls(fn) {
						if f := ci.Common().StaticCallee(); f != nil && f.Name() == "decodeDateTime" && pathOf(ci.Common().Args[0]) == "*d.timestamp" && instrDominates(st, ci) {
							okSet = true
						}
					}
					okGet := false
					for _, ci := range allCalls(fn) {
						call, isCall := ci.(*ssa.Call)
						if !isCall {
							continue
						}
						var lk *rowLookup
						if l, ok := rowOf(call); ok {
							lk = l
						} else if refs := call.Referrers(); refs != nil {
							for _, ref := range *refs {
								if ex, ok := ref.(*ssa.Extract); ok {
									if l, ok := rowOf(ex); ok {
										lk = l
									}
								}
							}
						}
						if lk != nil {
							if k, ok := lk.numArg.(*ssa.Const); ok && k.Value != nil && k.Int64() == 253 {
								okGet = true
							}
						}
					}
					r.check(okSet && okGet, "C12-R3-guards", key+"/sets-field-253", pos, "the advanced reference is written into field 253 of the record", "the compressed-timestamp record does not get decodeDateTime(timestamp) in its field 253")
				case "parseTimeStamp":
					okKind := domByCallCmp(fn, b, "Kind", 1)
					okNum := domByCmpConst(fn, b, "*pfield.num", token.EQL, 253, true)
					switch {
					case !okKind || !okNum:
						r.fail("C12-R2-who-rebases", key, pos, "decoder.timestamp is re-based by a field that is not the UTC timestamp field 253 (store not under kind == TimeUTC and num == 253): compressed-timestamp records that follow are based on a non-reference time")
					default:
						r.ok("C12-R2-who-rebases", key, pos, "under kind == TimeUTC and field number == 253")
					}
					okP := false
					for _, n2 := range b.Instrs[i+1:] {
						if s2, ok := n2.(*ssa.Store); ok && isFieldOf(s2.Addr, "decoder", "lastTimeOffset") {
							v := pathOf(s2.Val)
							if v == fmt.Sprintf("conv<int32>((*d.timestamp&%d))", mask) || v == fmt.Sprintf("conv<int32>((%s&%d))", pathOf(st.Val), mask) {
								okP = true
							}
						}
					}
					r.check(okP, "C12-R1-paired-update", key, pos, "followed by lastTimeOffset = timestamp & 0x1F", "a store to decoder.timestamp is not followed by the matching lastTimeOffset update: later compressed-timestamp records advance from a stale 5-bit offset")
					// every explicit timestamp re-bases: the store may be control-dependent only on the
					// invalid-value test, the kind test and the field-number test
					{
						pd := computePostDom(fn)
						badCtl := ""
						nCtl := 0
						// transitive control dependence
						targets := map[*ssa.BasicBlock]bool{b: true}
						var ctl []*ssa.BasicBlock
						for changed := true; changed; {
							changed = false
							for _, a := range fn.Blocks {
								if len(a.Instrs) == 0 || targets[a] {
									continue
								}
								if _, ok := a.Instrs[len(a.Instrs)-1].(*ssa.If); !ok {
									continue
								}
								for x := range pd.controlled(a) {
									if targets[x] {
										targets[a] = true
										ctl = append(ctl, a)
										changed = true
										break
									}
								}
							}
						}
						for _, a := range ctl {
							ifi := a.Instrs[len(a.Instrs)-1].(*ssa.If)
							nCtl++
							cp := pathOf(ifi.Cond)
							okCond := false
							if bo, ok := ifi.Cond.(*ssa.BinOp); ok && (bo.Op == token.EQL || bo.Op == token.NEQ) {
								if k, ok := bo.Y.(*ssa.Const); ok && k.Value != nil {
									x := pathOf(bo.X)
									switch {
									case x == "*pfield.num" && k.Int64() == 253:
										okCond = true
									case k.Uint64() == 0xFFFFFFFF && bo.X == st.Val:
										okCond = true
									default:
										if cl, ok := bo.X.(*ssa.Call); ok && cl.Common().StaticCallee() != nil && cl.Common().StaticCallee().Name() == "Kind" {
											okCond = true
										}
									}
								}
							}
							if !okCond {
								badCtl = cp
							}
						}
						r.check(badCtl == "" && nCtl >= 2, "C12-R3-guards", key+"/rebases-every-explicit", pos, "every valid UTC field 253 re-bases the reference (the store depends only on the invalid-value, kind and field-number tests)", "the re-base of the reference time additionally depends on "+badCtl+": an explicit timestamp for which that condition fails leaves the old reference and offset in place, and the compressed records and local times that follow are resolved against a stale reference")
					}
					// value is the decoded u32
					inv, isCall := st.Val.(*ssa.Call)
					okV := isCall && inv.Common().IsInvoke() && inv.Common().Method.Name() == "Uint32"
					r.check(okV, "C12-R2-who-rebases", key+"/value", pos, "re-based to the field's own value", "timestamp is re-based to something other than the field's decoded value")
				default:
					r.fail("C12-R2-who-rebases", key, pos, "decoder.timestamp is stored in "+fn.Name()+": only the compressed branch of parseDataMessage and the UTC field 253 in parseTimeStamp may re-base the reference")
				}
			}
		}
	}
	r.need("stores to decoder.timestamp", nStores, 2)
	// who writes lastTimeOffset (must all be paired ones)
	nL := 0
	for _, fn := range c.moduleFuncs() {
		if fnPkgPath(fn) != modPath {
			continue
		}
		for _, b := range fn.Blocks {
			for _, ins := range b.Instrs {
				if st, ok := ins.(*ssa.Store); ok && isFieldOf(st.Addr, "decoder", "lastTimeOffset") {
					nL++
					paired := false
					for _, n2 := range b.Instrs {
						if s2, ok := n2.(*ssa.Store); ok && isFieldOf(s2.Addr, "decoder", "timestamp") && instrIndex(s2) < instrIndex(st) {
							paired = true
						}
					}
					r.check(paired, "C12-R1-paired-update", fmt.Sprintf("%s/lastTimeOffset-store@%d", fn.Name(), nL), c.pos(st.Pos()), "belongs to a timestamp update", "lastTimeOffset is stored without a timestamp update in the same block")
				}
			}
		}
	}

	// ---- R3: invalid guard in parseTimeStamp ------------------------------------------------------
	if fn := c.ssaFn(c.fn(c.fit, "decoder.parseTimeStamp")); fn != nil {
		n := 0
		ok := true
		for _, ci := range allCalls(fn) {
			if f := ci.Common().StaticCallee(); f != nil && f.String() == "(reflect.Value).Set" {
				n++
				if !c12DomByInvalidGuard(fn, ci.Block()) {
					ok = false
				}
			}
		}
		r.check(ok && n >= 2, "C12-R3-guards", "parseTimeStamp/invalid-guard", c.pos(fn.Pos()), fmt.Sprintf("all %d stores into the message are behind u32 != 0xFFFFFFFF (invalid keeps the base time)", n), "a store into the message in parseTimeStamp is not dominated by the 0xFFFFFFFF test: an invalid time stamp would not decode to the base time")
		// UTC branch sets decodeDateTime(u32)
		okUTC, okLocalNoRef, okLocalRef := c12Branches(c, fn)
		r.check(okUTC, "C12-R4-conversion", "parseTimeStamp/utc", c.pos(fn.Pos()), "UTC fields are set to decodeDateTime(value)", "the UTC branch does not set the field to decodeDateTime(value)")
		r.check(okLocalNoRef, "C12-R4-conversion", "parseTimeStamp/local-no-reference", c.pos(fn.Pos()), "no reference: decodeDateTime(value) in a fixed zone with offset 0", "the no-reference local branch is not decodeDateTime(value).In(FixedZone(_, 0))")
		r.check(okLocalRef, "C12-R4-conversion", "parseTimeStamp/local-with-reference", c.pos(fn.Pos()), "with reference: utc.In(FixedZone(_, seconds(local - utc)))", "the local branch does not express the reference UTC instant in a fixed zone of offset local minus UTC")
	} else {
		r.fail("C12-R3-guards", "parseTimeStamp", "", "not found")
	}

	// ---- R4 epoch ------------------------------------------------------------------------------
	c12Epoch(c, r)
}

// domByCmpConst: block b dominated by the edge on which `path <op> k` has truth value want.
func domByCmpConst(fn *ssa.Function, b *ssa.BasicBlock, path string, op token.Token, k int64, want bool) bool {
	for _, a := range fn.Blocks {
		if len(a.Instrs) == 0 {
			continue
		}
		ifi, ok := a.Instrs[len(a.Instrs)-1].(*ssa.If)
		if !ok {
			continue
		}
		bo, ok := ifi.Cond.(*ssa.BinOp)
		if !ok || bo.Op != op {
			continue
		}
		kc, ok := bo.Y.(*ssa.Const)
		if !ok || kc.Value == nil || pathOf(bo.X) != path {
			continue
		}
		if u, ok := constBits(kc.Value, 64); !ok || int64(u) != k {
			continue
		}
		succ := a.Succs[0]
		if !want {
			succ = a.Succs[1]
		}
		if len(succ.Preds) == 1 && succ.Dominates(b) {
			return true
		}
	}
	return false
}

// domByCallCmp: dominated by true edge of `x.<method>() == k`.
func domByCallCmp(fn *ssa.Function, b *ssa.BasicBlock, method string, k int64) bool {
	for _, a := range fn.Blocks {
		if len(a.Instrs) == 0 {
			continue
		}
		ifi, ok := a.Instrs[len(a.Instrs)-1].(*ssa.If)
		if !ok {
			continue
		}
		bo, ok := ifi.Cond.(*ssa.BinOp)
		if !ok || bo.Op != token.EQL {
			continue
		}
		call, ok := bo.X.(*ssa.Call)
		kc, ok2 := bo.Y.(*ssa.Const)
		if !ok || !ok2 || kc.Value == nil || kc.Int64() != k {
			continue
		}
		if f := call.Common().StaticCallee(); f == nil || f.Name() != method {
			continue
		}
		if len(a.Succs[0].Preds) == 1 && a.Succs[0].Dominates(b) {
			return true
		}
	}
	return false
}

func c12DomByInvalidGuard(fn *ssa.Function, b *ssa.BasicBlock) bool {
	for _, a := range fn.Blocks {
		if len(a.Instrs) == 0 {
			continue
		}
		ifi, ok := a.Instrs[len(a.Instrs)-1].(*ssa.If)
		if !ok {
			continue
		}
		bo, ok := ifi.Cond.(*ssa.BinOp)
		if !ok || (bo.Op != token.EQL && bo.Op != token.NEQ) {
			continue
		}
		kc, ok := bo.Y.(*ssa.Const)
		if !ok || kc.Value == nil {
			continue
		}
		if u, ok := constBits(kc.Value, 64); !ok || u != 0xFFFFFFFF {
			continue
		}
		call, ok := bo.X.(*ssa.Call)
		if !ok || !call.Common().IsInvoke() || call.Common().Method.Name() != "Uint32" {
			continue
		}
		succ := a.Succs[1]
		if bo.Op == token.NEQ {
			succ = a.Succs[0]
		}
		if len(succ.Preds) == 1 && succ.Dominates(b) {
			return true
		}
	}
	return false
}

func c12Branches(c *Ctx, fn *ssa.Function) (okUTC, okNoRef, okRef bool) {
	isDecode := func(v ssa.Value, argPath func(string) bool) bool {
		call, ok := v.(*ssa.Call)
		if !ok || call.Common().StaticCallee() == nil || call.Common().StaticCallee().Name() != "decodeDateTime" {
			return false
		}
		return argPath(pathOf(call.Common().Args[0]))
	}
	isU32 := func(p string) bool { return strings.Contains(p, ".Uint32") }
	isRef := func(p string) bool { return p == "*d.timestamp" }
	for _, ci := range allCalls(fn) {
		f := ci.Common().StaticCallee()
		if f == nil {
			continue
		}
		switch f.String() {
		case "(reflect.Value).Set":
			// value chain: reflect.ValueOf(make any <- X)
			vo, ok := ci.Common().Args[1].(*ssa.Call)
			if !ok {
				continue
			}
			mi, ok := vo.Common().Args[0].(*ssa.MakeInterface)
			if !ok {
				continue
			}
			if isDecode(mi.X, isU32) && domByCallCmp(fn, ci.Block(), "Kind", 1) {
				okUTC = true
			}
		case "(time.Time).In":
			zone, ok := ci.Common().Args[1].(*ssa.Call)
			if !ok || zone.Common().StaticCallee() == nil || zone.Common().StaticCallee().String() != "time.FixedZone" {
				continue
			}
			off := zone.Common().Args[1]
			if k, ok := off.(*ssa.Const); ok && k.Value != nil && k.Int64() == 0 {
				if isDecode(ci.Common().Args[0], isU32) {
					okNoRef = true
				}
				continue
			}
			// with reference: receiver utc = decodeDateTime(d.timestamp); off = int(local.Sub(utc).Seconds())
			if !isDecode(ci.Common().Args[0], isRef) {
				continue
			}
			conv, ok := off.(*ssa.Convert)
			if !ok {
				continue
			}
			secs, ok := conv.X.(*ssa.Call)
			if !ok || secs.Common().StaticCallee() == nil || secs.Common().StaticCallee().String() != "(time.Duration).Seconds" {
				continue
			}
			sub, ok := secs.Common().Args[0].(*ssa.Call)
			if !ok || sub.Common().StaticCallee() == nil || sub.Common().StaticCallee().String() != "(time.Time).Sub" {
				continue
			}
			if isDecode(sub.Common().Args[0], isU32) && sub.Common().Args[1] == ci.Common().Args[0] {
				okRef = true
			}
		}
	}
	return
}

func c12Epoch(c *Ctx, r *Report) {
	info := c.fit.TypesInfo
	init, _ := c.varInit(c.fit, "timeBase")
	okBase := false
	if call, ok := init.(*ast.CallExpr); ok && isPkgFunc(callee(info, call), "time", "Date") && len(call.Args) == 8 {
		want := []int64{1989, 12, 31, 0, 0, 0, 0}
		okBase = true
		for i, w := range want {
			v, ok := exprInt(info, call.Args[i])
			if !ok || v != w {
				okBase = false
			}
		}
		if sel, ok := call.Args[7].(*ast.SelectorExpr); !ok || sel.Sel.Name != "UTC" {
			okBase = false
		} else if v, ok := info.Uses[sel.Sel].(*types.Var); !ok || v.Pkg().Path() != "time" {
			okBase = false
		}
	}
	r.check(okBase, "C12-R4-epoch", "timeBase", "", "time.Date(1989, December, 31, 0, 0, 0, 0, UTC)", "timeBase is not 1989-12-31T00:00:00Z")
	ws := c.globalWrites(c.fit, "timeBase")
	r.check(len(ws) == 0, "C12-R4-epoch", "timeBase/immutable", "", "never reassigned", fmt.Sprint("timeBase is written at run time: ", ws))
	single := func(name string) ast.Expr {
		fd := c.decl(c.fn(c.fit, name))
		if fd == nil || len(fd.Body.List) != 1 {
			return nil
		}
		rs, ok := fd.Body.List[0].(*ast.ReturnStmt)
		if !ok || len(rs.Results) != 1 {
			return nil
		}
		return rs.Results[0]
	}
	norm := func(e ast.Expr) string {
		if e == nil {
			return "<not a single return>"
		}
		return strings.ReplaceAll(exprStr(e), " ", "")
	}
	d := norm(single("decodeDateTime"))
	r.check(d == "timeBase.Add(time.Duration(dt)*time.Second)" || d == "timeBase.Add(time.Second*time.Duration(dt))", "C12-R4-epoch", "decodeDateTime", "", "timeBase + dt seconds", "decodeDateTime is "+d+", expected timeBase.Add(time.Duration(dt) * time.Second)")
	e := norm(single("encodeTime"))
	r.check(e == "uint32(t.Sub(timeBase)/time.Second)", "C12-R4-epoch", "encodeTime", "", "(t - timeBase) in whole seconds", "encodeTime is "+e+", expected uint32(t.Sub(timeBase) / time.Second)")
	b := norm(single("IsBaseTime"))
	r.check(b == "t.Equal(timeBase)", "C12-R4-epoch", "IsBaseTime", "", "t.Equal(timeBase)", "IsBaseTime is "+b)
}
