package main

import (
	"fmt"
	"go/ast"
	"go/token"
	"go/types"
	"math"
	"sort"
	"strings"
)

func init() {
	register(&propDef{
		id: "C17", level: "other", run: runC17,
		explanation: "Decided: constants and guard structure only. (R1) the sentinel is 0x7FFFFFFF (= sint32 invalid of the types table) and Invalid(), Degrees() (NaN guard) and String() (\"Invalid\" guard) of both coordinate types test that same sentinel; Semicircles() returns the stored field. (R2) guard-interval extraction: NewLatitude/NewLongitude touch their argument only through comparisons with constants, so their behaviour is constant on the intervals between those constants; evaluating the SSA at one representative of every interval gives the exact accepted set for all 2^32 inputs, which is compared with the statement (latitude: not the sentinel and within [-2^30, 2^30]; longitude: everything but the sentinel). Known finding: +90 degrees exactly (2^30) is rejected. (R3) the degree constructors reject >= +limit and <= -limit with limit 90/180 and otherwise store int32(degrees * degToSemiFactor). (R4) the factors are 180/2^31 and 2^31/180 (initialisers folded over a white-list of pure math functions), never reassigned. (R5) String formats Degrees() with 'f', 5 decimals. (R6) time conversions: see C12-R4 (re-checked here). NOT decided (numeric, needs enumeration of 2^32 values): round trip within one semicircle, printed form within 2e-5 degrees, bijection of the second count. (R6-coordinate-kind-history) the coordinate kind (latitude / longitude) of every table row shared with the generator's golden outputs for the bundled earlier SDK versions equals the kind generated there.",
		trusted:     []string{"exact SSA evaluation at interval representatives (checker/eval.go)", "IEEE-754 semantics of the float operations named", "strconv.FormatFloat"},
	})
}

func runC17(c *Ctx, r *Report) {
	info := c.fit.TypesInfo
	// which fields are coordinates is a fact of the profile table: held against the generator outputs of
	// the bundled earlier SDK versions
	kindHistory(c, r, "C17-R6-coordinate-kind-history", map[int]bool{3: true, 4: true}, "a coordinate is decoded as a plain sint32 (or a latitude as a longitude, which skips the ±90° range rule), and Encode writes it the same wrong way")
	sent, okS := c.constInt(c.fit, "sint32Invalid")
	r.check(okS && sent == 0x7FFFFFFF, "C17-R1-sentinel", "sint32Invalid", "", "0x7FFFFFFF", fmt.Sprintf("sint32Invalid is %#x, the sint32 invalid value is 0x7FFFFFFF", sent))

	// R1/R5: decided on the path terms of the SSA (symexec.go), so that the sentinel test may be
	// written inline or through Invalid(), with == or !=, in either branch order.
	pathsOf := func(fname string) ([]string, string, string) {
		fn := c.ssaFn(c.fn(c.fit, fname))
		if fn == nil {
			return nil, "not found", ""
		}
		o := symPaths(fn, nil, 3)
		var ps []string
		for _, p := range o.paths {
			ps = append(ps, p.String())
		}
		sort.Strings(ps)
		return ps, o.why, c.pos(fn.Pos())
	}
	same := func(got, want []string) bool {
		sort.Strings(want)
		if len(got) != len(want) {
			return false
		}
		for i := range got {
			if got[i] != want[i] {
				return false
			}
		}
		return true
	}
	const S = "(fld0 p0)"
	const isSent = "(== (fld0 p0) 2147483647)"
	deg := symBin(token.MUL, "(conv:float64 "+S+")", "*g:semiToDegFactor")
	for _, T := range []string{"Latitude", "Longitude"} {
		if st, ok := c.fit.Types.Scope().Lookup(T).Type().Underlying().(*types.Struct); !ok || st.NumFields() != 1 {
			r.undecided("C17-R1-sentinel", T, "", T+" is not a one-field struct")
			continue
		}
		type exp struct {
			rule, fn, okMsg string
			want            []string
		}
		for _, e := range []exp{
			{"C17-R1-sentinel", T + ".Semicircles", "returns the stored value", []string{"[] -> " + S}},
			{"C17-R1-sentinel", T + ".Invalid", "semicircles == sentinel", []string{"[] -> " + isSent}},
			{"C17-R1-sentinel", T + ".Degrees", "NaN iff sentinel, else float64(semicircles) * semiToDegFactor",
				[]string{"[T:" + isSent + "] -> (call math.NaN)", "[F:" + isSent + "] -> " + deg}},
		} {
			got, why, pos := pathsOf(e.fn)
			r.check(why == "" && same(got, e.want), e.rule, e.fn, pos, e.okMsg, fmt.Sprintf("%s is not `%s`: paths %v %s", e.fn, e.okMsg, got, why))
		}
		// String: "Invalid" iff sentinel, else FormatFloat(Degrees(), 'f', 5, 32|64)
		got, why, pos := pathsOf(T + ".String")
		okStr := false
		for _, bits := range []string{"32", "64"} {
			if same(got, []string{"[T:" + isSent + "] -> \"Invalid\"", "[F:" + isSent + "] -> (call strconv.FormatFloat " + deg + " 102 5 " + bits + ")"}) {
				okStr = true
			}
		}
		r.check(why == "" && okStr, "C17-R5-string", T+".String", pos, "\"Invalid\" iff sentinel, else FormatFloat(Degrees(), 'f', 5, _)", fmt.Sprintf("%s.String is not `\"Invalid\" iff sentinel, else FormatFloat(degrees, 'f', 5, 32|64)`: paths %v %s", T, got, why))
		// Invalid constructors
		okH, whyH := c15InvalidHelper(c, "New"+T+"Invalid")
		r.check(okH, "C17-R1-sentinel", "New"+T+"Invalid", "", whyH, whyH)
	}

	// ---- R2 guard intervals ----------------------------------------------------------------------
	c17Intervals(c, r, "NewLatitude", func(s int64) bool { return s != 0x7FFFFFFF && s >= -(1<<30) && s <= (1<<30) })
	c17Intervals(c, r, "NewLongitude", func(s int64) bool { return s != 0x7FFFFFFF })

	// ---- R3 degree constructors ---------------------------------------------------------------------
	for _, e := range []struct {
		name  string
		limit string
	}{{"NewLatitudeDegrees", "90"}, {"NewLongitudeDegrees", "180"}} {
		fn := c.ssaFn(c.fn(c.fit, e.name))
		if fn == nil {
			r.undecided("C17-R3-degree-guards", e.name, "", "not found")
			continue
		}
		o := symPaths(fn, nil, 3)
		const inv = "(struct f0=2147483647)"
		conv := "(struct f0=(conv:int32 " + symBin(token.MUL, "p0", "*g:degToSemiFactor") + "))"
		wantConds := []string{"F:(<= p0 -" + e.limit + ")", "F:(>= p0 " + e.limit + ")"}
		nConv, okAll := 0, o.why == "" && len(o.paths) > 0
		var desc []string
		for _, p := range o.paths {
			desc = append(desc, p.String())
			if len(p.rets) != 1 {
				okAll = false
				continue
			}
			switch p.rets[0] {
			case inv:
			case conv:
				nConv++
				if strings.Join(p.conds, " ") != strings.Join(wantConds, " ") {
					okAll = false
				}
			default:
				okAll = false
			}
		}
		// every path that is not the conversion path returns invalid, and since the conversion path's
		// condition set is exactly {not >= limit, not <= -limit}, the others cover the complement
		r.check(okAll && nConv == 1, "C17-R3-degree-guards", e.name, c.pos(fn.Pos()), fmt.Sprintf("rejects >= %s and <= -%s, else int32(degrees * degToSemiFactor)", e.limit, e.limit), fmt.Sprintf("%s is not `invalid when degrees >= %s or <= -%s, else int32(degrees * degToSemiFactor)`: paths %v %s", e.name, e.limit, e.limit, desc, o.why))
	}

	// ---- R4 factors ---------------------------------------------------------------------------------
	for _, e := range []struct {
		name string
		want float64
	}{{"semiToDegFactor", 180 / math.Pow(2, 31)}, {"degToSemiFactor", math.Pow(2, 31) / 180}} {
		init, _ := c.varInit(c.fit, e.name)
		v, ok := foldFloat(c, info, init)
		r.check(ok && v == e.want, "C17-R4-factors", e.name, "", fmt.Sprintf("= %v", v), fmt.Sprintf("%s folds to %v (ok=%v), expected %v", e.name, v, ok, e.want))
		ws := c.globalWrites(c.fit, e.name)
		r.check(len(ws) == 0, "C17-R4-factors", e.name+"/immutable", "", "never reassigned", fmt.Sprint("written at run time: ", ws))
	}
	// ---- R6 time ----------------------------------------------------------------------------------------
	c12Epoch(c, r)
}

// foldFloat evaluates a float initialiser over a white-list: literals, + - * /, math.Pow, math.Exp2, conversions.
func foldFloat(c *Ctx, info *types.Info, e ast.Expr) (float64, bool) {
	if e == nil {
		return 0, false
	}
	e = unparen(e)
	if v, ok := exprConst(info, e); ok {
		return constFloat(v)
	}
	switch n := e.(type) {
	case *ast.BinaryExpr:
		a, ok1 := foldFloat(c, info, n.X)
		b, ok2 := foldFloat(c, info, n.Y)
		if !ok1 || !ok2 {
			return 0, false
		}
		switch n.Op {
		case token.ADD:
			return a + b, true
		case token.SUB:
			return a - b, true
		case token.MUL:
			return a * b, true
		case token.QUO:
			return a / b, true
		}
	case *ast.CallExpr:
		o := callee(info, n)
		if isPkgFunc(o, "math", "Pow") && len(n.Args) == 2 {
			a, ok1 := foldFloat(c, info, n.Args[0])
			b, ok2 := foldFloat(c, info, n.Args[1])
			return math.Pow(a, b), ok1 && ok2
		}
		if isPkgFunc(o, "math", "Exp2") && len(n.Args) == 1 {
			a, ok := foldFloat(c, info, n.Args[0])
			return math.Exp2(a), ok
		}
		if tv, ok := info.Types[n.Fun]; ok && tv.IsType() && len(n.Args) == 1 {
			return foldFloat(c, info, n.Args[0])
		}
	}
	return 0, false
}

func constFloat(v interface{ String() string }) (float64, bool) {
	var f float64
	s := v.String()
	if _, err := fmt.Sscan(s, &f); err == nil {
		return f, true
	}
	// rational form a/b
	if i := strings.Index(s, "/"); i > 0 {
		var a, b float64
		if _, e1 := fmt.Sscan(s[:i], &a); e1 == nil {
			if _, e2 := fmt.Sscan(s[i+1:], &b); e2 == nil && b != 0 {
				return a / b, true
			}
		}
	}
	return 0, false
}

// c17Intervals: exact accepted set of a semicircle constructor by interval representatives.
func c17Intervals(c *Ctx, r *Report, fname string, want func(int64) bool) {
	fn := c.ssaFn(c.fn(c.fit, fname))
	if fn == nil || len(fn.Params) != 1 {
		r.fail("C17-R2-guard-intervals", fname, "", "constructor not found")
		return
	}
	// the parameter may only be compared with constants or stored into the result
	p := fn.Params[0]
	consts := map[int64]bool{math.MinInt32: true, math.MaxInt32: true, 0: true}
	okUse := true
	whyUse := ""
	// collect constants from comparisons syntactically (robust and simple): every integer constant in the body
	fd := c.decl(c.fn(c.fit, fname))
	if fd != nil {
		ast.Inspect(fd.Body, func(nd ast.Node) bool {
			if e, ok := nd.(ast.Expr); ok {
				if v, ok := exprInt(c.fit.TypesInfo, e); ok {
					consts[v] = true
				}
			}
			// the parameter must appear only in comparisons and as the stored value
			if ue, ok := nd.(*ast.UnaryExpr); ok && identOf(ue.X) != nil && identOf(ue.X).Name == p.Name() && ue.Op != token.AND {
				okUse, whyUse = false, "parameter is used in arithmetic: "+exprStr(ue)
			}
			if be, ok := nd.(*ast.BinaryExpr); ok {
				usesP := identOf(be.X) != nil && identOf(be.X).Name == p.Name() || identOf(be.Y) != nil && identOf(be.Y).Name == p.Name()
				if usesP {
					switch be.Op {
					case token.EQL, token.NEQ, token.LSS, token.LEQ, token.GTR, token.GEQ:
						other := be.Y
						if identOf(be.Y) != nil && identOf(be.Y).Name == p.Name() {
							other = be.X
						}
						if _, ok := exprInt(c.fit.TypesInfo, other); !ok {
							okUse, whyUse = false, "parameter is compared with a non-constant: "+exprStr(be)
						}
					default:
						okUse, whyUse = false, "parameter is used in arithmetic: "+exprStr(be)
					}
				}
			}
			return true
		})
	}
	if !okUse {
		r.undecided("C17-R2-guard-intervals", fname, c.pos(fn.Pos()), "interval abstraction does not apply: "+whyUse)
		return
	}
	// representatives: each constant, its neighbours, and a midpoint of every gap
	var pts []int64
	add := func(v int64) {
		if v >= math.MinInt32 && v <= math.MaxInt32 {
			pts = append(pts, v)
		}
	}
	var cs []int64
	for k := range consts {
		cs = append(cs, k)
	}
	sort.Slice(cs, func(i, j int) bool { return cs[i] < cs[j] })
	for i, k := range cs {
		add(k - 1)
		add(k)
		add(k + 1)
		if i+1 < len(cs) {
			add(k + (cs[i+1]-k)/2)
		}
	}
	// the statement's own boundaries
	for _, k := range []int64{-(1 << 30) - 1, -(1 << 30), -(1 << 30) + 1, (1 << 30) - 1, 1 << 30, (1 << 30) + 1} {
		add(k)
	}
	sort.Slice(pts, func(i, j int) bool { return pts[i] < pts[j] })
	ev := newEvaluator(c)
	n := 0
	for i, v := range pts {
		if i > 0 && pts[i-1] == v {
			continue
		}
		n++
		res, err := ev.Call(fn, []Val{mkInt(uint64(v), p.Type())})
		key := fmt.Sprintf("%s(%d)", fname, v)
		if err != nil {
			r.undecided("C17-R2-guard-intervals", key, c.pos(fn.Pos()), err.Error())
			continue
		}
		st, ok := res.(StructV)
		if !ok || len(st.F) != 1 {
			r.undecided("C17-R2-guard-intervals", key, c.pos(fn.Pos()), "result is not a one-field struct")
			continue
		}
		stored, ok := st.F[0].(IntV)
		if !ok {
			r.undecided("C17-R2-guard-intervals", key, c.pos(fn.Pos()), "stored value not constant")
			continue
		}
		valid := stored.S() != 0x7FFFFFFF
		exp := want(v)
		switch {
		case valid && stored.S() != v:
			r.fail("C17-R2-guard-intervals", key, c.pos(fn.Pos()), fmt.Sprintf("constructor stores %d for input %d", stored.S(), v))
		case valid != exp:
			r.fail("C17-R2-guard-intervals", key, c.pos(fn.Pos()), fmt.Sprintf("input %d (%.6f degrees): constructor says valid=%v, the statement says valid=%v", v, float64(v)*180/math.Pow(2, 31), valid, exp))
		default:
			r.ok("C17-R2-guard-intervals", key, c.pos(fn.Pos()), fmt.Sprintf("valid=%v", valid))
		}
	}
	r.need(fname+" interval representatives", n, 10)
}
