package main

import (
	"fmt"
	"go/token"
	"go/types"
	"os"
	"sort"
	"strings"

	"golang.org/x/tools/go/ssa"
)

// Inductive invariant of the decoder's read cursor, checked over every function that can change it.
//
//	Inv:  0 <= i <= j <= len(buf)      the unread window lies inside the buffer
//	      n >= 0,  n + (j - i) <= limit  bytes handed out plus bytes buffered never exceed the data size
//
// (i, j, n, limit are the integer fields of decoder.bytes, buf its byte array.) The domain is
// linear inequalities over the current values of those four fields and over SSA values; a
// field load takes the field's current term, a store replaces it, a call of a function that
// can (transitively) store to one of the fields requires Inv and the callee's precondition
// before, and gives fresh field values satisfying Inv after. Every function that stores to
// one of the fields is walked along every path between cut points (entry, loop headers,
// returns): Inv is assumed at the start of a segment and must be implied at its end. The
// contracts used: copy(dst, src) returns min(len dst, len src) (two cases), Read(p) returns
// 0 <= k <= len(p), len of a slice expression is high - low. A panic that is the only
// statement under the function's first test defines the function's precondition (fill: i == j),
// which is then an obligation at every call site. Index, slice and panic sites met on the way
// are proved from the facts of the path; the census (c01.go) takes those results instead of
// the former audited entries. Implication is a non-negative combination of at most four facts
// with the target's coefficients (a Farkas certificate found by search); nothing is executed and
// no solver is involved.

type symVal struct{ name string }

func (s *symVal) Name() string                  { return s.name }
func (s *symVal) String() string                { return s.name }
func (s *symVal) Type() types.Type              { return types.Typ[types.Int] }
func (s *symVal) Parent() *ssa.Function         { return nil }
func (s *symVal) Referrers() *[]ssa.Instruction { return nil }
func (s *symVal) Pos() token.Pos                { return token.NoPos }

var cursorFields = []string{"bytes.i", "bytes.j", "bytes.n", "bytes.limit"}

type cursorProof struct {
	sites     map[ssa.Instruction]string // proved sites -> reason
	failed    map[ssa.Instruction]string // sites met but not proved on some path
	preserves map[*ssa.Function]string   // "" = ok, else first failure
	pre       map[*ssa.Function][]string // human-readable preconditions
	nPaths    int
	bufLen    int64
	funcs     []*ssa.Function
}

type fiState struct {
	pending map[ssa.Value]*fiPost // error results of calls whose callee has a success postcondition
	sym     map[string]lin
	val     map[ssa.Value]lin
	lens    map[ssa.Value]lin
	facts   []lin
	cut     map[*ssa.BasicBlock]bool
}

func (s *fiState) clone() *fiState {
	n := &fiState{sym: map[string]lin{}, val: map[ssa.Value]lin{}, lens: map[ssa.Value]lin{}, cut: map[*ssa.BasicBlock]bool{}, pending: map[ssa.Value]*fiPost{}}
	for k, v := range s.pending {
		n.pending[k] = v
	}
	for k, v := range s.sym {
		n.sym[k] = v
	}
	for k, v := range s.val {
		n.val[k] = v
	}
	for k, v := range s.lens {
		n.lens[k] = v
	}
	for k, v := range s.cut {
		n.cut[k] = v
	}
	n.facts = append([]lin(nil), s.facts...)
	return n
}

func constLin(k int64) lin   { return lin{coef: map[ssa.Value]int64{}, k: k} }
func symLin(v ssa.Value) lin { return lin{coef: map[ssa.Value]int64{v: 1}} }

type fiPost struct {
	cond  ssa.Value
	truth bool
	blk   *ssa.BasicBlock
	desc  string
}

type fiRun struct {
	post    map[*ssa.Function]*fiPost
	c       *Ctx
	fn      *ssa.Function
	bc      *boundsCtx
	proof   *cursorProof
	mods    map[*ssa.Function]bool // functions that can change a cursor field (transitively)
	pre     map[*ssa.Function]*fiPre
	nSym    int
	bufLen  int64
	fail    string
	budget  int
	skipBlk map[*ssa.BasicBlock]bool
	visited map[*ssa.BasicBlock]bool
}

type fiPre struct {
	cond  ssa.Value // condition of the entry test
	truth bool      // polarity under which execution continues
	panic *ssa.Panic
	blk   *ssa.BasicBlock
}

func (r *fiRun) fresh(name string) lin {
	r.nSym++
	return symLin(&symVal{fmt.Sprintf("%s#%d", name, r.nSym)})
}

func (r *fiRun) lin(st *fiState, v ssa.Value, depth int) lin {
	if l, ok := st.val[v]; ok {
		return l
	}
	if depth < 10 {
		switch n := v.(type) {
		case *ssa.Const:
			if n.Value != nil {
				if b, ok := n.Type().Underlying().(*types.Basic); ok && b.Info()&types.IsInteger != 0 {
					return constLin(n.Int64())
				}
			}
		case *ssa.BinOp:
			if b, ok := n.Type().Underlying().(*types.Basic); ok && b.Kind() == types.Int {
				switch n.Op {
				case token.ADD:
					return r.lin(st, n.X, depth+1).add(r.lin(st, n.Y, depth+1), 1)
				case token.SUB:
					return r.lin(st, n.X, depth+1).add(r.lin(st, n.Y, depth+1), -1)
				}
			}
		}
	}
	return symLin(v)
}

// invFacts: the invariant over the current field terms.
func (r *fiRun) invFacts(st *fiState) []lin {
	i, j, n, lim := st.sym["bytes.i"], st.sym["bytes.j"], st.sym["bytes.n"], st.sym["bytes.limit"]
	zero := constLin(0)
	return []lin{
		zero.add(i, -1),                     // -i <= 0
		i.add(j, -1),                        // i - j <= 0
		j.add(constLin(r.bufLen), -1),       // j - L <= 0
		zero.add(n, -1),                     // -n <= 0
		n.add(j, 1).add(i, -1).add(lim, -1), // n + j - i - limit <= 0
	}
}

var invNames = []string{"0 <= i", "i <= j", "j <= len(buf)", "0 <= n", "n + (j - i) <= limit"}

func (r *fiRun) havoc(st *fiState) {
	for _, f := range cursorFields {
		st.sym[f] = r.fresh(f)
	}
	st.facts = append(st.facts, r.invFacts(st)...)
}

// facts plus interval facts of the opaque SSA values that occur in the target.
func (r *fiRun) implied(st *fiState, target lin, at *ssa.BasicBlock) bool {
	facts := st.facts
	seen := map[ssa.Value]bool{}
	add := func(l lin) {
		for v := range l.coef {
			if _, isSym := v.(*symVal); isSym || seen[v] {
				continue
			}
			seen[v] = true
			rg := r.bc.rangeAt(v, at)
			if rg.okHi {
				facts = append(facts, lin{coef: map[ssa.Value]int64{v: 1}, k: -rg.hi})
			}
			if rg.okLo {
				facts = append(facts, lin{coef: map[ssa.Value]int64{v: -1}, k: rg.lo})
			}
		}
	}
	add(target)
	for _, f := range st.facts {
		add(f)
	}
	return implied4(target, facts)
}

func implied4(target lin, facts []lin) bool {
	// keep only facts that share a variable with the target or with a fact that does (2 rounds)
	rel := map[ssa.Value]bool{}
	for v := range target.coef {
		rel[v] = true
	}
	var use []lin
	if len(target.coef) == 0 {
		// a contradiction may involve any variables: start from all of them
		for _, f := range facts {
			for v := range f.coef {
				rel[v] = true
			}
		}
	}
	for round := 0; round < 3; round++ {
		use = use[:0]
		for _, f := range facts {
			hit := len(f.coef) == 0
			for v := range f.coef {
				if rel[v] {
					hit = true
				}
			}
			if hit {
				use = append(use, f)
			}
		}
		for _, f := range use {
			for v := range f.coef {
				rel[v] = true
			}
		}
	}
	if len(use) > 40 {
		use = use[len(use)-40:]
	}
	try := func(sum lin) bool { return sum.sameCoef(target) && sum.k >= target.k }
	if try(constLin(0)) {
		return true
	}
	for a := range use {
		if try(use[a]) {
			return true
		}
		for b := a; b < len(use); b++ {
			s2 := use[a].add(use[b], 1)
			if try(s2) {
				return true
			}
			for c := b; c < len(use); c++ {
				s3 := s2.add(use[c], 1)
				if try(s3) {
					return true
				}
				for d := c; d < len(use); d++ {
					if try(s3.add(use[d], 1)) {
						return true
					}
				}
			}
		}
	}
	return false
}

// condFacts: facts established by cond == truth in state st (with != refined through known order).
func (r *fiRun) condFacts(st *fiState, cond ssa.Value, truth bool, at *ssa.BasicBlock) []lin {
	if u, ok := cond.(*ssa.UnOp); ok && u.Op == token.NOT {
		return r.condFacts(st, u.X, !truth, at)
	}
	bo, ok := cond.(*ssa.BinOp)
	if !ok {
		return nil
	}
	if b, ok := bo.X.Type().Underlying().(*types.Basic); !ok || b.Kind() != types.Int {
		return nil
	}
	x, y := r.lin(st, bo.X, 0), r.lin(st, bo.Y, 0)
	op := bo.Op
	if !truth {
		op = map[token.Token]token.Token{token.LSS: token.GEQ, token.LEQ: token.GTR, token.GTR: token.LEQ, token.GEQ: token.LSS, token.EQL: token.NEQ, token.NEQ: token.EQL}[op]
	}
	one := constLin(1)
	switch op {
	case token.LSS:
		return []lin{x.add(y, -1).add(one, 1)}
	case token.LEQ:
		return []lin{x.add(y, -1)}
	case token.GTR:
		return []lin{y.add(x, -1).add(one, 1)}
	case token.GEQ:
		return []lin{y.add(x, -1)}
	case token.EQL:
		return []lin{x.add(y, -1), y.add(x, -1)}
	case token.NEQ:
		d := x.add(y, -1)
		if r.implied(st, d, at) { // x <= y and x != y  =>  x <= y - 1
			return []lin{d.add(one, 1)}
		}
		e := y.add(x, -1)
		if r.implied(st, e, at) {
			return []lin{e.add(one, 1)}
		}
	}
	return nil
}

func (r *fiRun) site(ins ssa.Instruction, ok bool, why string) {
	if ok {
		if _, bad := r.proof.failed[ins]; !bad {
			r.proof.sites[ins] = why
		}
	} else {
		delete(r.proof.sites, ins)
		r.proof.failed[ins] = why
		if os.Getenv("FI_DEBUG") != "" {
			fmt.Fprintf(os.Stderr, "FI_DEBUG site not proved: %s %s %T\n", r.fn.Name(), r.c.pos(ins.Pos()), ins)
		}
	}
}

func (r *fiRun) checkInv(st *fiState, at *ssa.BasicBlock, where string) {
	for k, f := range r.invFacts(st) {
		if !r.implied(st, f, at) && r.fail == "" {
			r.fail = fmt.Sprintf("%s: `%s` does not follow from the facts of the path", where, invNames[k])
		}
	}
}

func isLoopHeader(b *ssa.BasicBlock) bool {
	for _, p := range b.Preds {
		if b.Dominates(p) {
			return true
		}
	}
	return false
}

func (r *fiRun) step(b, prev *ssa.BasicBlock, st *fiState) {
	r.budget--
	if r.budget < 0 {
		if r.fail == "" {
			r.fail = "too many paths"
		}
		return
	}
	if r.skipBlk[b] {
		return
	}
	if r.visited != nil {
		r.visited[b] = true
	}
	// phis first (values of the edge taken)
	for _, ins := range b.Instrs {
		phi, ok := ins.(*ssa.Phi)
		if !ok {
			break
		}
		for k, p := range b.Preds {
			if p == prev {
				e := phi.Edges[k]
				if _, isSlice := phi.Type().Underlying().(*types.Slice); isSlice {
					if l, ok := st.lens[e]; ok {
						st.lens[phi] = l
					}
				} else {
					st.val[phi] = r.lin(st, e, 0)
				}
			}
		}
	}
	if isLoopHeader(b) {
		r.checkInv(st, b, fmt.Sprintf("at the loop head %s", r.c.pos(firstPos(b))))
		if st.cut[b] {
			r.proof.nPaths++
			return
		}
		st.cut[b] = true
		// forget everything the loop may change: cursor fields and the header's phis
		st.facts = nil
		r.havoc(st)
		for _, ins := range b.Instrs {
			phi, ok := ins.(*ssa.Phi)
			if !ok {
				break
			}
			if _, isSlice := phi.Type().Underlying().(*types.Slice); isSlice {
				l := r.fresh("len")
				st.lens[phi] = l
				st.facts = append(st.facts, constLin(0).add(l, -1))
			} else {
				st.val[phi] = r.fresh("phi")
			}
		}
	}
	r.interp(b, 0, st)
}

// interp runs the instructions of b from index `from` and continues into the successors.
func (r *fiRun) interp(b *ssa.BasicBlock, from int, st *fiState) {
	for idx := from; idx < len(b.Instrs); idx++ {
		ins := b.Instrs[idx]
		switch n := ins.(type) {
		case *ssa.Phi:
		case *ssa.UnOp:
			if n.Op == token.MUL {
				if p, ok := r.c.decoderPath(n.X); ok {
					if l, tracked := st.sym[p]; tracked {
						st.val[n] = l
					}
				}
			}
		case *ssa.Store:
			if p, ok := r.c.decoderPath(n.Addr); ok {
				if _, tracked := st.sym[p]; tracked {
					st.sym[p] = r.lin(st, n.Val, 0)
				}
			}
		case *ssa.Slice:
			lo := constLin(0)
			if n.Low != nil {
				lo = r.lin(st, n.Low, 0)
			}
			var capL lin
			isBuf := false
			if L, isArr := arrayLenOf(n.X.Type()); isArr {
				capL = constLin(L)
				if p, ok := r.c.decoderPath(n.X); ok && p == "bytes.buf" {
					isBuf = true
				}
			} else if l, ok := st.lens[n.X]; ok {
				capL = l
			} else {
				l := r.fresh("len")
				st.lens[n.X] = l
				st.facts = append(st.facts, constLin(0).add(l, -1))
				capL = l
			}
			hi := capL
			if n.High != nil {
				hi = r.lin(st, n.High, 0)
			}
			st.lens[n] = hi.add(lo, -1)
			_, isArr := arrayLenOf(n.X.Type())
			if isBuf || (!isArr && n.High == nil && n.Low != nil) {
				ok := r.implied(st, constLin(0).add(lo, -1), b) && r.implied(st, lo.add(hi, -1), b) && r.implied(st, hi.add(capL, -1), b)
				r.site(ins, ok, "cursor invariant 0 <= i <= j <= len(buf), n + (j - i) <= limit (inductive over every function that stores to the cursor) and the contracts of copy/Read give 0 <= low <= high <= cap")
			}
		case *ssa.IndexAddr:
			if p, ok := r.c.decoderPath(n.X); ok && p == "bytes.buf" {
				e := r.lin(st, n.Index, 0)
				ok := r.implied(st, constLin(0).add(e, -1), b) && r.implied(st, e.add(constLin(r.bufLen-1), -1), b)
				r.site(ins, ok, "cursor invariant (inductive) and the path's tests give 0 <= index < len(buf)")
			}
		case *ssa.Panic:
			if pr := r.pre[r.fn]; pr != nil && pr.panic == n {
				return // excluded by the precondition, which is an obligation at every call site
			}
			r.site(ins, r.implied(st, constLin(1), b), "unreachable: the facts of every path to this panic are contradictory under the cursor invariant")
			r.proof.nPaths++
			return
		case *ssa.Extract:
			if call, ok := n.Tuple.(*ssa.Call); ok && n.Index == 0 {
				if l, ok := st.val[call]; ok {
					st.val[n] = l
				}
			}
		case *ssa.Call:
			cc := n.Common()
			if bi, ok := cc.Value.(*ssa.Builtin); ok {
				switch bi.Name() {
				case "len":
					if at, isArr := cc.Args[0].Type().Underlying().(*types.Array); isArr {
						st.val[n] = constLin(at.Len())
					} else if l, ok := st.lens[cc.Args[0]]; ok {
						st.val[n] = l
					} else {
						l := r.fresh("len")
						st.lens[cc.Args[0]] = l
						st.facts = append(st.facts, constLin(0).add(l, -1))
						st.val[n] = l
					}
				case "copy":
					k := r.fresh("copied")
					st.val[n] = k
					ld, okd := st.lens[cc.Args[0]]
					ls, oks := st.lens[cc.Args[1]]
					st.facts = append(st.facts, constLin(0).add(k, -1))
					if okd {
						st.facts = append(st.facts, k.add(ld, -1))
					}
					if oks {
						st.facts = append(st.facts, k.add(ls, -1))
					}
					if okd && oks {
						// k == len(dst) or k == len(src): two cases
						a := st.clone()
						a.facts = append(a.facts, ld.add(k, -1))
						st.facts = append(st.facts, ls.add(k, -1))
						r.interp(b, idx+1, a)
					}
				}
				continue
			}
			if cc.IsInvoke() {
				if cc.Method.Name() == "Read" && len(cc.Args) == 1 {
					k := r.fresh("read")
					st.val[n] = k
					st.facts = append(st.facts, constLin(0).add(k, -1))
					if l, ok := st.lens[cc.Args[0]]; ok {
						st.facts = append(st.facts, k.add(l, -1))
					}
				}
				continue
			}
			callee := cc.StaticCallee()
			if callee == nil || !r.mods[callee] {
				continue
			}
			where := fmt.Sprintf("before the call of %s at %s", callee.Name(), r.c.pos(n.Pos()))
			r.checkInv(st, b, where)
			if pr := r.pre[callee]; pr != nil {
				// precondition in the caller's state: the callee's entry test reads the fields
				ok := r.preHolds(st, callee, pr, b)
				if !ok && r.fail == "" {
					r.fail = fmt.Sprintf("%s: the callee's precondition (%s) does not follow from the facts of the path", where, strings.Join(r.proof.pre[callee], ", "))
				}
			}
			st.facts = append([]lin(nil), st.facts...)
			r.havoc(st)
			if po := r.post[callee]; po != nil {
				if st.pending == nil {
					st.pending = map[ssa.Value]*fiPost{}
				}
				st.pending[n] = po
			}
		case *ssa.Return:
			r.checkInv(st, b, fmt.Sprintf("at the return %s", r.c.pos(n.Pos())))
			r.proof.nPaths++
			return
		case *ssa.If:
			for k, s := range b.Succs {
				ns := st.clone()
				ns.facts = append(ns.facts, r.condFacts(st, n.Cond, k == 0, b)...)
				if x, nonNil, ok := nilTest(n.Cond); ok && x != nil {
					// on the edge where the callee's error is nil, its success postcondition holds for the current fields
					src := x
					if ex, isEx := x.(*ssa.Extract); isEx {
						src = ex.Tuple
					}
					if po := st.pending[src]; po != nil && (k == 0) != nonNil {
						ns.facts = append(ns.facts, r.postFacts(ns, po, b)...)
					}
				}
				// an infeasible edge need not be followed
				if r.implied(ns, constLin(1), b) {
					continue
				}
				r.step(s, b, ns)
			}
			return
		case *ssa.Jump:
			r.step(b.Succs[0], b, st)
			return
		}
	}
}

// postFacts: the callee's success postcondition evaluated over the caller's current field terms.
func (r *fiRun) postFacts(st *fiState, po *fiPost, at *ssa.BasicBlock) []lin {
	tmp := &fiState{sym: st.sym, val: map[ssa.Value]lin{}, lens: map[ssa.Value]lin{}, facts: st.facts, cut: st.cut}
	for _, ins := range po.blk.Instrs {
		if u, ok := ins.(*ssa.UnOp); ok && u.Op == token.MUL {
			if p, ok := r.c.decoderPath(u.X); ok {
				if l, tracked := st.sym[p]; tracked {
					tmp.val[u] = l
				}
			}
		}
	}
	return r.condFacts(tmp, po.cond, po.truth, at)
}

func (r *fiRun) preHolds(st *fiState, callee *ssa.Function, pr *fiPre, at *ssa.BasicBlock) bool {
	// evaluate the callee's entry condition over the caller's current field terms
	tmp := &fiState{sym: st.sym, val: map[ssa.Value]lin{}, lens: map[ssa.Value]lin{}, facts: st.facts, cut: st.cut}
	for _, ins := range pr.blk.Instrs {
		if u, ok := ins.(*ssa.UnOp); ok && u.Op == token.MUL {
			if p, ok := r.c.decoderPath(u.X); ok {
				if l, tracked := st.sym[p]; tracked {
					tmp.val[u] = l
				}
			}
		}
	}
	bo, ok := pr.cond.(*ssa.BinOp)
	if !ok {
		return false
	}
	x, y := r.lin(tmp, bo.X, 0), r.lin(tmp, bo.Y, 0)
	op := bo.Op
	if !pr.truth {
		op = map[token.Token]token.Token{token.EQL: token.NEQ, token.NEQ: token.EQL, token.LSS: token.GEQ, token.GEQ: token.LSS, token.GTR: token.LEQ, token.LEQ: token.GTR}[op]
	}
	switch op {
	case token.EQL:
		return r.implied(st, x.add(y, -1), at) && r.implied(st, y.add(x, -1), at)
	case token.LEQ:
		return r.implied(st, x.add(y, -1), at)
	case token.GEQ:
		return r.implied(st, y.add(x, -1), at)
	case token.LSS:
		return r.implied(st, x.add(y, -1).add(constLin(1), 1), at)
	case token.GTR:
		return r.implied(st, y.add(x, -1).add(constLin(1), 1), at)
	}
	return false
}

func (c *Ctx) cursorProof() *cursorProof {
	if c.cursor != nil {
		return c.cursor
	}
	cp := &cursorProof{sites: map[ssa.Instruction]string{}, failed: map[ssa.Instruction]string{}, preserves: map[*ssa.Function]string{}, pre: map[*ssa.Function][]string{}}
	c.cursor = cp
	tracked := map[string]bool{}
	for _, f := range cursorFields {
		tracked[f] = true
	}
	// functions that store to a cursor field
	var storers []*ssa.Function
	direct := map[*ssa.Function]bool{}
	for _, fn := range c.moduleFuncs() {
		if fnPkgPath(fn) != modPath || !inLib(fn) {
			continue
		}
		for _, b := range fn.Blocks {
			for _, ins := range b.Instrs {
				if st, ok := ins.(*ssa.Store); ok {
					if p, ok := c.decoderPath(st.Addr); ok && tracked[p] {
						direct[fn] = true
					}
				}
				if sl, ok := ins.(*ssa.Slice); ok {
					if p, ok := c.decoderPath(sl.X); ok && p == "bytes.buf" {
						direct[fn] = direct[fn] || false
					}
				}
			}
		}
		if direct[fn] {
			storers = append(storers, fn)
		}
	}
	sort.Slice(storers, func(i, j int) bool { return storers[i].String() < storers[j].String() })
	cp.funcs = storers
	// transitive modifiers
	mods := map[*ssa.Function]bool{}
	for f := range direct {
		mods[f] = true
	}
	cg := c.callGraph()
	for changed := true; changed; {
		changed = false
		for _, fn := range c.moduleFuncs() {
			if mods[fn] || fnPkgPath(fn) != modPath {
				continue
			}
			if n := cg.Nodes[fn]; n != nil {
				for _, e := range n.Out {
					if mods[e.Callee.Func] {
						mods[fn] = true
						changed = true
						break
					}
				}
			}
		}
	}
	// buffer length
	if dec := c.fit.Types.Scope().Lookup("decoder"); dec != nil {
		if st, ok := dec.Type().Underlying().(*types.Struct); ok {
			for i := 0; i < st.NumFields(); i++ {
				if st.Field(i).Name() == "bytes" {
					if bs, ok := st.Field(i).Type().Underlying().(*types.Struct); ok {
						for k := 0; k < bs.NumFields(); k++ {
							if at, ok := bs.Field(k).Type().Underlying().(*types.Array); ok && bs.Field(k).Name() == "buf" {
								cp.bufLen = at.Len()
							}
						}
					}
				}
			}
		}
	}
	if cp.bufLen == 0 || len(storers) == 0 {
		return cp
	}
	// preconditions: entry test whose one side only panics
	pre := map[*ssa.Function]*fiPre{}
	for _, fn := range storers {
		e := fn.Blocks[0]
		ifi, ok := e.Instrs[len(e.Instrs)-1].(*ssa.If)
		if !ok {
			continue
		}
		for k, s := range e.Succs {
			if len(s.Instrs) > 0 {
				if pn, ok := s.Instrs[len(s.Instrs)-1].(*ssa.Panic); ok && len(s.Preds) == 1 {
					pre[fn] = &fiPre{cond: ifi.Cond, truth: k != 0, panic: pn, blk: e}
					cp.pre[fn] = []string{fmt.Sprintf("%s is %v", stripAddrs(pathOf(ifi.Cond)), k != 0)}
				}
			}
		}
	}
	// success postconditions: every nil-error return of a cursor-changing function sits directly on one
	// edge of a test over freshly loaded cursor fields (the exit test of a `for i == j { fill }` helper)
	post := map[*ssa.Function]*fiPost{}
	for fn := range mods {
		res := fn.Signature.Results()
		if len(fn.Blocks) == 0 || res.Len() == 0 || !isErrorType(res.At(res.Len()-1).Type()) {
			continue
		}
		var cand *fiPost
		okAll := true
		nret := 0
		for _, ret := range c.successReturns(fn) {
			nret++
			rb := ret.Block()
			if len(rb.Instrs) != 1 || len(rb.Preds) != 1 {
				okAll = false
				break
			}
			p := rb.Preds[0]
			ifi, isIf := p.Instrs[len(p.Instrs)-1].(*ssa.If)
			if !isIf {
				okAll = false
				break
			}
			bo, isBin := ifi.Cond.(*ssa.BinOp)
			if !isBin {
				okAll = false
				break
			}
			// both operands loaded in p itself, no store or modifying call in p
			fresh := true
			for _, op := range []ssa.Value{bo.X, bo.Y} {
				ld, isLd := op.(*ssa.UnOp)
				if _, isC := op.(*ssa.Const); isC {
					continue
				}
				if !isLd || ld.Op != token.MUL || ld.Block() != p {
					fresh = false
					continue
				}
				if pth, ok := c.decoderPath(ld.X); !ok || !tracked[pth] {
					fresh = false
				}
			}
			for _, ins := range p.Instrs {
				if _, isSt := ins.(*ssa.Store); isSt {
					fresh = false
				}
				if ci, isCall := ins.(ssa.CallInstruction); isCall {
					if g := ci.Common().StaticCallee(); g != nil && mods[g] {
						fresh = false
					}
				}
			}
			if !fresh {
				okAll = false
				break
			}
			np := &fiPost{cond: ifi.Cond, truth: p.Succs[0] == rb, blk: p, desc: fmt.Sprintf("%s is %v", stripAddrs(pathOf(ifi.Cond)), p.Succs[0] == rb)}
			if cand != nil && (cand.cond != np.cond || cand.truth != np.truth) {
				okAll = false
				break
			}
			cand = np
		}
		if okAll && cand != nil && nret > 0 {
			post[fn] = cand
		}
	}
	// who stores the limit: that function starts from the zero decoder
	limitFn := map[*ssa.Function]bool{}
	for _, fn := range storers {
		for _, b := range fn.Blocks {
			for _, ins := range b.Instrs {
				if st, ok := ins.(*ssa.Store); ok {
					if p, ok := c.decoderPath(st.Addr); ok && p == "bytes.limit" && !c.isResetStore(st) {
						limitFn[fn] = true
					}
				}
			}
		}
	}
	// also walk every function that calls a function with a precondition or touches the buffer
	// without storing to the cursor itself (a helper between readByte and fill, say)
	have := map[*ssa.Function]bool{}
	for _, fn := range storers {
		have[fn] = true
	}
	for _, fn := range c.moduleFuncs() {
		if have[fn] || fnPkgPath(fn) != modPath || !inLib(fn) {
			continue
		}
		need := false
		for _, ci := range allCalls(fn) {
			if f := ci.Common().StaticCallee(); f != nil && pre[f] != nil {
				need = true
			}
		}
		for _, b := range fn.Blocks {
			for _, ins := range b.Instrs {
				switch n := ins.(type) {
				case *ssa.Slice:
					if p, ok := c.decoderPath(n.X); ok && p == "bytes.buf" {
						need = true
					}
				case *ssa.IndexAddr:
					if p, ok := c.decoderPath(n.X); ok && p == "bytes.buf" {
						need = true
					}
				}
			}
		}
		// a function with an explicit panic that reads the cursor (decode's pre-CRC check, wherever the
		// stores it once sat next to have moved): its panic is decided by the walk
		hasPanic, readsCursor := false, false
		for _, b := range fn.Blocks {
			for _, ins := range b.Instrs {
				switch n := ins.(type) {
				case *ssa.Panic:
					hasPanic = true
				case *ssa.UnOp:
					if n.Op == token.MUL {
						if p, ok := c.decoderPath(n.X); ok && tracked[p] {
							readsCursor = true
						}
					}
				}
			}
		}
		if hasPanic && readsCursor {
			need = true
		}
		if need {
			storers = append(storers, fn)
			have[fn] = true
		}
	}
	sort.Slice(storers, func(i, j int) bool { return storers[i].String() < storers[j].String() })
	cp.funcs = storers
	preCallSites := map[*ssa.Function]int{}
	for _, fn := range storers {
		for _, ci := range allCalls(fn) {
			if f := ci.Common().StaticCallee(); f != nil && pre[f] != nil {
				preCallSites[f]++
			}
		}
	}
	var deadPanics []*ssa.Panic
	defer func() {
		// a precondition panic is discharged when every walked caller proved the precondition
		allOK := true
		for _, fn := range storers {
			if cp.preserves[fn] != "" {
				allOK = false
			}
		}
		if allOK {
			for _, pn := range deadPanics {
				if _, bad := cp.failed[pn]; !bad {
					cp.sites[pn] = "unreachable: on every path towards this panic the tests of the path, the success postconditions of the calls before it and the cursor invariant are contradictory (the walk pruned every edge into it)"
				}
			}
		}
		for f, pr := range pre {
			// every caller in the module must be among the walked functions
			callers := 0
			for _, g := range c.moduleFuncs() {
				for _, ci := range allCalls(g) {
					if ci.Common().StaticCallee() == f {
						callers++
					}
				}
			}
			if allOK && callers == preCallSites[f] && callers > 0 {
				cp.sites[pr.panic] = fmt.Sprintf("the precondition (%s) is proved at each of the %d call sites of %s", strings.Join(cp.pre[f], ", "), callers, f.Name())
			}
		}
	}()
	for _, fn := range storers {
		r := &fiRun{c: c, fn: fn, bc: c.newBounds(fn), proof: cp, mods: mods, pre: pre, post: post, bufLen: cp.bufLen, budget: 4000, skipBlk: map[*ssa.BasicBlock]bool{}}
		st := &fiState{sym: map[string]lin{}, val: map[ssa.Value]lin{}, lens: map[ssa.Value]lin{}, cut: map[*ssa.BasicBlock]bool{}, pending: map[ssa.Value]*fiPost{}}
		if limitFn[fn] {
			for _, f := range cursorFields {
				st.sym[f] = constLin(0) // fresh decoder (C10-R4 per-file state decides that premise)
			}
		} else {
			r.havoc(st)
		}
		for _, p := range fn.Params {
			if _, isSlice := p.Type().Underlying().(*types.Slice); isSlice {
				l := r.fresh("len(" + p.Name() + ")")
				st.lens[p] = l
				st.facts = append(st.facts, constLin(0).add(l, -1))
			}
		}
		if pr := pre[fn]; pr != nil {
			// assume the precondition: evaluate the entry block's loads first, then add the facts
			r.skipBlk[pr.panic.Block()] = true
		}
		r.visited = map[*ssa.BasicBlock]bool{}
		r.step(fn.Blocks[0], nil, st)
		cp.preserves[fn] = r.fail
		if r.fail == "" {
			// a panic the walk never reached: every edge towards it was pruned because the facts of
			// the path (tests, callee postconditions, the invariant) are contradictory there
			for _, b := range fn.Blocks {
				if r.visited[b] || r.skipBlk[b] || len(b.Instrs) == 0 || b == fn.Recover {
					continue
				}
				if pn, ok := b.Instrs[len(b.Instrs)-1].(*ssa.Panic); ok && reachableFromEntry(fn, b) {
					deadPanics = append(deadPanics, pn)
				}
			}
		}
	}
	return cp
}

func reachableFromEntry(fn *ssa.Function, b *ssa.BasicBlock) bool {
	seen := map[*ssa.BasicBlock]bool{}
	var dfs func(x *ssa.BasicBlock) bool
	dfs = func(x *ssa.BasicBlock) bool {
		if x == b {
			return true
		}
		if seen[x] {
			return false
		}
		seen[x] = true
		for _, s := range x.Succs {
			if dfs(s) {
				return true
			}
		}
		return false
	}
	return dfs(fn.Blocks[0])
}
