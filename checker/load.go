package main

import (
	"fmt"
	"go/ast"
	"go/constant"
	"go/token"
	"go/types"
	"os"
	"path/filepath"
	"sort"
	"strings"
	"sync"

	"golang.org/x/tools/go/callgraph"
	"golang.org/x/tools/go/callgraph/cha"
	"golang.org/x/tools/go/callgraph/vta"
	"golang.org/x/tools/go/packages"
	"golang.org/x/tools/go/ssa"
	"golang.org/x/tools/go/ssa/ssautil"
)

const (
	modPath   = "github.com/tormoder/fit"
	crcPath   = modPath + "/dyncrc16"
	typesPath = modPath + "/internal/types"
	genPath   = modPath + "/cmd/fitgen/internal/profile"
	strPath   = modPath + "/cmd/fitgen/internal/fitstringer"
	mainPath  = modPath + "/cmd/fitgen"
)

// Ctx is the loaded, type-checked program for one configuration.
type Ctx struct {
	repo string
	tier string
	fset *token.FileSet
	pkgs map[string]*packages.Package // module packages by path
	all  []*packages.Package          // every package incl. deps

	fit, crc, typ *packages.Package

	prog    *ssa.Program
	ssaPkgs map[string]*ssa.Package

	cgOnce sync.Once
	cg     *callgraph.Graph

	loadInfo map[string]interface{}

	// caches
	modFns        []*ssa.Function
	globalUsers   map[*ssa.Global][]*ssa.Function
	eff           *effects
	errGlobalMemo map[*ssa.Global]bool
	mx            *matrix
	sizeHull      *[2]int64
	fieldStoreIdx map[string][]*ssa.Store
	fieldWhole    map[string]bool
	hullMemo      map[string]*ival
	funcDecls     map[*types.Func]*ast.FuncDecl
	prof          *Profile
	profErr       []string
	decodeReach   map[*ssa.Function]bool
	inlined       map[*ast.FuncDecl]bool
	cursor        *cursorProof
}

func load(repo, tier string) (*Ctx, error) {
	return loadCfg(repo, tier, nil, nil)
}

func loadCfg(repo, tier string, extraEnv []string, tags []string) (*Ctx, error) {
	return loadOverlay(repo, tier, extraEnv, tags, nil)
}

// loadOverlay loads the working tree with some files replaced in memory (used only for the
// positive controls of the thorough tier; nothing is written to disk).
func loadOverlay(repo, tier string, extraEnv []string, tags []string, overlay map[string][]byte) (*Ctx, error) {
	env := append(os.Environ(), "GOFLAGS=-mod=mod", "GOPROXY=off", "GOSUMDB=off", "GOTOOLCHAIN=local", "GOWORK=off")
	env = append(env, extraEnv...)
	// extract-function refactorings are undone in the checker's view first (inline.go), then locals
	// are renamed back to their recorded names (alpha.go)
	overlay, ii := inlineOverlay(repo, env, tags, overlay)
	merged, ai, srcPkgs := alphaOverlay(repo, env, tags, overlay)
	if dir := os.Getenv("FITCHECK_DUMP_VIEW"); dir != "" {
		// diagnostic: write the checker's view of the rewritten files
		for name, src := range merged {
			_ = os.WriteFile(filepath.Join(dir, filepath.Base(name)), src, 0o644)
		}
	}
	c, err := loadRaw(repo, tier, env, extraEnv, tags, merged)
	if srcPkgs != nil {
		if err == nil {
			err = alphaEquivalent(srcPkgs, c.pkgs, ai.swapped)
		}
		if err != nil {
			// analyse the tree under its own names instead
			ai.Disabled = "renaming rejected: " + err.Error()
			c, err = loadRaw(repo, tier, env, extraEnv, tags, overlay)
		}
	}
	if err != nil {
		return nil, err
	}
	c.loadInfo["alpha_normalisation"] = ai
	c.loadInfo["helper_inlining"] = ii
	return c, nil
}

func loadRaw(repo, tier string, env, extraEnv []string, tags []string, overlay map[string][]byte) (*Ctx, error) {
	cfg := &packages.Config{
		Mode:    packages.LoadAllSyntax,
		Dir:     repo,
		Env:     env,
		Overlay: overlay,
	}
	if len(tags) > 0 {
		cfg.BuildFlags = []string{"-tags=" + strings.Join(tags, ",")}
	}
	pkgs, err := packages.Load(cfg, ".", "./dyncrc16", "./internal/types", "./cmd/...")
	if err != nil {
		return nil, err
	}
	if len(pkgs) == 0 {
		return nil, fmt.Errorf("zero packages loaded")
	}
	c := &Ctx{repo: repo, tier: tier, pkgs: map[string]*packages.Package{}, funcDecls: map[*types.Func]*ast.FuncDecl{}}
	var errs []string
	packages.Visit(pkgs, nil, func(p *packages.Package) {
		c.all = append(c.all, p)
		if strings.HasPrefix(p.PkgPath, modPath) {
			c.pkgs[p.PkgPath] = p
			for _, e := range p.Errors {
				errs = append(errs, e.Error())
			}
		}
	})
	if len(errs) > 0 {
		return nil, fmt.Errorf("type/parse errors in module packages: %s", strings.Join(errs, "; "))
	}
	c.fit = c.pkgs[modPath]
	c.crc = c.pkgs[crcPath]
	c.typ = c.pkgs[typesPath]
	for _, need := range []string{modPath, crcPath, typesPath, genPath, strPath, mainPath} {
		if c.pkgs[need] == nil {
			return nil, fmt.Errorf("package %s not loaded", need)
		}
	}
	c.fset = c.fit.Fset
	// every loaded file must be inside repo (we analyse the working tree)
	nfiles := 0
	var names []string
	for _, p := range c.pkgs {
		for _, f := range p.GoFiles {
			nfiles++
			rel, _ := filepath.Rel(repo, f)
			names = append(names, rel)
		}
	}
	sort.Strings(names)
	prog, spk := ssautil.AllPackages(pkgs, ssa.InstantiateGenerics)
	prog.Build()
	c.prog = prog
	c.ssaPkgs = map[string]*ssa.Package{}
	for i, p := range pkgs {
		if spk[i] != nil {
			c.ssaPkgs[p.PkgPath] = spk[i]
		}
	}
	for path := range c.pkgs {
		if c.ssaPkgs[path] == nil {
			if sp := prog.ImportedPackage(path); sp != nil {
				c.ssaPkgs[path] = sp
			}
		}
	}
	var mods []string
	for p := range c.pkgs {
		mods = append(mods, p)
	}
	sort.Strings(mods)
	c.loadInfo = map[string]interface{}{
		"module_packages": mods,
		"source_files":    nfiles,
		"all_packages":    len(c.all),
		"tags":            tags,
		"extra_env":       extraEnv,
	}
	for _, p := range c.pkgs {
		for _, f := range p.Syntax {
			for _, d := range f.Decls {
				if fd, ok := d.(*ast.FuncDecl); ok {
					if o, ok := p.TypesInfo.Defs[fd.Name].(*types.Func); ok {
						c.funcDecls[o] = fd
					}
				}
			}
		}
	}
	return c, nil
}

// callGraph returns the VTA-refined call graph (built lazily).
func (c *Ctx) callGraph() *callgraph.Graph {
	c.cgOnce.Do(func() {
		chaG := cha.CallGraph(c.prog)
		c.cg = vta.CallGraph(ssautil.AllFunctions(c.prog), chaG)
	})
	return c.cg
}

func (c *Ctx) pos(p token.Pos) string {
	if !p.IsValid() {
		return ""
	}
	pp := c.fset.Position(p)
	rel, err := filepath.Rel(c.repo, pp.Filename)
	if err != nil {
		rel = pp.Filename
	}
	return fmt.Sprintf("%s:%d", rel, pp.Line)
}

// ---- lookup helpers ------------------------------------------------------

// fn finds a package-level function or a method "T.m" / "(*T).m" written as "T.m".
func (c *Ctx) fn(p *packages.Package, name string) *types.Func {
	if i := strings.Index(name, "."); i >= 0 {
		tn, mn := name[:i], name[i+1:]
		o := p.Types.Scope().Lookup(tn)
		if o == nil {
			return nil
		}
		named, ok := o.Type().(*types.Named)
		if !ok {
			return nil
		}
		for i := 0; i < named.NumMethods(); i++ {
			if named.Method(i).Name() == mn {
				return named.Method(i)
			}
		}
		return nil
	}
	f, _ := p.Types.Scope().Lookup(name).(*types.Func)
	return f
}

func (c *Ctx) decl(f *types.Func) *ast.FuncDecl {
	if f == nil {
		return nil
	}
	return c.funcDecls[f.Origin()]
}

func (c *Ctx) ssaFn(f *types.Func) *ssa.Function {
	if f == nil {
		return nil
	}
	return c.prog.FuncValue(f)
}

func (c *Ctx) global(p *packages.Package, name string) *types.Var {
	v, _ := p.Types.Scope().Lookup(name).(*types.Var)
	return v
}

func (c *Ctx) constOf(p *packages.Package, name string) (constant.Value, bool) {
	k, ok := p.Types.Scope().Lookup(name).(*types.Const)
	if !ok {
		return nil, false
	}
	return k.Val(), true
}

func (c *Ctx) constInt(p *packages.Package, name string) (int64, bool) {
	v, ok := c.constOf(p, name)
	if !ok {
		return 0, false
	}
	return constant.Int64Val(constant.ToInt(v))
}

// varInit returns the initializer expression of a package-level var.
func (c *Ctx) varInit(p *packages.Package, name string) (ast.Expr, *ast.ValueSpec) {
	for _, f := range p.Syntax {
		for _, d := range f.Decls {
			gd, ok := d.(*ast.GenDecl)
			if !ok || gd.Tok != token.VAR {
				continue
			}
			for _, s := range gd.Specs {
				vs := s.(*ast.ValueSpec)
				for i, n := range vs.Names {
					if n.Name == name {
						if i < len(vs.Values) {
							return vs.Values[i], vs
						}
						return nil, vs
					}
				}
			}
		}
	}
	return nil, nil
}

func exprConst(info *types.Info, e ast.Expr) (constant.Value, bool) {
	tv, ok := info.Types[e]
	if !ok || tv.Value == nil {
		return nil, false
	}
	return tv.Value, true
}

func exprInt(info *types.Info, e ast.Expr) (int64, bool) {
	v, ok := exprConst(info, e)
	if !ok {
		return 0, false
	}
	if v.Kind() != constant.Int {
		v = constant.ToInt(v)
		if v.Kind() != constant.Int {
			return 0, false
		}
	}
	return constant.Int64Val(v)
}

func exprUint(info *types.Info, e ast.Expr) (uint64, bool) {
	v, ok := exprConst(info, e)
	if !ok {
		return 0, false
	}
	v = constant.ToInt(v)
	if v.Kind() != constant.Int {
		return 0, false
	}
	return constant.Uint64Val(v)
}

func unparen(e ast.Expr) ast.Expr {
	for {
		p, ok := e.(*ast.ParenExpr)
		if !ok {
			return e
		}
		e = p.X
	}
}

func exprStr(e ast.Expr) string { return types.ExprString(e) }

// callee resolves the static callee of a call through type information.
func callee(info *types.Info, call *ast.CallExpr) types.Object {
	fun := unparen(call.Fun)
	switch f := fun.(type) {
	case *ast.Ident:
		return info.Uses[f]
	case *ast.SelectorExpr:
		if sel, ok := info.Selections[f]; ok {
			return sel.Obj()
		}
		return info.Uses[f.Sel]
	}
	return nil
}

func isPkgFunc(o types.Object, pkg, name string) bool {
	f, ok := o.(*types.Func)
	if !ok || f.Pkg() == nil {
		return false
	}
	return f.Pkg().Path() == pkg && f.Name() == name && f.Type().(*types.Signature).Recv() == nil
}

func isMethod(o types.Object, pkg, recv, name string) bool {
	f, ok := o.(*types.Func)
	if !ok || f.Pkg() == nil || f.Name() != name || f.Pkg().Path() != pkg {
		return false
	}
	r := f.Type().(*types.Signature).Recv()
	if r == nil {
		return false
	}
	t := r.Type()
	if p, ok := t.(*types.Pointer); ok {
		t = p.Elem()
	}
	if n, ok := t.(*types.Named); ok {
		return n.Obj().Name() == recv
	}
	return false
}

func funcName(f *types.Func) string {
	if f == nil {
		return "<nil>"
	}
	sig := f.Type().(*types.Signature)
	if r := sig.Recv(); r != nil {
		t := r.Type()
		ptr := ""
		if p, ok := t.(*types.Pointer); ok {
			t = p.Elem()
			ptr = "*"
		}
		if n, ok := t.(*types.Named); ok {
			return "(" + ptr + n.Obj().Name() + ")." + f.Name()
		}
	}
	return f.Name()
}
