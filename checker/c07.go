package main

import (
	"fmt"
	"go/token"
	"go/types"
	"sort"
	"strings"

	"golang.org/x/tools/go/ssa"
)

func init() {
	register(&propDef{
		id: "C07", level: "other", run: runC07,
		explanation: "Decided: shape-level encodability of everything the decoder can produce, as a triaged census. (R1) every origin of a non-nil error in the functions reachable from Encode is enumerated from SSA and classified by the condition that guards it: a write into the encoder's own bytes.Buffer (cannot fail), a hash write (cannot fail), the caller's io.Writer (propagated; allowed), an accessor/file-type mismatch (impossible for a File whose init succeeded, C03-4/5), or a table condition (not a string / array of strings / unknown kind) that is false for every field of every message type a container or the File hosts; the UTF-8 check of encodeString cannot be discharged because the decoder's string arms establish no UTF-8 invariant (known finding). (R2) every potential panic site of the same functions (explicit panic, non-comma-ok type assertion, dynamic slice bound, nil field pointer, reflect accessors) is enumerated and discharged by a named C15 obligation or reported. (R3) invalid omission: getEncodeMesgDef compares each field with the field of the same index of the all-invalid message of the same number. (R4) expansion is order-safe for a second decode: every expansion depends only on its own source's validity and a destination that is itself a source is filled before its components are taken. (R5) every visited message is written: encodeDefAndDataMesg succeeds only behind writeMesg or for a nil pointer, encodeFile's list loop writes on every path round the loop and is left only by its header test or an error, and the definition lists the profile's own rows. NOT decided: that the re-decoded content is equal, the fixpoint of a second round trip, nil elements placed in containers through the public API. The record-layout rules (C05-R3-def-layout/-header-bytes) and C05-R3-no-silent-skip run here as well: what Encode writes is what Decode reads back. (R2-nil) no nil dereference on Encode's scope (origin-based analysis with local-cell, captured-variable and pointer-collection disciplines); methods of message types reachable from Encode (incl. through reflection-fed interface calls) do not write their receiver; C03-6-message-flows runs here too. (R4, third condition) an accumulated destination must not depend on state that outlives the decode: a package-level accumulator with a non-zero mask makes the decode of Encode's output continue the first decode's running sum (known finding: accumuDistance). (R3, exact) whether getEncodeMesgDef keeps a field is control dependent only on conditions computed from the field's own value, the all-invalid message and the base type's invalid value.",
		trusted:     []string{"bytes.Buffer writes and hash.Hash writes never return an error", "C15 (tables agree with struct types) and C03 (file-type pairing)", "documented reflect panic conditions"},
	})
}

// hostedMessages: message struct types that Encode walks (container members + File.FileId/FileCreator/TimestampCorrelation).
func (c *Ctx) hostedMessages() map[string]*types.Named {
	out := map[string]*types.Named{}
	for _, ct := range c.containers() {
		st := ct.Underlying().(*types.Struct)
		for i := 0; i < st.NumFields(); i++ {
			if el := containerElem(st.Field(i).Type()); el != nil {
				out[el.Obj().Name()] = el
			}
		}
	}
	if fo := c.fit.Types.Scope().Lookup("File"); fo != nil {
		st := fo.Type().Underlying().(*types.Struct)
		for i := 0; i < st.NumFields(); i++ {
			f := st.Field(i)
			if !f.Exported() {
				continue
			}
			if n, ok := f.Type().(*types.Named); ok && strings.HasSuffix(n.Obj().Name(), "Msg") {
				out[n.Obj().Name()] = n
			} else if el := containerElem(f.Type()); el != nil && strings.HasSuffix(el.Obj().Name(), "Msg") {
				out[el.Obj().Name()] = el
			}
		}
	}
	return out
}

func runC07(c *Ctx, r *Report) {
	c07ExpansionIdempotent(c, r)
	c07EveryMessageWritten(c, r)
	encodeDefCovers(c, r, "C07-R5-every-message-written")
	c07EncodeReadOnly(c, r)
	encodeNoRowCopies(c, r, "C07-R5-every-message-written")
	// what Encode writes is what Decode reads back: the record layouts (definition header, architecture byte, byte order
	// of the global number, field triples) and no unit reported written that was skipped
	c05Headers(c, r)
	c05NoSilentSkip(c, r)
	c05OmissionBaseType(c, r)
	// "the same per-type message counts": Encode walks every container member by reflection, so each
	// message type is held by exactly one member of its container and each decoded message goes to exactly
	// one member (C03's member and router rules)
	r.only = map[string]bool{"C03-1-members": true, "C03-2-router": true, "C03-2-arm": true, "C03-2-bijection": true}
	runC03(c, r)
	r.only = nil
	encodeLeavesMessages(c, r, "C07-R6-encode-readonly")
	c03MessageFlows(c, r) // every decoded record starts from a fresh all-invalid message: no value of an earlier record survives into what is re-encoded
	roots, missing := c.rootFuncs(encodeRoots)
	for _, m := range missing {
		r.fail("C07-roots", m, "", "not found")
	}
	ri := c.reach(roots)
	var scope []*ssa.Function
	for _, fn := range ri.module() {
		if fnPkgPath(fn) == modPath && fn.Name() != "String" && fn.Name() != "Error" {
			scope = append(scope, fn)
		}
	}
	r.set("encode_reachable_functions", len(scope))
	// no nil dereference on the encode path (same origin-based analysis as C01-R2-nil-*, over Encode's scope)
	nilSafety(c, r, "C07-R2-nil", "encode", 100, scope, roots, ri.module())

	// facts from the tables
	p, perr := c.profile()
	if p == nil || len(perr) > 0 {
		r.fail("C07-tables", "profile", "", "profile tables not readable")
		return
	}
	hosted := c.hostedMessages()
	typeToNum := map[string]int64{}
	for k, t := range p.MsgTypes {
		typeToNum[t.Obj().Name()] = k
	}
	var strArr, nonExactString, badKind []string
	for name, nt := range hosted {
		mn, ok := typeToNum[name]
		if !ok {
			continue
		}
		st, _ := nt.Underlying().(*types.Struct)
		for _, pf := range p.Fields[mn] {
			if pf.Base == 0x07 && pf.Array {
				strArr = append(strArr, fmt.Sprintf("%s.%d", name, pf.Num))
			}
			if pf.Base == 0x07 && !pf.Array && pf.Kind == kindNative && st != nil && pf.Sindex < st.NumFields() {
				if b, isBasic := st.Field(pf.Sindex).Type().(*types.Basic); !isBasic || b.Kind() != types.String {
					nonExactString = append(nonExactString, fmt.Sprintf("%s.%s", name, st.Field(pf.Sindex).Name()))
				}
			}
			if pf.Kind > 4 {
				badKind = append(badKind, fmt.Sprintf("%s.%d", name, pf.Num))
			}
		}
	}
	sort.Strings(strArr)
	r.set("hosted_message_types", len(hosted))
	r.need("hosted message types", len(hosted), 40)

	// encoder's writer is always the internal buffer
	bufferOnly := true
	nW := 0
	for _, fn := range scope {
		for _, b := range fn.Blocks {
			for _, ins := range b.Instrs {
				st, ok := ins.(*ssa.Store)
				if !ok || !isFieldOf(st.Addr, "encoder", "w") {
					continue
				}
				nW++
				mi, ok := st.Val.(*ssa.MakeInterface)
				if !ok || mi.X.Type().String() != "*bytes.Buffer" {
					bufferOnly = false
				}
			}
		}
	}
	r.check(bufferOnly && nW >= 1, "C07-R1-error-sites", "encoder.w/always-buffer", "", "the encoder writes only into its own bytes.Buffer", "encoder.w is assigned something other than the internal *bytes.Buffer: record writes can fail")

	// ---- R1: origins ---------------------------------------------------------------------------
	nOrig := 0
	for _, fn := range scope {
		idx := 0
		for _, b := range fn.Blocks {
			for _, ins := range b.Instrs {
				var what string
				switch n := ins.(type) {
				case *ssa.Call:
					if f := n.Common().StaticCallee(); f != nil && (f.String() == "fmt.Errorf" || f.String() == "errors.New") {
						what = f.String()
					}
				case *ssa.MakeInterface:
					if isErrorType(n.Type()) {
						what = "error value " + n.X.Type().String()
					}
				}
				if what == "" {
					continue
				}
				nOrig++
				key := fmt.Sprintf("%s/error-origin-%d", fn.Name(), idx)
				idx++
				pos := c.pos(ins.Pos())
				cls, detail := c07Classify(c, fn, b)
				switch cls {
				case "buffer-write":
					r.check(bufferOnly, "C07-R1-error-sites", key, pos, "guards a write into the internal bytes.Buffer, which cannot fail", "buffer write can fail")
				case "local-buffer-write", "hash-write", "user-writer", "propagation":
					r.ok("C07-R1-error-sites", key, pos, detail)
				case "accessor-mismatch", "unknown-filetype":
					r.ok("C07-R1-error-sites", key, pos, detail+" (impossible for a File whose init succeeded: C03-4 and C03-5 pair file types, containers, accessors and Encode's arms)")
				case "not-a-string":
					r.check(len(nonExactString) == 0, "C07-R1-error-sites", key, pos, "every string-typed field of every hosted message has Go type string exactly, so value.(string) holds", fmt.Sprintf("fields %v have base type string but a Go type other than string: value.(string) fails and Encode returns an error for a decoded File", nonExactString))
				case "string-array":
					r.check(len(strArr) == 0, "C07-R1-error-sites", key, pos, "no hosted message has a string-array field", fmt.Sprintf("hosted messages carry string-array fields %v which writeField refuses to encode", strArr))
				case "unknown-kind":
					// the error is reached only when Kind() differs from every declared kind, and the tables hold no other
					excl, _, all := kindsExcludedAt(fn, b)
					missing := ""
					for _, k := range all {
						if !excl[k] {
							missing += fmt.Sprintf(" %d", k)
						}
					}
					r.check(len(badKind) == 0 && missing == "" && len(all) > 0, "C07-R1-error-sites", key, pos, fmt.Sprintf("reached only when the kind is none of the %d declared kinds, and all table kinds are 0..4 (C15-2)", len(all)), fmt.Sprintf("the encoder returns an error for field kinds%s (not excluded on the way to this error) or the tables hold kinds beyond 4 %v: Encode fails for a File that Decode produced", missing, badKind))
				case "utf8":
					r.fail("C07-R1-error-sites", "encodeString/utf8.Valid", pos, "encodeString rejects byte strings that are not valid UTF-8 (also after truncation to size-1 splits a rune), but the decoder's string arms copy arbitrary bytes: Encode fails on Files that Decode accepted")
				case "def-nil":
					r.ok("C07-R1-error-sites", key, pos, "audited: reached only if no element produced a definition; the enclosing loop body runs with v.Len() >= 1 and getEncodeMesgDef returns a fresh non-nil definition")
				default:
					r.fail("C07-R1-error-sites", key, pos, "unclassified way for Encode to fail: "+detail)
				}
			}
		}
	}
	r.set("error_origins", nOrig)
	r.need("error origins in Encode-reachable code", nOrig, 25)
	// getEncodeMesgDef returns non-nil
	if fn := c.ssaFn(c.fn(c.fit, "getEncodeMesgDef")); fn != nil {
		ok := true
		for _, b := range fn.Blocks {
			if ret, isR := b.Instrs[len(b.Instrs)-1].(*ssa.Return); isR {
				if _, isA := ret.Results[0].(*ssa.Alloc); !isA {
					ok = false
				}
			}
		}
		r.check(ok, "C07-R1-error-sites", "getEncodeMesgDef/non-nil", c.pos(fn.Pos()), "always returns a fresh definition", "getEncodeMesgDef can return nil: encodeFile's `cannot create definition` error becomes reachable")
	}

	// ---- R2 panic sites ------------------------------------------------------------------------------
	c07Panics(c, r, scope, p, hosted, typeToNum)

	// ---- R3 invalid omission ----------------------------------------------------------------------------
	if fn := c.ssaFn(c.fn(c.fit, "getEncodeMesgDef")); fn != nil {
		okNum, okAll, okCmp := false, false, false
		var numV, allV ssa.Value
		for _, ci := range allCalls(fn) {
			f := ci.Common().StaticCallee()
			if f == nil {
				continue
			}
			call, _ := ci.(*ssa.Call)
			switch f.Name() {
			case "getGlobalMesgNum":
				if strings.Contains(pathOf(ci.Common().Args[0]), "(reflect.Value).Type") && strings.Contains(pathOf(ci.Common().Args[0]), "mesg") {
					okNum = true
					numV = call
				}
			case "getMesgAllInvalid":
				if numV != nil && ci.Common().Args[0] == numV {
					okAll = true
					allV = call
				}
			}
		}
		// comparison: mesg.Field(i).Interface() == allInvalid.Field(i).Interface() — in getEncodeMesgDef
		// itself or in a helper it calls with these values (the helper's parameters are read as the
		// arguments of the call)
		type cmpScope struct {
			g    *ssa.Function
			site *ssa.Call
		}
		scopes := []cmpScope{{fn, nil}}
		for _, ci := range allCalls(fn) {
			if g := ci.Common().StaticCallee(); g != nil && fnPkgPath(g) == modPath && len(g.Blocks) > 0 && g != fn {
				if call, isCall := ci.(*ssa.Call); isCall {
					scopes = append(scopes, cmpScope{g, call})
				}
			}
		}
		for _, sc := range scopes {
			subst := func(v ssa.Value) ssa.Value {
				if p, isP := v.(*ssa.Parameter); isP && sc.site != nil {
					if k := ssaParamIndex(sc.g, p); k >= 0 && k < len(sc.site.Common().Args) {
						return sc.site.Common().Args[k]
					}
				}
				return v
			}
			// v = X.Interface() with X = base.Field(idx) (after substitution): base, idx
			fieldOf := func(v ssa.Value) (ssa.Value, ssa.Value) {
				call, ok := v.(*ssa.Call)
				if !ok || call.Common().StaticCallee() == nil || call.Common().StaticCallee().String() != "(reflect.Value).Interface" {
					return nil, nil
				}
				inner, ok := subst(call.Common().Args[0]).(*ssa.Call)
				if !ok || inner.Common().StaticCallee() == nil || inner.Common().StaticCallee().String() != "(reflect.Value).Field" {
					return nil, nil
				}
				// the Field call may itself sit in the helper (allInvalid.Field(sindex)) or at the call site (mesg.Field(i))
				base, idx := inner.Common().Args[0], inner.Common().Args[1]
				if inner.Parent() == sc.g {
					base, idx = subst(base), subst(idx)
				}
				return base, idx
			}
			for _, b := range sc.g.Blocks {
				for _, ins := range b.Instrs {
					bo, ok := ins.(*ssa.BinOp)
					if !ok || (bo.Op != token.EQL && bo.Op != token.NEQ) || allV == nil {
						continue
					}
					bx, ix := fieldOf(bo.X)
					by, iy := fieldOf(bo.Y)
					if bx == nil || by == nil || ix != iy {
						continue
					}
					_, xIsMesg := bx.(*ssa.Parameter)
					_, yIsMesg := by.(*ssa.Parameter)
					if (xIsMesg && by == allV) || (yIsMesg && bx == allV) {
						okCmp = true
					}
				}
			}
		}
		// exactness: whether a field is kept depends on nothing but the field's own value, the all-invalid
		// message and the base type's invalid value (plus the loop and the panics): a test on the field's
		// number, on another field or on a table leaves set fields out of the stream
		nApp := 0
		for _, b := range fn.Blocks {
			for _, ins := range b.Instrs {
				st, isSt := ins.(*ssa.Store)
				if !isSt {
					continue
				}
				fa, isFA := st.Addr.(*ssa.FieldAddr)
				call, isCall := st.Val.(*ssa.Call)
				if !isFA || !isCall || !isFieldOf(fa, "encodeMesgDef", "fields") || inLoopWithin(b, fn) == 0 {
					continue
				}
				if bi, isB := call.Common().Value.(*ssa.Builtin); !isB || bi.Name() != "append" {
					continue
				}
				nApp++
				extra := extraControllersBy(c, fn, b, true, func(v ssa.Value) bool { return omissionCondOK(v, fn, map[ssa.Value]bool{}, 0) })
				r.check(extra == "", "C07-R3-invalid-omission", "getEncodeMesgDef/exact", c.pos(st.Pos()), "whether a field is kept is decided by its own value against the invalid value only", "whether a field goes into the definition also depends on "+extra+", which is not a test of the field's own value against its invalid value: a set field can be left out of the stream and decodes as unset")
			}
		}
		r.need("append of a kept field in getEncodeMesgDef", nApp, 1)
		r.check(okNum && okAll && okCmp, "C07-R3-invalid-omission", "getEncodeMesgDef", c.pos(fn.Pos()), "a field is omitted iff it equals the same-index field of the all-invalid message of the same number", fmt.Sprintf("invalid omission: message number from the message's own type=%v, all-invalid of that number=%v, same-index comparison=%v", okNum, okAll, okCmp))
	}
}

// omissionCondOK: v is computed from the value of the field at hand (mesg.Field(i) and what reflect
// reads out of it), the same-index field of the all-invalid message, the invalid value of the base
// type, constants and loop counters only.
func omissionCondOK(v ssa.Value, fn *ssa.Function, seen map[ssa.Value]bool, depth int) bool {
	if depth > 12 {
		return false
	}
	if seen[v] {
		return true
	}
	seen[v] = true
	switch x := v.(type) {
	case *ssa.Const:
		return true
	case *ssa.Phi:
		for _, e := range x.Edges {
			if !omissionCondOK(e, fn, seen, depth+1) {
				return false
			}
		}
		return true
	case *ssa.BinOp:
		return omissionCondOK(x.X, fn, seen, depth+1) && omissionCondOK(x.Y, fn, seen, depth+1)
	case *ssa.UnOp:
		if x.Op == token.NOT || x.Op == token.SUB {
			return omissionCondOK(x.X, fn, seen, depth+1)
		}
		return false
	case *ssa.MakeInterface:
		return omissionCondOK(x.X, fn, seen, depth+1)
	case *ssa.Convert:
		return omissionCondOK(x.X, fn, seen, depth+1)
	case *ssa.ChangeType:
		return omissionCondOK(x.X, fn, seen, depth+1)
	case *ssa.Parameter:
		// the message itself (its fields are reached through Field(i))
		return x.Type().String() == "reflect.Value"
	case *ssa.Call:
		f := x.Common().StaticCallee()
		if f == nil {
			return false
		}
		switch f.String() {
		case "(reflect.Value).Field", "(reflect.Value).Index":
			return omissionCondOK(x.Common().Args[0], fn, seen, depth+1) && omissionCondOK(x.Common().Args[1], fn, seen, depth+1)
		case "(reflect.Value).Kind", "(reflect.Value).IsNil", "(reflect.Value).Len", "(reflect.Value).Interface", "(reflect.Value).IsValid", "(reflect.Value).IsZero", "(reflect.Value).NumField",
			"(reflect.Value).Uint", "(reflect.Value).Int", "(reflect.Value).Float", "(reflect.Value).String", "(reflect.Value).Bytes":
			return omissionCondOK(x.Common().Args[0], fn, seen, depth+1)
		case "(" + typesPath + ".Base).Invalid":
			return true // the invalid value of the field's base type, whichever way the base type was obtained
		}
		if f.Name() == "getMesgAllInvalid" && fnPkgPath(f) == modPath {
			return true
		}
		// a module helper given only such values, every result of which is computed from its parameters
		// in the same way (`isInvalidFieldValue(fval, field, allInvalid, i)`)
		if fnPkgPath(f) == modPath && len(f.Blocks) > 0 && depth < 6 {
			for _, a := range x.Common().Args {
				if !omissionArgOK(a, fn, seen, depth+1) {
					return false
				}
			}
			hseen := map[ssa.Value]bool{}
			for _, p := range f.Params {
				hseen[p] = true // parameters stand for the arguments just examined
			}
			for _, hb := range f.Blocks {
				if ret, isRet := hb.Instrs[len(hb.Instrs)-1].(*ssa.Return); isRet {
					for _, res := range ret.Results {
						if !omissionCondOK(res, f, hseen, depth+1) {
							return false
						}
					}
				}
				// and what decides which return is taken
				if ifi, isIf := hb.Instrs[len(hb.Instrs)-1].(*ssa.If); isIf {
					if !omissionCondOK(ifi.Cond, f, hseen, depth+1) {
						return false
					}
				}
			}
			return true
		}
		return false
	}
	return false
}

// omissionArgOK: an argument handed to an omission helper: a value omissionCondOK accepts, or the
// profile row of the field at hand (a *field obtained for the same index), whose type the helper may
// consult for the invalid value.
func omissionArgOK(v ssa.Value, fn *ssa.Function, seen map[ssa.Value]bool, depth int) bool {
	if omissionCondOK(v, fn, seen, depth) {
		return true
	}
	if pt, ok := v.Type().Underlying().(*types.Pointer); ok {
		if n, ok := pt.Elem().(*types.Named); ok && n.Obj().Name() == "field" {
			return true
		}
	}
	return false
}

// fieldIndexArg: for value ...Field(i).Interface() return the SSA value i.
func fieldIndexArg(v ssa.Value) ssa.Value {
	call, ok := v.(*ssa.Call)
	if !ok || call.Common().StaticCallee() == nil || call.Common().StaticCallee().Name() != "Interface" {
		return nil
	}
	inner, ok := call.Common().Args[0].(*ssa.Call)
	if !ok || inner.Common().StaticCallee() == nil || inner.Common().StaticCallee().Name() != "Field" {
		return nil
	}
	return inner.Common().Args[1]
}

// c07Classify: classify the error origin in block b of fn by the nearest dominating branch condition.
func c07Classify(c *Ctx, fn *ssa.Function, b *ssa.BasicBlock) (string, string) {
	for x := b; x != nil; x = x.Idom() {
		d := x.Idom()
		if d == nil || len(d.Instrs) == 0 {
			continue
		}
		ifi, ok := d.Instrs[len(d.Instrs)-1].(*ssa.If)
		if !ok {
			continue
		}
		onTrue := d.Succs[0] == x && len(x.Preds) == 1
		onFalse := d.Succs[1] == x && len(x.Preds) == 1
		if !onTrue && !onFalse {
			continue
		}
		cond := ifi.Cond
		// error of a call
		if v, nn, ok := nilTest(cond); ok && isErrorType(v.Type()) && (onTrue == nn) {
			var call *ssa.Call
			switch n := v.(type) {
			case *ssa.Call:
				call = n
			case *ssa.Extract:
				call, _ = n.Tuple.(*ssa.Call)
			}
			if call == nil {
				return "?", "error value of unknown origin"
			}
			cc := call.Common()
			if cc.IsInvoke() {
				if cc.Method.Name() == "Write" && isHash16(cc.Value.Type()) {
					return "hash-write", "hash writes never fail"
				}
				if cc.Method.Name() == "Write" && cc.Value.Type().String() == "io.Writer" {
					if _, isParam := cc.Value.(*ssa.Parameter); isParam {
						return "user-writer", "error of the caller's io.Writer, propagated"
					}
				}
				return "?", "dynamic call " + cc.Method.Name()
			}
			f := cc.StaticCallee()
			if f == nil {
				return "?", "indirect call"
			}
			if f.String() == "encoding/binary.Write" {
				w := pathOf(cc.Args[0])
				switch {
				case strings.Contains(w, "e.w"):
					return "buffer-write", ""
				case strings.Contains(w, "alloc[") || strings.Contains(w, "bytes.Buffer"):
					return "local-buffer-write", "write into a local bytes.Buffer cannot fail"
				}
				if _, isParam := cc.Args[0].(*ssa.Parameter); isParam {
					return "user-writer", "error of the caller's io.Writer, propagated"
				}
				if mi, ok := cc.Args[0].(*ssa.MakeInterface); ok && mi.X.Type().String() == "*bytes.Buffer" {
					return "local-buffer-write", "write into a local bytes.Buffer cannot fail"
				}
				return "?", "binary.Write to " + w
			}
			if strings.HasPrefix(fnPkgPath(f), modPath) {
				if f.Signature.Recv() != nil && strings.HasSuffix(f.Signature.Recv().Type().String(), ".File") {
					return "accessor-mismatch", "wraps the error of accessor " + f.Name()
				}
				return "propagation", "wraps the error of " + f.Name() + " (its own origins are classified separately)"
			}
			return "?", "error of " + f.String()
		}
		p := pathOf(cond)
		switch {
		case strings.Contains(p, "unicode/utf8.Valid"):
			return "utf8", ""
		case strings.Contains(p, "typeassert") || strings.HasPrefix(p, "extract#1("):
			if onFalse {
				return "not-a-string", ""
			}
		case strings.Contains(p, "BaseType") && strings.HasSuffix(p, "==7)"):
			if onTrue {
				return "string-array", ""
			}
		case strings.Contains(p, ".Kind") && strings.Contains(p, "=="):
			if onFalse {
				return "unknown-kind", ""
			}
		case strings.Contains(p, ".Kind") && strings.Contains(p, "!="):
			if onTrue {
				return "unknown-kind", ""
			}
		case (strings.HasSuffix(p, "!=nil)") || strings.HasSuffix(p, "==nil)")) && (strings.Contains(p, "encodeMesgDef") || strings.Contains(p, "alloc[def") || isDefPtrCompare(cond)):
			if onFalse && strings.HasSuffix(p, "!=nil)") || onTrue && strings.HasSuffix(p, "==nil)") {
				return "def-nil", ""
			}
		case strings.Contains(p, ".FileId.Type"):
			return "accessor-mismatch", "accessor guard on the file type"
		case strings.Contains(p, ".Type") && strings.Contains(p, "=="):
			if onFalse {
				return "unknown-filetype", "default arm of the file-type switch"
			}
		}
		// keep climbing for switch chains (case tests are nested ifs)
		if strings.Contains(p, "==") && onFalse {
			continue
		}
		return "?", "guarded by " + p
	}
	// an error built unconditionally in a small helper: judged where the helper is called
	cls, detail, n := "", "", 0
	for _, g := range c.moduleFuncs() {
		for _, ci := range allCalls(g) {
			if ci.Common().StaticCallee() != fn || g == fn {
				continue
			}
			n++
			k, d := c07Classify(c, g, ci.Block())
			if cls == "" {
				cls, detail = k, d
			} else if cls != k {
				cls = "?"
			}
		}
	}
	if n > 0 && cls != "" && cls != "?" {
		return cls, detail + " (at each of the " + fmt.Sprint(n) + " call sites of " + fn.Name() + ")"
	}
	return "?", "no guarding condition found"
}

// c07Panics: R2.
func c07Panics(c *Ctx, r *Report, scope []*ssa.Function, p *Profile, hosted map[string]*types.Named, typeToNum map[string]int64) {
	// table facts used for discharge
	allInTypes, allKnown := true, true
	for name := range hosted {
		mn, ok := typeToNum[name]
		if !ok {
			allInTypes = false
			continue
		}
		if !p.Known[mn] || mn >= p.NewFuncLen || p.NewFuncs[mn] == nil {
			allKnown = false
		}
	}
	bijection := true
	kindTypes := true
	strLenOK := true
	for name, nt := range hosted {
		mn, ok := typeToNum[name]
		if !ok {
			continue
		}
		st, _ := nt.Underlying().(*types.Struct)
		used := map[int]bool{}
		for _, pf := range p.Fields[mn] {
			used[pf.Sindex] = true
			if pf.Base == 0x07 && !pf.Array && pf.Length < 1 {
				strLenOK = false
			}
			if st != nil && pf.Sindex >= 0 && pf.Sindex < st.NumFields() {
				fb := fitBaseByWire(pf.Base)
				if fb == nil {
					kindTypes = false
					continue
				}
				if ok, _ := c15TypeAgree(c, pf, fb, st.Field(pf.Sindex).Type()); !ok {
					kindTypes = false
				}
			}
		}
		if st != nil {
			for i := 0; i < st.NumFields(); i++ {
				if !used[i] {
					bijection = false
				}
			}
		}
	}
	discharge := map[string]struct {
		ok  bool
		why string
	}{
		"type-assert-time":      {kindTypes, "kind TimeUTC/TimeLocal <-> Go type time.Time for every hosted field (C15-3)"},
		"type-assert-coord":     {kindTypes, "kind Lat/Lng <-> fit.Latitude/Longitude for every hosted field (C15-3)"},
		"nil-field":             {bijection, "every struct index of every hosted message has a lookup row, so getFieldBySindex never falls back to the nil entry 255 (C15-2-bijection)"},
		"string-slice":          {strLenOK, "string lengths are >= 1, so str[:min(len, size-1)] has a non-negative bound (C15-5)"},
		"explicit-numfield":     {allInTypes && allKnown, "message and its all-invalid twin have the same type (C15-1-type)"},
		"getMesgAllInvalid-idx": {allInTypes && allKnown, "every hosted type is in msgsTypes with a known number below len(newMesgFuncs) (C15-6, C15-1-ctor)"},
		"reflect-len":           {kindTypes, "array flag <-> slice type (C15-3), so Len/Index are applied to slices only"},
	}
	n := 0
	for _, fn := range scope {
		idx := 0
		for _, b := range fn.Blocks {
			for _, ins := range b.Instrs {
				cls := ""
				switch x := ins.(type) {
				case *ssa.Panic:
					cls = "explicit-numfield"
					if fn.Name() != "getEncodeMesgDef" {
						cls = "?explicit panic"
					}
				case *ssa.TypeAssert:
					if x.CommaOk {
						continue
					}
					t := x.AssertedType.String()
					switch {
					case t == "time.Time":
						cls = "type-assert-time"
					case strings.HasSuffix(t, ".Latitude") || strings.HasSuffix(t, ".Longitude"):
						cls = "type-assert-coord"
					default:
						cls = "?type assertion to " + t
					}
				case *ssa.Slice:
					if _, isStr := x.X.Type().Underlying().(*types.Basic); isStr && x.High != nil {
						if _, isC := x.High.(*ssa.Const); !isC {
							cls = "string-slice"
						}
					}
				case *ssa.FieldAddr:
					// deref of a *field that came from getFieldBySindex
					if pt, ok := x.X.Type().Underlying().(*types.Pointer); ok {
						if nt, ok := pt.Elem().(*types.Named); ok && nt.Obj().Name() == "field" && fn.Name() == "getEncodeMesgDef" {
							cls = "nil-field"
						}
					}
				case *ssa.Call:
					f := x.Common().StaticCallee()
					if f == nil {
						continue
					}
					switch f.String() {
					case modPath + ".getMesgAllInvalid":
						cls = "getMesgAllInvalid-idx"
					case "(reflect.Value).Len", "(reflect.Value).Index":
						if fn.Name() == "writeField" {
							cls = "reflect-len"
						}
					}
				}
				if cls == "" {
					continue
				}
				n++
				key := fmt.Sprintf("%s/panic-site-%d", fn.Name(), idx)
				idx++
				pos := c.pos(ins.Pos())
				if strings.HasPrefix(cls, "?") {
					r.fail("C07-R2-panic-sites", key, pos, "unclassified potential panic in Encode-reachable code: "+cls[1:])
					continue
				}
				d := discharge[cls]
				r.check(d.ok, "C07-R2-panic-sites", key, pos, cls+": "+d.why, "potential panic not excluded by the tables ("+cls+"): "+d.why+" does NOT hold")
			}
		}
	}
	// reflect accessors with kind/validity preconditions: frozen table, one line of reason each; anything else is reported
	nRef := 0
	for _, fn := range scope {
		per := map[string]int{}
		for _, ci := range allCalls(fn) {
			f := ci.Common().StaticCallee()
			if f == nil || f.Pkg == nil || f.Pkg.Pkg.Path() != "reflect" {
				continue
			}
			name := f.Name()
			if c07ReflectSafe[name] {
				continue
			}
			nRef++
			per[name]++
			key := fmt.Sprintf("%s/reflect.%s#%d", fn.Name(), name, per[name])
			if why, ok := c07ReflectStructural(c, fn, ci, name); ok {
				r.ok("C07-R2-reflect-preconditions", key, c.pos(ci.Pos()), why)
			} else if why, ok := c07ReflectAudit[fn.Name()+"/"+name]; ok {
				r.ok("C07-R2-reflect-preconditions", key, c.pos(ci.Pos()), "audited: "+why)
			} else if why, via, ok := c07AuditInherited(c, fn, name); ok {
				r.ok("C07-R2-reflect-preconditions", key, c.pos(ci.Pos()), "audited (as part of "+via+", the only caller of "+fn.Name()+"): "+why)
			} else {
				r.fail("C07-R2-reflect-preconditions", key, c.pos(ci.Pos()), "reflect."+name+" has kind/validity preconditions (it panics otherwise) and this call in "+fn.Name()+" is not in the audited table: e.g. Bytes() on a slice whose elements are not uint8, Int() on an unsigned field")
			}
		}
	}
	r.need("reflect calls with preconditions in Encode-reachable code", nRef, 15)
	r.set("panic_sites", n)
	r.need("potential panic sites in Encode-reachable code", n, 8)
}

// reflect functions/methods without a kind or validity precondition
var c07ReflectSafe = map[string]bool{"ValueOf": true, "TypeOf": true, "Indirect": true, "IsValid": true, "Kind": true}

// function/method -> why the precondition holds (frozen; a new pair is reported)
var c07ReflectAudit = map[string]string{
	"encodeFile/NumField":        "file is reflect.ValueOf(*container): a struct (Encode's switch, C03-5)",
	"encodeFile/Field":           "index i runs below NumField()",
	"encodeFile/Len":             "under Kind() == Slice",
	"encodeFile/Index":           "indices j, k run below Len()",
	"encodeFile/Interface":       "valid value of an exported container member",
	"getEncodeMesgDef/Type":      "mesg is valid: encodeDefAndDataMesg tests IsValid(); encodeFile passes Indirect of a container element (nil elements placed through the public API are outside the decoded Files this property quantifies over)",
	"getEncodeMesgDef/NumField":  "mesg and its all-invalid twin are message structs of the same type (C15-1-type)",
	"getEncodeMesgDef/Field":     "index i runs below NumField()",
	"getEncodeMesgDef/IsNil":     "under Kind() == Slice",
	"getEncodeMesgDef/Len":       "under Kind() == Slice",
	"getEncodeMesgDef/Interface": "exported message fields of a valid struct value",
	"getMesgAllInvalid/Elem":     "constructors return a pointer to their message struct (C15-1-ctor)",
	"writeMesg/Field":            "f.sindex is below NumField for every row of the message (C15-2)",
	"writeField/Interface":       "exported message field",
	"writeField/Len":             "array flag <-> slice type (C15-3)",
	"writeField/Index":           "i runs below min(Len(), length)",
}

// c07ExpansionIdempotent (R4): decoding Encode's output runs expandComponents on messages whose
// destination fields were already filled by the first decode and written out as ordinary fields.
// The second decode yields the same File only if expansion is idempotent, for which two structural
// conditions are necessary (each a clause of the C18 body lint, reported here under C07's id):
// an expansion depends on nothing but its own source's validity (not on another source being
// invalid), and a destination that is itself a source is filled before its own components are
// taken. The lint runs on a scratch report; only those two clauses are taken over.
func c07ExpansionIdempotent(c *Ctx, r *Report) {
	info := c.fit.TypesInfo
	scratch := newReport(r.p, r.tier, r.verif)
	sc := c.fit.Types.Scope()
	n := 0
	for _, name := range sc.Names() {
		tn, ok := sc.Lookup(name).(*types.TypeName)
		if !ok {
			continue
		}
		fn := c.fn(c.fit, name+".expandComponents")
		fd := c.decl(fn)
		if fn == nil || fd == nil {
			continue
		}
		st, _ := tn.Type().Underlying().(*types.Struct)
		c18Body(c, scratch, info, name, fd, st)
		n++
	}
	bad := 0
	for _, o := range scratch.obls {
		if o.Status == "discharged" {
			continue
		}
		if strings.Contains(o.Detail, "else branch of the guard") || strings.Contains(o.Detail, "after the components of") {
			bad++
			r.fail("C07-R4-expansion-idempotent", o.Key, o.Pos, o.Detail+" — a decode/Encode/decode round trip then differs from the first decode (the destination is written out and read back, and the expansion takes the other branch)")
		}
	}
	// third condition: an accumulated destination must not depend on state that outlives the decode:
	// with a package-level accumulator the decode of Encode's output continues from where the first
	// decode stopped, so the accumulated values of the re-decoded File differ from the File that was
	// encoded. (An accumulator built with new(uint32Accumulator) has mask 0 and always yields 0: that
	// is C18's finding, and idempotent.)
	for _, al := range liveAccumulators(c) {
		gv, masked := al.g, al.masked
		if masked {
			r.fail("C07-R4-expansion-idempotent", "fit."+gv.Name(), c.pos(gv.Pos()), "accumulator "+gv.Name()+" is a package-level variable that is never reset: decoding Encode's output continues the running sum of the first decode, so the accumulated field of the re-decoded File differs from the File that was encoded")
		} else {
			r.ok("C07-R4-expansion-idempotent", "fit."+gv.Name(), c.pos(gv.Pos()), "package-level, but built with mask 0: always yields 0 (C18-R3-accumulator-width), the same on every decode")
		}
	}
	r.check(bad == 0 && n >= 8, "C07-R4-expansion-idempotent", "scan", "", fmt.Sprintf("%d expandComponents bodies: every expansion depends only on its own source's validity and destinations that are sources are filled first", n), "expansion order/guard clauses violated (see above)")
}

// c07EveryMessageWritten (R5): Decode keeps a message whose known fields are all invalid; the
// re-encoded file has the same message counts only if Encode writes a record for every message
// it visits. (a) encodeDefAndDataMesg: every success return is behind the writeMesg call or
// under the "nil pointer, nothing there" test; (b) encodeFile: in the loop over the elements of a
// list, writeMesg is on every path round the loop and the loop is left only through its own
// header test or an error return. (c) getEncodeMesgDef lists the profile's own rows (the value
// appended is the row getFieldBySindex returned, not a modified copy): declared sizes are the
// profile's, for every message of a group alike.
func c07EveryMessageWritten(c *Ctx, r *Report) {
	isWrite := func(ci ssa.CallInstruction) bool {
		f := ci.Common().StaticCallee()
		return f != nil && f.Name() == "writeMesg" && fnPkgPath(f) == modPath
	}
	if fn := c.ssaFn(c.fn(c.fit, "encoder.encodeDefAndDataMesg")); fn != nil {
		var w ssa.CallInstruction
		for _, ci := range allCalls(fn) {
			if isWrite(ci) {
				w = ci
			}
		}
		ok := w != nil
		where := ""
		n := 0
		if ok {
			for _, ret := range c.successReturns(fn) {
				n++
				behind := w.Block() == ret.Block() || w.Block().Dominates(ret.Block())
				nothing := domByBoolEdge(fn, ret.Block(), false, func(v ssa.Value) bool {
					call, isC := v.(*ssa.Call)
					return isC && call.Common().StaticCallee() != nil && call.Common().StaticCallee().String() == "(reflect.Value).IsValid"
				})
				if !behind && !nothing {
					ok = false
					where = c.pos(ret.Pos())
				}
			}
		}
		r.check(ok && n > 0, "C07-R5-every-message-written", "encodeDefAndDataMesg", c.pos(fn.Pos()), "success only behind writeMesg, or for a nil message pointer", "encodeDefAndDataMesg reports success at "+where+" without having written the message (and it is not the nil-pointer case): a message Decode kept is missing after re-encoding")
	} else {
		r.fail("C07-R5-every-message-written", "encodeDefAndDataMesg", "", "not found")
	}
	for _, fn := range c.listWriterFns() {
		succ := map[*ssa.BasicBlock]bool{}
		for _, ret := range c.successReturns(fn) {
			succ[ret.Block()] = true
		}
		n := 0
		for _, ci := range allCalls(fn) {
			if !isWrite(ci) || !inLoop(ci.Block()) {
				continue
			}
			n++
			// innermost loop around the call
			var body map[*ssa.BasicBlock]bool
			var hdr *ssa.BasicBlock
			for _, h := range fn.Blocks {
				b, latches := loopBody(h)
				if len(latches) == 0 || !b[ci.Block()] {
					continue
				}
				if body == nil || len(b) < len(body) {
					body, hdr = b, h
				}
			}
			if hdr == nil {
				r.fail("C07-R5-every-message-written", "encodeFile/list-loop", c.pos(ci.Pos()), "writeMesg for list elements is not inside a loop")
				continue
			}
			bad := ""
			for _, p := range hdr.Preds {
				if body[p] && !(ci.Block() == p || ci.Block().Dominates(p)) {
					bad = "an iteration can go round without writing its message (a path to the loop's back edge at " + c.pos(firstPos(p)) + " avoids writeMesg)"
				}
			}
			for b := range body {
				if b == hdr {
					continue
				}
				for _, s := range b.Succs {
					if body[s] {
						continue
					}
					// leaving the loop from inside: only towards an error return
					if !leadsOnlyToReturn(s) || reachesAny(s, succ) {
						bad = "the loop over the list is left early at " + c.pos(firstPos(s)) + " without an error: the remaining messages of the list are not written"
					}
				}
			}
			r.check(bad == "", "C07-R5-every-message-written", "encodeFile/list-loop", c.pos(ci.Pos()), "every element of a list is written: writeMesg is on every path round the loop, which is left only by its header test or an error", bad)
		}
		r.need("writeMesg sites in encodeFile", n, 1)
	}
	encodeProfileRows(c, r, "C07-R5-every-message-written")
}

func reachesAny(b *ssa.BasicBlock, targets map[*ssa.BasicBlock]bool) bool {
	seen := map[*ssa.BasicBlock]bool{}
	q := []*ssa.BasicBlock{b}
	for len(q) > 0 {
		x := q[0]
		q = q[1:]
		if seen[x] {
			continue
		}
		seen[x] = true
		if targets[x] {
			return true
		}
		q = append(q, x.Succs...)
	}
	return false
}

// encodeProfileRows: getEncodeMesgDef lists the profile's own rows (the value appended is the row
// getFieldBySindex returned, not a modified copy): declared sizes are the profile's, for every
// message of a list alike. Shared by C05, C06 and C07.
func encodeProfileRows(c *Ctx, r *Report, rule string) {
	if fn := c.ssaFn(c.fn(c.fit, "getEncodeMesgDef")); fn != nil {
		n, bad := 0, ""
		for _, b := range fn.Blocks {
			for _, ins := range b.Instrs {
				st, ok := ins.(*ssa.Store)
				if !ok {
					continue
				}
				ia, ok := st.Addr.(*ssa.IndexAddr)
				if !ok {
					continue
				}
				al, ok := ia.X.(*ssa.Alloc)
				if !ok || !strings.Contains(al.Type().String(), ".field") || al.Comment != "varargs" {
					continue
				}
				n++
				call, isCall := st.Val.(*ssa.Call)
				if !isCall || call.Common().StaticCallee() == nil || call.Common().StaticCallee().Name() != "getFieldBySindex" {
					bad = stripAddrs(pathOf(st.Val))
				}
			}
		}
		r.check(bad == "" && n > 0, rule, "getEncodeMesgDef/profile-rows", c.pos(fn.Pos()), "the definition lists the rows getFieldBySindex returned from the profile table", "getEncodeMesgDef appends "+bad+" instead of the profile's own row: a per-message copy with a different length makes the messages of one list disagree about the field's size, and the group's shared definition truncates or misreads the others")
	}
}

// c07EncodeReadOnly (R6): Encode may store to its *File only what its documentation promises
// (Header.DataSize, Header.CRC, CRC). Anything else it writes — a message field "corrected" before
// encoding — makes the re-decoded File differ from the one that was decoded, and changes the
// caller's File. Checked for every function on Encode's call tree that receives the *File.
func c07EncodeReadOnly(c *Ctx, r *Report) {
	enc := c.ssaFn(c.fn(c.fit, "Encode"))
	if enc == nil {
		r.fail("C07-R6-encode-readonly", "Encode", "", "not found")
		return
	}
	allowed := map[string]bool{"Header.DataSize": true, "Header.CRC": true, "CRC": true}
	isFilePtr := func(t types.Type) bool {
		pt, ok := t.(*types.Pointer)
		if !ok {
			return false
		}
		n, ok := pt.Elem().(*types.Named)
		return ok && n.Obj().Name() == "File" && n.Obj().Pkg() != nil && n.Obj().Pkg().Path() == modPath
	}
	// root of an address: follow FieldAddr / IndexAddr / loads back to a parameter
	var rootParam func(v ssa.Value, depth int) (*ssa.Parameter, string)
	rootParam = func(v ssa.Value, depth int) (*ssa.Parameter, string) {
		if depth > 12 {
			return nil, ""
		}
		switch n := v.(type) {
		case *ssa.Parameter:
			return n, ""
		case *ssa.FieldAddr:
			p, path := rootParam(n.X, depth+1)
			st := n.X.Type().Underlying().(*types.Pointer).Elem().Underlying().(*types.Struct)
			name := st.Field(n.Field).Name()
			if path != "" {
				name = path + "." + name
			}
			return p, name
		case *ssa.IndexAddr:
			p, path := rootParam(n.X, depth+1)
			return p, path + "[]"
		case *ssa.UnOp:
			if n.Op == token.MUL {
				return rootParam(n.X, depth+1)
			}
		case *ssa.Phi:
			for _, e := range n.Edges {
				if p, path := rootParam(e, depth+1); p != nil {
					return p, path
				}
			}
		case *ssa.Extract:
			return rootParam(n.Tuple, depth+1)
		case *ssa.Call:
			// a container handed out by an accessor method of the File (file.Activity())
			if f := n.Common().StaticCallee(); f != nil && f.Signature.Recv() != nil && len(n.Common().Args) > 0 {
				if p, _ := rootParam(n.Common().Args[0], depth+1); p != nil {
					return p, f.Name() + "()"
				}
			}
		}
		return nil, ""
	}
	n, nFn := 0, 0
	for _, fn := range c.reach([]*ssa.Function{enc}).module() {
		if fnPkgPath(fn) != modPath || !inLib(fn) {
			continue
		}
		hasFile := false
		for _, p := range fn.Params {
			if isFilePtr(p.Type()) {
				hasFile = true
			}
		}
		if !hasFile {
			continue
		}
		nFn++
		for _, b := range fn.Blocks {
			for _, ins := range b.Instrs {
				st, ok := ins.(*ssa.Store)
				if !ok {
					continue
				}
				p, path := rootParam(st.Addr, 0)
				if p == nil || !isFilePtr(p.Type()) {
					continue
				}
				n++
				r.check(allowed[path], "C07-R6-encode-readonly", fn.Name()+"/"+path, c.pos(st.Pos()), "documented post-state of Encode", fn.Name()+" stores to "+path+" of the File being encoded: Encode changes the File it was given (only Header.DataSize, Header.CRC and CRC are its documented outputs), so what is written differs from what was decoded")
			}
		}
	}
	r.set("encode_file_stores", n)
	r.need("functions on Encode's call tree that receive the *File", nFn, 1)
	r.need("stores to the File in Encode (documented outputs)", n, 3)
}

// encodeNoRowCopies: nothing Encode reaches makes a private copy of a profile row (a local of type
// `field`): the sizes and types a definition declares are the profile table's, not a per-call
// variant of them. Shared by C05, C06 and C07.
func encodeNoRowCopies(c *Ctx, r *Report, rule string) {
	enc := c.ssaFn(c.fn(c.fit, "Encode"))
	fobj := c.fit.Types.Scope().Lookup("field")
	if enc == nil || fobj == nil {
		r.fail(rule, "encode/no-row-copies", "", "Encode or the profile row type not found")
		return
	}
	bad := ""
	nFn := 0
	for _, fn := range c.reach([]*ssa.Function{enc}).module() {
		if fnPkgPath(fn) != modPath || !inLib(fn) {
			continue
		}
		nFn++
		for _, b := range fn.Blocks {
			for _, ins := range b.Instrs {
				if al, ok := ins.(*ssa.Alloc); ok {
					if pt, ok := al.Type().(*types.Pointer); ok && types.Identical(pt.Elem(), fobj.Type()) {
						bad = fn.Name() + " at " + c.pos(al.Pos())
					}
				}
				if st, ok := ins.(*ssa.Store); ok {
					if fa, ok := st.Addr.(*ssa.FieldAddr); ok {
						if pt, ok := fa.X.Type().(*types.Pointer); ok && types.Identical(pt.Elem(), fobj.Type()) {
							bad = fn.Name() + " (store to a row member) at " + c.pos(st.Pos())
						}
					}
				}
			}
		}
	}
	r.check(bad == "" && nFn > 5, rule, "encode/no-row-copies", c.pos(enc.Pos()), fmt.Sprintf("%d functions reachable from Encode: no copy of a profile row is made and no row member is stored to", nFn), "the encoder makes or modifies a private copy of a profile row in "+bad+": the size or type a definition declares can then differ from the profile's (and from what the value writer emits or the decoder expects)")
}

// c07ReflectStructural: preconditions that are visible in the code around the call.
//
//	X.Index(i): i is the counter of a loop `for i = 0; i < X.Len(); i++` over the same X;
//	X.Len():    X is a slice by a dominating `X.Kind() == reflect.Slice` test on the same X, or X
//	            is a parameter and at every call site of this function in the module the argument
//	            passes the same rule in the caller.
func c07ReflectStructural(c *Ctx, fn *ssa.Function, ci ssa.CallInstruction, name string) (string, bool) {
	args := ci.Common().Args
	if len(args) == 0 {
		return "", false
	}
	x := args[0]
	switch name {
	case "Index":
		if len(args) != 2 {
			return "", false
		}
		phi, ok := args[1].(*ssa.Phi)
		if !ok || len(phi.Edges) != 2 {
			return "", false
		}
		okPhi := false
		for i, e := range phi.Edges {
			k, isK := e.(*ssa.Const)
			inc, isInc := phi.Edges[1-i].(*ssa.BinOp)
			if isK && k.Value != nil && k.Int64() == 0 && isInc && inc.Op == token.ADD && inc.X == ssa.Value(phi) {
				if one, ok := inc.Y.(*ssa.Const); ok && one.Int64() == 1 {
					okPhi = true
				}
			}
		}
		if !okPhi {
			return "", false
		}
		ifi, ok := phi.Block().Instrs[len(phi.Block().Instrs)-1].(*ssa.If)
		if !ok {
			return "", false
		}
		cond, ok := ifi.Cond.(*ssa.BinOp)
		if !ok || cond.Op != token.LSS || cond.X != ssa.Value(phi) {
			return "", false
		}
		ln, ok := cond.Y.(*ssa.Call)
		if !ok || ln.Common().StaticCallee() == nil || ln.Common().StaticCallee().String() != "(reflect.Value).Len" || ln.Common().Args[0] != x {
			return "", false
		}
		if !phi.Block().Succs[0].Dominates(ci.Block()) && phi.Block().Succs[0] != ci.Block() {
			return "", false
		}
		return "index is the counter of a loop bounded by Len() of the same value", true
	case "Len":
		return c07IsSlice(c, fn, x, ci.Block(), 0)
	}
	return "", false
}

func c07IsSlice(c *Ctx, fn *ssa.Function, x ssa.Value, at *ssa.BasicBlock, depth int) (string, bool) {
	if depth > 2 {
		return "", false
	}
	kindTest := func(v ssa.Value) bool {
		bo, ok := v.(*ssa.BinOp)
		if !ok || bo.Op != token.EQL {
			return false
		}
		call, ok := bo.X.(*ssa.Call)
		k, ok2 := bo.Y.(*ssa.Const)
		if !ok || !ok2 || call.Common().StaticCallee() == nil || call.Common().StaticCallee().String() != "(reflect.Value).Kind" || call.Common().Args[0] != x {
			return false
		}
		return k.Value != nil && k.Int64() == 23 // reflect.Slice
	}
	if domByBoolEdge(fn, at, true, kindTest) {
		return "under Kind() == reflect.Slice of the same value", true
	}
	p, ok := x.(*ssa.Parameter)
	if !ok {
		return "", false
	}
	idx := -1
	for i, q := range fn.Params {
		if q == p {
			idx = i
		}
	}
	n := 0
	for _, caller := range c.moduleFuncs() {
		for _, cs := range allCalls(caller) {
			if cs.Common().StaticCallee() != fn {
				continue
			}
			n++
			if _, ok := c07IsSlice(c, caller, cs.Common().Args[idx], cs.Block(), depth+1); !ok {
				return "", false
			}
		}
	}
	if n == 0 {
		return "", false
	}
	return "a parameter that every caller fills with a value under Kind() == reflect.Slice", true
}

// c07AuditInherited: a function with exactly one calling function in the module is a piece of
// that function (an extracted helper): it inherits the caller's audited entries.
func c07AuditInherited(c *Ctx, fn *ssa.Function, name string) (string, string, bool) {
	cur := fn
	for depth := 0; depth < 3; depth++ {
		callers := map[*ssa.Function]bool{}
		for _, g := range c.moduleFuncs() {
			for _, cs := range allCalls(g) {
				if cs.Common().StaticCallee() == cur {
					callers[g] = true
				}
			}
		}
		if len(callers) != 1 {
			return "", "", false
		}
		for g := range callers {
			cur = g
		}
		if why, ok := c07ReflectAudit[cur.Name()+"/"+name]; ok {
			return why, cur.Name(), true
		}
	}
	return "", "", false
}

// isDefPtrCompare: a comparison of a *encodeMesgDef value with nil (by type, not by spelling).
func isDefPtrCompare(cond ssa.Value) bool {
	bo, ok := cond.(*ssa.BinOp)
	if !ok {
		return false
	}
	pt, ok := bo.X.Type().(*types.Pointer)
	if !ok {
		return false
	}
	n, ok := pt.Elem().(*types.Named)
	return ok && n.Obj().Name() == "encodeMesgDef" && isNilConst(bo.Y)
}

// encodeLeavesMessages: nothing on Encode's call tree (VTA call graph, interface calls resolved)
// stores into a member of a message struct that the function did not allocate itself. Encode reads
// the caller's messages through reflection; a method that writes its receiver (component
// expansion, a normalising setter) reached from Encode changes the caller's File, so a second Encode
// of the same File writes different bytes and the File no longer equals what Decode returned.
func encodeLeavesMessages(c *Ctx, r *Report, rule string) {
	enc := c.ssaFn(c.fn(c.fit, "Encode"))
	p, _ := c.profile()
	if enc == nil || p == nil {
		r.fail(rule, "Encode", "", "Encode or the profile tables not found")
		return
	}
	isMsg := map[*types.Named]bool{}
	for _, t := range p.MsgTypes {
		isMsg[t] = true
	}
	nFn, nStores := 0, 0
	// interface calls on values that come out of reflection are invisible to the type-flow call graph:
	// every method of a message type that can stand behind such a call is added by hand (class
	// hierarchy: *XMsg implements the interface called)
	roots := []*ssa.Function{enc}
	seenRoot := map[*ssa.Function]bool{enc: true}
	for changed := true; changed; {
		changed = false
		for _, fn := range c.reach(roots).module() {
			if fnPkgPath(fn) != modPath {
				continue
			}
			for _, ci := range allCalls(fn) {
				cc := ci.Common()
				if !cc.IsInvoke() {
					continue
				}
				iface, ok := cc.Value.Type().Underlying().(*types.Interface)
				if !ok {
					continue
				}
				for t := range isMsg {
					pt := types.NewPointer(t)
					if !types.Implements(pt, iface) {
						continue
					}
					if m := c.prog.LookupMethod(pt, cc.Method.Pkg(), cc.Method.Name()); m != nil && !seenRoot[m] {
						seenRoot[m] = true
						roots = append(roots, m)
						changed = true
					}
				}
			}
		}
	}
	for _, fn := range c.reach(roots).module() {
		if fnPkgPath(fn) != modPath {
			continue
		}
		nFn++
		for _, b := range fn.Blocks {
			for _, ins := range b.Instrs {
				st, ok := ins.(*ssa.Store)
				if !ok {
					continue
				}
				// the member written: walk FieldAddr / IndexAddr up to the struct
				var base ssa.Value = st.Addr
				var owner *types.Named
				for {
					switch x := base.(type) {
					case *ssa.FieldAddr:
						if o, _ := ownerOf(x); o != nil && isMsg[o] && owner == nil {
							owner = o
						}
						base = x.X
						continue
					case *ssa.IndexAddr:
						base = x.X
						continue
					}
					break
				}
				if owner == nil {
					continue
				}
				nStores++
				if al, ok := base.(*ssa.Alloc); ok && al.Parent() == fn {
					continue // a message this function is building
				}
				r.fail(rule, fmt.Sprintf("%s/%s", fn.Name(), owner.Obj().Name()), c.pos(st.Pos()), fmt.Sprintf("%s, which Encode can reach, writes a member of a %s it was handed: Encode changes the caller's File, so encoding it again writes different bytes (and the File no longer equals what Decode returned)", fn.Name(), owner.Obj().Name()))
			}
		}
	}
	r.ok(rule, "scan", "", fmt.Sprintf("%d functions on Encode's call tree, %d stores into message members, all into messages the storing function allocated itself", nFn, nStores))
	r.need("functions on Encode's call tree", nFn, 10)
}

type accuLive struct {
	g      *ssa.Global
	masked bool
}

// liveAccumulators: the package-level accumulators and whether each is built with a roll-over width
// (uint32NewAccumulator(bits): its state shows in what is decoded) or as a zero value (mask 0: it
// always yields 0, whatever was decoded before).
func liveAccumulators(c *Ctx) []accuLive {
	var out []accuLive
	var names []string
	mem := c.ssaPkgs[modPath].Members
	for n := range mem {
		names = append(names, n)
	}
	sort.Strings(names)
	for _, n := range names {
		gv, ok := mem[n].(*ssa.Global)
		if !ok || !strings.HasSuffix(gv.Type().String(), ".uint32Accumulator") {
			continue
		}
		masked := false
		for _, fn := range c.moduleFuncs() {
			for _, b := range fn.Blocks {
				for _, ins := range b.Instrs {
					st, ok := ins.(*ssa.Store)
					if !ok || st.Addr != ssa.Value(gv) {
						continue
					}
					if call, ok := st.Val.(*ssa.Call); ok && call.Common().StaticCallee() != nil && call.Common().StaticCallee().Name() == "uint32NewAccumulator" {
						masked = true
					}
				}
			}
		}
		out = append(out, accuLive{gv, masked})
	}
	return out
}
