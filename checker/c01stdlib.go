package main

import (
	"fmt"
	"go/token"

	"golang.org/x/tools/go/ssa"
)

// Standard-library calls on the decode path that panic for an argument value. Today's tree has
// one kind: (time.Time).In(loc) panics for a nil *time.Location. The location must be visibly
// non-nil: the result of time.FixedZone, time.UTC / time.Local, a value tested against nil, or
// the result of a module function all of whose returns are such values. A location read back
// from a field or a map is not (a zero-valued cache field is nil until first filled).
func c01StdlibArgs(c *Ctx, r *Report, scope []*ssa.Function) {
	const rule = "C01-R2-stdlib-args"
	n := 0
	for _, fn := range scope {
		nf := c.newNilFacts(fn)
		k := 0
		for _, ci := range allCalls(fn) {
			f := ci.Common().StaticCallee()
			if f == nil || f.String() != "(time.Time).In" || len(ci.Common().Args) != 2 {
				continue
			}
			n++
			k++
			key := fmt.Sprintf("%s/Time.In#%d", fn.Name(), k)
			why, ok := locNonNil(c, nf, ci.Common().Args[1], ci.Block(), 0)
			r.check(ok, rule, key, c.pos(ci.Pos()), "location is "+why, "the *time.Location passed to Time.In is "+why+": Time.In panics (\"missing Location\") when it is nil, for whatever input reaches this call first")
		}
	}
	r.set("time_in_sites", n)
	r.need("Time.In call sites on the decode path", n, 2)
}

func locNonNil(c *Ctx, nf *nilFacts, v ssa.Value, at *ssa.BasicBlock, depth int) (string, bool) {
	if depth > 6 {
		return "too deep to follow", false
	}
	if nf != nil && nf.knownNonNilAt(v, at) {
		return "tested against nil on this path", true
	}
	switch x := v.(type) {
	case *ssa.Call:
		f := x.Common().StaticCallee()
		if f == nil {
			return "the result of a dynamic call", false
		}
		switch f.String() {
		case "time.FixedZone":
			return "the result of time.FixedZone (never nil)", true
		}
		if fnPkgPath(f) == modPath && len(f.Blocks) > 0 {
			g := c.newNilFacts(f)
			for _, b := range f.Blocks {
				if ret, ok := b.Instrs[len(b.Instrs)-1].(*ssa.Return); ok && len(ret.Results) == 1 {
					if why, ok := locNonNil(c, g, resolveSpill(ret.Results[0]), b, depth+1); !ok {
						return "the result of " + f.Name() + ", which can return a location that is " + why, false
					}
				}
			}
			return "the result of " + f.Name() + ", every return of which is non-nil", true
		}
		return "the result of " + f.String() + " (not known to be non-nil)", false
	case *ssa.UnOp:
		if x.Op == token.MUL {
			if g, ok := x.X.(*ssa.Global); ok && g.Pkg != nil && g.Pkg.Pkg.Path() == "time" && (g.Name() == "UTC" || g.Name() == "Local") {
				return "time." + g.Name(), true
			}
			return "loaded from " + stripAddrs(pathOf(x.X)) + " (nil until something stores a location there)", false
		}
	case *ssa.Phi:
		for i, e := range x.Edges {
			if why, ok := locNonNil(c, nf, e, x.Block().Preds[i], depth+1); !ok {
				return why, false
			}
		}
		return "non-nil on every incoming edge", true
	case *ssa.Const:
		if x.Value == nil {
			return "the nil constant", false
		}
	}
	return fmt.Sprintf("a %T not known to be non-nil", v), false
}
