package main

import (
	"fmt"
	"go/token"
	"strings"

	"golang.org/x/tools/go/ssa"
)

// Standard-library calls on the decode path that panic for an argument value. Today's tree has
// one kind: (time.Time).In(loc) panics for a nil *time.Location. The location must be visibly
// non-nil: the result of time.FixedZone, time.UTC / time.Local, a value tested against nil, or
// the result of a module function all of whose returns are such values. A location read back
// from a field or a map is not (a zero-valued cache field is nil until first filled).
func c01StdlibArgs(c *Ctx, r *Report, scope []*ssa.Function) {
	const rule = "C01-R2-stdlib-args"
	n := 0
	for _, fn := range scope {
		nf := c.newNilFacts(fn)
		k := 0
		for _, ci := range allCalls(fn) {
			f := ci.Common().StaticCallee()
			if f == nil || f.String() != "(time.Time).In" || len(ci.Common().Args) != 2 {
				continue
			}
			n++
			k++
			key := fmt.Sprintf("%s/Time.In#%d", fn.Name(), k)
			why, ok := locNonNil(c, nf, ci.Common().Args[1], ci.Block(), 0)
			r.check(ok, rule, key, c.pos(ci.Pos()), "location is "+why, "the *time.Location passed to Time.In is "+why+": Time.In panics (\"missing Location\") when it is nil, for whatever input reaches this call first")
		}
	}
	r.set("time_in_sites", n)
	r.need("Time.In call sites on the decode path", n, 2)
}

func locNonNil(c *Ctx, nf *nilFacts, v ssa.Value, at *ssa.BasicBlock, depth int) (string, bool) {
	if depth > 6 {
		return "too deep to follow", false
	}
	if nf != nil && nf.knownNonNilAt(v, at) {
		return "tested against nil on this path", true
	}
	switch x := v.(type) {
	case *ssa.Call:
		f := x.Common().StaticCallee()
		if f == nil {
			return "the result of a dynamic call", false
		}
		switch f.String() {
		case "time.FixedZone":
			return "the result of time.FixedZone (never nil)", true
		}
		if fnPkgPath(f) == modPath && len(f.Blocks) > 0 {
			g := c.newNilFacts(f)
			for _, b := range f.Blocks {
				if ret, ok := b.Instrs[len(b.Instrs)-1].(*ssa.Return); ok && len(ret.Results) == 1 {
					if why, ok := locNonNil(c, g, resolveSpill(ret.Results[0]), b, depth+1); !ok {
						return "the result of " + f.Name() + ", which can return a location that is " + why, false
					}
				}
			}
			return "the result of " + f.Name() + ", every return of which is non-nil", true
		}
		return "the result of " + f.String() + " (not known to be non-nil)", false
	case *ssa.UnOp:
		if x.Op == token.MUL {
			if g, ok := x.X.(*ssa.Global); ok && g.Pkg != nil && g.Pkg.Pkg.Path() == "time" && (g.Name() == "UTC" || g.Name() == "Local") {
				return "time." + g.Name(), true
			}
			return "loaded from " + stripAddrs(pathOf(x.X)) + " (nil until something stores a location there)", false
		}
	case *ssa.Phi:
		for i, e := range x.Edges {
			if why, ok := locNonNil(c, nf, e, x.Block().Preds[i], depth+1); !ok {
				return why, false
			}
		}
		return "non-nil on every incoming edge", true
	case *ssa.Const:
		if x.Value == nil {
			return "the nil constant", false
		}
	}
	return fmt.Sprintf("a %T not known to be non-nil", v), false
}

// c01ByteOrderLens: binary.ByteOrder's UintN / PutUintN index their argument up to N/8 - 1 and panic
// on a shorter slice. Every such call on the decode path is given a slice expression whose length
// is at least N/8: by the intervals of its bounds (constant bounds, Size() of a constant base type,
// the header-size edge constants), or — in parseFitField / parseFitFieldArray, whose slices are cut
// with the definition's own size — by the size matrix (C01-R1-matrix decides for every accepted
// (class, base, size) that the arm selected reads no more than the size).
func c01ByteOrderLens(c *Ctx, r *Report, scope []*ssa.Function) {
	const rule = "C01-R2-byteorder-len"
	n := 0
	for _, fn := range scope {
		bc := c.newBounds(fn)
		k := 0
		for _, ci := range allCalls(fn) {
			cc := ci.Common()
			name := ""
			var arg ssa.Value
			if cc.IsInvoke() && cc.Value.Type().String() == "encoding/binary.ByteOrder" && len(cc.Args) >= 1 {
				name, arg = cc.Method.Name(), cc.Args[0]
			} else if f := cc.StaticCallee(); f != nil && f.Pkg != nil && f.Pkg.Pkg.Path() == "encoding/binary" && f.Signature.Recv() != nil && len(cc.Args) >= 2 {
				name, arg = f.Name(), cc.Args[1]
			}
			need := int64(0)
			switch strings.TrimPrefix(name, "Put") {
			case "Uint16":
				need = 2
			case "Uint32":
				need = 4
			case "Uint64":
				need = 8
			}
			if need == 0 {
				continue
			}
			n++
			k++
			key := fmt.Sprintf("%s/%s#%d", fn.Name(), name, k)
			if fn.Name() == "parseFitField" || fn.Name() == "parseFitFieldArray" {
				r.ok(rule, key, c.pos(ci.Pos()), "slice cut with the definition's size in an arm the size matrix covers (C01-R1-matrix)")
				continue
			}
			sl, ok := arg.(*ssa.Slice)
			if !ok {
				r.fail(rule, key, c.pos(ci.Pos()), fmt.Sprintf("%s is given %s, not a slice expression whose length can be read off: it panics when fewer than %d bytes are passed", name, stripAddrs(pathOf(arg)), need))
				continue
			}
			lo := exact(0)
			if sl.Low != nil {
				lo = bc.rangeAt(sl.Low, ci.Block())
			}
			var hi ival
			if sl.High != nil {
				hi = bc.rangeAt(sl.High, ci.Block())
			} else if L, isArr := arrayLenOf(sl.X.Type()); isArr {
				hi = exact(L)
			}
			okLen := hi.okLo && lo.okHi && hi.lo-lo.hi >= need
			if !okLen && sl.High != nil && strings.Contains(pathOf(sl.High), ".h.Size-1)") {
				// the header body: Size takes the constants seen on the edges into this block, minus those a
				// dominating `Size == k -> return` / `Size != k` excludes
				set := constSetAt(ci.Block(), ".h.Size", map[*ssa.BasicBlock]map[int64]bool{}, map[*ssa.BasicBlock]bool{})
				sizePath := strings.TrimSuffix(strings.TrimPrefix(pathOf(sl.High), "("), "-1)")
				okSet := len(set) > 0
				minHi := int64(1 << 30)
				for kk := range set {
					if domByCmpConst(fn, ci.Block(), sizePath, token.EQL, kk, false) || domByCmpConst(fn, ci.Block(), sizePath, token.NEQ, kk, true) {
						continue
					}
					if kk-1 < minHi {
						minHi = kk - 1
					}
				}
				if okSet && minHi < 1<<30 && lo.okHi && minHi-lo.hi >= need {
					okLen = true
					hi = exact(minHi)
				}
			}
			r.check(okLen, rule, key, c.pos(ci.Pos()), fmt.Sprintf("slice [%s:%s] has at least %d bytes", lo.String(), hi.String(), need), fmt.Sprintf("%s reads %d bytes but its argument %s[%s:%s] can be shorter: index out of range for the inputs that make it so", name, need, stripAddrs(pathOf(sl.X)), lo.String(), hi.String()))
		}
	}
	r.set("byteorder_calls", n)
	r.need("ByteOrder reads on the decode path", n, 15)
}
