package main

import (
	"fmt"
	"go/token"
	"go/types"
	"os"
	"strings"

	"golang.org/x/tools/go/callgraph"
	"golang.org/x/tools/go/ssa"
)

// C01-R2-zero-value: no method that panics on the zero reflect.Value is ever called on one.
//
// The decoder hands messages around as reflect.Values, and "no message" is the zero Value
// (parseDataMessage returns it, with a nil error, for a message number the profile does not
// know). Every reflect.Value method except IsValid, Kind and String panics on the zero Value, so
// each such call in the functions reachable from the decoding entry points needs its receiver
// shown valid at that point. The receiver's validity is decided by origin:
//
//   - reflect.ValueOf(concrete value), reflect.New/MakeSlice/Zero/Indirect/Append, and the Field /
//     Index of a receiver (which is its own obligation) are valid;
//   - a constructor-table call (`table[n]().Elem()`) is valid (C15-1-ctor: every entry boxes the
//     fresh pointer of a message constructor);
//   - a zero literal is not;
//   - a merge (phi) is valid whenever a flag F is true when every edge that carries a
//     possibly-zero value is taken only with F false (`var v; if known { v = ctor() }`);
//   - a parameter is what every call site (VTA call graph) passes, evaluated at the site, a
//     "valid whenever flag" argument being accepted when the same flag is passed alongside;
//   - a result of a module function is what its error-free returns yield;
//
// and at the use: a dominating true edge of IsValid() of the same value, a dominating true edge of
// the flag, a dominating found edge of the profile lookup of the same message number when the flag
// is the known-table entry of that number (C15-1-rows-known: only known messages have rows), and
// for results of (Value, error) functions the error-free edge of that call.
//
// One site needs more than that on the pinned tree: parseFileIdMsg uses the result of
// parseDataMessage unconditionally. It is valid because the only definition a data record can
// select at that point is the file_id definition just stored (c01FileIdOnlySlot).
func c01ZeroValues(c *Ctx, r *Report) {
	roots, _ := c.rootFuncs(decodeRoots)
	ri := c.reach(roots)
	z := &zvAn{c: c, params: map[*ssa.Parameter]*zsum{}, results: map[*ssa.Function]*zsum{}}
	n := 0
	for _, fn := range ri.module() {
		if fnPkgPath(fn) != modPath {
			continue
		}
		idx := map[string]int{}
		for _, b := range fn.Blocks {
			for _, ins := range b.Instrs {
				ci, ok := ins.(ssa.CallInstruction)
				if !ok {
					continue
				}
				f := ci.Common().StaticCallee()
				if f == nil || f.Signature.Recv() == nil || f.Signature.Recv().Type().String() != "reflect.Value" {
					continue
				}
				if zvSafeOnZero[f.Name()] {
					continue
				}
				recv := ci.Common().Args[0]
				if os.Getenv("ZV_DUMP") != "" {
					fmt.Printf("ZV %s %s %s recv=%s\n", c.pos(ins.Pos()), fn.Name(), f.Name(), stripAddrs(pathOf(recv)))
				}
				n++
				idx[f.Name()]++
				key := fmt.Sprintf("%s/%s#%d", strings.TrimPrefix(strings.ReplaceAll(fn.String(), modPath+".", ""), "*"), f.Name(), idx[f.Name()])
				ok2, why := z.validAt(recv, b, fn, 0)
				r.check(ok2, "C01-R2-zero-value", key, c.pos(ins.Pos()), "receiver of reflect "+f.Name()+" is a valid Value: "+why,
					"reflect.Value."+f.Name()+" is called on a Value that can be the zero Value ("+why+"): reflect panics")
			}
		}
	}
	r.need("reflect.Value method calls that panic on the zero Value", n, 40)
}

// methods of reflect.Value that do not panic on the zero Value
var zvSafeOnZero = map[string]bool{"IsValid": true, "Kind": true, "String": true}

type zvKind int

const (
	zvNo zvKind = iota
	zvAlways
	zvCond // valid whenever flag is true
)

type zv struct {
	kind      zvKind
	flag      ssa.Value   // zvCond
	alt       []ssa.Value // zvCond: further flags each of which implies validity
	call      *ssa.Call   // result of a (Value, error) function: meaningful on the error-free edge only
	slotKnown *ssa.Call   // zvNo, but: valid whenever the definition the callee selects is of a known message
	why       string
}

// summary of a parameter or of a function's result, in the function's own terms
type zsum struct {
	kind      zvKind
	flagParam int // zvCond: index into fn.Params
	slotKnown bool
	why       string
	busy      bool
}

type zvAn struct {
	c       *Ctx
	params  map[*ssa.Parameter]*zsum
	results map[*ssa.Function]*zsum
}

func isReflectValue(t types.Type) bool { return t.String() == "reflect.Value" }

func (z *zvAn) validAt(v ssa.Value, b *ssa.BasicBlock, fn *ssa.Function, depth int) (bool, string) {
	if depth > 12 {
		return false, "origin too deep"
	}
	isValidOf := func(x ssa.Value) bool {
		call, ok := x.(*ssa.Call)
		return ok && call.Common().StaticCallee() != nil && call.Common().StaticCallee().String() == "(reflect.Value).IsValid" && call.Common().Args[0] == v
	}
	if domByBoolEdge(fn, b, true, isValidOf) {
		return true, "tested with IsValid() on a dominating edge"
	}
	o := z.origin(v, fn, depth)
	if o.call != nil && o.call.Common().Signature().Results().Len() > 1 {
		if !z.c.errNilDominates(fn, o.call, b) {
			return false, "result of " + calleeName(o.call.Common()) + " used without its error having been tested"
		}
	}
	switch o.kind {
	case zvAlways:
		return true, o.why
	case zvCond:
		for _, F := range append([]ssa.Value{o.flag}, o.alt...) {
			if z.flagTrueAt(F, b, fn) {
				return true, "valid whenever " + stripAddrs(pathOf(F)) + " is true, which it is here"
			}
		}
		return false, o.why + ", and the flag is not known to be true here"
	}
	if o.slotKnown != nil {
		if ok, why := c01FileIdOnlySlot(z.c, fn, o.slotKnown, b); ok {
			return true, why
		} else if why != "" {
			return false, o.why + "; " + why
		}
	}
	return false, o.why
}

// flagTrueAt: the boolean F is true whenever b runs.
func (z *zvAn) flagTrueAt(F ssa.Value, b *ssa.BasicBlock, fn *ssa.Function) bool {
	if domByBoolEdge(fn, b, true, func(x ssa.Value) bool { return x == F }) {
		return true
	}
	// F = knownTable[X]: a found profile row for message X implies X is known (C15-1-rows-known)
	if x, ok := knownTableIndex(F); ok {
		xp := stripAddrs(pathOf(x))
		for _, a := range fn.Blocks {
			if len(a.Instrs) == 0 {
				continue
			}
			ifi, ok := a.Instrs[len(a.Instrs)-1].(*ssa.If)
			if !ok {
				continue
			}
			lk, trueMeansFound, ok := foundCond(ifi.Cond)
			if !ok || stripAddrs(pathOf(lk.msgArg)) != xp {
				continue
			}
			succ := a.Succs[1]
			if trueMeansFound {
				succ = a.Succs[0]
			}
			if len(succ.Preds) == 1 && succ.Dominates(b) {
				return true
			}
		}
	}
	return false
}

// knownTableIndex: v is `knownMsgNums[X]` (a load of / lookup in the package's known-message table).
func knownTableIndex(v ssa.Value) (ssa.Value, bool) {
	switch n := v.(type) {
	case *ssa.Lookup:
		if strings.HasSuffix(pathOf(n.X), ".knownMsgNums") {
			return n.Index, true
		}
	case *ssa.UnOp:
		if ia, ok := n.X.(*ssa.IndexAddr); ok && n.Op == token.MUL && strings.HasSuffix(pathOf(ia.X), ".knownMsgNums") {
			return ia.Index, true
		}
	case *ssa.Index:
		if strings.HasSuffix(pathOf(n.X), ".knownMsgNums") {
			return n.Index, true
		}
	}
	return nil, false
}

func (z *zvAn) origin(v ssa.Value, fn *ssa.Function, depth int) zv {
	switch n := v.(type) {
	case *ssa.Const:
		return zv{why: "the zero Value literal"}
	case *ssa.Extract:
		call, ok := n.Tuple.(*ssa.Call)
		if !ok || n.Index != 0 {
			return zv{why: "unrecognised tuple element"}
		}
		return z.callResult(call, fn, depth)
	case *ssa.Call:
		return z.callResult(n, fn, depth)
	case *ssa.Phi:
		return z.phi(n, fn, depth)
	case *ssa.Parameter:
		s := z.param(n, depth)
		switch s.kind {
		case zvAlways:
			return zv{kind: zvAlways, why: s.why}
		case zvCond:
			return zv{kind: zvCond, flag: fn.Params[s.flagParam], why: s.why}
		}
		return zv{why: s.why}
	case *ssa.UnOp:
		// a local variable holding one Value (spilled): the single store
		if al, ok := n.X.(*ssa.Alloc); ok && n.Op == token.MUL {
			var st *ssa.Store
			cnt := 0
			for _, ref := range *al.Referrers() {
				if s, ok := ref.(*ssa.Store); ok && s.Addr == ssa.Value(al) {
					st = s
					cnt++
				}
			}
			if cnt == 1 && st.Block().Dominates(n.Block()) {
				return z.origin(st.Val, fn, depth+1)
			}
		}
		return zv{why: "loaded from memory (" + stripAddrs(pathOf(n)) + ")"}
	}
	return zv{why: fmt.Sprintf("unrecognised origin %T", v)}
}

func (z *zvAn) callResult(call *ssa.Call, fn *ssa.Function, depth int) zv {
	cc := call.Common()
	f := cc.StaticCallee()
	if f == nil {
		// a call through a package-level table of functions: what every entry returns
		if u, ok := cc.Value.(*ssa.UnOp); ok && !cc.IsInvoke() {
			if ia, ok := u.X.(*ssa.IndexAddr); ok {
				if g, ok := baseGlobal(ia.X); ok {
					n := 0
					if node := z.c.callGraph().Nodes[fn]; node != nil {
						for _, e := range node.Out {
							if e.Site != ssa.CallInstruction(call) {
								continue
							}
							n++
							if s := z.result(e.Callee.Func, depth+1); s.kind != zvAlways {
								return zv{why: "entry " + e.Callee.Func.Name() + " of table " + g.Name() + ": " + s.why}
							}
						}
					}
					if n > 0 {
						return zv{kind: zvAlways, why: fmt.Sprintf("every entry of table %s (%d) returns a valid Value", g.Name(), n)}
					}
				}
			}
		}
		return zv{why: "result of a dynamic call"}
	}
	switch f.String() {
	case "reflect.ValueOf":
		if mi, ok := cc.Args[0].(*ssa.MakeInterface); ok {
			if _, isI := mi.X.Type().Underlying().(*types.Interface); !isI {
				return zv{kind: zvAlways, why: "reflect.ValueOf of a concrete " + mi.X.Type().String()}
			}
		}
		return zv{why: "reflect.ValueOf of an interface value that may be nil"}
	case "reflect.New", "reflect.MakeSlice", "reflect.Zero", "reflect.Append", "reflect.AppendSlice", "reflect.MakeMap":
		return zv{kind: zvAlways, why: f.String() + " result"}
	case "reflect.Indirect":
		if ok, why := z.validAt(cc.Args[0], call.Block(), fn, depth+1); ok {
			// Indirect of a nil pointer is the zero Value: the operand must be a non-nil pointer box
			if in, isC := cc.Args[0].(*ssa.Call); isC && in.Common().StaticCallee() != nil && in.Common().StaticCallee().String() == "reflect.New" {
				return zv{kind: zvAlways, why: "Indirect of reflect.New"}
			}
			_ = why
		}
		return zv{why: "reflect.Indirect of a pointer that may be nil"}
	case "(reflect.Value).Field", "(reflect.Value).Index", "(reflect.Value).Slice", "(reflect.Value).Convert", "(reflect.Value).Addr", "(reflect.Value).FieldByIndex":
		// these panic on a zero receiver (an obligation of its own) and never return the zero Value
		return zv{kind: zvAlways, why: strings.TrimPrefix(f.String(), "(reflect.Value).") + " of a Value"}
	case "(reflect.Value).Elem":
		// table[n]().Elem(): constructor table (C15-1-ctor)
		if in, ok := cc.Args[0].(*ssa.Call); ok && in.Common().StaticCallee() == nil && !in.Common().IsInvoke() {
			if u, ok := in.Common().Value.(*ssa.UnOp); ok {
				if ia, ok := u.X.(*ssa.IndexAddr); ok {
					if g, ok := baseGlobal(ia.X); ok {
						return zv{kind: zvAlways, why: "element of a constructor of table " + g.Name() + " (C15-1-ctor: each boxes a fresh message pointer)"}
					}
				}
			}
		}
		if in, ok := cc.Args[0].(*ssa.Call); ok && in.Common().StaticCallee() != nil {
			switch in.Common().StaticCallee().String() {
			case "reflect.New":
				return zv{kind: zvAlways, why: "Elem of reflect.New"}
			}
		}
		return zv{why: "Elem of a pointer or interface Value that may be nil"}
	}
	if fnPkgPath(f) != modPath || len(f.Blocks) == 0 {
		return zv{why: "result of " + f.String()}
	}
	s := z.result(f, depth)
	out := zv{call: call, why: s.why}
	switch s.kind {
	case zvAlways:
		out.kind = zvAlways
	case zvCond:
		if s.flagParam < len(cc.Args) {
			out.kind, out.flag = zvCond, cc.Args[s.flagParam]
		}
	default:
		if s.slotKnown {
			out.slotKnown = call
		}
	}
	return out
}

func baseGlobal(v ssa.Value) (*ssa.Global, bool) {
	for i := 0; i < 4; i++ {
		switch n := v.(type) {
		case *ssa.Global:
			return n, true
		case *ssa.UnOp:
			v = n.X
		default:
			return nil, false
		}
	}
	return nil, false
}

func (z *zvAn) phi(phi *ssa.Phi, fn *ssa.Function, depth int) zv {
	type edge struct {
		pred *ssa.BasicBlock
		o    zv
	}
	var bad []edge
	var condFlag ssa.Value
	for i, e := range phi.Edges {
		p := phi.Block().Preds[i]
		if e == ssa.Value(phi) {
			continue
		}
		if ok, _ := z.validAt(e, p, fn, depth+1); ok {
			continue
		}
		o := z.origin(e, fn, depth+1)
		if o.kind == zvCond {
			if condFlag != nil && condFlag != o.flag {
				return zv{why: "merge of Values valid under different flags"}
			}
			condFlag = o.flag
			continue
		}
		bad = append(bad, edge{p, o})
	}
	if len(bad) == 0 && condFlag == nil {
		return zv{kind: zvAlways, why: "every merged Value is valid"}
	}
	// the flag F: false on every edge that carries a possibly-zero Value
	falseAt := func(F ssa.Value, p *ssa.BasicBlock) bool {
		if domByBoolEdge(fn, p, false, func(x ssa.Value) bool { return x == F }) {
			return true
		}
		// the edge p -> phi block is itself the false edge of `if F`
		if ifi, ok := p.Instrs[len(p.Instrs)-1].(*ssa.If); ok && len(p.Succs) == 2 && p.Succs[0] != p.Succs[1] {
			for k, s := range p.Succs {
				if s != phi.Block() {
					continue
				}
				for _, f := range condFactsOnEdge(ifi.Cond, k == 0, 0) {
					if f.v == F && !f.truth {
						return true
					}
				}
			}
		}
		return false
	}
	var cands []ssa.Value
	if condFlag != nil {
		cands = []ssa.Value{condFlag}
	} else {
		seen := map[ssa.Value]bool{}
		for _, a := range fn.Blocks {
			if len(a.Instrs) == 0 {
				continue
			}
			if ifi, ok := a.Instrs[len(a.Instrs)-1].(*ssa.If); ok {
				for _, t := range []bool{true, false} {
					for _, f := range condFactsOnEdge(ifi.Cond, t, 0) {
						if !seen[f.v] {
							seen[f.v] = true
							cands = append(cands, f.v)
						}
					}
				}
			}
		}
	}
	var flags []ssa.Value
	for _, F := range cands {
		ok := true
		for _, e := range bad {
			if !falseAt(F, e.pred) {
				ok = false
				break
			}
		}
		// a flag that is false on the valid edges too says nothing (it is false wherever the merge is reached)
		vacuous := len(bad) > 0
		for i, e := range phi.Edges {
			p := phi.Block().Preds[i]
			isBad := false
			for _, be := range bad {
				if be.pred == p {
					isBad = true
				}
			}
			if !isBad && e != ssa.Value(phi) && !falseAt(F, p) {
				vacuous = false
			}
		}
		if ok && !vacuous {
			flags = append(flags, F)
		}
	}
	if len(flags) > 0 {
		return zv{kind: zvCond, flag: flags[0], alt: flags[1:], why: "valid whenever " + stripAddrs(pathOf(flags[0])) + " is true (the zero Value is merged in only on edges taken with it false)"}
	}
	why := "a merged Value may be zero"
	if len(bad) > 0 {
		why = "a merged Value may be zero: " + bad[0].o.why
	}
	return zv{why: why}
}

// result: what the error-free returns of g yield as their first result.
func (z *zvAn) result(g *ssa.Function, depth int) *zsum {
	if s, ok := z.results[g]; ok {
		if s.busy {
			return &zsum{kind: zvAlways, why: "recursive"}
		}
		return s
	}
	s := &zsum{busy: true}
	z.results[g] = s
	out := zsum{kind: zvAlways, why: "every error-free return of " + g.Name() + " yields a valid Value", flagParam: -1}
	for _, ret := range z.c.successReturns(g) {
		if len(ret.Results) == 0 || !isReflectValue(ret.Results[0].Type()) {
			out = zsum{why: g.Name() + " does not return a reflect.Value first"}
			break
		}
		rv := ret.Results[0]
		if ok, _ := z.validAt(rv, ret.Block(), g, depth+1); ok {
			continue
		}
		o := z.origin(rv, g, depth+1)
		if o.kind == zvCond {
			for _, F := range o.alt {
				if _, isP := F.(*ssa.Parameter); isP {
					o.flag = F
				} else if _, isK := knownTableIndex(F); isK && isSlotDefinitionNumber(F) {
					if _, already := o.flag.(*ssa.Parameter); !already {
						o.flag = F
					}
				}
			}
			if p, isP := o.flag.(*ssa.Parameter); isP {
				k := ssaParamIndex(g, p)
				if out.kind == zvNo || (out.flagParam >= 0 && out.flagParam != k) {
					out = zsum{why: "returns of " + g.Name() + " are valid under different conditions"}
					break
				}
				out.kind, out.flagParam = zvCond, k
				out.why = g.Name() + " returns a valid Value whenever its parameter " + p.Name() + " is true"
				continue
			}
			if _, isK := knownTableIndex(o.flag); isK && isSlotDefinitionNumber(o.flag) {
				out = zsum{slotKnown: true, why: g.Name() + " returns the zero Value, with a nil error, when the selected definition's message number is not a known one"}
				continue
			}
		}
		out = zsum{why: g.Name() + " can return a possibly-zero Value with a nil error at " + z.c.pos(ret.Pos()) + " (" + o.why + ")"}
		break
	}
	if out.kind == zvCond && out.flagParam < 0 {
		out.kind = zvNo
	}
	*s = out
	return s
}

// isSlotDefinitionNumber: F = knownTable[(*d.defmsgs[i]).globalMsgNum]
func isSlotDefinitionNumber(F ssa.Value) bool {
	x, ok := knownTableIndex(F)
	if !ok {
		return false
	}
	p := stripAddrs(pathOf(x))
	return strings.Contains(p, ".defmsgs[") && strings.HasSuffix(p, ".globalMsgNum")
}

func ssaParamIndex(g *ssa.Function, p *ssa.Parameter) int {
	for i, q := range g.Params {
		if q == p {
			return i
		}
	}
	return -1
}

// param: what every call site passes.
func (z *zvAn) param(p *ssa.Parameter, depth int) *zsum {
	if s, ok := z.params[p]; ok {
		if s.busy {
			return &zsum{kind: zvAlways, why: "recursive"}
		}
		return s
	}
	s := &zsum{busy: true}
	z.params[p] = s
	g := p.Parent()
	idx := ssaParamIndex(g, p)
	out := zsum{kind: zvAlways, flagParam: -1}
	node := z.c.callGraph().Nodes[g]
	var in []*callgraph.Edge
	if node != nil {
		in = node.In
	}
	nSites := 0
	for _, e := range in {
		if e.Site == nil || e.Caller.Func == nil || !strings.HasPrefix(fnPkgPath(e.Caller.Func), modPath) {
			continue
		}
		cc := e.Site.Common()
		ai := idx
		if cc.IsInvoke() {
			ai = idx - 1
		}
		if ai < 0 || ai >= len(cc.Args) {
			out = zsum{why: "call site of " + g.Name() + " with an unexpected shape"}
			break
		}
		nSites++
		arg := cc.Args[ai]
		caller := e.Caller.Func
		if ok, _ := z.validAt(arg, e.Site.Block(), caller, depth+1); ok {
			continue
		}
		o := z.origin(arg, caller, depth+1)
		if o.kind == zvCond {
			k := -1
			for j, a := range cc.Args {
				isFlag := a == o.flag
				for _, F := range o.alt {
					if a == F {
						isFlag = true
					}
				}
				if isFlag {
					k = j
					if cc.IsInvoke() {
						k = j + 1
					}
				}
			}
			if k >= 0 && (out.flagParam < 0 || out.flagParam == k) && out.kind != zvNo {
				out.kind, out.flagParam = zvCond, k
				continue
			}
		}
		out = zsum{why: fmt.Sprintf("%s passes %s a possibly-zero Value at %s (%s)", caller.Name(), g.Name(), z.c.pos(e.Site.Pos()), o.why)}
		break
	}
	if nSites == 0 && out.kind != zvNo {
		out = zsum{why: "parameter of " + g.Name() + ", which has no call site in the module"}
	}
	switch out.kind {
	case zvAlways:
		out.why = fmt.Sprintf("every call site of %s (%d) passes a valid Value", g.Name(), nSites)
	case zvCond:
		if out.flagParam >= 0 && out.flagParam < len(g.Params) {
			out.why = fmt.Sprintf("every call site of %s (%d) passes a Value that is valid whenever the flag passed as %s is true", g.Name(), nSites, g.Params[out.flagParam].Name())
		} else {
			out = zsum{why: "flag parameter of " + g.Name() + " not identified"}
		}
	}
	*s = out
	return s
}

// c01FileIdOnlySlot: the result of `call` (a function that yields the zero Value only when the
// definition selected by the record header is of an unknown message) is valid in fn at block b
// because every definition slot that can be filled at that point holds a definition whose message
// number was compared equal to a known constant:
//
//	(a) fn stores into the slot table exactly once, outside any loop, on a path that dominates the
//	    call, and the stored definition's globalMsgNum was tested == K on a dominating edge;
//	(b) K is a known message number (constant table);
//	(c) fn is called from decoder.decode only, once, and every other function that stores a
//	    definition into the slot table is reachable in decode only from calls that the call of
//	    fn dominates (they run after it), and from nowhere else;
//	(d) each decode starts with an empty slot table (per-file state).
func c01FileIdOnlySlot(c *Ctx, fn *ssa.Function, call *ssa.Call, b *ssa.BasicBlock) (bool, string) {
	isSlotStore := func(st *ssa.Store) bool {
		ia, ok := st.Addr.(*ssa.IndexAddr)
		if !ok {
			return false
		}
		fa, ok := ia.X.(*ssa.FieldAddr)
		return ok && isFieldOf(fa, "decoder", "defmsgs")
	}
	var stores []*ssa.Store
	for _, blk := range fn.Blocks {
		for _, ins := range blk.Instrs {
			if st, ok := ins.(*ssa.Store); ok && isSlotStore(st) {
				stores = append(stores, st)
			}
		}
	}
	if len(stores) == 0 {
		return false, ""
	}
	if len(stores) != 1 {
		return false, fn.Name() + " stores definitions into more than one place before the data record is parsed"
	}
	st := stores[0]
	if !st.Block().Dominates(call.Block()) || (st.Block() == call.Block() && instrIndex(st) > instrIndex(call)) {
		return false, "the definition store in " + fn.Name() + " does not dominate the call"
	}
	if reachableFrom(st.Block(), st.Block(), nil) {
		return false, "the definition store in " + fn.Name() + " sits in a loop: any number of definitions, of any message, can be stored before the data record is parsed"
	}
	// (a) the stored definition's number == K on a dominating edge
	var K *ssa.Const
	numOf := func(x ssa.Value) bool {
		u, ok := x.(*ssa.UnOp)
		if !ok || u.Op != token.MUL {
			return false
		}
		fa, ok := u.X.(*ssa.FieldAddr)
		return ok && isFieldOf(fa, "defmsg", "globalMsgNum") && fa.X == st.Val
	}
	for _, a := range fn.Blocks {
		if len(a.Instrs) == 0 {
			continue
		}
		ifi, ok := a.Instrs[len(a.Instrs)-1].(*ssa.If)
		if !ok {
			continue
		}
		bo, ok := ifi.Cond.(*ssa.BinOp)
		if !ok || (bo.Op != token.EQL && bo.Op != token.NEQ) {
			continue
		}
		var k *ssa.Const
		if kc, isK := bo.Y.(*ssa.Const); isK && numOf(bo.X) {
			k = kc
		} else if kc, isK := bo.X.(*ssa.Const); isK && numOf(bo.Y) {
			k = kc
		}
		if k == nil {
			continue
		}
		succ := a.Succs[0]
		if bo.Op == token.NEQ {
			succ = a.Succs[1]
		}
		if len(succ.Preds) == 1 && succ.Dominates(st.Block()) && succ.Dominates(call.Block()) {
			K = k
		}
	}
	if K == nil {
		return false, "the definition stored by " + fn.Name() + " is not compared with a message number before it is stored: the data record that follows can be of any message, known or not"
	}
	p, _ := c.profile()
	if p == nil || !p.Known[K.Int64()] {
		return false, fmt.Sprintf("message number %d, which the stored definition is compared with, is not a known message", K.Int64())
	}
	// (c)
	dec := c.ssaFn(c.fn(c.fit, "decoder.decode"))
	if dec == nil {
		return false, "decoder.decode not found"
	}
	var fnCall ssa.CallInstruction
	nFn := 0
	for _, ci := range allCalls(dec) {
		if ci.Common().StaticCallee() == fn {
			fnCall = ci
			nFn++
		}
	}
	if node := c.callGraph().Nodes[fn]; node != nil {
		for _, e := range node.In {
			if e.Caller.Func != dec && strings.HasPrefix(fnPkgPath(e.Caller.Func), modPath) {
				return false, fn.Name() + " is also called from " + e.Caller.Func.Name()
			}
		}
	}
	if nFn != 1 {
		return false, fn.Name() + " is not called exactly once from decode"
	}
	var writers []*ssa.Function
	for _, g := range c.moduleFuncs() {
		if g == fn || fnPkgPath(g) != modPath {
			continue
		}
		for _, blk := range g.Blocks {
			for _, ins := range blk.Instrs {
				st2, ok := ins.(*ssa.Store)
				if !ok {
					continue
				}
				whole := false
				if fa, isF := st2.Addr.(*ssa.FieldAddr); isF && isFieldOf(fa, "decoder", "defmsgs") {
					whole = true
				}
				if !whole && !isSlotStore(st2) {
					continue
				}
				if k, isC := st2.Val.(*ssa.Const); isC && (k.Value == nil) {
					continue // clearing a slot / the table
				}
				writers = append(writers, g)
			}
		}
	}
	for _, w := range writers {
		// every path from a root to w goes through a call in decode that fn's call dominates
		up := map[*ssa.Function]bool{w: true}
		q := []*ssa.Function{w}
		for len(q) > 0 {
			g := q[0]
			q = q[1:]
			if g == dec {
				continue
			}
			node := c.callGraph().Nodes[g]
			nIn := 0
			if node != nil {
				for _, e := range node.In {
					if e.Caller.Func == nil || !strings.HasPrefix(fnPkgPath(e.Caller.Func), modPath) {
						continue
					}
					nIn++
					if !up[e.Caller.Func] {
						up[e.Caller.Func] = true
						q = append(q, e.Caller.Func)
					}
				}
			}
			if nIn == 0 {
				return false, w.Name() + " stores definitions and is reachable from " + g.Name() + ", outside decode"
			}
		}
		if w == dec {
			return false, "decode itself stores definitions"
		}
		for _, ci := range allCalls(dec) {
			g := ci.Common().StaticCallee()
			if g == nil || !up[g] || ci == fnCall {
				continue
			}
			after := fnCall.Block().Dominates(ci.Block()) && (fnCall.Block() != ci.Block() || instrIndex(fnCall.(ssa.Instruction)) < instrIndex(ci.(ssa.Instruction)))
			if !after {
				return false, "decode reaches " + w.Name() + ", which stores definitions, before " + fn.Name() + " (" + c.pos(ci.Pos()) + ")"
			}
		}
	}
	// (d)
	res := c.perFileState()
	if !res.found {
		return false, "per-file decoder state undecided: " + res.why
	}
	for _, m := range res.missing {
		if pathsOverlap(m, "defmsgs") {
			return false, "the definition slots of one file survive into the next"
		}
	}
	return true, fmt.Sprintf("the only definition a data record can select in %s is the one it just stored, whose message number was tested == %d, a known message; other definition stores (%d function(s)) run after it; each decode starts with empty slots", fn.Name(), K.Int64(), len(writers))
}
