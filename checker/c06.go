package main

import (
	"fmt"
	"go/ast"
	"go/token"
	"go/types"
	"sort"
	"strings"

	"golang.org/x/tools/go/ssa"
)

func init() {
	register(&propDef{
		id: "C06", level: "other", run: runC06,
		explanation: "The statement (field-for-field equality after Encode then Decode) is value-level and is NOT decided. Decided are structural necessary conditions that tie the two halves together and are claimed nowhere else: (R1) every definition the encoder can emit for a field of a hosted message (base type = profile base, size = base size x profile length, or the profile length for strings) lies in the exactly computed accepted set of the decoder's validator for that very profile row, so decoding Encode's output cannot be rejected at a definition; (R2) the per-kind conversions are inverse shapes: UTC time encodeTime/decodeDateTime, local time (encoder adds the zone offset of the value, decoder builds the zone from local minus UTC and returns the UTC instant in it), coordinates (encoder writes the stored semicircles, decoder passes the 32-bit value through the coordinate constructor, whose accepted set C17 decides exactly); (R3) strings: the encoder clamps to size-1 bytes and zero-fills, the decoder scans to the first NUL within the size and sets the prefix; (R4) arrays: the encoder pads with the base type's invalid value from the table that C15 checks, the decoder yields size/element-size elements; (R5) unset fields: the decoder starts every record from a fresh all-invalid message (run here) and the encoder omits fields equal to the all-invalid twin (C07-R3). What is left undecided is exactly the behaviour: that the values are equal. Added: every multi-byte write of the record writers goes through encoder.arch (C06-R2-byte-order), and the list whose elements are written is the file's own list indexed 0,1,2,... (C06-R5-list-order). Run as premises: the decoder's arm table (C02-R2-arm-table) and C18's slice/guard rules. Also run here: the decoder's scratch-buffer discipline (C02-R7-scratch-escape: a decoded value owns its bytes) and the routers' shape (C03-2-*: a routed message is appended to its own list or overwrites its own slot, nothing else), premises of 'same messages, same order, same values'. (R6-private-buffer) the staging buffer Encode writes out is a fresh local of the call.",
		trusted:     []string{"exact folding of validateFieldDef", "time.Time Zone/In/FixedZone semantics", "C15 and C17 results"},
	})
}

func runC06(c *Ctx, r *Report) {
	p, perr := c.profile()
	if p == nil || len(perr) > 0 {
		r.fail("C06-R1-emitted-accepted", "profile", "", "profile tables not readable")
		return
	}
	m := c.matrix()
	for i, e := range m.armErrs {
		r.undecided("C06-R1-emitted-accepted", fmt.Sprintf("matrix-%d", i), "", e)
	}
	encodeListOrder(c, r, "C06-R5-list-order")
	// the component rule as far as the shape of the expansion decides it (the slice of each source,
	// under exactly its own invalid test): C18's R2 family, without the accumulator and byte-array
	// rules (which carry C18's known findings)
	r.only = map[string]bool{"C18-R2-bit-slice": true, "C18-R2-invalid-guard": true, "C18-R2-contiguous": true, "C18-R2-source-order": true, "C18-R2-subfield-agreement": true}
	c18Rest(c, r, c.fit.TypesInfo)
	r.only = nil
	decoderArms(c, r) // the decoder stores each base type through its own setter family: Encode's bytes come back as the values written
	// the decoded value owns its bytes (no alias of the decoder's scratch buffer): otherwise the value read
	// back changes when the next field is parsed
	c02ScratchEscape(c, r)
	// "the same number of messages of each type in the same order": each routed message is appended to
	// (or overwrites the single slot of) its own member and nothing else happens in the router
	r.only = map[string]bool{"C03-2-router": true, "C03-2-arm": true, "C03-2-bijection": true, "C03-2-default": true}
	runC03(c, r)
	r.only = nil
	// what Encode hands to the writer is this call's bytes only: the staging buffer is a fresh local
	encodePrivateBuffer(c, r, "C06-R6-private-buffer")
	c02ArrayElementsKept(c, r)
	// "unset fields stay invalid": the timestamp of a record is set from the reference only for compressed
	// headers (C12's guard rules)
	r.only = map[string]bool{"C12-R3-guards": true, "C12-R2-who-rebases": true}
	runC12(c, r)
	r.only = nil
	encoderByteOrder(c, r, "C06-R2-byte-order")
	ev := newEvaluator(c)
	hosted := c.hostedMessages()
	typeToNum := map[string]int64{}
	for k, t := range p.MsgTypes {
		typeToNum[t.Obj().Name()] = k
	}
	var names []string
	for n := range hosted {
		names = append(names, n)
	}
	sort.Strings(names)
	nRows := 0
	for _, name := range names {
		mn, ok := typeToNum[name]
		if !ok {
			continue
		}
		for _, num := range p.sortedNums(mn) {
			pf := p.Fields[mn][num]
			nRows++
			key := fmt.Sprintf("%s.%d", name, num)
			cls := fmt.Sprintf("Fit(%d)", pf.T)
			tbl := m.accepted[cls]
			bi := c.baseInfo(ev, pf.Base)
			if tbl == nil || bi.Err != "" {
				r.undecided("C06-R1-emitted-accepted", key, c.pos(pf.Pos), "no accepted set for class "+cls)
				continue
			}
			ds := bi.Size
			switch {
			case pf.Base == 0x07 && pf.Array:
				r.ok("C06-R1-emitted-accepted", key, c.pos(pf.Pos), "string array: the encoder refuses it before writing anything (C07)")
				continue
			case pf.Base == 0x07:
				ds = pf.Length
			case pf.Array:
				ds = bi.Size * pf.Length
			}
			if ds < 0 || ds > 255 {
				r.fail("C06-R1-emitted-accepted", key, c.pos(pf.Pos), fmt.Sprintf("declared size %d does not fit one byte", ds))
				continue
			}
			r.check(tbl[pf.Base][ds], "C06-R1-emitted-accepted", key, c.pos(pf.Pos), fmt.Sprintf("definition (base %#02x, size %d) is accepted by the decoder's validator for this row", pf.Base, ds),
				fmt.Sprintf("the definition Encode emits for %s field %d (base type %#02x, size %d) is REJECTED by validateFieldDef: a File containing this field cannot be decoded after encoding", name, num, pf.Base, ds))
		}
	}
	r.set("hosted_rows", nRows)
	r.need("rows of hosted messages", nRows, 300)

	// ---- R2 conversions -------------------------------------------------------------------------
	c12Epoch(c, r) // encodeTime / decodeDateTime are inverse shapes around timeBase
	enc := c.ssaFn(c.fn(c.fit, "encoder.encodeValue"))
	if enc == nil {
		r.fail("C06-R2-inverse-conversions", "encodeValue", "", "not found")
	} else {
		// what each kind arm hands to binary.Write, read from the path terms (helpers inlined)
		writes, wwhy := c.encodeValueWrites()
		found := map[int]string{}
		for _, w := range writes {
			found[w.kind] = w.val
		}
		want := map[int]string{
			kindUTC:   "(iface (call fit.encodeTime (assert:Time p1)))",
			kindLocal: "(iface (conv:uint32 " + symBin(token.ADD, "(conv:int64 (call fit.encodeTime (assert:Time p1)))", "(conv:int64 (ext1 (call time.Zone (assert:Time p1))))") + "))",
			kindLat:   "(iface (fld0 (assert:Latitude p1)))",
			kindLng:   "(iface (fld0 (assert:Longitude p1)))",
		}
		names := map[int]string{kindUTC: "utc-time", kindLocal: "local-time", kindLat: "latitude", kindLng: "longitude"}
		for k := 1; k <= 4; k++ {
			r.check(wwhy == "" && found[k] == want[k], "C06-R2-inverse-conversions", "encodeValue/"+names[k], c.pos(enc.Pos()), "encoder writes "+found[k], "the "+names[k]+" arm of encodeValue does not write the inverse of what the decoder computes (found "+found[k]+" "+wwhy+", expected "+want[k]+")")
		}
	}
	// decoder side of coordinates: NewLatitude(int32(arch.Uint32(tmp[:4]))) set into the field
	if fn := c.ssaFn(c.fn(c.fit, "decoder.parseDataFields")); fn != nil {
		for _, ctor := range []string{"NewLatitude", "NewLongitude"} {
			ok := false
			for _, ci := range allCalls(fn) {
				if f := ci.Common().StaticCallee(); f != nil && f.Name() == ctor {
					a := stripAddrs(pathOf(ci.Common().Args[0]))
					if strings.HasPrefix(a, "conv<int32>(call[*dm.arch.Uint32](d.tmp[:") {
						ok = true
					}
				}
			}
			r.check(ok, "C06-R2-inverse-conversions", "parseDataFields/"+ctor, c.pos(fn.Pos()), ctor+"(int32(dm.arch.Uint32(d.tmp[:4])))", "the decoder does not pass the 32-bit wire value through "+ctor)
		}
	}
	// local time decode shape is C12-R4-conversion
	if fn := c.ssaFn(c.fn(c.fit, "decoder.parseTimeStamp")); fn != nil {
		okUTC, okNoRef, okRef := c12Branches(c, fn)
		r.check(okUTC && okNoRef && okRef, "C06-R2-inverse-conversions", "parseTimeStamp/shapes", c.pos(fn.Pos()), "decoder: UTC = epoch + seconds; local = reference instant in a zone of offset local - UTC (0 without reference)", "parseTimeStamp's conversion shapes changed")
	}

	// ---- R3 strings ---------------------------------------------------------------------------------
	c06Strings(c, r)
	// ---- R4 arrays ----------------------------------------------------------------------------------
	if fd := c.decl(c.fn(c.fit, "encoder.writeField")); fd != nil {
		c.inlineTypeAccessorLocals(fd)
		okInv := false
		ast.Inspect(fd.Body, func(n ast.Node) bool {
			if as, ok := n.(*ast.AssignStmt); ok && len(as.Lhs) == 1 && len(as.Rhs) == 1 && exprStr(as.Lhs[0]) == "invalid" && strings.ReplaceAll(exprStr(as.Rhs[0]), " ", "") == "f.t.BaseType().Invalid()" {
				okInv = true
			}
			return true
		})
		r.check(okInv, "C06-R4-array-padding", "writeField/invalid-padding", c.pos(fd.Pos()), "short arrays are padded with the base type's invalid value", "writeField does not pad with f.t.BaseType().Invalid()")
	}
	if fd := c.decl(c.fn(c.typ, "Base.Invalid")); fd != nil {
		src := ""
		ast.Inspect(fd.Body, func(n ast.Node) bool {
			if rs, ok := n.(*ast.ReturnStmt); ok && len(rs.Results) == 1 {
				src += strings.ReplaceAll(exprStr(rs.Results[0]), " ", "") + ";"
			}
			return true
		})
		r.check(strings.Contains(src, "goinvalid[t.index()]"), "C06-R4-array-padding", "types.Base.Invalid", c.pos(fd.Pos()), "Invalid() is the goinvalid table entry (values checked by C15-7-goinvalid)", "types.Base.Invalid does not return goinvalid[t.index()]")
	}
	if fn := c.ssaFn(c.fn(c.fit, "decoder.parseFitFieldArray")); fn != nil {
		n := 0
		ok := true
		for _, ci := range allCalls(fn) {
			if f := ci.Common().StaticCallee(); f != nil && f.String() == "reflect.MakeSlice" {
				n++
				a1, a2 := stripAddrs(pathOf(ci.Common().Args[1])), stripAddrs(pathOf(ci.Common().Args[2]))
				if a1 != a2 || !strings.HasPrefix(a1, "(conv<int>(*alloc[dfield].size)/call[("+typesPath+".Base).Size](") {
					ok = false
				}
			}
		}
		r.check(ok && n == 1, "C06-R4-array-padding", "parseFitFieldArray/element-count", c.pos(fn.Pos()), "decoded arrays have size / element-size elements (= profile length for Encode's output)", "parseFitFieldArray does not build a slice of size/Size(base) elements")
	}
	// ---- R5 unset fields --------------------------------------------------------------------------------
	c03MessageFlows(c, r)
	// every message is written, under a definition that covers it, with the profile's own sizes
	encodeDefCovers(c, r, "C06-R1-emitted-accepted")
	encodeProfileRows(c, r, "C06-R1-emitted-accepted")
	encodeNoRowCopies(c, r, "C06-R1-emitted-accepted")
	c07EveryMessageWritten(c, r)
	_ = types.Typ
	_ = ssa.Value(nil)
}

func c06Strings(c *Ctx, r *Report) {
	_ = c.fit.TypesInfo
	// encoder: length := len(str); if length > int(size)-1 { length = int(size)-1 }; bstr := make([]byte, size); copy(bstr, str[:length])
	if fn := c.ssaFn(c.fn(c.fit, "encodeString")); fn != nil {
		fd := c.decl(c.fn(c.fit, "encodeString"))
		// on the function's path terms (names and spelling do not matter): every success path returns
		// make([]byte, size) after exactly one copy into it of str[:h], where h is len(str) on the paths
		// with len(str) <= int(size)-1 and int(size)-1 on the others (or min of the two)
		o := symPaths(fn, nil, 1)
		ok := o.why == ""
		nSucc := 0
		const lim = "(- (conv:int p1) 1)"
		for _, p := range o.paths {
			if len(p.rets) != 2 || p.rets[1] != "nil" {
				continue
			}
			nSucc++
			if p.rets[0] != "(make p1 p1)" && p.rets[0] != "(make (conv:int p1) (conv:int p1))" {
				ok = false
			}
			buf := p.rets[0]
			nCopy := 0
			for _, cl := range p.calls {
				if !strings.HasPrefix(cl, "(copy ") {
					continue
				}
				nCopy++
				parts := symSplit(cl[1 : len(cl)-1])
				if len(parts) != 3 || parts[1] != buf {
					ok = false
					continue
				}
				over := false // the path has len(str) > size-1
				known := false
				for _, cnd := range p.conds {
					switch cnd[2:] {
					case "(> (len p0) " + lim + ")", "(< " + lim + " (len p0))":
						over, known = cnd[0] == 'T', true
					case "(<= (len p0) " + lim + ")", "(>= " + lim + " (len p0))":
						over, known = cnd[0] == 'F', true
					}
				}
				switch parts[2] {
				case "(slice p0  (min (len p0) " + lim + "))", "(slice p0  (min " + lim + " (len p0)))":
				case "(slice p0  " + lim + ")":
					if !known || !over {
						ok = false
					}
				case "(slice p0  (len p0))", "p0":
					if !known || over {
						ok = false
					}
				default:
					ok = false
				}
			}
			if nCopy != 1 {
				ok = false
			}
		}
		if nSucc == 0 {
			ok = false
		}
		r.check(ok, "C06-R3-strings", "encodeString/clamp-and-terminate", c.pos(fd.Pos()), "at most size-1 bytes are copied into a zeroed buffer of size bytes: always NUL-terminated", "encodeString no longer clamps to size-1 bytes in a zeroed buffer: a string of exactly the field size would lose its terminator (or more is copied than fits)")
	}
	ok, why, pos := stringArm(c)
	r.check(ok, "C06-R3-strings", "parseFitField/string-arm", pos, why, "the scalar string arm is not `SetString(string(tmp[:j]))` with j the index of the first 0x00 inside the field (or the field size): "+why)
}

// stringArm decides on SSA that the scalar string arm hands reflect's SetString exactly the bytes
// of the scratch buffer before the first NUL inside the field: the argument is a direct string
// conversion of tmp[:J] (no function in between), and J is either the counter of the scanning
// loop `for J = 0; J < size; J++ { if tmp[J] == 0 { break } }` or `bytes.IndexByte(tmp[:size], 0)`
// replaced by size when negative.
func stringArm(c *Ctx) (bool, string, string) {
	fn := c.ssaFn(c.fn(c.fit, "decoder.parseFitField"))
	if fn == nil {
		return false, "decoder.parseFitField not found", ""
	}
	var set ssa.CallInstruction
	n := 0
	for _, ci := range allCalls(fn) {
		if f := ci.Common().StaticCallee(); f != nil && f.String() == "(reflect.Value).SetString" {
			set = ci
			n++
		}
	}
	if n != 1 {
		return false, fmt.Sprintf("%d SetString calls", n), c.pos(fn.Pos())
	}
	pos := c.pos(set.Pos())
	cv, ok := set.Common().Args[1].(*ssa.Convert)
	if !ok {
		return false, "the string handed to SetString is not a direct conversion of scratch bytes: " + stripAddrs(pathOf(set.Common().Args[1])), pos
	}
	sl, ok := cv.X.(*ssa.Slice)
	if !ok || !strings.HasSuffix(pathOf(sl.X), ".tmp") || sl.High == nil {
		return false, "the converted bytes are not a prefix of the scratch buffer: " + stripAddrs(pathOf(cv.X)), pos
	}
	if sl.Low != nil {
		if k, isC := sl.Low.(*ssa.Const); !isC || k.Int64() != 0 {
			return false, "the converted bytes do not start at the beginning of the field", pos
		}
	}
	isSize := func(v ssa.Value) bool {
		p := stripAddrs(pathOf(v))
		return strings.HasPrefix(p, "conv<int>(") && strings.HasSuffix(p, ".size)")
	}
	isZero := func(v ssa.Value) bool {
		k, ok := v.(*ssa.Const)
		return ok && k.Value != nil && k.Int64() == 0
	}
	tmpAt := func(v ssa.Value, idx ssa.Value) bool { // load of tmp[idx]
		ld, ok := v.(*ssa.UnOp)
		if !ok || ld.Op != token.MUL {
			return false
		}
		ia, ok := ld.X.(*ssa.IndexAddr)
		return ok && ia.Index == idx && strings.HasSuffix(pathOf(ia.X), ".tmp")
	}
	J, ok := sl.High.(*ssa.Phi)
	if !ok || len(J.Edges) != 2 {
		return false, "the prefix length is not a recognised first-NUL index: " + stripAddrs(pathOf(sl.High)), pos
	}
	// (a) scanning loop
	for i := 0; i < 2; i++ {
		inc, ok := J.Edges[1-i].(*ssa.BinOp)
		if !isZero(J.Edges[i]) || !ok || inc.Op != token.ADD || inc.X != ssa.Value(J) {
			continue
		}
		if k, isC := inc.Y.(*ssa.Const); !isC || k.Int64() != 1 {
			continue
		}
		H := J.Block()
		hif, ok := H.Instrs[len(H.Instrs)-1].(*ssa.If)
		if !ok {
			continue
		}
		cond, ok := hif.Cond.(*ssa.BinOp)
		if !ok || cond.Op != token.LSS || cond.X != ssa.Value(J) || !isSize(cond.Y) {
			return false, "the scanning loop is not bounded by the field size", pos
		}
		B := H.Succs[0]
		bif, ok := B.Instrs[len(B.Instrs)-1].(*ssa.If)
		if !ok {
			return false, "the scanning loop body does not test the byte", pos
		}
		bc, ok := bif.Cond.(*ssa.BinOp)
		if !ok || (bc.Op != token.EQL && bc.Op != token.NEQ) || !tmpAt(bc.X, J) || !isZero(bc.Y) {
			return false, "the scanning loop does not stop at tmp[j] == 0x00", pos
		}
		// `== 0` leaves on the true edge, `!= 0` (the test folded into the loop condition) on the false edge
		zeroSucc, otherSucc := B.Succs[0], B.Succs[1]
		if bc.Op == token.NEQ {
			zeroSucc, otherSucc = otherSucc, zeroSucc
		}
		// the non-zero edge continues the loop (reaches the increment), the zero edge leaves it
		if inc.Block() != otherSucc && !(len(otherSucc.Succs) == 1 && otherSucc.Succs[0] == H) {
			return false, "the byte test does not continue the scan on a non-zero byte", pos
		}
		if zeroSucc == H || zeroSucc == inc.Block() {
			return false, "a zero byte does not end the scan", pos
		}
		return true, "SetString(string(tmp[:j])), j from the scanning loop bounded by the field size that stops at the first 0x00", pos
	}
	// (b) bytes.IndexByte(tmp[:size], 0), size when negative
	for i := 0; i < 2; i++ {
		call, ok := J.Edges[i].(*ssa.Call)
		if !ok || !isSize(J.Edges[1-i]) {
			continue
		}
		f := call.Common().StaticCallee()
		if f == nil || f.String() != "bytes.IndexByte" || !isZero(call.Common().Args[1]) {
			continue
		}
		src, ok := call.Common().Args[0].(*ssa.Slice)
		if !ok || !strings.HasSuffix(pathOf(src.X), ".tmp") || src.High == nil || !isSize(src.High) || (src.Low != nil && !isZero(src.Low)) {
			return false, "IndexByte does not search tmp[:size]", pos
		}
		neg := func(v ssa.Value) bool {
			bo, ok := v.(*ssa.BinOp)
			if !ok || bo.X != ssa.Value(call) {
				return false
			}
			k, isC := bo.Y.(*ssa.Const)
			return isC && (bo.Op == token.LSS && k.Int64() == 0 || bo.Op == token.EQL && k.Int64() == -1)
		}
		if !domByBoolEdge(fn, J.Block().Preds[1-i], true, neg) && J.Block().Preds[1-i] != nil {
			// the size edge may come straight from the block of the test
			okEdge := false
			p := J.Block().Preds[1-i]
			if pif, ok := p.Instrs[len(p.Instrs)-1].(*ssa.If); ok && neg(pif.Cond) && p.Succs[0] == J.Block() {
				okEdge = true
			}
			if !okEdge {
				return false, "the field size replaces the index on an edge that is not `index < 0`", pos
			}
		}
		return true, "SetString(string(tmp[:j])), j = bytes.IndexByte(tmp[:size], 0), size when there is no 0x00", pos
	}
	return false, "the prefix length is not a recognised first-NUL index: " + stripAddrs(pathOf(sl.High)), pos

}
