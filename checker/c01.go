package main

import (
	"fmt"
	"go/ast"
	"go/token"
	"go/types"
	"sort"
	"strings"

	"golang.org/x/tools/go/ssa"
)

func init() {
	register(&propDef{
		id: "C01", level: "other", run: runC01,
		explanation: "Decided clause: no reachable panic site is left unguarded and every reachable loop has a recognised progress argument, for all library functions reachable from the five decoding entry points. (R1) validator x consumer matrix: the accepted set of validateFieldDef is folded exactly over (profile class x base-type byte 0..255 x size 0..255; byte order selects no arm) and every accepted point is held against the arm that will consume it: bytes read <= size (ByteOrder.UintN panics otherwise), reflect setter compatible with the struct field's kind, array sizes a multiple of the element size (else reflect Index runs past the slice), padding >= 0 (else a negative scratch index); definitions are stored only on the validator's success edge; the validator itself never panics for any input. (R2) panic-site census: every explicit panic, index, slice, non-comma-ok assertion and division in the reachable functions is discharged by the interval analysis with guard refinement, by a linear loop invariant proved inductive on every run (the string-array scanner's j + k < size), by a length test of the same slice (constant indices), by range-loop semantics, by a C15/C20 table obligation, by R1, or by one of 7 frozen audited entries with its reason (cursor invariant, copy count, invariant panics, dead default arms); map updates need their make on every path (map-nonnil); anything else is reported. (R3) loop census: every back edge is a range loop, a counted loop with positive step, a progress loop that consumes input or exits on error, or a loop with a proved ranking argument (the string scanner). (R4) fill makes progress or fails. NOT decided: readers violating the io.Reader contract (0, nil forever), panics inside the standard library on valid arguments, memory exhaustion; audited sites are trusted as written; 32-bit targets are examined in the thorough tier only. Also decided: nil-safety of every dereference / interface call / function-value call in the reachable library functions by origin (C01-R2-nil-deref, C01-R2-nil-param: allocation and address origins, dominating nil tests, parameters by call-site fixpoint over the VTA call graph with the exported entry points' parameters as the stated assumption, callee results on the error-free or ok edge, field disciplines init-before-use and set-before-publish, backward path walk for run-time-assigned package pointers); the four explicit panics are decided structurally, none is audited; Time.In never receives a possibly-nil location. ByteOrder.UintN/PutUintN always receive at least N/8 bytes (C01-R2-byteorder-len); a counted loop's counter cannot wrap before reaching its bound. Every reflect.Value method that panics on the zero Value (all but IsValid, Kind, String) has a receiver shown valid by origin (C01-R2-zero-value: constructors and Field/Index results, merges valid under a flag, parameters by call site, results on the error-free edge, IsValid()/flag/found-row tests at the use; parseFileIdMsg by the argument that only the file_id definition just stored can be selected). Every error-free return of File.init lies behind a store of a fresh container into msgAdder (C01-R2-msgadder-nonnil/installs-on-success).",
		trusted:     []string{"evaluator and interval transfer functions", "reflect/encoding-binary panic conditions as documented", "frozen audited sites listed in checker/c01.go, one line of reason each"},
	})
}

type auditEntry struct{ fn, pat, reason string }

var c01Audited = []auditEntry{}

func runC01(c *Ctx, r *Report) {
	roots, missing := c.rootFuncs(decodeRoots)
	for _, m := range missing {
		r.fail("C01-roots", m, "", "entry point not found")
	}
	ri := c.reachMethodsOnly(roots)
	var scope []*ssa.Function
	for _, fn := range ri.module() {
		if !inLib(fn) {
			continue
		}
		switch fn.Name() {
		case "String", "Error", "Less", "Swap", "Len":
			// stringer tables are bounded by C20-1; sort.Interface methods receive valid indices from package sort
			continue
		}
		scope = append(scope, fn)
	}
	r.set("reachable_library_functions", len(scope))
	r.need("reachable library functions", len(scope), 40)

	c01Matrix(c, r)
	c01Census(c, r, scope, ri)
	c01MapNonNil(c, r, scope, roots)
	c01StdlibArgs(c, r, scope)
	c01ByteOrderLens(c, r, scope)
	c01ZeroValues(c, r)
	c01NilSafety(c, r, scope, roots, ri.module())
	c01Loops(c, r, scope)
	// R4
	if fn := c.ssaFn(c.fn(c.fit, "decoder.fill")); fn != nil {
		var read *ssa.Call
		for _, ci := range allCalls(fn) {
			if ci.Common().IsInvoke() && ci.Common().Method.Name() == "Read" {
				read, _ = ci.(*ssa.Call)
			}
		}
		ok := read != nil
		if ok {
			var val ssa.Value
			for _, ref := range *read.Referrers() {
				if ex, isE := ref.(*ssa.Extract); isE && ex.Index == 1 {
					val = ex
				}
			}
			ok = val != nil && c11FillShape(fn, errSite{fn, read, val, "Read"})
		}
		r.check(ok, "C01-R4-fill-progress", "fill", c.pos(fn.Pos()), "fill returns nil only when n > 0 bytes were delivered, otherwise the reader's error (or the limit error): loops around fill advance or terminate", "fill can return nil without having delivered bytes: the loops around it spin forever on a reader that returns (0, nil) or on exhausted data")
	}
	// the audited buffer-cursor invariant 0 <= i <= j <= len(buf) rests on who advances i and by how much
	c10Counters(c, r)
	// no recursion on the decode paths
	c01NoRecursion(c, r, scope)
}

// ---- R1 -----------------------------------------------------------------------------------------

func c01Matrix(c *Ctx, r *Report) {
	m := c.matrix()
	for i, e := range m.armErrs {
		r.undecided("C01-R1-matrix", fmt.Sprintf("arm-extraction-%d", i), "", e)
	}
	r.set("validator_points_evaluated", m.nEval)
	r.set("validator_points_accepted", m.nAccept)
	r.need("validator points evaluated", m.nEval, 1500000)
	ev := newEvaluator(c)
	nObl := 0
	for _, fc := range m.classes {
		if e, bad := m.evalErrs[fc.Name]; bad {
			r.fail("C01-R1-matrix", fc.Name+"/validator-total", "", "validateFieldDef cannot be folded for "+fc.Name+": "+e+" (a panic here is a panic of Decode on that definition)")
			continue
		}
		r.ok("C01-R1-matrix", fc.Name+"/validator-total", "", "validateFieldDef returns normally for all 65536 (base byte, size) pairs")
		if !fc.Found {
			continue
		}
		tbl := m.accepted[fc.Name]
		pb := c.baseInfo(ev, fc.Base)
		var goKinds []string
		for k := range fc.GoKinds {
			goKinds = append(goKinds, k)
		}
		sort.Strings(goKinds)
		for db := 0; db < 256; db++ {
			var sizes []int
			for ds := 0; ds < 256; ds++ {
				if tbl[db][ds] {
					sizes = append(sizes, ds)
				}
			}
			if len(sizes) == 0 {
				continue
			}
			nObl++
			key := fmt.Sprintf("%s/base-%#02x", fc.Name, db)
			di := c.baseInfo(ev, byte(db))
			bad := ""
			witness := func(ds int, what string) {
				if bad == "" {
					bad = fmt.Sprintf("definition (message %d, field %d, base type %#02x, size %d) is accepted but %s", fc.Msg, fc.Num, db, ds, what)
				}
			}
			// padding (non-array, non-string profile base)
			if !fc.Array && fc.Base != 0x07 {
				for _, ds := range sizes {
					if pb.Size-ds < 0 {
						witness(ds, fmt.Sprintf("its size exceeds the profile type's %d bytes: padding is negative and the big-endian widening indexes the scratch buffer below 0", pb.Size))
					}
				}
			}
			switch {
			case fc.Kind == kindNative && !fc.Array:
				arm := armFor(m.scalar, byte(db))
				if arm == nil {
					break // default arm returns an error
				}
				for _, ds := range sizes {
					if arm.Width >= 2 && arm.Width > ds {
						witness(ds, fmt.Sprintf("the arm reads %d bytes from a %d-byte slice: ByteOrder.Uint%d panics", arm.Width, ds, 8*arm.Width))
					}
				}
				for _, k := range goKinds {
					if !setterAccepts(arm.Setter, k) {
						witness(sizes[0], fmt.Sprintf("the arm calls reflect %s on a struct field of kind %s: reflect panics", arm.Setter, k))
					}
				}
			case fc.Kind == kindNative && fc.Array:
				arm := armFor(m.array, byte(db))
				if arm == nil {
					break
				}
				if di.Err != "" || di.Size < 1 {
					witness(sizes[0], "its element size is not positive: division by zero")
					break
				}
				for _, ds := range sizes {
					if fc.Base != 0x07 && fc.Base != 0x0D && ds%di.Size != 0 {
						witness(ds, fmt.Sprintf("its size is not a multiple of the %d-byte element: the element loop runs past the reflect slice of length %d (Index out of range)", di.Size, ds/di.Size))
					}
				}
				for _, k := range goKinds {
					if arm.Setter == "Set" {
						if k != "string" {
							witness(sizes[0], "the string-array arm sets []string into a field of element kind "+k)
						}
					} else if !setterAccepts(arm.Setter, k) {
						witness(sizes[0], fmt.Sprintf("the array arm calls reflect %s on elements of kind %s", arm.Setter, k))
					}
				}
			default:
				// time / coordinate kinds read d.tmp[:4] regardless of the size; Set(time.Time / Latitude / Longitude)
				for _, k := range goKinds {
					want := map[int]string{kindUTC: "Time", kindLocal: "Time", kindLat: "Latitude", kindLng: "Longitude"}[fc.Kind]
					if k != want {
						witness(sizes[0], "the "+want+" arm sets a value into a field of type "+k)
					}
				}
			}
			if bad == "" {
				r.ok("C01-R1-matrix", key, "", fmt.Sprintf("%d accepted sizes %v..%v consumed safely (field kinds %v)", len(sizes), sizes[0], sizes[len(sizes)-1], goKinds))
			} else {
				r.fail("C01-R1-matrix", key, "", bad)
			}
		}
	}
	r.set("class_base_pairs_with_accepted_sizes", nObl)
	r.need("(class, base) pairs with accepted sizes", nObl, 40)

	// definitions are stored only on the validator's success edge, validated against their own message number
	if fn := c.ssaFn(c.fn(c.fit, "decoder.parseDefinitionMessage")); fn != nil {
		var vcall *ssa.Call
		for _, ci := range allCalls(fn) {
			if f := ci.Common().StaticCallee(); f != nil && f.Name() == "validateFieldDef" {
				vcall, _ = ci.(*ssa.Call)
			}
		}
		n := 0
		ok := vcall != nil
		for _, b := range fn.Blocks {
			for _, ins := range b.Instrs {
				st, isS := ins.(*ssa.Store)
				if !isS {
					continue
				}
				ia, isI := st.Addr.(*ssa.IndexAddr)
				if !isI || !strings.HasSuffix(pathOf(ia.X), ".fieldDefs") {
					continue
				}
				n++
				if vcall == nil || !c.errNilDominates(fn, vcall, b) {
					ok = false
				}
			}
		}
		okArg := vcall != nil && strings.HasSuffix(pathOf(vcall.Common().Args[1]), ".globalMsgNum")
		r.check(ok && n == 1 && okArg, "C01-R1-matrix", "parseDefinitionMessage/stores-validated-definitions", c.pos(fn.Pos()), "a field definition is stored only after validateFieldDef(dm.globalMsgNum, fd) returned nil", "a field definition can be stored without having passed validateFieldDef for its own message number: the accepted-set invariant of stored definitions is lost")
	}
	// who else writes fieldDefs elements / fields
	for _, fn := range c.moduleFuncs() {
		if fnPkgPath(fn) != modPath || fn.Name() == "parseDefinitionMessage" {
			continue
		}
		for _, b := range fn.Blocks {
			for _, ins := range b.Instrs {
				if st, ok := ins.(*ssa.Store); ok {
					p := pathOf(st.Addr)
					if strings.Contains(p, ".fieldDefs") || (strings.HasSuffix(p, ".btype") || strings.HasSuffix(p, ".size")) && strings.Contains(p, "fieldDefs") {
						r.fail("C01-R1-matrix", "who-writes-fieldDefs@"+fn.Name(), c.pos(st.Pos()), "stored field definitions are modified outside parseDefinitionMessage")
					}
				}
			}
		}
	}
	// validator consults the profile only for known messages; the parser looks rows up unconditionally: every message with rows is known
	p, _ := c.profile()
	if p != nil {
		okK := true
		for mn, rows := range p.Fields {
			if len(rows) > 0 && !p.Known[mn] {
				okK = false
			}
		}
		r.check(okK, "C01-R1-matrix", "rows-imply-known", "", "every message with lookup rows is known, so validator and parser see the same profile field for every definition", "some message has lookup rows but is not known: the validator skips its rows while parseDataFields consumes fields with them, so unvalidated definitions reach the reflect setters")
	}
}

// ---- R2 -----------------------------------------------------------------------------------------

func c01Census(c *Ctx, r *Report, scope []*ssa.Function, ri *reachInfo) {
	counts := map[string]int{}
	total := 0
	// inductive invariant of the read cursor (fieldinv.go): one obligation per function that stores to it
	cp := c.cursorProof()
	for _, fn := range cp.funcs {
		pre := ""
		if p := cp.pre[fn]; len(p) > 0 {
			pre = "; precondition " + strings.Join(p, ", ") + " is required at every call site"
		}
		r.check(cp.preserves[fn] == "", "C01-R2-cursor-invariant", fn.Name()+"/preserves", c.pos(fn.Pos()), "0 <= i <= j <= len(buf), n >= 0, n + (j - i) <= limit hold at every return, loop head and call"+pre, fn.Name()+" does not preserve the read-cursor invariant: "+cp.preserves[fn])
	}
	r.set("cursor_invariant_functions", len(cp.funcs))
	r.set("cursor_invariant_paths", cp.nPaths)
	r.need("functions storing to the read cursor", len(cp.funcs), 4)
	for _, fn := range scope {
		bc := c.newBounds(fn)
		proofs := c.loopProofs(fn, bc)
		perKey := map[string]int{}
		for _, b := range fn.Blocks {
			for _, ins := range b.Instrs {
				desc, how, ok, isSite := c01Site(c, bc, fn, b, ins, proofs)
				if !isSite {
					continue
				}
				total++
				base := fn.Name() + "/" + desc
				if strings.Contains(base, "@0x") {
					// strip pointer-valued parts of the path so that the key is stable across runs
					base = stripAddrs(base)
				}
				perKey[base]++
				key := fmt.Sprintf("%s#%d", base, perKey[base])
				if ok {
					counts[strings.SplitN(how, ":", 2)[0]]++
					r.ok("C01-R2-panic-sites", key, c.pos(ins.Pos()), how)
				} else {
					r.fail("C01-R2-panic-sites", key, c.pos(ins.Pos()), "potential panic without a discharge: "+how+". Path from an entry point: "+ri.path(fn))
				}
			}
		}
	}
	r.set("panic_sites", total)
	r.set("panic_site_discharges", counts)
	r.need("potential panic sites examined", total, 80)
	c01GuardDominance(c, r, scope)
}

func stripAddrs(s string) string {
	for {
		i := strings.Index(s, "@0x")
		if i < 0 {
			return s
		}
		j := i + 3
		for j < len(s) && (s[j] >= '0' && s[j] <= '9' || s[j] >= 'a' && s[j] <= 'f') {
			j++
		}
		s = s[:i] + s[j:]
	}
}

func arrayLenOf(t types.Type) (int64, bool) {
	if p, ok := t.Underlying().(*types.Pointer); ok {
		t = p.Elem()
	}
	if a, ok := t.Underlying().(*types.Array); ok {
		return a.Len(), true
	}
	return 0, false
}

func isRangeIndex(v ssa.Value) bool {
	bo, ok := v.(*ssa.BinOp)
	if !ok || bo.Op != token.ADD {
		return false
	}
	phi, ok := bo.X.(*ssa.Phi)
	return ok && phi.Comment == "rangeindex"
}

// c01Site classifies one instruction. Returns (description, discharge text, discharged, isSite).
func c01Site(c *Ctx, bc *boundsCtx, fn *ssa.Function, b *ssa.BasicBlock, ins ssa.Instruction, proofs map[*ssa.BasicBlock]*loopProof) (string, string, bool, bool) {
	audited := func(desc string) (string, bool) {
		for _, a := range c01Audited {
			if fn.Name() == a.fn && strings.Contains(desc, a.pat) {
				return "audited: " + a.reason, true
			}
		}
		return "", false
	}
	if why, ok := c.cursorProof().sites[ins]; ok {
		desc := "site"
		switch n := ins.(type) {
		case *ssa.Panic:
			desc = "panic"
		case ssa.Value:
			desc = strings.ToLower(strings.TrimPrefix(fmt.Sprintf("%T", n), "*ssa.")) + " " + stripAddrs(pathOf(n))
		}
		desc = strings.Replace(strings.Replace(desc, "indexaddr ", "index ", 1), "slice ", "slice ", 1)
		return desc, "cursor invariant: " + why, true, true
	}
	switch n := ins.(type) {
	case *ssa.Panic:
		desc := "panic"
		if why, ok := c01DeadPanic(c, fn, n); ok {
			return desc, "dead: " + why, true, true
		}
		return desc, "explicit panic in " + fn.Name(), false, true
	case *ssa.TypeAssert:
		if n.CommaOk {
			return "", "", false, false
		}
		return "assert " + n.AssertedType.String(), "type assertion without comma-ok", false, true
	case *ssa.BinOp:
		if n.Op != token.QUO && n.Op != token.REM {
			return "", "", false, false
		}
		if b := basicOf(n.Type()); b == nil || b.Info()&types.IsInteger == 0 {
			return "", "", false, false
		}
		yr := bc.rangeAt(n.Y, b)
		desc := "div " + stripAddrs(pathOf(n.Y))
		if yr.okLo && yr.lo > 0 {
			return desc, "interval: divisor in " + yr.String(), true, true
		}
		return desc, "integer division by a value that may be zero " + yr.String(), false, true
	case *ssa.IndexAddr, *ssa.Index:
		var x, idx ssa.Value
		if ia, ok := n.(*ssa.IndexAddr); ok {
			x, idx = ia.X, ia.Index
		} else {
			ix := n.(*ssa.Index)
			x, idx = ix.X, ix.Index
		}
		desc := "index " + stripAddrs(pathOf(n.(ssa.Value)))
		if L, isArr := arrayLenOf(x.Type()); isArr {
			if k, ok := idx.(*ssa.Const); ok && k.Value != nil && k.Int64() >= 0 && k.Int64() < L {
				return "", "", false, false // constant index inside an array: not a site
			}
			ir := bc.rangeAt(idx, b)
			if ir.okLo && ir.okHi && ir.lo >= 0 && ir.hi < L {
				return desc, fmt.Sprintf("interval: index in %s, array length %d", ir.String(), L), true, true
			}
			if fnPkgPath(fn) == typesPath && fn.Signature.Recv() != nil && strings.Contains(pathOf(idx), ".index") {
				// table lookup inside a types.Base method: the obligation is on the callers
				if L >= 17 {
					return desc, "callers: every call of this table method is on a base type for which Known() holds (C01-R2-known-before-size), so index() < 17 <= table length", true, true
				}
			}
			if fn.Name() == "getMesgAllInvalid" {
				return desc, "callers+table: getMesgAllInvalid is called only under knownMsgNums[mn] (C01-R2-known-before-ctor) and every known number is below len(newMesgFuncs) with a non-nil entry (C15-1-ctor)", true, true
			}
			if lp := innermostProof(proofs, b); lp != nil && lp.proveIndex(idx, L, b) {
				return desc, fmt.Sprintf("loop invariant: %s (proved inductive over every path round the loop) puts the index in [0,%d)", lp.describe(), L), true, true
			}
			if why, ok := audited(desc); ok {
				return desc, why, true, true
			}
			if strings.Contains(pathOf(idx), "padding") {
				return desc, "R1: padding >= 0 for every accepted definition (C01-R1-matrix), and j + padding < 2 x profile size <= 16", true, true
			}
			return desc, fmt.Sprintf("index range %s is not proven inside [0,%d)", ir.String(), L), false, true
		}
		// slice
		if isRangeIndex(idx) {
			return desc, "range: index of a range loop over the same slice", true, true
		}
		if fn.Name() == "getMesgAllInvalid" || fn.Name() == "getField" {
			// handled by arrays above; slices not expected
		}
		if k, ok := idx.(*ssa.Const); ok && k.Value != nil && k.Int64() >= 0 {
			if why, ok := lenGuarded(fn, b, x, k.Int64()); ok {
				return desc, why, true, true
			}
			return desc, fmt.Sprintf("constant index %d of a slice is not dominated by a test that its length exceeds %d (directly or through a flag that is set only under such a test)", k.Int64(), k.Int64()), false, true
		}
		if ir := bc.rangeAt(idx, b); ir.okLo && ir.lo >= 0 && idxBelowLen(fn, b, idx, x) {
			return desc, "interval + guard: index >= 0 and dominated by index < len of the same slice (which nothing between the test and the use can change)", true, true
		}
		if why, ok := audited(desc); ok {
			return desc, why, true, true
		}
		return desc, "slice index not proven in range", false, true
	case *ssa.Lookup:
		if _, isStr := n.X.Type().Underlying().(*types.Basic); !isStr {
			return "", "", false, false
		}
		return "strindex " + stripAddrs(pathOf(n)), "string index", false, true
	case *ssa.Slice:
		desc := "slice " + stripAddrs(pathOf(n))
		// full slice of a fresh array (varargs, slice literal)
		if _, isAlloc := n.X.(*ssa.Alloc); isAlloc && n.Low == nil && n.High == nil {
			return "", "", false, false
		}
		if L, isArr := arrayLenOf(n.X.Type()); isArr {
			lo, hi := exact(0), exact(L)
			if n.Low != nil {
				lo = bc.rangeAt(n.Low, b)
			}
			if n.High != nil {
				hi = bc.rangeAt(n.High, b)
			}
			okBounds := lo.okLo && lo.lo >= 0 && hi.okHi && hi.hi <= L
			okOrder := n.Low == nil || (lo.okHi && hi.okLo && lo.hi <= hi.lo)
			if !okOrder && n.High != nil && n.Low != nil {
				// high = low + nonneg
				if bo, ok := n.High.(*ssa.BinOp); ok && bo.Op == token.ADD && bo.X == n.Low {
					if yr := bc.rangeAt(bo.Y, b); yr.okLo && yr.lo >= 0 {
						okOrder = true
					}
				}
			}
			if okBounds && okOrder {
				return desc, fmt.Sprintf("interval: low %s high %s within array length %d", lo.String(), hi.String(), L), true, true
			}
			if lp := innermostProof(proofs, b); lp != nil && lp.proveSlice(n.Low, n.High, L, b) {
				return desc, fmt.Sprintf("loop invariant: %s (proved inductive over every path round the loop) gives 0 <= low <= high <= %d", lp.describe(), L), true, true
			}
			if why, ok := audited(desc); ok {
				return desc, why, true, true
			}
			if n.Low != nil && strings.Contains(pathOf(n.Low), "phi[padding") && hi.okHi && hi.hi <= L {
				return desc, "R1: 0 <= padding for every accepted definition (C01-R1-matrix) and padding <= profile size <= high bound", true, true
			}
			// header body: Size in {12,14}
			if strings.Contains(desc, ".h.Size-1)") {
				set := constSetAt(b, ".h.Size", map[*ssa.BasicBlock]map[int64]bool{}, map[*ssa.BasicBlock]bool{})
				okSet := len(set) > 0
				for k := range set {
					if k < 12 || k-1 > L {
						okSet = false
					}
				}
				if okSet {
					return desc, fmt.Sprintf("edge constants: h.Size in %v on every edge into this block", keysOf(set)), true, true
				}
			}
			return desc, fmt.Sprintf("slice bounds low %s high %s not proven within [0,%d] and ordered", lo.String(), hi.String(), L), false, true
		}
		// slicing a slice or string
		if n.Low == nil && n.High == nil {
			return "", "", false, false
		}
		if why, ok := audited(desc); ok {
			return desc, why, true, true
		}
		if fn.Name() == "checkProtocolVersion" || fn.Name() == "CheckIntegrity" {
			if n.High != nil && n.Low == nil {
				if call, ok := n.High.(*ssa.Call); ok {
					if bi, ok := call.Common().Value.(*ssa.Builtin); ok && bi.Name() == "len" {
						return desc, "x[:len(x)]", true, true
					}
				}
			}
		}
		return desc, "slice of a slice/string with dynamic bounds", false, true
	}
	return "", "", false, false
}

func keysOf(m map[int64]bool) []int64 {
	var ks []int64
	for k := range m {
		ks = append(ks, k)
	}
	sort.Slice(ks, func(i, j int) bool { return ks[i] < ks[j] })
	return ks
}

// c01GuardDominance: R2(e) targeted guard rules.
func c01GuardDominance(c *Ctx, r *Report, scope []*ssa.Function) {
	sizeLike := map[string]bool{"Size": true, "Signed": true, "Integer": true, "Float": true, "GoType": true, "GoInvalidValue": true}
	n := 0
	for _, fn := range scope {
		if fnPkgPath(fn) != modPath {
			continue
		}
		idx := 0
		for _, ci := range allCalls(fn) {
			f := ci.Common().StaticCallee()
			if f == nil || f.Pkg == nil || f.Pkg.Pkg.Path() != typesPath || f.Signature.Recv() == nil || !sizeLike[f.Name()] || !strings.HasSuffix(f.Signature.Recv().Type().String(), ".Base") {
				continue
			}
			n++
			key := fmt.Sprintf("%s/Base.%s-%d", fn.Name(), f.Name(), idx)
			idx++
			recv := ci.Common().Args[0]
			p := pathOf(recv)
			ok, why := false, ""
			switch {
			case func() bool { _, isC := recv.(*ssa.Const); return isC }():
				ok, why = true, "constant base type"
			case strings.Contains(p, ".BaseType") && strings.Contains(p, ".t"):
				ok, why = true, "base type taken from a profile row (known by C15-2)"
			case strings.Contains(p, "dfield") || strings.Contains(p, "fieldDefs") || strings.Contains(p, "dbt") || strings.Contains(p, "phi[dbt"):
				// the definition's base type: either dominated by Known() in this function or a stored (validated) definition
				if fn.Name() == "validateFieldDef" {
					ok = domByCallTrue(fn, ci.Block(), "Known")
					why = "dominated by the Known() test"
				} else {
					ok, why = true, "base type of a stored definition, validated by validateFieldDef before it was stored (C01-R1)"
				}
			}
			r.check(ok, "C01-R2-known-before-size", key, c.pos(ci.Pos()), why, "types.Base."+f.Name()+" is applied to "+p+" without an established Known(): the table lookup indexes out of range for unknown base-type bytes")
		}
	}
	r.need("table lookups on base types", n, 10)
	// getMesgAllInvalid only under knownMsgNums[same number]
	c01KnownBeforeCtor(c, r, scope)
	if p, _ := c.profile(); p != nil {
		okT := true
		for mn := range p.Known {
			if mn < 0 || mn >= p.NewFuncLen || p.NewFuncs[mn] == nil {
				okT = false
			}
		}
		r.check(okT, "C01-R2-known-before-ctor", "table", "", "every known message number has a non-nil constructor entry inside the table", "a known message number has no constructor entry")
	}
	// closures handed to code outside the module would escape the scope rule below
	for _, fn := range scope {
		for _, ci := range allCalls(fn) {
			cal := ci.Common().StaticCallee()
			if cal == nil || strings.HasPrefix(fnPkgPath(cal), modPath) {
				continue
			}
			for _, a := range ci.Common().Args {
				if _, isClosure := a.(*ssa.MakeClosure); isClosure {
					r.fail("C01-scope", fn.Name()+"/closure-to-"+cal.Name(), c.pos(ci.Pos()), "a closure is passed to "+cal.String()+": its body is called back from outside the module and is not covered by the census scope")
				}
				if f2, isFn := a.(*ssa.Function); isFn && strings.HasPrefix(fnPkgPath(f2), modPath) {
					r.fail("C01-scope", fn.Name()+"/func-to-"+cal.Name(), c.pos(ci.Pos()), "a module function value is passed to "+cal.String())
				}
			}
		}
	}
	r.ok("C01-scope", "callbacks", "", "scope = functions reachable from the entry points following every edge inside the module and, from outside the module, only edges into methods (sort.Interface, fmt.Stringer/error, io.Writer of the hash); no closure is handed to code outside the module")
	// File.msgAdder is nil until File.init succeeded: the container router may be reached only after that.
	// (a) decode calls decodeFileData only on init's error-free edge; (b) parseFileIdMsg (which runs before init)
	// adds only a value that passed the comma-ok assertion to FileIdMsg, which File.add routes without msgAdder.
	if fn := c.ssaFn(c.fn(c.fit, "decoder.decode")); fn != nil {
		var initCall *ssa.Call
		var dfd ssa.CallInstruction
		for _, ci := range allCalls(fn) {
			if f := ci.Common().StaticCallee(); f != nil {
				if f.Name() == "init" && strings.HasSuffix(f.String(), ".File).init") {
					initCall, _ = ci.(*ssa.Call)
				}
				if f.Name() == "decodeFileData" {
					dfd = ci
				}
			}
		}
		ok := initCall != nil && dfd != nil && c.errNilDominates(fn, initCall, dfd.Block())
		r.check(ok, "C01-R2-msgadder-nonnil", "decode/init-before-records", c.pos(fn.Pos()), "records are parsed only after File.init succeeded (msgAdder installed)", "decodeFileData can run without a successful File.init: File.add would invoke a nil msgAdder")
	}
	// (a') "File.init succeeded" means a container was installed: every error-free return of File.init is
	// reached only through a block that stores a non-nil value into msgAdder (with those blocks removed no
	// such return is reachable from the entry). A file type accepted without a container leaves the nil
	// interface behind for the first routed message.
	if fn := c.ssaFn(c.fn(c.fit, "File.init")); fn != nil {
		inst := map[*ssa.BasicBlock]bool{}
		for _, b := range fn.Blocks {
			for _, ins := range b.Instrs {
				st, isSt := ins.(*ssa.Store)
				if !isSt {
					continue
				}
				fa, isFA := st.Addr.(*ssa.FieldAddr)
				if !isFA || !isFieldOf(fa, "File", "msgAdder") {
					continue
				}
				if mi, isMI := st.Val.(*ssa.MakeInterface); isMI {
					if _, isPtr := mi.X.Type().Underlying().(*types.Pointer); isPtr {
						if _, fresh := mi.X.(*ssa.Alloc); fresh {
							inst[b] = true
						} else if ld, isLd := mi.X.(*ssa.UnOp); isLd {
							// f.x = new(T); f.msgAdder = f.x : the value loaded from the field stored just before
							for _, prev := range b.Instrs {
								if ps, ok := prev.(*ssa.Store); ok && stripAddrs(pathOf(ps.Addr)) == stripAddrs(pathOf(ld.X)) {
									if _, isAlloc := ps.Val.(*ssa.Alloc); isAlloc {
										inst[b] = true
									}
								}
							}
						}
					}
				}
			}
		}
		seen := map[*ssa.BasicBlock]bool{}
		var q []*ssa.BasicBlock
		if !inst[fn.Blocks[0]] {
			seen[fn.Blocks[0]] = true
			q = append(q, fn.Blocks[0])
		}
		for len(q) > 0 {
			b := q[0]
			q = q[1:]
			for _, s := range b.Succs {
				if !seen[s] && !inst[s] {
					seen[s] = true
					q = append(q, s)
				}
			}
		}
		bad := ""
		nRet := 0
		for _, ret := range c.successReturns(fn) {
			nRet++
			if seen[ret.Block()] {
				bad = c.pos(ret.Pos())
			}
		}
		r.check(bad == "" && nRet > 0 && len(inst) >= 1, "C01-R2-msgadder-nonnil", "File.init/installs-on-success", c.pos(fn.Pos()), fmt.Sprintf("every error-free return of File.init is behind one of the %d stores of a fresh container into msgAdder", len(inst)), "File.init can return nil at "+bad+" without having installed a container: the first message routed through File.add's default arm calls a nil msgAdder")
	} else {
		r.fail("C01-R2-msgadder-nonnil", "File.init/installs-on-success", "", "File.init not found")
	}
	if fn := c.ssaFn(c.fn(c.fit, "decoder.parseFileIdMsg")); fn != nil {
		ok, n := true, 0
		for _, ci := range allCalls(fn) {
			f := ci.Common().StaticCallee()
			if f == nil || !strings.HasSuffix(f.String(), ".File).add") {
				continue
			}
			n++
			guarded := false
			for _, a := range fn.Blocks {
				if len(a.Instrs) == 0 {
					continue
				}
				ifi, isIf := a.Instrs[len(a.Instrs)-1].(*ssa.If)
				if !isIf {
					continue
				}
				ex, isEx := ifi.Cond.(*ssa.Extract)
				if !isEx || ex.Index != 1 {
					continue
				}
				ta, isTA := ex.Tuple.(*ssa.TypeAssert)
				if !isTA || !ta.CommaOk || !strings.HasSuffix(ta.AssertedType.String(), ".FileIdMsg") {
					continue
				}
				if len(a.Succs[0].Preds) == 1 && a.Succs[0].Dominates(ci.Block()) {
					guarded = true
				}
			}
			if !guarded {
				ok = false
			}
		}
		r.check(ok && n == 1, "C01-R2-msgadder-nonnil", "parseFileIdMsg/only-file_id-before-init", c.pos(fn.Pos()), "before File.init only a FileIdMsg is added, which File.add stores without touching msgAdder", "parseFileIdMsg can add a message that is not a FileIdMsg before File.init has installed msgAdder: nil interface call")
	}
	if fd := c.decl(c.fn(c.fit, "File.add")); fd != nil {
		// the FileIdMsg arm exists (so the early add never reaches the default arm)
		has := false
		ast.Inspect(fd.Body, func(n ast.Node) bool {
			if cc, ok := n.(*ast.CaseClause); ok && len(cc.List) == 1 && exprStr(cc.List[0]) == "FileIdMsg" {
				has = true
			}
			return true
		})
		r.check(has, "C01-R2-msgadder-nonnil", "File.add/file_id-arm", c.pos(fd.Pos()), "File.add has its own arm for FileIdMsg", "File.add has no arm for FileIdMsg: the early add falls to the nil msgAdder")
	}
	// logger is used only under d.debug, and d.debug is set only when the logger is non-nil
	nLog := 0
	for _, fn := range scope {
		for _, ci := range allCalls(fn) {
			cc := ci.Common()
			if !cc.IsInvoke() || !strings.HasSuffix(cc.Value.Type().String(), ".Logger") {
				continue
			}
			nLog++
			ok := domByBoolEdge(fn, ci.Block(), true, func(v ssa.Value) bool { return strings.HasSuffix(pathOf(v), ".debug") })
			r.check(ok, "C01-R2-logger-nonnil", fmt.Sprintf("%s/logger-call-%d", fn.Name(), nLog), c.pos(ci.Pos()), "logger call is under d.debug", "a Logger method is invoked outside `if d.debug`: with no logger configured this is a nil interface call")
		}
		for _, b := range fn.Blocks {
			for _, ins := range b.Instrs {
				if st, ok := ins.(*ssa.Store); ok && strings.HasSuffix(pathOf(st.Addr), ".debug") {
					okG := domByCmpNil(fn, b, ".opts.logger", true)
					r.check(okG, "C01-R2-logger-nonnil", fn.Name()+"/debug-store", c.pos(st.Pos()), "debug is enabled only when a logger is configured", "d.debug is set without checking that a logger is configured")
				}
			}
		}
	}
	// (the profile row is dereferenced only where it was found: decided by the nil-safety analysis, C01-R2-nil-deref)
}

func domByCallTrue(fn *ssa.Function, b *ssa.BasicBlock, method string) bool {
	for _, a := range fn.Blocks {
		if len(a.Instrs) == 0 {
			continue
		}
		ifi, ok := a.Instrs[len(a.Instrs)-1].(*ssa.If)
		if !ok {
			continue
		}
		call, ok := ifi.Cond.(*ssa.Call)
		if !ok || call.Common().StaticCallee() == nil || call.Common().StaticCallee().Name() != method {
			continue
		}
		if len(a.Succs[0].Preds) == 1 && a.Succs[0].Dominates(b) {
			return true
		}
	}
	return false
}

func domByCmpNil(fn *ssa.Function, b *ssa.BasicBlock, suffix string, nonNil bool) bool {
	for _, a := range fn.Blocks {
		if len(a.Instrs) == 0 {
			continue
		}
		ifi, ok := a.Instrs[len(a.Instrs)-1].(*ssa.If)
		if !ok {
			continue
		}
		x, trueIsNonNil, ok := nilTest(ifi.Cond)
		if !ok || !strings.HasSuffix(pathOf(x), suffix) {
			continue
		}
		succ := a.Succs[0]
		if trueIsNonNil != nonNil {
			succ = a.Succs[1]
		}
		if len(succ.Preds) == 1 && succ.Dominates(b) {
			return true
		}
	}
	return false
}

func domByCmpPhiNonZero(fn *ssa.Function, b *ssa.BasicBlock, comment string) bool {
	for _, a := range fn.Blocks {
		if len(a.Instrs) == 0 {
			continue
		}
		ifi, ok := a.Instrs[len(a.Instrs)-1].(*ssa.If)
		if !ok {
			continue
		}
		bo, ok := ifi.Cond.(*ssa.BinOp)
		if !ok || bo.Op != token.NEQ {
			continue
		}
		phi, ok := bo.X.(*ssa.Phi)
		k, ok2 := bo.Y.(*ssa.Const)
		if !ok || !ok2 || phi.Comment != comment || k.Value == nil || k.Int64() != 0 {
			continue
		}
		// every non-zero edge of the phi must come from under pfound: checked by the shape padding = phi[0, ..., size - dsize]
		if len(a.Succs[0].Preds) == 1 && a.Succs[0].Dominates(b) {
			return true
		}
	}
	return false
}

// ---- R3 -----------------------------------------------------------------------------------------

func c01Loops(c *Ctx, r *Report, scope []*ssa.Function) {
	total := 0
	classes := map[string]int{}
	progress := map[string]bool{"fill": true, "readByte": true, "skipByte": true, "readFull": true, "decode": true, "parseDataMessage": true, "parseDefinitionMessage": true}
	for _, fn := range scope {
		bc := c.newBounds(fn)
		idx := 0
		for _, h := range fn.Blocks {
			var latches []*ssa.BasicBlock
			for _, p := range h.Preds {
				if h.Dominates(p) {
					latches = append(latches, p)
				}
			}
			if len(latches) == 0 {
				continue
			}
			total++
			key := fmt.Sprintf("%s/loop-%d(%s)", fn.Name(), idx, h.Comment)
			idx++
			// body blocks
			body := map[*ssa.BasicBlock]bool{h: true}
			var stack []*ssa.BasicBlock
			stack = append(stack, latches...)
			for len(stack) > 0 {
				x := stack[len(stack)-1]
				stack = stack[:len(stack)-1]
				if body[x] {
					continue
				}
				body[x] = true
				stack = append(stack, x.Preds...)
			}
			cls, why := "", ""
			wrapWhy := ""
			// range loops
			for _, ins := range h.Instrs {
				if phi, ok := ins.(*ssa.Phi); ok && phi.Comment == "rangeindex" {
					cls, why = "range", "range over a slice/array: trip count fixed at entry"
				}
				if _, ok := ins.(*ssa.Next); ok {
					cls, why = "range", "range over a map/string iterator"
				}
			}
			// counted loops: header (or latch) condition phi < bound, phi advanced by a positive step in the body
			if cls == "" {
				for blk := range body {
					if len(blk.Instrs) == 0 {
						continue
					}
					ifi, ok := blk.Instrs[len(blk.Instrs)-1].(*ssa.If)
					if !ok {
						continue
					}
					bo, ok := ifi.Cond.(*ssa.BinOp)
					if !ok || (bo.Op != token.LSS && bo.Op != token.LEQ) {
						continue
					}
					phi, ok := stripConv(bo.X).(*ssa.Phi)
					if !ok || phi.Block() != h {
						continue
					}
					// exits when false
					exits := !body[blk.Succs[1]]
					stepOK := false
					for _, e := range phi.Edges {
						if add, ok := e.(*ssa.BinOp); ok && add.Op == token.ADD && (add.X == ssa.Value(phi) || stripConv(add.X) == ssa.Value(phi)) {
							st := bc.rangeAt(add.Y, add.Block())
							if st.okLo && st.lo >= 1 {
								// the counter must reach the bound without wrapping round its type: from below the
								// bound, one more step stays representable
								tr := typeRange(phi.Type())
								bd := bc.rangeAt(bo.Y, blk)
								lim := bd.hi - 1
								if bo.Op == token.LEQ {
									lim = bd.hi
								}
								typeHi := int64(1<<31 - 1) // int / uint are at least 32 bits wide
								if tr.okHi && (tr.hi < typeHi || width(basicOf(phi.Type())) == 64) {
									typeHi = tr.hi
								}
								if st.okHi && bd.okHi && lim <= typeHi-st.hi {
									stepOK = true
								} else {
									wrapWhy = fmt.Sprintf("%s is advanced by %s towards a bound in %s and can wrap round its type before reaching it", phi.Comment, st.String(), bd.String())
								}
							}
						}
					}
					// bound must be loop invariant: not defined inside the body (or a pure call of invariant args)
					inv := true
					if bi, ok := bo.Y.(ssa.Instruction); ok && body[bi.Block()] {
						if call, ok := bo.Y.(*ssa.Call); ok {
							if bl, isB := call.Common().Value.(*ssa.Builtin); isB && (bl.Name() == "len" || bl.Name() == "cap") && len(call.Common().Args) == 1 {
								// len of a slice loaded from a local structure that nothing in the loop can change
								if ld, isLd := call.Common().Args[0].(*ssa.UnOp); !isLd || !samePathLoad(ld, ld) {
									inv = false
								}
							} else if f := call.Common().StaticCallee(); f == nil || !(strings.HasSuffix(f.String(), ".Size") || strings.HasSuffix(f.String(), ".NumField") || strings.HasSuffix(f.String(), ".Len")) {
								inv = false
							}
						} else if _, isLoad := bo.Y.(*ssa.UnOp); !isLoad {
							inv = false
						}
					}
					if exits && stepOK && inv {
						cls, why = "counted", "counted loop: "+phi.Comment+" increases by a positive step towards a loop-invariant bound"
					}
				}
			}
			// progress loops: every iteration calls a function that consumes input or fails
			if cls == "" {
				for blk := range body {
					for _, ins := range blk.Instrs {
						if call, ok := ins.(*ssa.Call); ok {
							if f := call.Common().StaticCallee(); f != nil && progress[f.Name()] {
								// the call must be on every path round the loop: its block dominates every latch, or the loop header is the call block
								domAll := true
								for _, l := range latches {
									if !blk.Dominates(l) {
										domAll = false
									}
								}
								if domAll {
									cls, why = "progress", "every iteration calls "+f.Name()+", which consumes input or returns an error that leaves the loop (C01-R4, C11)"
								}
							}
						}
					}
				}
			}
			if cls == "" {
				if lp := c.proveLoop(fn, h, c.newBounds(fn)); lp != nil && lp.rank != "" {
					cls, why = "ranked", lp.rank
				}
			}
			if cls == "" {
				msg := "loop without a recognised termination argument (not a range loop, not a counted loop with positive step and invariant bound, no input-consuming call on every iteration): a crafted input may hang the decoder"
				if wrapWhy != "" {
					msg = "counted loop whose counter can overflow: " + wrapWhy + ": for such a bound the loop never ends"
				}
				r.fail("C01-R3-loops", key, c.pos(firstPos(h)), msg)
				continue
			}
			classes[cls]++
			r.ok("C01-R3-loops", key, c.pos(firstPos(h)), cls+": "+why)
		}
	}
	r.set("loops", total)
	r.set("loop_classes", classes)
	r.need("loops examined", total, 20)
}

func firstPos(b *ssa.BasicBlock) token.Pos {
	for _, ins := range b.Instrs {
		if ins.Pos().IsValid() {
			return ins.Pos()
		}
	}
	return token.NoPos
}

func c01NoRecursion(c *Ctx, r *Report, scope []*ssa.Function) {
	cg := c.callGraph()
	in := map[*ssa.Function]bool{}
	for _, f := range scope {
		in[f] = true
	}
	// DFS for cycles within scope
	state := map[*ssa.Function]int{}
	var cyc []string
	var dfs func(f *ssa.Function)
	dfs = func(f *ssa.Function) {
		state[f] = 1
		if n := cg.Nodes[f]; n != nil {
			for _, e := range n.Out {
				g := e.Callee.Func
				if !in[g] {
					continue
				}
				if state[g] == 1 {
					cyc = append(cyc, f.Name()+" -> "+g.Name())
				} else if state[g] == 0 {
					dfs(g)
				}
			}
		}
		state[f] = 2
	}
	for _, f := range scope {
		if state[f] == 0 {
			dfs(f)
		}
	}
	r.check(len(cyc) == 0, "C01-R3-no-recursion", "decode-call-graph", "", "no recursion among the reachable library functions", "recursion on the decode path (stack growth controlled by input): "+strings.Join(cyc, ", "))
}

// lenGuarded: the block is dominated by the true edge of a test len(S) == n / >= n / > n-1 with
// n > k on the same slice S (a load of the same field path, the field not stored to in the
// function), or by the true edge of a boolean flag (phi) every non-false input of which comes
// from a block dominated by such a test.
func lenGuarded(fn *ssa.Function, b *ssa.BasicBlock, slice ssa.Value, k int64) (string, bool) {
	sp := stripAddrs(pathOf(slice))
	if !strings.HasPrefix(sp, "*") {
		return "", false
	}
	for _, blk := range fn.Blocks {
		for _, ins := range blk.Instrs {
			if st, ok := ins.(*ssa.Store); ok && "*"+stripAddrs(pathOf(st.Addr)) == sp {
				return "", false // the slice is reassigned in this function
			}
		}
	}
	lenTest := func(v ssa.Value) bool {
		bo, ok := v.(*ssa.BinOp)
		if !ok {
			return false
		}
		call, ok := bo.X.(*ssa.Call)
		if !ok {
			return false
		}
		bi, ok := call.Common().Value.(*ssa.Builtin)
		if !ok || bi.Name() != "len" || stripAddrs(pathOf(call.Common().Args[0])) != sp {
			return false
		}
		n, ok := bo.Y.(*ssa.Const)
		if !ok || n.Value == nil {
			return false
		}
		switch bo.Op {
		case token.EQL, token.GEQ:
			return n.Int64() > k
		case token.GTR:
			return n.Int64() >= k
		}
		return false
	}
	if domByBoolEdge(fn, b, true, lenTest) {
		return fmt.Sprintf("dominated by a length test of the same slice that implies len > %d", k), true
	}
	flag := func(v ssa.Value) bool {
		phi, ok := v.(*ssa.Phi)
		if !ok {
			return false
		}
		for i, e := range phi.Edges {
			if kc, ok := e.(*ssa.Const); ok && kc.Value != nil && kc.Value.ExactString() == "false" {
				continue
			}
			if !domByBoolEdge(fn, phi.Block().Preds[i], true, lenTest) {
				return false
			}
		}
		return true
	}
	if domByBoolEdge(fn, b, true, flag) {
		return fmt.Sprintf("dominated by a flag that is true only under a length test of the same slice that implies len > %d", k), true
	}
	return "", false
}

// c01MapNonNil: `m[k] = v` panics on a nil map. Every map update in scope is either on a map made
// in the same function, or on a struct field F for which (a) every store to F in the module
// stores a fresh make(map), all in one function S; (b) the update and the store are guarded by
// the same option flags (the store by no more than the update); (c) the updating function is
// reached from the entry points only through S; and (d) in S, assuming those flags true, no call
// that can reach the updating function is reachable from S's entry without passing the store.
func c01MapNonNil(c *Ctx, r *Report, scope []*ssa.Function, roots []*ssa.Function) {
	inScope := map[*ssa.Function]bool{}
	for _, f := range scope {
		inScope[f] = true
	}
	cg := c.callGraph()
	reaches := func(from *ssa.Function, to *ssa.Function, without *ssa.Function) bool {
		seen := map[*ssa.Function]bool{}
		q := []*ssa.Function{from}
		for len(q) > 0 {
			f := q[0]
			q = q[1:]
			if seen[f] || f == without {
				continue
			}
			seen[f] = true
			if f == to {
				return true
			}
			if n := cg.Nodes[f]; n != nil {
				for _, e := range n.Out {
					q = append(q, e.Callee.Func)
				}
			}
			q = append(q, f.AnonFuncs...)
		}
		return false
	}
	// flags: field chains on the receiver whose true edge dominates b, e.g. ".opts.unknownFields"
	flagsAt := func(fn *ssa.Function, b *ssa.BasicBlock) map[string]bool {
		out := map[string]bool{}
		if len(fn.Params) == 0 {
			return out
		}
		recv := fn.Params[0].Name()
		for _, a := range fn.Blocks {
			if len(a.Instrs) == 0 {
				continue
			}
			ifi, ok := a.Instrs[len(a.Instrs)-1].(*ssa.If)
			if !ok {
				continue
			}
			if len(a.Succs[0].Preds) != 1 || !a.Succs[0].Dominates(b) {
				continue
			}
			for _, f := range condFactsOnEdge(ifi.Cond, true, 0) {
				p := stripAddrs(pathOf(f.v))
				if f.truth && strings.HasPrefix(p, "*"+recv+".") {
					out[p[1+len(recv):]] = true
				}
			}
		}
		return out
	}
	n := 0
	for _, fn := range scope {
		for _, b := range fn.Blocks {
			for _, ins := range b.Instrs {
				mu, ok := ins.(*ssa.MapUpdate)
				if !ok {
					continue
				}
				n++
				key := fmt.Sprintf("%s/%s", fn.Name(), stripAddrs(pathOf(mu.Map)))
				pos := c.pos(mu.Pos())
				if _, isMake := mu.Map.(*ssa.MakeMap); isMake {
					r.ok("C01-R2-map-nonnil", key, pos, "map made in the same function")
					continue
				}
				ld, ok := mu.Map.(*ssa.UnOp)
				var fa *ssa.FieldAddr
				if ok && ld.Op == token.MUL {
					fa, _ = ld.X.(*ssa.FieldAddr)
				}
				if fa == nil {
					r.fail("C01-R2-map-nonnil", key, pos, "update of a map that is neither made here nor a struct field with a recognised initialisation: assignment to an entry of a nil map panics")
					continue
				}
				st := fa.X.Type().Underlying().(*types.Pointer).Elem().Underlying().(*types.Struct)
				fname := st.Field(fa.Field).Name()
				owner := fa.X.Type().Underlying().(*types.Pointer).Elem()
				// (a) stores
				var stores []*ssa.Store
				bad := ""
				for _, g := range c.moduleFuncs() {
					for _, gb := range g.Blocks {
						for _, gi := range gb.Instrs {
							s2, ok := gi.(*ssa.Store)
							if !ok {
								continue
							}
							fa2, ok := s2.Addr.(*ssa.FieldAddr)
							if !ok || fa2.Field != fa.Field || !types.Identical(fa2.X.Type().Underlying().(*types.Pointer).Elem(), owner) {
								continue
							}
							if _, isMake := s2.Val.(*ssa.MakeMap); !isMake {
								bad = "a store to " + fname + " at " + c.pos(s2.Pos()) + " is not a fresh make(map)"
							}
							stores = append(stores, s2)
						}
					}
				}
				if bad != "" || len(stores) != 1 {
					r.fail("C01-R2-map-nonnil", key, pos, fmt.Sprintf("map field %s must be initialised by exactly one make(map) store (found %d) %s", fname, len(stores), bad))
					continue
				}
				S := stores[0].Parent()
				// (b) flags
				fu, fs := flagsAt(fn, b), flagsAt(S, stores[0].Block())
				okFlags := true
				for f := range fs {
					if !fu[f] {
						okFlags = false
					}
				}
				// (c) only through S
				okThrough := true
				for _, root := range roots {
					if root != S && reaches(root, fn, S) {
						okThrough = false
					}
				}
				// (d) in S: calls reaching fn are behind the store when the flags hold
				recv := ""
				if len(S.Params) > 0 {
					recv = S.Params[0].Name()
				}
				covered := map[*ssa.BasicBlock]bool{} // blocks entered only after the store
				var early []string
				seen := map[*ssa.BasicBlock]bool{}
				var walk func(blk *ssa.BasicBlock)
				walk = func(blk *ssa.BasicBlock) {
					if seen[blk] {
						return
					}
					seen[blk] = true
					for _, gi := range blk.Instrs {
						if gi == ssa.Instruction(stores[0]) {
							covered[blk] = true
							return // everything after is behind the store
						}
						if ci, ok := gi.(ssa.CallInstruction); ok {
							if _, isDefer := gi.(*ssa.Defer); isDefer {
								continue // runs at exit; a nil map is only read there (checked as its own site if it updates)
							}
							for _, e := range cg.Nodes[S].Out {
								if e.Site == ci && reaches(e.Callee.Func, fn, nil) {
									early = append(early, c.pos(ci.Pos()))
								}
							}
						}
					}
					if ifi, ok := blk.Instrs[len(blk.Instrs)-1].(*ssa.If); ok {
						p := stripAddrs(pathOf(ifi.Cond))
						if strings.HasPrefix(p, "*"+recv+".") && fs[p[1+len(recv):]] {
							walk(blk.Succs[0]) // flag assumed true
							return
						}
					}
					for _, s := range blk.Succs {
						walk(s)
					}
				}
				if S == fn {
					okThrough = true
				}
				walk(S.Blocks[0])
				okOrder := len(early) == 0
				if S == fn {
					okOrder = instrDominates(stores[0], mu)
				}
				r.check(okFlags && okThrough && okOrder, "C01-R2-map-nonnil", key, pos,
					fmt.Sprintf("%s is made in %s under flags %v before any call that reaches this update (guarded by %v)", fname, S.Name(), keysOfStr(fs), keysOfStr(fu)),
					fmt.Sprintf("map field %s can be nil at this update (assignment to entry in nil map panics): made in %s under flags %v, update guarded by %v; flags agree=%v, reached only through %s=%v, calls that reach the update before the make: %v", fname, S.Name(), keysOfStr(fs), keysOfStr(fu), okFlags, S.Name(), okThrough, early))
			}
		}
	}
	r.set("map_update_sites", n)
}

func keysOfStr(m map[string]bool) []string {
	var ks []string
	for k := range m {
		ks = append(ks, k)
	}
	sort.Strings(ks)
	return ks
}

// idxBelowLen: b is dominated by the true edge of `idx < len(S)` (or `len(S) > idx`) where S is the
// indexed slice value itself or a second load of the same location (samePathLoad).
func idxBelowLen(fn *ssa.Function, b *ssa.BasicBlock, idx, slice ssa.Value) bool {
	isLenOf := func(v ssa.Value) bool {
		call, ok := v.(*ssa.Call)
		if !ok {
			return false
		}
		bi, ok := call.Common().Value.(*ssa.Builtin)
		if !ok || bi.Name() != "len" || len(call.Common().Args) != 1 {
			return false
		}
		a := call.Common().Args[0]
		return a == slice || samePathLoad(a, slice)
	}
	return domByBoolEdge(fn, b, true, func(v ssa.Value) bool {
		bo, ok := v.(*ssa.BinOp)
		if !ok {
			return false
		}
		switch bo.Op {
		case token.LSS:
			return (bo.X == idx || stripConv(bo.X) == idx) && isLenOf(bo.Y)
		case token.GTR:
			return (bo.Y == idx || stripConv(bo.Y) == idx) && isLenOf(bo.X)
		}
		return false
	})
}

// c01KnownBeforeCtor (C01-R2-known-before-ctor; also run under C15): the constructor table is indexed
// only under `knownMsgNums[the same number]` — the known table itself, looked up with the message
// number itself. A second table, a masked index or a range test in its place makes the decoder treat
// numbers as known for which the profile has no type and no constructor.
func c01KnownBeforeCtor(c *Ctx, r *Report, scope []*ssa.Function) int {
	nCtor := 0
	for _, fn := range scope {
		for _, ci := range allCalls(fn) {
			f := ci.Common().StaticCallee()
			if f == nil || f.Name() != "getMesgAllInvalid" {
				continue
			}
			nCtor++
			arg := pathOf(ci.Common().Args[0])
			ok := domByBoolEdge(fn, ci.Block(), true, func(v ssa.Value) bool {
				lk, isL := v.(*ssa.Lookup)
				return isL && pathOf(lk.X) == "*fit.knownMsgNums" && pathOf(lk.Index) == arg
			})
			r.check(ok, "C01-R2-known-before-ctor", fmt.Sprintf("%s/getMesgAllInvalid-%d", fn.Name(), nCtor), c.pos(ci.Pos()), "constructor table is indexed only with a known message number", "getMesgAllInvalid("+arg+") is not guarded by knownMsgNums["+arg+"]: an unknown number indexes newMesgFuncs out of range or calls a nil entry")
		}
	}
	return nCtor
}
