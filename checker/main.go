// fitcheck: repository-specific static analyses for tormoder/fit.
//
// Every verdict is computed from /repo's current source (type-checked syntax,
// SSA, call graph, constant tables). Nothing of the repository is executed.
package main

import (
	"flag"
	"fmt"
	"os"
	"runtime/debug"
	"sort"
	"strings"
	"time"
)

type propFunc func(c *Ctx, r *Report)

type propDef struct {
	id    string
	level string
	run   propFunc
	// explanation of what is decided / not decided (level other) or trusted base (proof)
	explanation string
	trusted     []string
	assumptions []string
}

var props = map[string]*propDef{}

func register(p *propDef) { props[p.id] = p }

func main() {
	prop := flag.String("prop", "", "property id (C01..C20) or 'all'")
	tier := flag.String("tier", "quick", "quick|thorough")
	repo := flag.String("repo", "/repo", "repository root")
	verif := flag.String("verif", "/verif", "verif root (evidence, known findings)")
	replay := flag.String("replay", "", "replay file: re-decide the recorded construct")
	list := flag.Bool("list", false, "print every obligation")
	dumpFuncs := flag.Bool("dump-funcs", false, "print the list of functions of the tree (pinnedfuncs.json is generated from the pinned tree with this)")
	dumpAccepted := flag.Bool("dump-accepted", false, "print the validator's accepted set per profile class (acceptedset.json is generated from the pinned tree with this)")
	dumpLocals := flag.Bool("dump-locals", false, "print the local-name slot table of the tree (localnames.json is generated from the pinned tree with this)")
	sym := flag.String("sym", "", "diagnostic: print the symbolic path terms of the named fit functions (comma separated)")
	flag.Parse()
	debug.SetGCPercent(400)
	if t := os.Getenv("VERIF_TIER"); t != "" && !flagSet("tier") {
		*tier = t
	}
	if *replay != "" {
		os.Exit(doReplay(*replay, *repo, *verif))
	}
	if *dumpFuncs {
		if err := funcsDump(*repo); err != nil {
			fmt.Fprintln(os.Stderr, err)
			os.Exit(2)
		}
		return
	}
	if *dumpAccepted {
		if err := acceptedDump(*repo); err != nil {
			fmt.Fprintln(os.Stderr, err)
			os.Exit(2)
		}
		return
	}
	if *dumpLocals {
		if err := alphaDump(*repo); err != nil {
			fmt.Fprintln(os.Stderr, err)
			os.Exit(2)
		}
		os.Exit(0)
	}
	if *sym != "" {
		c, err := load(*repo, "quick")
		if err != nil {
			fmt.Fprintln(os.Stderr, err)
			os.Exit(2)
		}
		for _, n := range strings.Split(*sym, ",") {
			o := symPathsOpaque(c.ssaFn(c.fn(c.fit, n)), 3, strings.Split(os.Getenv("SYM_OPAQUE"), ",")...)
			fmt.Println(n, "why:", o.why)
			for _, p := range o.paths {
				fmt.Println("   ", p, p.mem, p.calls)
			}
		}
		os.Exit(0)
	}
	if *prop == "" {
		fmt.Fprintln(os.Stderr, "usage: fitcheck -prop Cxx [-tier quick|thorough]")
		os.Exit(2)
	}
	ids := []string{*prop}
	if *prop == "all" {
		ids = nil
		for id := range props {
			ids = append(ids, id)
		}
		sort.Strings(ids)
	}
	rc := 0
	var shared *Ctx
	for _, id := range ids {
		p, ok := props[id]
		if !ok {
			fmt.Fprintf(os.Stderr, "unknown property %s\n", id)
			os.Exit(2)
		}
		if x := runProp(p, *tier, *repo, *verif, *list, &shared, nil); x != 0 {
			rc = 1
		}
	}
	os.Exit(rc)
}

func flagSet(name string) bool {
	found := false
	flag.Visit(func(f *flag.Flag) {
		if f.Name == name {
			found = true
		}
	})
	return found
}

// runProp runs one property and writes evidence. Fails closed on panic.
func runProp(p *propDef, tier, repo, verif string, list bool, shared **Ctx, only *Obligation) (rc int) {
	t0 := time.Now()
	r := newReport(p, tier, verif)
	defer func() {
		if e := recover(); e != nil {
			r.fail("internal", "checker-panic", "", fmt.Sprintf("checker panicked (fail closed): %v\n%s", e, lastLines(string(debug.Stack()), 25)))
			rc = r.finish(t0, list, only)
		}
	}()
	var c *Ctx
	if *shared != nil && (*shared).tier == tier {
		c = *shared
	} else {
		var err error
		c, err = load(repo, tier)
		if err != nil {
			r.fail("load", "load", "", "loading /repo failed (fail closed): "+err.Error())
			return r.finish(t0, list, only)
		}
		*shared = c
	}
	r.loadInfo = c.loadInfo
	p.run(c, r)
	if tier == "thorough" && only == nil {
		thoroughExtras(c, r, p, verif)
	}
	return r.finish(t0, list, only)
}

func lastLines(s string, n int) string {
	ls := strings.Split(s, "\n")
	if len(ls) > n {
		ls = ls[:n]
	}
	return strings.Join(ls, "\n")
}
