package main

import (
	"fmt"
	"go/ast"
	"go/printer"
	"go/token"
	"go/types"
	"sort"
	"strings"

	"golang.org/x/tools/go/ssa"
)

func init() {
	register(&propDef{
		id: "C18", level: "other", run: runC18,
		explanation: "Decided: (R1) in every container router the arm of each message type the property names (record, lap, session, segment_lap, event) calls tmp.expandComponents() on the same variable before storing it; (R2) bit-slice lint over every expandComponents body: each recognised slice T((src >> s) & ((1<<b)-1)) has s+b <= width(src) and b <= width(dest type), slices of one source are contiguous from bit 0, each block is guarded by src != <the invalid value the constructor uses>, and a left shift is never applied to an operand narrower than the type it is then widened to; (R3) accumulator discipline: every uint32Accumulator is built by uint32NewAccumulator(k) (a zero-valued one has mask 0), accumulate has the form acc += (v - last) & mask; last = v, and accumulators are not package-level (per-file accumulation). NOT decided: the component layout against the SDK profile (the 21.115 workbook is not in the repository) and computed sums over streams. (R2-source-order) blocks of one expandComponents body that share a field stand in the struct order of their sources; (R2-subfield-agreement) reference values sharing one arm of the dynamic getter have identical expansion arms. (R3-accumulator-mask) the roll-over mask is written by the constructor only and no accumulator is overwritten as a whole.",
		trusted:     []string{"Go shift/conversion semantics", "the constructor invalid values proven by C15-4"},
	})
}

var c18Named = map[string]bool{"RecordMsg": true, "LapMsg": true, "SessionMsg": true, "SegmentLapMsg": true, "EventMsg": true}

func runC18(c *Ctx, r *Report) {
	info := c.fit.TypesInfo
	c18ExpansionCalled(c, r)
	c18Rest(c, r, info)
}

// c18ExpansionCalled: R1, shared with C11 (the partial File of a failed decode holds expanded messages).
func c18ExpansionCalled(c *Ctx, r *Report) {
	// ---- R1 ---------------------------------------------------------------------------
	nArms := 0
	var others []string
	for _, ct := range c.containers() {
		st := ct.Underlying().(*types.Struct)
		fd := c.decl(c.fn(c.fit, ct.Obj().Name()+".add"))
		if fd == nil {
			r.fail("C18-R1-expansion-called", ct.Obj().Name(), "", "router not found")
			continue
		}
		arms, _, errs := c.parseRouter(fd, st)
		for i, e := range errs {
			r.undecided("C18-R1-expansion-called", fmt.Sprintf("%s/shape-%d", ct.Obj().Name(), i), c.pos(fd.Pos()), e)
		}
		for _, a := range arms {
			mn := a.msgType.Obj().Name()
			hasMethod := c.fn(c.fit, mn+".expandComponents") != nil
			key := ct.Obj().Name() + "/" + mn
			if c18Named[mn] {
				nArms++
				r.check(a.expand && hasMethod, "C18-R1-expansion-called", key, c.pos(a.pos), "arm calls tmp.expandComponents() before storing", "the "+mn+" arm of "+ct.Obj().Name()+" stores the message without calling expandComponents(): its component destinations (enhanced speed/altitude, gear, score, ...) stay invalid although the same message type is expanded in other containers")
			} else if hasMethod {
				others = append(others, fmt.Sprintf("%s (expands=%v)", key, a.expand))
			}
		}
	}
	sort.Strings(others)
	r.set("other_types_with_expandComponents", others)
	r.need("arms of component-bearing messages", nArms, 10)
}

func c18Rest(c *Ctx, r *Report, info *types.Info) {
	// ---- R2 ---------------------------------------------------------------------------
	nSlices, nBodies := 0, 0
	nOrder, nAgree := 0, 0
	sc := c.fit.Types.Scope()
	for _, name := range sc.Names() {
		tn, ok := sc.Lookup(name).(*types.TypeName)
		if !ok {
			continue
		}
		fn := c.fn(c.fit, name+".expandComponents")
		if fn == nil {
			continue
		}
		fd := c.decl(fn)
		if fd == nil {
			continue
		}
		nBodies++
		st, _ := tn.Type().Underlying().(*types.Struct)
		nSlices += c18Body(c, r, info, name, fd, st)
		nOrder += c18Order(c, r, info, name, fd, st)
		nAgree += c18SubfieldAgreement(c, r, info, name, fd)
	}
	r.need("field-sharing block pairs in expandComponents", nOrder, 2)
	r.set("getter_arms_with_several_reference_values", nAgree) // no floor: a getter written with one value per arm leaves nothing to compare, and that is a legitimate spelling
	r.set("expandComponents_bodies", nBodies)
	r.set("bit_slices_checked", nSlices)
	r.need("expandComponents bodies", nBodies, 8)
	r.need("recognised bit slices", nSlices, 25)

	c18ByteArraySources(c, r)
	// ---- R3 ---------------------------------------------------------------------------
	c18Accumulators(c, r)
}

func typeWidth(t types.Type) int {
	b := basicOf(t)
	if b == nil {
		return 0
	}
	return int(width(b))
}

// c18Body lints one expandComponents body; returns the number of recognised slices.
func c18Body(c *Ctx, r *Report, info *types.Info, tname string, fd *ast.FuncDecl, st *types.Struct) int {
	n := 0
	recv := info.Defs[fd.Recv.List[0].Names[0]]
	ctor := c.fn(c.fit, "New"+tname)
	var ci *ctorInfo
	if ctor != nil {
		ci = c.parseCtor(ctor)
	}
	fieldOf := func(e ast.Expr) (string, types.Type, bool) {
		sel, ok := unparen(e).(*ast.SelectorExpr)
		if !ok || info.Uses[identOf(sel.X)] != recv {
			return "", nil, false
		}
		return sel.Sel.Name, info.TypeOf(sel), true
	}
	// narrow shift lint, anywhere in the body
	ast.Inspect(fd.Body, func(nd ast.Node) bool {
		call, ok := nd.(*ast.CallExpr)
		if !ok || len(call.Args) != 1 {
			return true
		}
		tv, ok := info.Types[call.Fun]
		if !ok || !tv.IsType() {
			return true
		}
		be, ok := unparen(call.Args[0]).(*ast.BinaryExpr)
		if !ok || be.Op != token.SHL {
			return true
		}
		wIn, wOut := typeWidth(info.TypeOf(be)), typeWidth(tv.Type)
		sh, okSh := exprInt(info, be.Y)
		if wIn > 0 && wOut > wIn && okSh && sh > 0 {
			key := fmt.Sprintf("%s.expandComponents/%s", tname, strings.ReplaceAll(exprStr(call), " ", ""))
			r.fail("C18-R2-narrow-shift", key, c.pos(call.Pos()), fmt.Sprintf("%s shifts a %d-bit operand left by %d and only then widens it to %d bits: the top %d bits of the component are lost", exprStr(call), wIn, sh, wOut, sh))
		}
		return true
	})
	// guarded blocks
	var walk func(list []ast.Stmt, guardSrc string, guardW int)
	type slice struct {
		s, b int
		dst  string
		pos  token.Pos
	}
	perSrc := map[string][]slice{}
	elseOf := "" // non-empty while walking the else branch of the validity guard of that source
	firstUseAsSrc := map[string]token.Pos{}
	checkSlice := func(e ast.Expr, dst string, dstT types.Type, guardSrc string, pos token.Pos) (recognised bool) {
		// T((src >> s) & mask)  [optionally wrapped in acc.accumulate(...)]
		e = unparen(e)
		if call, ok := e.(*ast.CallExpr); ok && len(call.Args) == 1 {
			if sel, ok := call.Fun.(*ast.SelectorExpr); ok && sel.Sel.Name == "accumulate" {
				e = unparen(call.Args[0])
			}
		}
		conv, ok := e.(*ast.CallExpr)
		if !ok || len(conv.Args) != 1 {
			return false
		}
		tv, ok := info.Types[conv.Fun]
		if !ok || !tv.IsType() {
			return false
		}
		and, ok := unparen(conv.Args[0]).(*ast.BinaryExpr)
		if !ok || and.Op != token.AND {
			return false
		}
		shr, ok := unparen(and.X).(*ast.BinaryExpr)
		if !ok || shr.Op != token.SHR {
			return false
		}
		src, srcT, ok := fieldOf(shr.X)
		if !ok {
			return false
		}
		s, ok1 := exprInt(info, shr.Y)
		m, ok2 := exprUint(info, and.Y)
		if !ok1 || !ok2 {
			return false
		}
		// m must be 2^b - 1
		b := 0
		for (m>>uint(b))&1 == 1 {
			b++
		}
		key := fmt.Sprintf("%s.expandComponents/%s<-%s[%d:%d]", tname, dst, src, s, int(s)+b)
		n++
		if m != (uint64(1)<<uint(b))-1 {
			r.fail("C18-R2-bit-slice", key, c.pos(pos), fmt.Sprintf("mask %#x is not of the form 2^b-1", m))
			return true
		}
		wSrc, wDst, wConv := typeWidth(srcT), typeWidth(dstT), typeWidth(tv.Type)
		switch {
		case int(s)+b > wSrc:
			r.fail("C18-R2-bit-slice", key, c.pos(pos), fmt.Sprintf("slice [%d,%d) exceeds the %d-bit source %s: the destination always misses its top bits", s, int(s)+b, wSrc, src))
		case b > wDst || b > wConv:
			r.fail("C18-R2-bit-slice", key, c.pos(pos), fmt.Sprintf("%d-bit slice is truncated by the %d-bit destination %s", b, wDst, dst))
		case guardSrc != src:
			r.fail("C18-R2-bit-slice", key, c.pos(pos), fmt.Sprintf("slice of %s is not inside the block guarded by %s != invalid: an invalid source would overwrite the destination", src, src))
		case elseOf != "":
			r.fail("C18-R2-bit-slice", key, c.pos(pos), fmt.Sprintf("the expansion of %s into %s sits in the else branch of the guard of %s: it runs only when %s is invalid, so a valid %s is not expanded whenever %s is set too (and components of %s taken above never see the expanded value)", src, dst, elseOf, elseOf, src, elseOf, dst))
		case firstUseAsSrc[dst] != token.NoPos && firstUseAsSrc[dst] < pos:
			r.fail("C18-R2-bit-slice", key, c.pos(pos), fmt.Sprintf("%s is filled from %s after the components of %s itself were taken (at %s): those destinations are computed from the unexpanded value", dst, src, dst, c.pos(firstUseAsSrc[dst])))
		default:
			r.ok("C18-R2-bit-slice", key, c.pos(pos), fmt.Sprintf("%d bits at %d of %d-bit %s into %d-bit %s", b, s, wSrc, src, wDst, dst))
		}
		if firstUseAsSrc[src] == token.NoPos {
			firstUseAsSrc[src] = pos
		}
		perSrc[src+"@"+fmt.Sprint(pos)] = nil
		perSrc[src] = append(perSrc[src], slice{int(s), b, dst, pos})
		return true
	}
	walk = func(list []ast.Stmt, guardSrc string, guardW int) {
		for _, s := range list {
			switch x := s.(type) {
			case *ast.IfStmt:
				g := guardSrc
				if be, ok := unparen(x.Cond).(*ast.BinaryExpr); ok && be.Op == token.NEQ {
					if src, srcT, ok := fieldOf(be.X); ok {
						// guard constant must be the constructor's invalid value for that field
						kv, okK := exprConst(info, be.Y)
						key := fmt.Sprintf("%s.expandComponents/guard-%s", tname, src)
						okInv := false
						why := "constructor value not found"
						if ci != nil && ci.errStr == "" && okK {
							if ce, ok := ci.vals[src]; ok {
								if cv, ok := exprConst(info, ce); ok {
									w := uint(typeWidth(srcT))
									a, _ := constBits(kv, w)
									b, _ := constBits(cv, w)
									okInv = a == b
									why = fmt.Sprintf("guard compares with %#x, constructor (all-invalid) has %#x", a, b)
								}
							}
						}
						r.check(okInv, "C18-R2-invalid-guard", key, c.pos(x.Pos()), "expansion is skipped exactly when "+src+" holds its invalid value", "the guard of "+src+" does not test the field's invalid value: "+why)
						g = src
					}
				}
				walk(x.Body.List, g, guardW)
				if x.Else != nil {
					saved := elseOf
					if g != guardSrc {
						elseOf = g
					}
					switch eb := x.Else.(type) {
					case *ast.BlockStmt:
						walk(eb.List, guardSrc, guardW)
					case *ast.IfStmt:
						walk([]ast.Stmt{eb}, guardSrc, guardW)
					}
					elseOf = saved
				}
			case *ast.SwitchStmt:
				for _, cl := range x.Body.List {
					walk(cl.(*ast.CaseClause).Body, guardSrc, guardW)
				}
			case *ast.AssignStmt:
				if len(x.Lhs) == 1 && len(x.Rhs) == 1 {
					if dst, dstT, ok := fieldOf(x.Lhs[0]); ok {
						if !checkSlice(x.Rhs[0], dst, dstT, guardSrc, x.Pos()) && guardSrc != "" && !c18ByteArrayDest(tname, dst) {
							r.undecided("C18-R2-bit-slice", fmt.Sprintf("%s.expandComponents/%s<-?", tname, dst), c.pos(x.Pos()), "destination "+dst+" is assigned "+strings.ReplaceAll(exprStr(x.Rhs[0]), "\n", " ")+", which is not a bit slice T((src >> s) & (2^b - 1)) of a source field (optionally accumulated): the destination is not the bits of the source for every bit pattern")
						}
					}
				}
			case *ast.BlockStmt:
				walk(x.List, guardSrc, guardW)
			}
		}
	}
	walk(fd.Body.List, "", 0)
	// contiguity per source within one switch arm: group by (src) and check that sorted shifts tile from 0
	for src, sl := range perSrc {
		if len(sl) == 0 {
			continue
		}
		// several arms may slice the same source differently (event data): split into runs starting at s == 0
		sort.SliceStable(sl, func(i, j int) bool { return sl[i].pos < sl[j].pos })
		var runs [][]slice
		for _, x := range sl {
			if x.s == 0 || len(runs) == 0 {
				runs = append(runs, nil)
			}
			runs[len(runs)-1] = append(runs[len(runs)-1], x)
		}
		for ri, run := range runs {
			sort.Slice(run, func(i, j int) bool { return run[i].s < run[j].s })
			ok := run[0].s == 0
			for i := 1; i < len(run); i++ {
				if run[i].s != run[i-1].s+run[i-1].b {
					ok = false
				}
			}
			key := fmt.Sprintf("%s.expandComponents/layout-%s-%d", tname, src, ri)
			var desc []string
			for _, x := range run {
				desc = append(desc, fmt.Sprintf("%s[%d:%d]", x.dst, x.s, x.s+x.b))
			}
			r.check(ok, "C18-R2-contiguous", key, c.pos(run[0].pos), strings.Join(desc, " "), "component slices of "+src+" overlap or leave gaps: "+strings.Join(desc, " "))
		}
	}
	return n
}

func c18Accumulators(c *Ctx, r *Report) {
	info := c.fit.TypesInfo
	accT := c.fit.Types.Scope().Lookup("uint32Accumulator")
	if accT == nil {
		r.fail("C18-R3-accumulators", "uint32Accumulator", "", "type not found")
		return
	}
	// accumulate: decided on the SSA terms, independent of field/parameter names and spelling:
	// some fields A (sum), L (last), M (mask) with  A' = A + ((v - L) & M),  L' = v,  return A'.
	st, _ := accT.Type().Underlying().(*types.Struct)
	roleA, roleM := -1, -1
	if fn := c.ssaFn(c.fn(c.fit, "uint32Accumulator.accumulate")); fn != nil && st != nil {
		res := symExec(fn, nil, 0)
		found := ""
		if res.why == "" && len(res.rets) == 1 {
			for a := 0; a < st.NumFields(); a++ {
				for l := 0; l < st.NumFields(); l++ {
					for m := 0; m < st.NumFields(); m++ {
						if a == l || a == m || l == m {
							continue
						}
						cell := func(i int) string { return fmt.Sprintf("*p0.f%d", i) }
						sub := fmt.Sprintf("(- p1 %s)", cell(l))
						x, y := sub, cell(m)
						if y < x {
							x, y = y, x
						}
						and := fmt.Sprintf("(& %s %s)", x, y)
						x, y = cell(a), and
						if y < x {
							x, y = y, x
						}
						sum := fmt.Sprintf("(+ %s %s)", x, y)
						if res.mem[fmt.Sprintf("p0.f%d", a)] == sum && res.mem[fmt.Sprintf("p0.f%d", l)] == "p1" && res.rets[0] == sum && len(res.mem) == 2 {
							roleA, roleM = a, m
							found = fmt.Sprintf("sum=%s last=%s mask=%s", st.Field(a).Name(), st.Field(l).Name(), st.Field(m).Name())
						}
					}
				}
			}
		}
		var got []string
		for k, v := range res.mem {
			got = append(got, k+" := "+v)
		}
		sort.Strings(got)
		r.check(found != "", "C18-R3-accumulators", "accumulate", c.pos(fn.Pos()), "sum += (v - last) & mask; last = v; return sum ("+found+")", "accumulate is not `sum += (v - last) & mask; last = v; return sum` (found: "+strings.Join(got, "; ")+"; return "+strings.Join(res.rets, ",")+" "+res.why+")")
	} else {
		r.undecided("C18-R3-accumulators", "accumulate", "", "uint32Accumulator.accumulate not found")
	}
	_ = roleA
	if fn := c.ssaFn(c.fn(c.fit, "uint32NewAccumulator")); fn != nil && roleM >= 0 {
		res := symExec(fn, nil, 0)
		ok := res.why == "" && len(res.rets) == 1 && res.rets[0] == "new0" && res.mem[fmt.Sprintf("new0.f%d", roleM)] == "(- (<< 1 p0) 1)"
		for k, v := range res.mem {
			if k != fmt.Sprintf("new0.f%d", roleM) && v != "0" {
				ok = false
			}
		}
		r.check(ok, "C18-R3-accumulators", "uint32NewAccumulator", c.pos(fn.Pos()), "mask = 2^bits - 1, sum and last start at 0", fmt.Sprintf("uint32NewAccumulator does not return a fresh accumulator with mask (1 << bits) - 1 and zero sum/last (stores: %v %s)", res.mem, res.why))
	} else {
		r.undecided("C18-R3-accumulators", "uint32NewAccumulator", "", "constructor not found or mask field not identified")
	}
	_ = info
	// every allocation of an accumulator outside uint32NewAccumulator
	nSites := 0
	for _, fn := range c.moduleFuncs() {
		if fnPkgPath(fn) != modPath || fn.Name() == "uint32NewAccumulator" {
			continue
		}
		for _, b := range fn.Blocks {
			for _, ins := range b.Instrs {
				switch n := ins.(type) {
				case *ssa.Alloc:
					pt, ok := n.Type().Underlying().(*types.Pointer)
					if !ok || !types.Identical(pt.Elem(), accT.Type()) {
						continue
					}
					nSites++
					dest := "local"
					for _, ref := range *n.Referrers() {
						if st, ok := ref.(*ssa.Store); ok && st.Val == ssa.Value(n) {
							dest = pathOf(st.Addr)
						}
					}
					r.fail("C18-R3-accumulator-width", fmt.Sprintf("%s/%s", fn.String(), dest), c.pos(n.Pos()), "accumulator "+dest+" is allocated as a zero value (mask 0) instead of uint32NewAccumulator(bits): every delta is masked to 0, so the accumulated destination is always 0")
				case *ssa.Call:
					if f := n.Common().StaticCallee(); f != nil && f.Name() == "uint32NewAccumulator" {
						nSites++
						dest := "local"
						for _, ref := range *n.Referrers() {
							if st, ok := ref.(*ssa.Store); ok && st.Val == ssa.Value(n) {
								dest = pathOf(st.Addr)
							}
						}
						k, ok := n.Common().Args[0].(*ssa.Const)
						okK := ok && k.Value != nil && k.Int64() >= 1 && k.Int64() <= 32
						r.check(okK, "C18-R3-accumulator-width", fmt.Sprintf("%s/%s", fn.String(), dest), c.pos(n.Pos()), fmt.Sprintf("built with %s bits", pathOf(n.Common().Args[0])), "accumulator width is not a constant in 1..32")
					}
				}
			}
		}
	}
	r.need("accumulator construction sites", nSites, 1)
	// accumulators must not be package-level
	sp := c.ssaPkgs[modPath]
	for name, m := range sp.Members {
		g, ok := m.(*ssa.Global)
		if !ok {
			continue
		}
		pt, ok := g.Type().(*types.Pointer)
		if !ok {
			continue
		}
		et := pt.Elem()
		if p2, ok := et.(*types.Pointer); ok {
			et = p2.Elem()
		}
		if types.Identical(et, accT.Type()) {
			r.fail("C18-R3-accumulator-scope", "fit."+name, c.pos(g.Pos()), "accumulator "+name+" is a package-level variable that is never reset: the accumulated destination continues across files instead of starting at the beginning of each file")
		}
	}
	// who assigns an accumulator variable: only the lazy construction inside expandComponents
	for _, fn := range c.moduleFuncs() {
		if fnPkgPath(fn) != modPath || fn.Name() == "expandComponents" || fn.Synthetic != "" {
			continue
		}
		for _, b := range fn.Blocks {
			for _, ins := range b.Instrs {
				st, ok := ins.(*ssa.Store)
				if !ok {
					continue
				}
				g, ok := st.Addr.(*ssa.Global)
				if !ok {
					continue
				}
				et := g.Type().(*types.Pointer).Elem()
				if p2, ok := et.(*types.Pointer); ok {
					et = p2.Elem()
				}
				if types.Identical(et, accT.Type()) {
					r.fail("C18-R3-accumulator-scope", fn.Name()+"/assigns-"+g.Name(), c.pos(st.Pos()), "accumulator "+g.Name()+" is reassigned in "+fn.Name()+": whenever that runs in the middle of a file the running sum restarts there instead of at the beginning of the file")
				}
			}
		}
	}
	r.ok("C18-R3-accumulator-scope", "scan", "", "package-level variables scanned for accumulator type; accumulators are assigned only by the construction inside expandComponents")
	// the roll-over mask is fixed by the constructor: nothing else writes it, and nothing overwrites a
	// whole accumulator (a `*a = uint32Accumulator{}` reset leaves mask 0 behind a non-nil pointer, so
	// the lazy construction never runs again and every later delta is masked to 0)
	nSt := 0
	for _, fn := range c.moduleFuncs() {
		if fnPkgPath(fn) != modPath || fn.Synthetic != "" {
			continue
		}
		for _, b := range fn.Blocks {
			for _, ins := range b.Instrs {
				st, ok := ins.(*ssa.Store)
				if !ok {
					continue
				}
				pt, ok := st.Addr.Type().Underlying().(*types.Pointer)
				if !ok {
					continue
				}
				whole := types.Identical(pt.Elem(), accT.Type())
				maskField := false
				if fa, isFA := st.Addr.(*ssa.FieldAddr); isFA {
					if fpt, ok := fa.X.Type().Underlying().(*types.Pointer); ok && types.Identical(fpt.Elem(), accT.Type()) {
						nSt++
						stt := accT.Type().Underlying().(*types.Struct)
						maskField = stt.Field(fa.Field).Name() == "mask"
					}
				}
				if whole {
					if al, isAlloc := st.Addr.(*ssa.Alloc); isAlloc && al.Parent() == fn && fn.Name() == "uint32NewAccumulator" {
						continue
					}
					r.fail("C18-R3-accumulator-mask", fn.Name()+"/whole-store", c.pos(st.Pos()), "an accumulator is overwritten as a whole in "+fn.Name()+": its roll-over mask is lost (a zero value has mask 0) while the pointer stays non-nil, so the construction with the component's width never runs again and every accumulated value from then on is 0")
				}
				if maskField && fn.Name() != "uint32NewAccumulator" {
					r.fail("C18-R3-accumulator-mask", fn.Name()+"/mask-store", c.pos(st.Pos()), "the roll-over mask of an accumulator is written outside its constructor, in "+fn.Name())
				}
			}
		}
	}
	r.ok("C18-R3-accumulator-mask", "scan", "", fmt.Sprintf("%d stores into accumulator fields: the mask is written by the constructor only and no accumulator is overwritten as a whole", nSt))
}

func stmtStr(c *Ctx, s ast.Stmt) string {
	var sb strings.Builder
	if err := printer.Fprint(&sb, c.fset, s); err != nil {
		return fmt.Sprintf("%T", s)
	}
	return sb.String()
}

// evalASTInt evaluates an integer expression with Go's typed wrap-around semantics; env maps the
// printed form of leaf expressions (e.g. "x.F[1]") to values.
func evalASTInt(info *types.Info, e ast.Expr, env map[string]uint64) (uint64, bool) {
	e = unparen(e)
	trunc := func(v uint64, t types.Type) uint64 {
		w := typeWidth(t)
		if w > 0 && w < 64 {
			v &= (1 << uint(w)) - 1
		}
		return v
	}
	if v, ok := env[exprStr(e)]; ok {
		return trunc(v, info.TypeOf(e)), true
	}
	if v, ok := exprUint(info, e); ok {
		return v, true
	}
	switch n := e.(type) {
	case *ast.BinaryExpr:
		a, ok1 := evalASTInt(info, n.X, env)
		b, ok2 := evalASTInt(info, n.Y, env)
		if !ok1 || !ok2 {
			return 0, false
		}
		var v uint64
		switch n.Op {
		case token.OR:
			v = a | b
		case token.AND:
			v = a & b
		case token.XOR:
			v = a ^ b
		case token.SHL:
			if b >= 64 {
				v = 0
			} else {
				v = a << b
			}
		case token.SHR:
			if b >= 64 {
				v = 0
			} else {
				v = a >> b
			}
		case token.ADD:
			v = a + b
		case token.SUB:
			v = a - b
		case token.MUL:
			v = a * b
		default:
			return 0, false
		}
		return trunc(v, info.TypeOf(e)), true
	case *ast.CallExpr:
		if tv, ok := info.Types[n.Fun]; ok && tv.IsType() && len(n.Args) == 1 {
			if b := basicOf(tv.Type); b == nil || b.Info()&types.IsInteger == 0 || isSigned(b) {
				return 0, false
			}
			v, ok := evalASTInt(info, n.Args[0], env)
			return trunc(v, tv.Type), ok
		}
	}
	return 0, false
}

// c18ByteArraySources: components whose source is a byte array (compressed_speed_distance):
// the source is invalid only when ALL its bytes are 0xFF, and the destinations are the consecutive
// 12-bit halves of the little-endian 24-bit value.
func c18ByteArraySources(c *Ctx, r *Report) {
	info := c.fit.TypesInfo
	fd := c.decl(c.fn(c.fit, "RecordMsg.expandComponents"))
	if fd == nil {
		r.fail("C18-R2-byte-array-source", "RecordMsg.expandComponents", "", "not found")
		return
	}
	const src = "x.CompressedSpeedDistance"
	// (1) validity guard: flag := false; [if len(src) == 3] for _, v := range src { if v != 0xFF { flag = true; break } }; if flag { ... }
	var flag string
	okGuard := false
	var guarded *ast.IfStmt
	var walk func(list []ast.Stmt)
	walk = func(list []ast.Stmt) {
		for i, s := range list {
			switch x := s.(type) {
			case *ast.AssignStmt:
				if x.Tok == token.DEFINE && len(x.Lhs) == 1 && len(x.Rhs) == 1 && exprStr(x.Rhs[0]) == "false" {
					flag = exprStr(x.Lhs[0])
				}
			case *ast.IfStmt:
				if flag != "" && exprStr(x.Cond) == flag {
					guarded = x
				}
				walk(x.Body.List)
			case *ast.RangeStmt:
				if exprStr(x.X) != src || flag == "" || x.Value == nil {
					continue
				}
				v := exprStr(x.Value)
				if len(x.Body.List) == 1 {
					if ifs, ok := x.Body.List[0].(*ast.IfStmt); ok && ifs.Else == nil {
						if be, ok := unparen(ifs.Cond).(*ast.BinaryExpr); ok && be.Op == token.NEQ && exprStr(be.X) == v {
							if k, ok := exprUint(info, be.Y); ok && k == 0xFF {
								sets := false
								for _, bs := range ifs.Body.List {
									if as, ok := bs.(*ast.AssignStmt); ok && as.Tok == token.ASSIGN && exprStr(as.Lhs[0]) == flag && exprStr(as.Rhs[0]) == "true" {
										sets = true
									}
								}
								okGuard = sets
							}
						}
					}
				}
				_ = i
			}
		}
	}
	walk(fd.Body.List)
	r.check(okGuard && guarded != nil, "C18-R2-byte-array-source", "RecordMsg.expandComponents/csd-validity-guard", c.pos(fd.Pos()), "compressed_speed_distance is expanded iff some byte differs from 0xFF (a byte array is invalid only when all bytes are invalid)", "the validity guard of compressed_speed_distance is not `some byte != 0xFF`: a valid source containing an 0xFF byte is treated as invalid (or an all-invalid one is expanded)")
	if guarded == nil {
		return
	}
	// (2) the two 12-bit halves
	var speedE, distE ast.Expr
	for _, s := range guarded.Body.List {
		as, ok := s.(*ast.AssignStmt)
		if !ok || len(as.Lhs) != 1 || len(as.Rhs) != 1 {
			continue
		}
		rhs := unparen(as.Rhs[0])
		if call, ok := rhs.(*ast.CallExpr); ok {
			if sel, ok := call.Fun.(*ast.SelectorExpr); ok && sel.Sel.Name == "accumulate" && len(call.Args) == 1 {
				rhs = call.Args[0]
			}
		}
		switch exprStr(as.Lhs[0]) {
		case "x.Speed":
			speedE = rhs
		case "x.Distance":
			distE = rhs
		}
	}
	half := func(name string, e ast.Expr, want func(b0, b1, b2 uint64) uint64) {
		key := "RecordMsg.expandComponents/csd-" + name + "-half"
		if e == nil {
			r.fail("C18-R2-byte-array-source", key, c.pos(guarded.Pos()), "no assignment of the "+name+" half of compressed_speed_distance")
			return
		}
		bad := ""
		n := 0
		step0, step2 := uint64(1), uint64(85)
		if name == "distance" {
			step0, step2 = 85, 1
		}
	outer:
		for b0 := uint64(0); b0 < 256; b0 += step0 {
			for b1 := uint64(0); b1 < 256; b1++ {
				for b2 := uint64(0); b2 < 256; b2 += step2 {
					n++
					env := map[string]uint64{src + "[0]": b0, src + "[1]": b1, src + "[2]": b2}
					got, ok := evalASTInt(info, e, env)
					if !ok {
						bad = "expression not evaluable: " + exprStr(e)
						break outer
					}
					if w := want(b0, b1, b2); got != w {
						bad = fmt.Sprintf("for bytes {%#02x,%#02x,%#02x} the %s component is %#x, the 12-bit half of the little-endian value is %#x", b0, b1, b2, name, got, w)
						break outer
					}
				}
			}
		}
		r.check(bad == "", "C18-R2-byte-array-source", key, c.pos(e.Pos()), fmt.Sprintf("%s = the corresponding 12 bits for %d byte triples", name, n), bad)
	}
	half("speed", speedE, func(b0, b1, b2 uint64) uint64 { return (b0 | b1<<8 | b2<<16) & 0xFFF })
	half("distance", distE, func(b0, b1, b2 uint64) uint64 { return ((b0 | b1<<8 | b2<<16) >> 12) & 0xFFF })
}

// c18ByteArrayDest: destinations computed from the bytes of compressed_speed_distance are
// decided by C18-R2-byte-array-source instead of the bit-slice shape.
func c18ByteArrayDest(tname, dst string) bool {
	return tname == "RecordMsg" && (dst == "Speed" || dst == "Distance")
}
