// Package rewrite holds mechanical behaviour-preserving rewrites of the repository's source, used to
// test the checker for false alarms: by the benign tool on scratch copies, and by the thorough
// tier as in-memory overlays (negative controls). Never a deciding step.
package rewrite

import (
	"bytes"
	"fmt"
	"go/ast"
	"go/format"
	"go/token"
	"go/types"
	"os"
	"strings"

	"golang.org/x/tools/go/packages"
)

// Modes lists the rewrites Apply knows.
var Modes = []string{"rename-locals", "compound", "negate", "swap-operands", "reverse-funcs"}

// Apply loads the module in dir (with overlay env) and returns, per rewritten file, its new content.
func Apply(dir string, env []string, mode string) (map[string][]byte, int, error) {
	cfg := &packages.Config{Mode: packages.LoadSyntax, Dir: dir, Tests: false, Env: env}
	pkgs, err := packages.Load(cfg, "./...")
	if err != nil {
		return nil, 0, err
	}
	out := map[string][]byte{}
	changed := 0
	for _, p := range pkgs {
		if len(p.Errors) > 0 {
			return nil, 0, fmt.Errorf("%v", p.Errors[0])
		}
		for i, f := range p.Syntax {
			name := p.CompiledGoFiles[i]
			n := 0
			switch mode {
			case "rename-locals":
				n = renameLocals(p, f)
			case "compound":
				n = compound(p, f)
			case "negate":
				n = negate(p, f)
			case "swap-operands":
				n = swapOperands(p, f)
			case "reverse-funcs":
				src, err := os.ReadFile(name)
				if err != nil {
					return nil, 0, err
				}
				b, k := reverseFuncs(p, f, src)
				if k > 0 {
					out[name] = b
					changed += k
				}
				continue
			default:
				return nil, 0, fmt.Errorf("unknown mode %s", mode)
			}
			if n == 0 {
				continue
			}
			var buf bytes.Buffer
			if err := format.Node(&buf, p.Fset, f); err != nil {
				return nil, 0, fmt.Errorf("%s: %v", name, err)
			}
			out[name] = buf.Bytes()
			changed += n
		}
	}
	return out, changed, nil
}

func isLocal(p *packages.Package, o types.Object) bool {
	if o == nil || o.Pkg() != p.Types {
		return false
	}
	switch v := o.(type) {
	case *types.Var:
		if v.IsField() {
			return false
		}
	case *types.Const:
	default:
		return false
	}
	if o.Parent() == p.Types.Scope() || o.Parent() == types.Universe {
		return false
	}
	// receivers/params of methods have Parent == function scope (non-nil); struct fields excluded above
	return o.Parent() != nil
}

func renameLocals(p *packages.Package, f *ast.File) int {
	n := 0
	ast.Inspect(f, func(x ast.Node) bool {
		id, ok := x.(*ast.Ident)
		if !ok || id.Name == "_" {
			return true
		}
		o := p.TypesInfo.Defs[id]
		if o == nil {
			o = p.TypesInfo.Uses[id]
		}
		if isLocal(p, o) {
			id.Name = "zz" + strings.ToUpper(id.Name[:1]) + id.Name[1:] + "Q"
			n++
		}
		return true
	})
	// `switch v := x.(type)`: the defining identifier has no object of its own (one implicit
	// object per clause, which the uses above resolve to)
	ast.Inspect(f, func(x ast.Node) bool {
		if ts, ok := x.(*ast.TypeSwitchStmt); ok {
			if as, ok := ts.Assign.(*ast.AssignStmt); ok && len(as.Lhs) == 1 {
				if id, ok := as.Lhs[0].(*ast.Ident); ok && !strings.HasPrefix(id.Name, "zz") {
					id.Name = "zz" + strings.ToUpper(id.Name[:1]) + id.Name[1:] + "Q"
					n++
				}
			}
		}
		return true
	})
	return n
}

func compound(p *packages.Package, f *ast.File) int {
	n := 0
	ops := map[token.Token]token.Token{token.ADD_ASSIGN: token.ADD, token.SUB_ASSIGN: token.SUB, token.MUL_ASSIGN: token.MUL, token.OR_ASSIGN: token.OR, token.AND_ASSIGN: token.AND, token.XOR_ASSIGN: token.XOR, token.SHL_ASSIGN: token.SHL, token.SHR_ASSIGN: token.SHR}
	pure := func(e ast.Expr) bool {
		ok := true
		ast.Inspect(e, func(x ast.Node) bool {
			if _, isCall := x.(*ast.CallExpr); isCall {
				ok = false
			}
			return ok
		})
		return ok
	}
	ast.Inspect(f, func(x ast.Node) bool {
		switch s := x.(type) {
		case *ast.AssignStmt:
			if op, ok := ops[s.Tok]; ok && len(s.Lhs) == 1 && pure(s.Lhs[0]) {
				s.Tok = token.ASSIGN
				s.Rhs[0] = &ast.BinaryExpr{X: s.Lhs[0], Op: op, Y: &ast.ParenExpr{X: s.Rhs[0]}}
				n++
			}
		}
		return true
	})
	return n
}

func negate(p *packages.Package, f *ast.File) int {
	n := 0
	inv := map[token.Token]token.Token{token.EQL: token.NEQ, token.NEQ: token.EQL, token.LSS: token.GEQ, token.GEQ: token.LSS, token.GTR: token.LEQ, token.LEQ: token.GTR}
	ast.Inspect(f, func(x ast.Node) bool {
		s, ok := x.(*ast.IfStmt)
		if !ok || s.Else == nil {
			return true
		}
		eb, ok := s.Else.(*ast.BlockStmt)
		if !ok {
			return true
		}
		be, ok := s.Cond.(*ast.BinaryExpr)
		if !ok {
			return true
		}
		op, ok := inv[be.Op]
		if !ok {
			return true
		}
		if be.Op != token.EQL && be.Op != token.NEQ {
			// ordered comparisons are exact complements only without NaN: integers only
			bt, isB := p.TypesInfo.TypeOf(be.X).Underlying().(*types.Basic)
			if !isB || bt.Info()&types.IsInteger == 0 {
				return true
			}
		}
		// ints/bytes/pointers only: == and != are exact complements for every Go type anyway
		be.Op = op
		s.Body, s.Else = eb, s.Body
		n++
		return true
	})
	return n
}

func swapOperands(p *packages.Package, f *ast.File) int {
	n := 0
	comm := map[token.Token]bool{token.EQL: true, token.NEQ: true, token.ADD: true, token.MUL: true, token.AND: true, token.OR: true, token.XOR: true}
	pure := func(e ast.Expr) bool {
		ok := true
		ast.Inspect(e, func(x ast.Node) bool {
			switch x.(type) {
			case *ast.CallExpr, *ast.IndexExpr, *ast.SliceExpr, *ast.StarExpr, *ast.TypeAssertExpr, *ast.UnaryExpr:
				ok = false // may panic or have effects: evaluation order is observable
			}
			return ok
		})
		return ok
	}
	ast.Inspect(f, func(x ast.Node) bool {
		be, ok := x.(*ast.BinaryExpr)
		if !ok || !comm[be.Op] || !pure(be.X) || !pure(be.Y) {
			return true
		}
		tx := p.TypesInfo.TypeOf(be.X)
		ty := p.TypesInfo.TypeOf(be.Y)
		if tx == nil || ty == nil {
			return true
		}
		bt, isB := tx.Underlying().(*types.Basic)
		bt2, isB2 := ty.Underlying().(*types.Basic)
		if !isB || !isB2 || bt.Info()&types.IsInteger == 0 || bt2.Info()&types.IsInteger == 0 {
			return true
		}
		// constant expressions keep their value whatever the order; untyped constants adapt to the other side
		if tv, ok := p.TypesInfo.Types[be]; ok && tv.Value != nil {
			return true
		}
		be.X, be.Y = be.Y, be.X
		n++
		return true
	})
	return n
}

// reverseFuncs rewrites the file with its top-level function declarations in reverse order
// (each with its doc comment); every other declaration stays where it is.
func reverseFuncs(p *packages.Package, f *ast.File, src []byte) ([]byte, int) {
	type rng struct{ lo, hi int }
	var rs []rng
	for _, d := range f.Decls {
		fd, ok := d.(*ast.FuncDecl)
		if !ok {
			continue
		}
		lo := fd.Pos()
		if fd.Doc != nil {
			lo = fd.Doc.Pos()
		}
		rs = append(rs, rng{p.Fset.Position(lo).Offset, p.Fset.Position(fd.End()).Offset})
	}
	if len(rs) < 2 {
		return src, 0
	}
	var out []byte
	prev := 0
	for i, r := range rs {
		out = append(out, src[prev:r.lo]...)
		o := rs[len(rs)-1-i]
		out = append(out, src[o.lo:o.hi]...)
		prev = r.hi
	}
	out = append(out, src[prev:]...)
	return out, len(rs)
}
