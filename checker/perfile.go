package main

import (
	"fmt"
	"go/token"
	"go/types"
	"sort"
	"strings"

	"golang.org/x/tools/go/ssa"
)

// Per-file decoder state in DecodeChained (shared by C10, C12, C13, C16).
//
// A chained file must be decoded from a state that carries nothing over from the previous
// file. Either the decoder is a fresh allocation inside the chain loop, or every decoder field
// that decoding writes (W: stores and map updates in the functions reachable from decode,
// rooted at a field of *decoder) is re-initialised before it can be used again:
//   - by an unconditional store in a function called on the same decoder inside the loop before
//     decode (a reset), or
//   - by a store in decode itself that precedes every call whose callees touch the field and every
//     direct load of it (conditions on option flags are allowed: options do not change between
//     files).
// Fields in W without such a store are reported by name.

type dfAccess struct {
	reads, writes map[string]bool
}

func (c *Ctx) isDecoderPtr(t types.Type) bool {
	pt, ok := t.Underlying().(*types.Pointer)
	if !ok {
		return false
	}
	n, ok := pt.Elem().(*types.Named)
	return ok && n.Obj().Pkg() != nil && n.Obj().Pkg().Path() == modPath && n.Obj().Name() == "decoder"
}

// decoderPath: the field path ("bytes.n", "defmsgs") an address or loaded value is rooted at.
func (c *Ctx) decoderPath(v ssa.Value) (string, bool) {
	switch n := v.(type) {
	case *ssa.FieldAddr:
		st := n.X.Type().Underlying().(*types.Pointer).Elem().Underlying().(*types.Struct)
		name := st.Field(n.Field).Name()
		if c.isDecoderPtr(n.X.Type()) {
			return name, true
		}
		if p, ok := c.decoderPath(n.X); ok {
			return p + "." + name, true
		}
	case *ssa.IndexAddr:
		return c.decoderPath(n.X)
	case *ssa.Slice:
		return c.decoderPath(n.X)
	}
	return "", false
}

func (c *Ctx) decoderAccessDirect(fn *ssa.Function) *dfAccess {
	a := &dfAccess{reads: map[string]bool{}, writes: map[string]bool{}}
	for _, b := range fn.Blocks {
		for _, ins := range b.Instrs {
			switch n := ins.(type) {
			case *ssa.Store:
				if p, ok := c.decoderPath(n.Addr); ok {
					a.writes[p] = true
				}
			case *ssa.UnOp:
				if n.Op == token.MUL {
					if p, ok := c.decoderPath(n.X); ok {
						a.reads[p] = true
					}
				}
			case *ssa.MapUpdate:
				if ld, ok := n.Map.(*ssa.UnOp); ok && ld.Op == token.MUL {
					if p, ok := c.decoderPath(ld.X); ok {
						a.writes[p] = true
					}
				}
			}
		}
	}
	return a
}

func pathsOverlap(a, b string) bool {
	return a == b || strings.HasPrefix(a, b+".") || strings.HasPrefix(b, a+".")
}

type perFileResult struct {
	found   bool
	fresh   bool
	missing []string // fields written while decoding and not re-initialised
	why     string
	pos     token.Pos
}

func (c *Ctx) perFileState() *perFileResult {
	res := &perFileResult{}
	fn := c.ssaFn(c.fn(c.fit, "DecodeChained"))
	dec := c.ssaFn(c.fn(c.fit, "decoder.decode"))
	if fn == nil || dec == nil {
		res.why = "DecodeChained or decoder.decode not found"
		return res
	}
	res.pos = fn.Pos()
	var call ssa.CallInstruction
	for _, ci := range allCalls(fn) {
		if ci.Common().StaticCallee() == dec {
			call = ci
		}
	}
	if call == nil {
		res.why = "DecodeChained does not call decode"
		return res
	}
	res.found = true
	recv := call.Common().Args[0]
	if c.freshDecoderValue(recv, fn) {
		if ins, ok := recv.(ssa.Instruction); ok && inLoop(ins.Block()) {
			res.fresh = true
			res.why = "fresh decoder per chained file"
			return res
		}
	}
	if !inLoop(call.Block()) {
		res.why = "decode is not called in a loop"
		return res
	}
	// transitive access sets
	cg := c.callGraph()
	direct := map[*ssa.Function]*dfAccess{}
	var trans func(f *ssa.Function, seen map[*ssa.Function]bool, out *dfAccess)
	trans = func(f *ssa.Function, seen map[*ssa.Function]bool, out *dfAccess) {
		if seen[f] || !strings.HasPrefix(fnPkgPath(f), modPath) {
			return
		}
		seen[f] = true
		d := direct[f]
		if d == nil {
			d = c.decoderAccessDirect(f)
			direct[f] = d
		}
		for p := range d.reads {
			out.reads[p] = true
		}
		for p := range d.writes {
			out.writes[p] = true
		}
		if n := cg.Nodes[f]; n != nil {
			for _, e := range n.Out {
				trans(e.Callee.Func, seen, out)
			}
		}
		for _, an := range f.AnonFuncs {
			trans(an, seen, out)
		}
	}
	W := &dfAccess{reads: map[string]bool{}, writes: map[string]bool{}}
	trans(dec, map[*ssa.Function]bool{}, W)
	covered := map[string]bool{}
	// (1) resets called on the same decoder inside the loop before decode
	for _, ci := range allCalls(fn) {
		f := ci.Common().StaticCallee()
		if f == nil || f == dec || len(ci.Common().Args) == 0 || ci.Common().Args[0] != recv || !inLoop(ci.Block()) || !instrDominates(ci, call) {
			continue
		}
		for _, b := range f.Blocks {
			for _, ins := range b.Instrs {
				st, ok := ins.(*ssa.Store)
				if !ok {
					continue
				}
				p, ok := c.decoderPath(st.Addr)
				if !ok {
					continue
				}
				uncond := true
				for _, rb := range f.Blocks {
					if len(rb.Instrs) > 0 {
						if _, isRet := rb.Instrs[len(rb.Instrs)-1].(*ssa.Return); isRet && !b.Dominates(rb) {
							uncond = false
						}
					}
				}
				if uncond {
					covered[p] = true
				}
			}
		}
	}
	// (2) stores in decode that precede every use
	touch := func(ci ssa.CallInstruction, p string) bool {
		if n := cg.Nodes[dec]; n != nil {
			for _, e := range n.Out {
				if e.Site != ci {
					continue
				}
				acc := &dfAccess{reads: map[string]bool{}, writes: map[string]bool{}}
				trans(e.Callee.Func, map[*ssa.Function]bool{}, acc)
				for q := range acc.reads {
					if pathsOverlap(p, q) {
						return true
					}
				}
				for q := range acc.writes {
					if pathsOverlap(p, q) {
						return true
					}
				}
			}
		}
		return false
	}
	recvName := ""
	if len(dec.Params) > 0 {
		recvName = dec.Params[0].Name()
	}
	for _, b := range dec.Blocks {
		for _, ins := range b.Instrs {
			st, ok := ins.(*ssa.Store)
			if !ok {
				continue
			}
			p, ok := c.decoderPath(st.Addr)
			if !ok {
				continue
			}
			okAll := true
			for _, b2 := range dec.Blocks {
				for _, i2 := range b2.Instrs {
					if i2 == ins {
						continue
					}
					switch u := i2.(type) {
					case *ssa.Defer:
					case ssa.CallInstruction:
						if touch(u, p) && !stDominates(st, i2, recvName) {
							okAll = false
						}
					case *ssa.UnOp:
						if u.Op == token.MUL {
							if q, ok := c.decoderPath(u.X); ok && pathsOverlap(p, q) && !stDominates(st, i2, recvName) {
								okAll = false
							}
						}
					}
				}
			}
			if okAll {
				covered[p] = true
			}
		}
	}
	// exemptions: (a) scratch byte arrays: their content is overwritten before it is read, reads are
	// bounded by the counters and sizes (C01 interval rules, C02-R7); (b) a field every store to which,
	// in the functions decode reaches, stores one and the same constant under option tests only: its
	// value is a function of the options, which do not change between the files of a chain.
	decSt := dec.Params[0].Type().Underlying().(*types.Pointer).Elem().Underlying().(*types.Struct)
	fieldType := func(p string) types.Type {
		var t types.Type = decSt
		for _, part := range strings.Split(p, ".") {
			st, ok := t.Underlying().(*types.Struct)
			if !ok {
				return nil
			}
			t = nil
			for i := 0; i < st.NumFields(); i++ {
				if st.Field(i).Name() == part {
					t = st.Field(i).Type()
				}
			}
			if t == nil {
				return nil
			}
		}
		return t
	}
	constOnly := func(p string) bool {
		vals := map[string]bool{}
		n := 0
		okAll := true
		seen := map[*ssa.Function]bool{}
		var walk func(f *ssa.Function)
		walk = func(f *ssa.Function) {
			if seen[f] || !strings.HasPrefix(fnPkgPath(f), modPath) {
				return
			}
			seen[f] = true
			for _, b := range f.Blocks {
				for _, ins := range b.Instrs {
					if st, ok := ins.(*ssa.Store); ok {
						if q, ok := c.decoderPath(st.Addr); ok && q == p {
							n++
							k, isC := st.Val.(*ssa.Const)
							if !isC || k.Value == nil {
								okAll = false
							} else {
								vals[k.Value.ExactString()] = true
							}
							// guarded by option tests only
							for _, a := range f.Blocks {
								if len(a.Instrs) == 0 || a == b || !a.Dominates(b) {
									continue
								}
								if ifi, ok := a.Instrs[len(a.Instrs)-1].(*ssa.If); ok {
									onT := len(a.Succs[0].Preds) == 1 && a.Succs[0].Dominates(b)
									onF := len(a.Succs[1].Preds) == 1 && a.Succs[1].Dominates(b)
									if (onT || onF) && !strings.Contains(stripAddrs(pathOf(ifi.Cond)), ".opts.") {
										okAll = false
									}
								}
							}
						}
					}
				}
			}
			if nd := cg.Nodes[f]; nd != nil {
				for _, e := range nd.Out {
					walk(e.Callee.Func)
				}
			}
		}
		walk(dec)
		return okAll && n > 0 && len(vals) == 1
	}
	for p := range W.writes {
		ok := false
		if t := fieldType(p); t != nil {
			if at, isArr := t.Underlying().(*types.Array); isArr {
				if bt, isB := at.Elem().Underlying().(*types.Basic); isB && bt.Kind() == types.Uint8 {
					ok = true
				}
			}
		}
		if !ok && constOnly(p) {
			ok = true
		}
		for q := range covered {
			if p == q || strings.HasPrefix(p, q+".") {
				ok = true
			}
		}
		if !ok {
			res.missing = append(res.missing, p)
		}
	}
	sort.Strings(res.missing)
	if len(res.missing) == 0 {
		res.why = "the decoder is reused across chained files and every field written while decoding is re-initialised before its next use"
	} else {
		res.why = fmt.Sprintf("the decoder is reused across chained files but %v written while decoding one file are not re-initialised before the next: state leaks from one file to the next", res.missing)
	}
	return res
}

// stDominates: the store executes before the instruction on every path, where a store in a
// block guarded by an option flag counts for uses guarded by the same or no flag only if it
// dominates them in the CFG; uses on the flag-false side never see the field (C01-R2-map-nonnil,
// C16-R4 decide that) and are compared by plain dominance from the guard's join instead.
func stDominates(st *ssa.Store, i ssa.Instruction, recvName string) bool {
	if instrDominates(st, i) {
		return true
	}
	// store in `if flag { F = ... }`: accept uses dominated by the guard's block when they come
	// after the join (the then-block has a single successor which dominates or equals the use block)
	b := st.Block()
	if len(b.Preds) == 1 && len(b.Succs) == 1 {
		g, j := b.Preds[0], b.Succs[0]
		if ifi, ok := g.Instrs[len(g.Instrs)-1].(*ssa.If); ok && g.Succs[0] == b && g.Succs[1] == j {
			if !strings.HasPrefix(stripAddrs(pathOf(ifi.Cond)), "*"+recvName+".opts.") {
				return false // only option flags are the same for every file of a chain
			}
			return j == i.Block() || j.Dominates(i.Block())
		}
	}
	return false
}

func leadsOnlyToReturn(b *ssa.BasicBlock) bool {
	seen := map[*ssa.BasicBlock]bool{}
	for n := 0; n < 6 && b != nil; n++ {
		if seen[b] || len(b.Instrs) == 0 {
			return false
		}
		seen[b] = true
		switch b.Instrs[len(b.Instrs)-1].(type) {
		case *ssa.Return, *ssa.Panic:
			return true
		case *ssa.Jump:
			b = b.Succs[0]
		default:
			return false
		}
	}
	return false
}

// perFileRule reports the shared result under a property's own rule id, restricted to the
// decoder fields that property's statement depends on (nil = all).
func perFileRule(c *Ctx, r *Report, rule string, fields []string, clause string) {
	res := c.perFileState()
	if !res.found {
		r.undecided(rule, "DecodeChained/per-file-state", c.pos(res.pos), res.why)
		return
	}
	var mine []string
	for _, m := range res.missing {
		if fields == nil {
			mine = append(mine, m)
			continue
		}
		for _, f := range fields {
			if pathsOverlap(m, f) {
				mine = append(mine, m)
			}
		}
	}
	r.check(len(mine) == 0, rule, "DecodeChained/per-file-state", c.pos(res.pos), res.why,
		fmt.Sprintf("DecodeChained reuses one decoder and does not re-initialise %v between files: %s", mine, clause))
}

// isResetStore: a zero value stored into a decoder field by a function that decoding itself can
// never reach (it runs between files, e.g. a reset helper of DecodeChained). Such a store cannot
// disturb the state rules of a running decode; whether the reset is complete is perFileState's job.
func (c *Ctx) isResetStore(st *ssa.Store) bool {
	if _, ok := c.decoderPath(st.Addr); !ok {
		return false
	}
	k, ok := st.Val.(*ssa.Const)
	if !ok {
		return false
	}
	if k.Value != nil {
		switch k.Value.ExactString() {
		case "0", "false", `""`:
		default:
			return false
		}
	}
	dec := c.ssaFn(c.fn(c.fit, "decoder.decode"))
	if dec == nil {
		return false
	}
	if c.decodeReach == nil {
		c.decodeReach = map[*ssa.Function]bool{}
		for _, f := range c.reach([]*ssa.Function{dec}).order {
			c.decodeReach[f] = true
		}
	}
	return !c.decodeReach[st.Parent()]
}

// freshDecoderValue: v is a decoder no earlier call or file has touched: a local allocation of
// fn, or the result of a module function every return of which hands back an allocation made in
// that very call (a constructor such as newDecoder(opts)).
func (c *Ctx) freshDecoderValue(v ssa.Value, fn *ssa.Function) bool {
	switch n := v.(type) {
	case *ssa.Alloc:
		return n.Parent() == fn
	case *ssa.Call:
		g := n.Common().StaticCallee()
		if g == nil || fnPkgPath(g) != modPath || len(g.Blocks) == 0 {
			return false
		}
		nret := 0
		for _, b := range g.Blocks {
			ret, ok := b.Instrs[len(b.Instrs)-1].(*ssa.Return)
			if !ok {
				continue
			}
			nret++
			if len(ret.Results) != 1 {
				return false
			}
			al, ok := ret.Results[0].(*ssa.Alloc)
			if !ok || al.Parent() != g || !al.Heap {
				return false
			}
		}
		return nret > 0
	}
	return false
}

// optionsCarryNoState: the decode options are configuration: nothing on the decode path writes
// through a map, slice or pointer kept in a decodeOptions value. Options are applied once and the
// struct is copied into each decoder (per call, or per file of a chain); a map in it would be
// shared by the copies, so counts of one file (or of a concurrent call) would show up in another.
func optionsCarryNoState(c *Ctx, r *Report, rule string) {
	dec := c.ssaFn(c.fn(c.fit, "decoder.decode"))
	if dec == nil {
		r.fail(rule, "options-state", "", "decoder.decode not found")
		return
	}
	fromOptions := func(v ssa.Value) (string, bool) {
		ld, ok := v.(*ssa.UnOp)
		if !ok || ld.Op != token.MUL {
			return "", false
		}
		fa, ok := ld.X.(*ssa.FieldAddr)
		if !ok {
			return "", false
		}
		if o, fname := ownerOf(fa); o != nil && o.Obj().Name() == "decodeOptions" {
			return fname, true
		}
		return "", false
	}
	n := 0
	for _, fn := range c.reach([]*ssa.Function{dec}).module() {
		if fnPkgPath(fn) != modPath {
			continue
		}
		for _, b := range fn.Blocks {
			for _, ins := range b.Instrs {
				n++
				switch x := ins.(type) {
				case *ssa.MapUpdate:
					if f, ok := fromOptions(x.Map); ok {
						r.fail(rule, fn.Name()+"/options."+f, c.pos(x.Pos()), "the map decodeOptions."+f+" is updated while decoding: the options struct is copied into every decoder, so the copies share the map and one file's (or one call's) counts appear in another's report")
					}
				case *ssa.Store:
					if ia, ok := x.Addr.(*ssa.IndexAddr); ok {
						if f, ok := fromOptions(ia.X); ok {
							r.fail(rule, fn.Name()+"/options."+f, c.pos(x.Pos()), "an element of decodeOptions."+f+" is written while decoding: the options struct is copied into every decoder and the copies share the slice")
						}
					}
				}
			}
		}
	}
	r.ok(rule, "options-state/scan", "", "no map update or element store through a member of decodeOptions on the decode path")
}

// readerKindIndependent: the decoder uses its input only as an io.Reader. A type assertion on the
// reader (to find a Len, a Seek, a ReadByte ...) makes what is returned depend on the kind of reader
// the caller happened to pass, not on the bytes: the same truncated stream gives the complete
// messages before the cut through one reader type and none through another.
func readerKindIndependent(c *Ctx, r *Report, rule string) {
	roots, _ := c.rootFuncs(decodeRoots)
	n := 0
	isReader := func(v ssa.Value) bool {
		if v.Type().String() != "io.Reader" {
			return false
		}
		switch x := v.(type) {
		case *ssa.Parameter:
			return true
		case *ssa.UnOp:
			if fa, ok := x.X.(*ssa.FieldAddr); ok && x.Op == token.MUL {
				if o, f := ownerOf(fa); o != nil && o.Obj().Name() == "decoder" && f == "r" {
					return true
				}
			}
		}
		return false
	}
	for _, fn := range c.reach(roots).module() {
		if fnPkgPath(fn) != modPath || !inLib(fn) {
			continue
		}
		for _, b := range fn.Blocks {
			for _, ins := range b.Instrs {
				ta, ok := ins.(*ssa.TypeAssert)
				if !ok || !isReader(ta.X) {
					continue
				}
				n++
				r.fail(rule, fn.Name()+"/reader-kind", c.pos(ta.Pos()), fmt.Sprintf("%s asserts the input reader to %s: what is decoded (and what is returned beside an error) then depends on the kind of reader passed, not on the bytes it delivers", fn.Name(), ta.AssertedType))
			}
		}
	}
	if n == 0 {
		r.ok(rule, "reader-kind/scan", "", "no type assertion on the input reader anywhere on the decode path")
	}
}
